package main

// C04, calls that the server forwards: an object hosted by a client (bus.NewClientObject, what a generated
// stub makes of an object reference whose id lies on the caller's side) is called by other clients.  The
// object answers after its Receive has returned, and in an order of its own: every caller must still get the
// answer computed for its own arguments, the hosting client must see every call once.

import (
	"bytes"
	"encoding/binary"
	"fmt"
	"io/ioutil"
	"log"
	gonet "net"
	"strconv"
	"strings"
	"sync"
	"time"

	"github.com/lugu/qiloop/bus"
	qnet "github.com/lugu/qiloop/bus/net"
	"github.com/lugu/qiloop/bus/util"
)

// lendHost: action 100 takes the id an object has on the caller's side, adds a client object for it to the
// service and returns the public id.
type lendHost struct {
	mu      sync.Mutex
	service bus.Service
}

func (h *lendHost) Activate(a bus.Activation) error {
	h.mu.Lock()
	h.service = a.Service
	h.mu.Unlock()
	return nil
}
func (h *lendHost) OnTerminate() {}
func (h *lendHost) Receive(m *qnet.Message, from bus.Channel) error {
	if m.Header.Type != qnet.Call {
		return nil
	}
	if m.Header.Action != 100 || len(m.Payload) != 4 {
		return from.SendError(m, fmt.Errorf("unexpected request"))
	}
	h.mu.Lock()
	svc := h.service
	h.mu.Unlock()
	id, err := svc.Add(bus.NewClientObject(binary.LittleEndian.Uint32(m.Payload), from))
	if err != nil {
		return from.SendError(m, err)
	}
	out := make([]byte, 4)
	binary.LittleEndian.PutUint32(out, id)
	return from.SendReply(m, out)
}

type lendRaw struct {
	conn gonet.Conn
	in   chan *qnet.Message
	wmu  sync.Mutex
}

func lendDial(addr string) (*lendRaw, error) {
	conn, err := gonet.Dial("unix", strings.TrimPrefix(addr, "unix://"))
	if err != nil {
		return nil, err
	}
	r := &lendRaw{conn: conn, in: make(chan *qnet.Message, 4096)}
	go func() {
		for {
			m := new(qnet.Message)
			if err := m.Read(conn); err != nil {
				close(r.in)
				return
			}
			r.in <- m
		}
	}()
	var buf bytes.Buffer
	if err := bus.WriteCapabilityMap(bus.ClientCap("", ""), &buf); err != nil {
		return nil, err
	}
	r.send(qnet.NewHeader(qnet.Call, 0, 0, 8, 2), buf.Bytes())
	select {
	case m, ok := <-r.in:
		if !ok || m.Header.Type != qnet.Reply {
			return nil, fmt.Errorf("authentication refused")
		}
	case <-time.After(5 * time.Second):
		return nil, fmt.Errorf("authentication: no answer")
	}
	return r, nil
}

func (r *lendRaw) send(h qnet.Header, p []byte) error {
	m := qnet.NewMessage(h, p)
	r.wmu.Lock()
	defer r.wmu.Unlock()
	return m.Write(r.conn)
}

// c04.lend <callers> <calls each> <connections> <batch> <seed>
// the hosting client answers in batches of <batch> requests, the last one first
func c04Lend(a []string) string {
	log.SetOutput(ioutil.Discard)
	if len(a) != 5 {
		return "bad-op"
	}
	N, _ := strconv.Atoi(a[0])
	K, _ := strconv.Atoi(a[1])
	C, _ := strconv.Atoi(a[2])
	B, _ := strconv.Atoi(a[3])
	const remoteID = uint32(1<<31 + 7)
	addr := util.NewUnixAddr()
	listener, err := qnet.Listen(addr)
	if err != nil {
		return "setup-error:" + err.Error()
	}
	srv, err := bus.StandAloneServer(listener, bus.Yes{}, bus.PrivateNamespace())
	if err != nil {
		return "setup-error:" + err.Error()
	}
	defer srv.Terminate()
	service, err := srv.NewService("Lend", &lendHost{})
	if err != nil {
		return "setup-error:" + err.Error()
	}
	sid := service.ServiceID()
	host, err := lendDial(addr)
	if err != nil {
		return "setup-error:" + err.Error()
	}
	defer host.conn.Close()
	in := make([]byte, 4)
	binary.LittleEndian.PutUint32(in, remoteID)
	host.send(qnet.NewHeader(qnet.Call, sid, 1, 100, 4), in)
	var oid uint32
	select {
	case m, ok := <-host.in:
		if !ok || m.Header.Type != qnet.Reply || len(m.Payload) != 4 {
			return "setup-error:lend refused"
		}
		oid = binary.LittleEndian.Uint32(m.Payload)
	case <-time.After(5 * time.Second):
		return "setup-error:lend unanswered"
	}
	// the hosting client: collects requests, answers them in batches, the last one first
	var smu sync.Mutex
	seen := map[string]int{}
	posted := map[string]int{}
	stop := make(chan struct{})
	hostDone := make(chan struct{})
	go func() {
		defer close(hostDone)
		var pending []*qnet.Message
		flush := func() {
			for i := len(pending) - 1; i >= 0; i-- {
				r := pending[i]
				host.send(qnet.NewHeader(qnet.Reply, r.Header.Service, r.Header.Object, r.Header.Action, r.Header.ID),
					append([]byte("echo:"), r.Payload...))
			}
			pending = nil
		}
		for {
			select {
			case m, ok := <-host.in:
				if !ok {
					return
				}
				if m.Header.Object != remoteID {
					continue
				}
				if m.Header.Type == qnet.Post || strings.HasPrefix(string(m.Payload), "post-") {
					smu.Lock()
					posted[string(m.Payload)]++
					smu.Unlock()
					if m.Header.Type != qnet.Call {
						continue
					}
				} else if m.Header.Type != qnet.Call {
					continue
				} else {
					smu.Lock()
					seen[string(m.Payload)]++
					smu.Unlock()
				}
				pending = append(pending, m)
				if len(pending) >= B {
					flush()
				}
			case <-time.After(3 * time.Millisecond):
				flush()
			case <-stop:
				return
			}
		}
	}()
	// two callers on connections of their own that use the same message id (identifiers are chosen per process): each
	// gets the answer to its own request
	extra := 0
	{
		var raws []*lendRaw
		for i := 0; i < 2; i++ {
			rc, err := lendDial(addr)
			if err != nil {
				return "setup-error:" + err.Error()
			}
			defer rc.conn.Close()
			raws = append(raws, rc)
		}
		args := []string{"raw-A", "raw-B"}
		for i, rc := range raws {
			rc.send(qnet.NewHeader(qnet.Call, sid, oid, 200, 40), []byte(args[i]))
		}
		extra = 2
		for i, rc := range raws {
			select {
			case m, ok := <-rc.in:
				if !ok {
					return "fail:unanswered: the connection of a caller was closed"
				}
				if m.Header.Type != qnet.Reply || string(m.Payload) != "echo:"+args[i] {
					return fmt.Sprintf("fail:crossed: the caller of %q (message id 40 on its own connection) received type %d %q", args[i], m.Header.Type, m.Payload)
				}
			case <-time.After(4 * time.Second):
				return fmt.Sprintf("fail:unanswered: the call of %q (message id 40 on its own connection) got no answer", args[i])
			}
		}
	}
	// a post to the lent object reaches the hosting client once, and the poster receives nothing for it
	{
		rc, err := lendDial(addr)
		if err != nil {
			return "setup-error:" + err.Error()
		}
		defer rc.conn.Close()
		rc.send(qnet.NewHeader(qnet.Post, sid, oid, 200, 41), []byte("post-A"))
		// a call behind it on the same connection: its answer bounds the wait
		rc.send(qnet.NewHeader(qnet.Call, sid, oid, 200, 42), []byte("raw-C"))
		extra++
		deadline := time.After(4 * time.Second)
		answered := false
		for !answered {
			select {
			case m, ok := <-rc.in:
				if !ok {
					return "fail:unanswered: the connection of a caller was closed"
				}
				if m.Header.ID == 41 {
					return fmt.Sprintf("fail:post-answered: the sender of a post to a lent object received a message of type %d for it", m.Header.Type)
				}
				if m.Header.ID == 42 {
					answered = true
				}
			case <-deadline:
				return "fail:unanswered: the call behind a post to a lent object got no answer"
			}
		}
		select {
		case m, ok := <-rc.in:
			if ok && m.Header.ID == 41 {
				return fmt.Sprintf("fail:post-answered: the sender of a post to a lent object received a message of type %d for it", m.Header.Type)
			}
		case <-time.After(150 * time.Millisecond):
		}
		smu.Lock()
		n := posted["post-A"]
		smu.Unlock()
		if n != 1 {
			return fmt.Sprintf("fail:post-count: the hosting client saw the post %d times", n)
		}
	}
	clients := make([]bus.Client, C)
	for i := range clients {
		ep, err := qnet.DialEndPoint(addr)
		if err != nil {
			return "setup-error:" + err.Error()
		}
		ch := bus.NewChannel(ep, bus.ClientCap("", ""))
		if err := ch.Authenticate(); err != nil {
			return "setup-error:" + err.Error()
		}
		clients[i] = bus.NewClient(ch)
		defer ep.Close()
	}
	var wg sync.WaitGroup
	fails := make(chan string, N*K+1)
	for g := 0; g < N; g++ {
		wg.Add(1)
		go func(g int) {
			defer wg.Done()
			for k := 0; k < K; k++ {
				arg := []byte(fmt.Sprintf("g%d-k%d-%s", g, k, strings.Repeat("y", (g*7+k*3)%40)))
				cancel := make(chan struct{})
				timer := time.AfterFunc(5*time.Second, func() { close(cancel) })
				resp, err := clients[g%C].Call(cancel, sid, oid, 200, arg)
				timer.Stop()
				if err != nil {
					fails <- fmt.Sprintf("unanswered: the call of %q ended with %v", arg, err)
					return
				}
				if string(resp) != "echo:"+string(arg) {
					fails <- fmt.Sprintf("crossed: the caller of %q received %q", arg, resp)
					return
				}
			}
		}(g)
	}
	done := make(chan struct{})
	go func() { wg.Wait(); close(done) }()
	select {
	case <-done:
	case <-time.After(60 * time.Second):
		return "fail:hang"
	}
	close(stop)
	<-hostDone
	close(fails)
	for f := range fails {
		return "fail:" + f
	}
	smu.Lock()
	defer smu.Unlock()
	for arg, n := range seen {
		if n != 1 {
			return fmt.Sprintf("fail:twice: the hosting client saw the call of %q %d times", arg, n)
		}
	}
	if len(seen) != N*K+extra {
		return fmt.Sprintf("fail:lost: the hosting client saw %d calls of %d", len(seen), N*K+extra)
	}
	return "ok"
}

func init() {
	executors["c04.lend"] = func(a []string) string {
		r := c04Lend(a)
		if r != "ok" {
			lastFailDetail = r
		}
		return r
	}
}
