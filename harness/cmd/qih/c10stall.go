package main

// C10: a peer that stops reading for a while.  Two senders are in the middle of large frames when the receiving side
// stops taking bytes from the connection for eleven seconds; then it reads again and three more senders send.  Every
// message whose Send returned nil arrives intact, once, in the order of its sender; a Send that returned an error may
// have lost its message, never the messages of the others.

import (
	"fmt"
	"io/ioutil"
	"log"
	"os"
	"path/filepath"
	"sync"
	"time"

	qnet "github.com/lugu/qiloop/bus/net"
)

type gateReadStream struct {
	qnet.Stream
	gate chan struct{}
}

func (g *gateReadStream) Read(p []byte) (int, error) {
	<-g.gate
	return g.Stream.Read(p)
}

func execC10Stall(a []string) string {
	log.SetOutput(ioutil.Discard)
	dir, err := ioutil.TempDir("", "c10stall")
	if err != nil {
		return "setup-error:" + err.Error()
	}
	defer os.RemoveAll(dir)
	addr := "unix://" + filepath.Join(dir, "s")
	l, err := qnet.Listen(addr)
	if err != nil {
		return "setup-error:" + err.Error()
	}
	defer l.Close()
	gate := make(chan struct{})
	var mu sync.Mutex
	var got []*qnet.Message
	queue := make(chan *qnet.Message, 64)
	accepted := make(chan error, 1)
	var recvEP qnet.EndPoint
	go func() {
		s, err := l.Accept()
		if err == nil {
			recvEP = qnet.EndPointFinalizer(&gateReadStream{Stream: s, gate: gate}, func(e qnet.EndPoint) {
				e.MakeHandler(func(h *qnet.Header) (bool, bool) { return true, true }, queue, func(error) {})
			})
		}
		accepted <- err
	}()
	sendEP, err := qnet.DialEndPoint(addr)
	if err != nil {
		return "setup-error:" + err.Error()
	}
	defer sendEP.Close()
	if err := <-accepted; err != nil {
		return "setup-error:" + err.Error()
	}
	defer recvEP.Close()
	go func() {
		for m := range queue {
			mu.Lock()
			got = append(got, m)
			mu.Unlock()
		}
	}()
	type sent struct {
		id   uint32
		size int
		err  error
	}
	var smu sync.Mutex
	var sents []sent
	send := func(sender, i, size int) {
		id := uint32(sender*100 + i)
		m := qnet.NewMessage(qnet.NewHeader(qnet.Post, uint32(sender), 1, 1, id), c10Payload(id, size))
		err := sendEP.Send(m)
		smu.Lock()
		sents = append(sents, sent{id, size, err})
		smu.Unlock()
	}
	var wg sync.WaitGroup
	for s := 1; s <= 2; s++ {
		wg.Add(1)
		go func(s int) { defer wg.Done(); send(s, 0, 4<<20) }(s)
	}
	time.Sleep(11 * time.Second) // the peer does not read
	close(gate)
	done := make(chan struct{})
	go func() { wg.Wait(); close(done) }()
	select {
	case <-done:
	case <-time.After(20 * time.Second):
		return "fail:stuck a sender does not return once the peer reads again"
	}
	for s := 3; s <= 5; s++ {
		wg.Add(1)
		go func(s int) {
			defer wg.Done()
			for i := 0; i < 4; i++ {
				send(s, i, 100+s*10+i)
			}
		}(s)
	}
	wg.Wait()
	want := 0
	smu.Lock()
	for _, x := range sents {
		if x.err == nil {
			want++
		}
	}
	smu.Unlock()
	deadline := time.Now().Add(5 * time.Second)
	for time.Now().Before(deadline) {
		mu.Lock()
		n := len(got)
		mu.Unlock()
		if n >= want {
			break
		}
		time.Sleep(5 * time.Millisecond)
	}
	time.Sleep(20 * time.Millisecond)
	mu.Lock()
	defer mu.Unlock()
	smu.Lock()
	defer smu.Unlock()
	seen := map[uint32]int{}
	last := map[uint32]int{}
	for _, m := range got {
		seen[m.Header.ID]++
		if string(m.Payload) != string(c10Payload(m.Header.ID, len(m.Payload))) {
			return fmt.Sprintf("fail:corrupt message %d arrives with another content", m.Header.ID)
		}
		s, i := m.Header.ID/100, int(m.Header.ID%100)
		if p, ok := last[s]; ok && i <= p {
			return fmt.Sprintf("fail:order the messages of sender %d arrive out of order", s)
		}
		last[s] = i
	}
	for _, x := range sents {
		if x.err == nil && seen[x.id] != 1 {
			return fmt.Sprintf("fail:lost message %d (%d bytes), whose Send returned nil, arrived %d times (%d of %d messages arrived)", x.id, x.size, seen[x.id], len(got), want)
		}
	}
	return "ok"
}

func init() { executors["c10.stall"] = execC10Stall }

// c10.lateadd <rounds>: a handler is registered by another goroutine while the end point dispatches a message that a
// one-shot handler takes (and leaves with); the new handler receives every later message its filter selects, in order.
// (The first handler's filter tells the other goroutine that the dispatch has begun and gives it thirty milliseconds.)
func execC10LateAdd(a []string) string {
	log.SetOutput(ioutil.Discard)
	rounds := 3
	fmt.Sscanf(a[0], "%d", &rounds)
	for r := 0; r < rounds; r++ {
		x, y := qnet.Pipe()
		began := make(chan struct{}, 1)
		registered := make(chan struct{})
		first := true
		y.MakeHandler(func(h *qnet.Header) (bool, bool) {
			if h.ID == 1 && first {
				first = false
				began <- struct{}{}
				select {
				case <-registered:
				case <-time.After(30 * time.Millisecond):
				}
			}
			return false, true
		}, make(chan *qnet.Message, 1), nil)
		once, _ := y.ReceiveAny() // a one-shot handler: takes message 1 and leaves
		late := make(chan *qnet.Message, 8)
		go func() {
			<-began
			y.MakeHandler(func(h *qnet.Header) (bool, bool) { return h.ID >= 2, true }, late, nil)
			close(registered)
		}()
		send := func(id uint32) error {
			return x.Send(qnet.NewMessage(qnet.NewHeader(qnet.Post, 1, 1, 1, id), []byte{byte(id)}))
		}
		if send(1) != nil {
			return "fail:send"
		}
		select {
		case <-once:
		case <-time.After(3 * time.Second):
			return "fail:one-shot the one-shot handler did not get its message"
		}
		select {
		case <-registered:
		case <-time.After(3 * time.Second):
			return "fail:stuck a registration during a dispatch does not return"
		}
		for id := uint32(2); id <= 4; id++ {
			if send(id) != nil {
				return "fail:send"
			}
		}
		for id := uint32(2); id <= 4; id++ {
			select {
			case m := <-late:
				if m.Header.ID != id {
					return fmt.Sprintf("fail:order the handler registered during a dispatch got message %d for %d", m.Header.ID, id)
				}
			case <-time.After(3 * time.Second):
				return fmt.Sprintf("fail:lost the handler registered during a dispatch never received message %d (round %d)", id, r)
			}
		}
		x.Close()
		y.Close()
	}
	return "ok"
}

func init() { executors["c10.lateadd"] = execC10LateAdd }

// c10.slotrace <rounds>: a one-shot handler in the first slot takes message 1 and leaves; while the dispatch of that
// message is still inside the filter of the next handler, one goroutine removes the one-shot handler (a caller that
// gives up) and another registers a new handler.  The new handler receives every later message, in order, and its
// queue is not closed.
func execC10SlotRace(a []string) string {
	log.SetOutput(ioutil.Discard)
	rounds := 3
	fmt.Sscanf(a[0], "%d", &rounds)
	for r := 0; r < rounds; r++ {
		x, y := qnet.Pipe()
		began := make(chan struct{}, 1)
		resume := make(chan struct{})
		oneShot := make(chan *qnet.Message, 1)
		id0 := y.MakeHandler(func(h *qnet.Header) (bool, bool) {
			if h.ID == 1 {
				return true, false
			}
			return false, true
		}, oneShot, func(error) { time.Sleep(10 * time.Millisecond) })
		first := true
		y.MakeHandler(func(h *qnet.Header) (bool, bool) {
			if h.ID == 1 && first {
				first = false
				began <- struct{}{}
				select {
				case <-resume:
				case <-time.After(3 * time.Second):
				}
			}
			return false, true
		}, make(chan *qnet.Message, 1), nil)
		send := func(id uint32) error {
			return x.Send(qnet.NewMessage(qnet.NewHeader(qnet.Post, 1, 1, 1, id), []byte{byte(id)}))
		}
		sent := make(chan error, 1)
		go func() { sent <- send(1) }()
		select {
		case <-began:
		case <-time.After(3 * time.Second):
			return "fail:stuck the first message is not dispatched"
		}
		removed := make(chan struct{})
		go func() { y.RemoveHandler(id0); close(removed) }()
		time.Sleep(25 * time.Millisecond)
		late := make(chan *qnet.Message, 8)
		lateClosed := make(chan struct{}, 1)
		registered := make(chan int, 1)
		go func() {
			registered <- y.MakeHandler(func(h *qnet.Header) (bool, bool) { return h.ID >= 2, true }, late,
				func(error) { lateClosed <- struct{}{} })
		}()
		time.Sleep(25 * time.Millisecond)
		close(resume)
		select {
		case <-removed:
		case <-time.After(3 * time.Second):
			return "fail:stuck a removal during a dispatch does not return"
		}
		select {
		case id := <-registered:
			if id < 0 {
				return "fail:refused a registration during a dispatch is refused"
			}
		case <-time.After(3 * time.Second):
			return "fail:stuck a registration during a dispatch does not return"
		}
		if err := <-sent; err != nil {
			return "fail:send"
		}
		for id := uint32(2); id <= 4; id++ {
			if send(id) != nil {
				return "fail:send"
			}
		}
		for id := uint32(2); id <= 4; id++ {
			select {
			case m, ok := <-late:
				if !ok || m == nil {
					return fmt.Sprintf("fail:closed the queue of a handler that was registered and never removed is closed (round %d)", r)
				}
				if m.Header.ID != id {
					return fmt.Sprintf("fail:order the handler registered during a dispatch got message %d for %d", m.Header.ID, id)
				}
			case <-lateClosed:
				return fmt.Sprintf("fail:closed a handler that was registered and never removed is closed (round %d)", r)
			case <-time.After(3 * time.Second):
				return fmt.Sprintf("fail:lost the handler registered during a dispatch never received message %d (round %d)", id, r)
			}
		}
		x.Close()
		y.Close()
	}
	return "ok"
}

func init() { executors["c10.slotrace"] = execC10SlotRace }
