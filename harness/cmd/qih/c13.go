package main

// C13: subscriptions.  A real server with the generated PingPong stub (signal pong) and real
// clients (bus.Client + Proxy.SubscribeID) over in-memory connections whose client-to-server
// direction can be held, so that a registration can be kept in flight.  Sequential scripts are
// compared operation by operation with the per-connection machine of Model/Signals.lean;
// storms run subscribers and an emitter concurrently and check the window property directly.

import (
	"context"
	"encoding/binary"
	"fmt"
	"io/ioutil"
	"log"
	gonet "net"
	"strconv"
	"strings"
	"sync"
	"sync/atomic"
	"time"

	"github.com/lugu/qiloop/bus"
	qnet "github.com/lugu/qiloop/bus/net"
	"github.com/lugu/qiloop/examples/pong"
)

type sgHold struct {
	qnet.Stream
	mu        sync.Mutex
	cond      *sync.Cond
	held      bool
	heldUnreg bool // only the unregisterEvent requests are held (a frame is written in one piece)
}

func (h *sgHold) Write(p []byte) (int, error) {
	unreg := len(p) >= 28 && p[14] == qnet.Call && binary.LittleEndian.Uint32(p[24:28]) == 1
	h.mu.Lock()
	for h.held || (h.heldUnreg && unreg) {
		h.cond.Wait()
	}
	h.mu.Unlock()
	return h.Stream.Write(p)
}
func (h *sgHold) set(b bool) { h.mu.Lock(); h.held = b; h.heldUnreg = false; h.mu.Unlock(); h.cond.Broadcast() }
func (h *sgHold) setUnreg()  { h.mu.Lock(); h.heldUnreg = true; h.mu.Unlock() }

type sgImpl struct{ h pong.PingPongSignalHelper }

func (p *sgImpl) Activate(a bus.Activation, h pong.PingPongSignalHelper) error { p.h = h; return nil }
func (p *sgImpl) OnTerminate()                                              {}
func (p *sgImpl) Hello(a string) (string, error)                            { return a, nil }
func (p *sgImpl) Ping(a string) error                                       { return nil }

type sgConn struct {
	hold   *sgHold
	ep     qnet.EndPoint
	client bus.Client
	proxy  bus.Proxy
	cache  *bus.Cache
	server gonet.Conn          // the server's end of the connection: the harness can put a barrier frame on it
	mark   chan *qnet.Message // barrier frames arrive here once everything before them has been dispatched
	markID uint32
	wire   int64 // events of the signal (object 1) that have arrived on the connection, subscribed to or not
	others []uint64 // registrations for another signal made on this connection (sg.other), oldest first
	raws   []uint64 // registrations for the signal itself made by hand on this connection (sg.rawreg), oldest first
	mute   *muteStream
}

type sgSub struct {
	mu      sync.Mutex
	got     []string
	closed  bool
	cancel  func()
	acked   chan struct{}
	cdone   chan struct{}
	conn    int
	err     error
	started bool
}

type sgWorld struct {
	l     *auListener
	srv   bus.Server
	impl  *sgImpl
	conns []*sgConn
	subs  []*sgSub
	// a second object of the same type in the same service: its signal has the same action
	// identifier, its events travel on the same connections
	impl2 *sgImpl
	obj2  uint32
	osubs []*sgSub
	svc   bus.Service
}

var sgw *sgWorld

func sgNewWorld() (*sgWorld, string) {
	log.SetOutput(ioutil.Discard)
	w := &sgWorld{l: &auListener{ch: make(chan qnet.Stream), closed: make(chan struct{})}, impl: &sgImpl{}}
	srv, err := bus.StandAloneServer(w.l, bus.Yes{}, bus.PrivateNamespace())
	if err != nil {
		return nil, "setup-error:" + err.Error()
	}
	w.srv = srv
	svc, err := srv.NewService("PingPong", pong.PingPongObject(w.impl))
	if err != nil {
		return nil, "setup-error:" + err.Error()
	}
	w.svc = svc
	w.impl2 = &sgImpl{}
	if w.obj2, err = svc.Add(pong.PingPongObject(w.impl2)); err != nil {
		return nil, "setup-error:" + err.Error()
	}
	return w, "ok"
}

func (w *sgWorld) close() {
	for _, c := range w.conns {
		c.hold.set(false)
		c.ep.Close()
	}
	w.srv.Terminate()
}

// muteStream: the server's end of a connection whose writes can be made to fail while the connection stays open (a peer
// that has shut down its reading half: the server gets an error for every write and does not see the connection end)
type muteStream struct {
	qnet.Stream
	muted int32
}

func (m *muteStream) Write(p []byte) (int, error) {
	if atomic.LoadInt32(&m.muted) == 1 {
		return 0, fmt.Errorf("write: broken pipe")
	}
	return m.Stream.Write(p)
}

func (w *sgWorld) connect() (*sgConn, error) {
	a, b := gonet.Pipe()
	ms := &muteStream{Stream: qnet.ConnStream(b)}
	w.l.ch <- ms
	h := &sgHold{Stream: qnet.ConnStream(a)}
	h.cond = sync.NewCond(&h.mu)
	ep := qnet.NewEndPoint(h)
	if err := bus.AuthenticateUser(ep, "", ""); err != nil {
		return nil, err
	}
	cl := bus.NewClient(bus.NewContext(ep))
	meta, err := bus.GetMetaObject(cl, 1, 1)
	if err != nil {
		return nil, err
	}
	cache := bus.NewCache(ep)
	cache.AddService("PingPong", 1, meta)
	c := &sgConn{hold: h, ep: ep, client: cl, proxy: bus.NewProxy(cl, meta, 1, 1), cache: cache, server: b,
		mark: make(chan *qnet.Message, 16), mute: ms}
	ep.MakeHandler(func(hd *qnet.Header) (bool, bool) { return hd.Action == 999999, true }, c.mark, nil)
	tap := make(chan *qnet.Message, 4096)
	ep.MakeHandler(func(hd *qnet.Header) (bool, bool) {
		return hd.Type == qnet.Event && hd.Service == 1 && hd.Object == 1 && hd.Action == 102, true
	}, tap, nil)
	go func() {
		for range tap {
			atomic.AddInt64(&c.wire, 1)
		}
	}()
	w.conns = append(w.conns, c)
	return c, nil
}

// barrier: a frame written on the server's end after everything the server has sent so far; when
// the client's reader hands it over, every earlier frame has been dispatched
func (c *sgConn) barrier() bool {
	c.markID++
	m := qnet.NewMessage(qnet.NewHeader(qnet.Event, 1, 1, 999999, c.markID), nil)
	done := make(chan error, 1)
	go func() { done <- m.Write(c.server) }()
	select {
	case err := <-done:
		if err != nil {
			return false
		}
	case <-time.After(2 * time.Second):
		return false
	}
	select {
	case <-c.mark:
		return true
	case <-time.After(2 * time.Second):
		return false
	}
}

func (w *sgWorld) barriers() {
	for _, c := range w.conns {
		c.barrier()
	}
}

// every seventh event carries seventy thousand bytes behind its number: more than one read, more than one 64 KiB block
var sgPad = strings.Repeat("~", 70000)

func sgPayload(id string) string {
	if n, err := strconv.Atoi(id); err == nil && n%7 == 3 {
		return id + sgPad
	}
	return id
}

func sgDecode(p []byte) string {
	if len(p) >= 4 && int(binary.LittleEndian.Uint32(p)) == len(p)-4 {
		s := string(p[4:])
		if i := strings.IndexByte(s, '~'); i >= 0 {
			if s[i:] != sgPad {
				return fmt.Sprintf("?%s+%d-bytes-of-padding-damaged", s[:i], len(s)-i)
			}
			return s[:i]
		}
		return s
	}
	if len(p) > 64 {
		return "?" + hx(p[:64]) + "…"
	}
	return "?" + hx(p)
}

func (w *sgWorld) subscribe(k int) *sgSub { return w.subscribeTo(k, 1) }

func (w *sgWorld) subscribeTo(k int, obj uint32) *sgSub {
	s := &sgSub{acked: make(chan struct{}), cdone: make(chan struct{}), conn: k}
	if obj == 1 {
		w.subs = append(w.subs, s)
	} else {
		w.osubs = append(w.osubs, s)
	}
	go func() {
		// every subscriber gets its own proxy from the connection's Cache, as an application would
		proxy, err := w.conns[k].cache.Proxy("PingPong", obj)
		if err != nil {
			s.err = err
			close(s.acked)
			return
		}
		cancel, ch, err := proxy.SubscribeID(102)
		s.mu.Lock()
		s.cancel, s.err = cancel, err
		s.mu.Unlock()
		if err == nil {
			go func() {
				for p := range ch {
					s.mu.Lock()
					s.got = append(s.got, sgDecode(p))
					s.mu.Unlock()
				}
				s.mu.Lock()
				s.closed = true
				s.mu.Unlock()
			}()
		}
		close(s.acked)
	}()
	return s
}

// closedSoon waits until the subscriber's channel has been closed (the fan-out goroutine has seen
// the abort): the model's `leave` step
func (s *sgSub) closedSoon() bool {
	for i := 0; i < 2000; i++ {
		s.mu.Lock()
		c := s.closed
		s.mu.Unlock()
		if c {
			return true
		}
		time.Sleep(500 * time.Microsecond)
	}
	return false
}

func sgWait(ch chan struct{}, d time.Duration) bool {
	// a channel that is closed already wins whatever became of the timer meanwhile (a select between two ready
	// channels picks at random: a goroutine that was not scheduled for the length of a short timeout saw "not closed")
	select {
	case <-ch:
		return true
	default:
	}
	select {
	case <-ch:
		return true
	case <-time.After(d):
		select {
		case <-ch:
			return true
		default:
			return false
		}
	}
}

// stable waits until what the subscriber has received stops changing
func (s *sgSub) stable() (string, bool) {
	last, lastClosed, same := -1, false, 0
	for i := 0; i < 400; i++ {
		s.mu.Lock()
		n, cl := len(s.got), s.closed
		s.mu.Unlock()
		if n == last && cl == lastClosed {
			same++
			if same >= 4 {
				break
			}
		} else {
			same = 0
		}
		last, lastClosed = n, cl
		time.Sleep(1500 * time.Microsecond)
	}
	s.mu.Lock()
	defer s.mu.Unlock()
	return strings.Join(s.got, " "), s.closed
}

var sgOtherUID uint64 = 700000

func execSg(op string) func(a []string) string {
	return func(a []string) string {
		n := func(i int) int { v, _ := strconv.Atoi(a[i]); return v }
		w := sgw
		switch op {
		case "reset":
			if sgw != nil {
				sgw.close()
			}
			nw, res := sgNewWorld()
			sgw = nw
			return res
		case "conn":
			if _, err := w.connect(); err != nil {
				return "error:" + err.Error()
			}
			return strconv.Itoa(len(w.conns) - 1)
		case "observe":
			// a client turns the object's statistics or its tracing on: every message then reaches the
			// object through a wrapper of the connection's channel; subscriptions are what they were
			obj := bus.MakeObject(w.conns[0].proxy)
			var err error
			if a[0] == "stats" {
				err = obj.EnableStats(true)
			} else {
				err = obj.EnableTrace(true)
			}
			if err != nil {
				return "error:" + err.Error()
			}
			return "ok"
		case "other":
			// a registration for another signal of the object, on this connection
			sgOtherUID++
			if _, err := bus.MakeObject(w.conns[n(0)].proxy).RegisterEvent(1, 999, sgOtherUID); err != nil {
				return "error:" + err.Error()
			}
			w.conns[n(0)].others = append(w.conns[n(0)].others, sgOtherUID)
			return "ok"
		case "mute":
			// from now on the server's writes to this connection fail; its registration stays in the table
			atomic.StoreInt32(&w.conns[n(0)].mute.muted, 1)
			return "ok"
		case "rawreg":
			// one more registration for the signal itself on this connection, under a user id of its own (a client that
			// keeps one link per subscriber, as libqi does): the connection gets one event per registration
			sgOtherUID++
			if _, err := bus.MakeObject(w.conns[n(0)].proxy).RegisterEvent(1, 102, sgOtherUID); err != nil {
				return "error:" + err.Error()
			}
			w.conns[n(0)].raws = append(w.conns[n(0)].raws, sgOtherUID)
			return "ok"
		case "rawunreg":
			// the newest of them is given up: the earlier ones stay
			c := w.conns[n(0)]
			if len(c.raws) == 0 {
				return "bad-op"
			}
			uid := c.raws[len(c.raws)-1]
			c.raws = c.raws[:len(c.raws)-1]
			if err := bus.MakeObject(c.proxy).UnregisterEvent(1, 102, uid); err != nil {
				return "error:" + err.Error()
			}
			return "ok"
		case "unother":
			// the oldest registration for the other signal made on this connection is given up: the
			// registrations of the signal itself, on this connection and the others, are what they were
			c := w.conns[n(0)]
			if len(c.others) == 0 {
				return "bad-op"
			}
			uid := c.others[0]
			c.others = c.others[1:]
			if err := bus.MakeObject(c.proxy).UnregisterEvent(1, 999, uid); err != nil {
				return "error:" + err.Error()
			}
			return "ok"
		case "wire":
			// how many events of the signal the server has put on this connection so far
			c := w.conns[n(0)]
			if !c.barrier() {
				return "no-barrier"
			}
			time.Sleep(time.Millisecond)
			return strconv.FormatInt(atomic.LoadInt64(&c.wire), 10)
		case "hold":
			w.conns[n(0)].hold.set(true)
			return "ok"
		case "holdunreg":
			// a slow path for unregistrations only: everything else of the connection goes through
			w.conns[n(0)].hold.setUnreg()
			return "ok"
		case "release":
			k := n(0)
			// a subscriber whose cancel waits behind the held traffic still receives; it has read everything
			// that has been dispatched to it before the release lets its cancel complete (what is queued for
			// the fan-out goroutine at that moment is dropped: sg.burstcancel, a listed finding)
			for _, s := range w.subs {
				s.mu.Lock()
				st := s.started
				s.mu.Unlock()
				if s.conn == k && st {
					s.stable()
				}
			}
			w.conns[k].hold.set(false)
			// whatever was waiting on this connection completes now
			for _, s := range w.subs {
				if s.conn == k {
					if !sgWait(s.acked, 3*time.Second) {
						return "stuck-subscribe"
					}
					s.mu.Lock()
					st := s.started
					s.mu.Unlock()
					if st && !sgWait(s.cdone, 3*time.Second) {
						return "stuck-cancel"
					}
					if st && !s.closedSoon() {
						return "channel-not-closed"
					}
				}
			}
			w.barriers()
			time.Sleep(time.Millisecond)
			return "ok"
		case "sub":
			s := w.subscribe(n(0))
			gid := len(w.subs) - 1
			if sgWait(s.acked, 150*time.Millisecond) {
				if s.err != nil {
					return "error:" + s.err.Error()
				}
				return fmt.Sprintf("acked %d", gid)
			}
			return fmt.Sprintf("pending %d", gid)
		case "subfail":
			// a subscription that fails: the context of the proxy is over already, the registration is not
			// even sent.  Nothing may remain of it: the next subscriber of the connection registers
			ctx, stop := context.WithCancel(context.Background())
			stop()
			proxy, err := w.conns[n(0)].cache.Proxy("PingPong", 1)
			if err != nil {
				return "error:" + err.Error()
			}
			done := make(chan error, 1)
			go func() {
				cancel, _, err := proxy.WithContext(ctx).SubscribeID(102)
				if err == nil {
					cancel()
				}
				done <- err
			}()
			select {
			case err := <-done:
				if err == nil {
					return "subscribed"
				}
				return "failed"
			case <-time.After(3 * time.Second):
				return "stuck"
			}
		case "cancel":
			s := w.subs[n(0)]
			if !sgWait(s.acked, 10*time.Millisecond) {
				// SubscribeID has not returned: the caller has no cancel function yet; cancel as soon as it has
				s.mu.Lock()
				s.started = true
				s.mu.Unlock()
				go func() { <-s.acked; s.cancel(); close(s.cdone) }()
				return "pending"
			}
			// the subscriber has read everything that has been dispatched to it so far (what is still
			// queued for the fan-out goroutine when cancel is requested is dropped: see sg.burstcancel)
			s.stable()
			s.mu.Lock()
			s.started = true
			s.mu.Unlock()
			go func() { s.cancel(); close(s.cdone) }()
			if sgWait(s.cdone, 150*time.Millisecond) {
				if !s.closedSoon() {
					return "channel-not-closed"
				}
				return "done"
			}
			return "pending"
		case "emit":
			done := make(chan error, 1)
			go func() { done <- w.impl.h.SignalPong(sgPayload(a[0])) }()
			select {
			case <-done:
				w.barriers()
				return "ok"
			case <-time.After(3 * time.Second):
				return "emit-blocked"
			}
		case "call":
			if _, err := pong.MakePingPong(nil, w.conns[n(0)].proxy).Hello("x"); err != nil {
				return "error:" + err.Error()
			}
			return "ok"
		case "osub":
			// a subscriber of the other object's signal, on a connection that is not held
			s := w.subscribeTo(n(0), w.obj2)
			if !sgWait(s.acked, 3*time.Second) {
				return "stuck-subscribe"
			}
			if s.err != nil {
				return "error:" + s.err.Error()
			}
			return fmt.Sprintf("acked %d", len(w.osubs)-1)
		case "oterm":
			// the other object is removed: its subscribers are told (an error message on the signal), their channels close
			if err := w.svc.Remove(w.obj2); err != nil {
				return "error:" + err.Error()
			}
			for _, s := range w.osubs {
				s.mu.Lock()
				started := s.started
				s.mu.Unlock()
				if !started && !s.closedSoon() {
					return "channel-not-closed"
				}
			}
			w.barriers()
			return "ok"
		case "ocancel":
			s := w.osubs[n(0)]
			s.stable()
			s.mu.Lock()
			s.started = true
			s.mu.Unlock()
			done := make(chan struct{})
			go func() { s.cancel(); close(done) }()
			if !sgWait(done, 3*time.Second) {
				return "stuck-cancel"
			}
			if !s.closedSoon() {
				return "channel-not-closed"
			}
			w.barriers()
			return "done"
		case "oemit":
			done := make(chan error, 1)
			go func() { done <- w.impl2.h.SignalPong(a[0]) }()
			select {
			case <-done:
				w.barriers()
				return "ok"
			case <-time.After(3 * time.Second):
				return "emit-blocked"
			}
		case "ogot":
			got, closed := w.osubs[n(0)].stable()
			st := "open"
			if closed {
				st = "closed"
			}
			return fmt.Sprintf("[%s] %s", got, st)
		case "got":
			if !sgWait(w.subs[n(0)].acked, time.Millisecond) {
				return "unacked" // SubscribeID has not returned: the caller has no channel to read yet
			}
			got, closed := w.subs[n(0)].stable()
			st := "open"
			if closed {
				st = "closed"
			}
			return fmt.Sprintf("[%s] %s", got, st)
		}
		return "bad-op"
	}
}

// sg.burstcancel <events>: one subscriber that keeps reading; <events> emissions back to back, then
// the cancel request at once.  Every event was emitted — and handed to the client — before the
// cancel request; how many did the subscriber receive?
func sgBurstCancel(a []string) string {
	n, _ := strconv.Atoi(a[0])
	w, res := sgNewWorld()
	if res != "ok" {
		return res
	}
	defer w.close()
	c, err := w.connect()
	if err != nil {
		return "setup-error:" + err.Error()
	}
	// a second subscriber stays: the one that cancels is not the last, its cancel needs no round trip
	_, keep, err := c.proxy.SubscribeID(102)
	if err != nil {
		return "setup-error:" + err.Error()
	}
	go func() {
		for range keep {
		}
	}()
	worst := 0
	for round := 0; round < 60; round++ {
		cancel, ch, err := c.proxy.SubscribeID(102)
		if err != nil {
			return "setup-error:" + err.Error()
		}
		got := 0
		done := make(chan struct{})
		go func() {
			for range ch {
				got++
			}
			close(done)
		}()
		for i := 0; i < n; i++ {
			w.impl.h.SignalPong(strconv.Itoa(i))
		}
		c.barrier() // every event has been dispatched to the subscriber's queue
		cancel()
		select {
		case <-done:
		case <-time.After(3 * time.Second):
			return "fail:channel not closed"
		}
		if n-got > worst {
			worst = n - got
		}
	}
	if worst > 0 {
		return "lost"
	}
	return "ok"
}

// ---- storm -------------------------------------------------------------------------------------

// sg.storm <connections> <subscribers per connection> <emissions> <seed>
// Subscribers come and go while one goroutine emits 0,1,2,…; every subscriber notes how many
// emissions had been made when its SubscribeID returned and when it asked to cancel.
var sgMaxTail int64
var sgLastBurst string

func sgStorm(a []string) string {
	nc, _ := strconv.Atoi(a[0])
	ns, _ := strconv.Atoi(a[1])
	ne, _ := strconv.Atoi(a[2])
	seed, _ := strconv.ParseUint(a[3], 10, 64)
	w, res := sgNewWorld()
	if res != "ok" {
		return res
	}
	defer w.close()
	for i := 0; i < nc; i++ {
		if _, err := w.connect(); err != nil {
			return "setup-error:" + err.Error()
		}
	}
	var emitted int64 // emissions completed so far
	stop := make(chan struct{})
	var wg sync.WaitGroup
	fails := make(chan string, nc*ns*4)
	for k := 0; k < nc; k++ {
		for j := 0; j < ns; j++ {
			wg.Add(1)
			go func(k, j int) {
				defer wg.Done()
				r := NewRand(seed + uint64(k*100+j))
				for round := 0; ; round++ {
					select {
					case <-stop:
						return
					default:
					}
					time.Sleep(time.Duration(r.Intn(3000)) * time.Microsecond)
					proxy, err := w.conns[k].cache.Proxy("PingPong", 1)
					if err != nil {
						fails <- "proxy: " + err.Error()
						return
					}
					cancel, ch, err := proxy.SubscribeID(102)
					if err != nil {
						fails <- "subscribe: " + err.Error()
						return
					}
					from := atomic.LoadInt64(&emitted) // every emission started after this point is in the window
					var got []int
					done := make(chan struct{})
					go func() {
						for p := range ch {
							v, err := strconv.Atoi(sgDecode(p))
							if err != nil {
								v = -1
							}
							got = append(got, v)
						}
						close(done)
					}()
					time.Sleep(time.Duration(500+r.Intn(6000)) * time.Microsecond)
					to := atomic.LoadInt64(&emitted) // emissions completed before the cancel request
					cancel()
					select {
					case <-done:
					case <-time.After(5 * time.Second):
						fails <- "channel not closed after cancel"
						return
					}
					// once, in order
					for i := 1; i < len(got); i++ {
						if got[i] <= got[i-1] {
							fails <- fmt.Sprintf("conn %d: received %v: not strictly increasing", k, got)
							return
						}
					}
					// the window [from+1, to) — emission from may have started before the acknowledgement —
					// must be there, except for a tail that was still in flight at the cancel request
					have := map[int]bool{}
					for _, v := range got {
						have[v] = true
					}
					missing := -1
					for v := int(from) + 1; v < int(to); v++ {
						if !have[v] {
							if missing < 0 {
								missing = v
							}
						} else if missing >= 0 {
							fails <- fmt.Sprintf("conn %d: window [%d,%d): %d missing but %d received: %v", k, from+1, to, missing, v, got)
							return
						}
					}
					if missing >= 0 {
						if t := int64(int(to) - missing); t > atomic.LoadInt64(&sgMaxTail) {
							atomic.StoreInt64(&sgMaxTail, t)
						}
					}
					// what was still queued for the fan-out goroutine at the cancel request is dropped: at most its queue
					if missing >= 0 && int(to)-missing > 100 {
						fails <- fmt.Sprintf("conn %d: window [%d,%d): everything from %d on is missing: %v", k, from+1, to, missing, got)
						return
					}
				}
			}(k, j)
		}
	}
	for i := 0; i < ne; i++ {
		if err := w.impl.h.SignalPong(strconv.Itoa(i)); err != nil {
			// a subscriber's connection going away is reported here; not the case in this scenario
			close(stop)
			wg.Wait()
			return "fail:emit: " + err.Error()
		}
		atomic.StoreInt64(&emitted, int64(i+1))
		time.Sleep(time.Duration(50+i%5*60) * time.Microsecond)
	}
	close(stop)
	wg.Wait()
	close(fails)
	for f := range fails {
		return "fail:" + f
	}
	return "ok"
}

// sg.emitrace: an emission is a copy of the users of the signal followed by one write per user.  The first
// user of the copy is a connection whose peer has stopped reading, so the emitter waits in that write; meanwhile
// the second user unregisters and is acknowledged; then the first peer reads again and the emitter goes on to the
// second user.  How many events for the removed registration reach the second connection after the acknowledgement?
// (Props/C13Emit.lean: at most one, of the emission that was open — and `event_after_acknowledgement`: one.)
func sgEmitRace(a []string) string {
	w, res := sgNewWorld()
	if res != "ok" {
		return res
	}
	defer w.close()
	// the first connection, by hand: authenticate, register for pong, stop reading
	x, y := gonet.Pipe()
	w.l.ch <- qnet.ConnStream(y)
	defer x.Close()
	ask := func(h qnet.Header, p []byte) (*qnet.Message, error) {
		m := qnet.NewMessage(h, p)
		werr := make(chan error, 1)
		go func() { werr <- m.Write(x) }()
		select {
		case err := <-werr:
			if err != nil {
				return nil, err
			}
		case <-time.After(2 * time.Second):
			return nil, fmt.Errorf("write timeout")
		}
		type rr struct {
			m   *qnet.Message
			err error
		}
		rch := make(chan rr, 1)
		go func() {
			r := new(qnet.Message)
			err := r.Read(x)
			rch <- rr{r, err}
		}()
		select {
		case r := <-rch:
			return r.m, r.err
		case <-time.After(2 * time.Second):
			return nil, fmt.Errorf("read timeout")
		}
	}
	if _, err := ask(qnet.NewHeader(qnet.Call, 0, 0, 8, 1), auMap(nil)); err != nil {
		return "setup-error:authenticate:" + err.Error()
	}
	reg := append(append(leBytes(4, 1), leBytes(4, 102)...), leBytes(8, 7)...)
	if r, err := ask(qnet.NewHeader(qnet.Call, 1, 1, 0, 2), reg); err != nil || r.Header.Type != qnet.Reply {
		return fmt.Sprintf("setup-error:registerEvent:%v", err)
	}
	// the second connection: an ordinary subscriber, and an observer of the event frames that reach its endpoint
	c, err := w.connect()
	if err != nil {
		return "setup-error:" + err.Error()
	}
	frames := make(chan *qnet.Message, 64)
	c.ep.MakeHandler(func(hd *qnet.Header) (bool, bool) { return hd.Type == qnet.Event && hd.Action == 102, true }, frames, nil)
	s := w.subscribe(0)
	if !sgWait(s.acked, 3*time.Second) || s.err != nil {
		return "setup-error:subscribe"
	}
	// the emission: it waits in the write to the first connection
	emitted := make(chan error, 1)
	go func() { emitted <- w.impl.h.SignalPong("late?") }()
	select {
	case <-emitted:
		return "setup-error:the emission did not wait for the first connection"
	case <-time.After(40 * time.Millisecond):
	}
	before := len(frames)
	// the second subscriber leaves: its unregistration is acknowledged (cancel returns after the reply)
	done := make(chan struct{})
	go func() { s.cancel(); close(done) }()
	if !sgWait(done, 3*time.Second) {
		return "stuck-cancel"
	}
	atAck := len(frames)
	// the first peer reads again
	go func() {
		for {
			r := new(qnet.Message)
			if r.Read(x) != nil {
				return
			}
		}
	}()
	select {
	case <-emitted:
	case <-time.After(3 * time.Second):
		return "stuck-emission"
	}
	c.barrier()
	late := len(frames) - atAck
	if before != 0 || atAck != 0 {
		return fmt.Sprintf("events-before-the-acknowledgement=%d", atAck)
	}
	return fmt.Sprintf("late=%d", late)
}

var sgLastRace string

func init() {
	executors["sg.emitrace"] = func(a []string) string {
		r := sgEmitRace(a)
		sgLastRace = r
		if r == "late=0" || r == "late=1" {
			return "late<=1"
		}
		return r
	}
	for _, op := range []string{"mute", "rawreg", "rawunreg", "other", "unother", "wire", "subfail", "observe", "oterm", "holdunreg", "reset", "conn", "hold", "release", "sub", "cancel", "emit", "call", "got", "osub", "ocancel", "oemit", "ogot"} {
		executors["sg."+op] = execSg(op)
	}
	executors["sg.burstcancel"] = func(a []string) string {
		// whether the abort wins against the queue is the scheduler's choice: both outcomes are
		// the same answer for the comparison; a loss is reported as the (known) finding it is
		r := sgBurstCancel(a)
		sgLastBurst = r
		if r == "ok" || r == "lost" {
			return "lost-or-ok"
		}
		return r
	}
	executors["sg.storm"] = func(a []string) string {
		r := sgStorm(a)
		if r != "ok" {
			lastFailDetail = r
		}
		return r
	}
	runners["C13"] = runC13
}

func runC13(r *Rand, tier string, o *Out) {
	scripts := 40
	if tier == "thorough" {
		scripts = 400
	}
	emitN := 0
	for s := 0; s < scripts; s++ {
		o.Do("P", "sg.reset", false)
		nconn := 1 + r.Intn(3)
		for k := 0; k < nconn; k++ {
			o.Do("P", "sg.conn", false)
		}
		if r.Chance(30) {
			o.Do("P", "sg.observe "+[]string{"stats", "trace"}[r.Intn(2)], false)
			o.Count("object:statistics-or-tracing-on")
		}
		type sub struct {
			conn             int
			acked, cancelled bool
			pendingCancel    bool
		}
		var subs []*sub
		var osubs []bool // subscribers of the other object: cancelled?
		oterminated := false
		held := make([]bool, nconn)
		waiting := make([]int, nconn) // operations waiting for the lock of that connection's client
		others := make([]int, nconn)  // registrations for another signal on that connection
		steps := 8 + r.Intn(18)
		for i := 0; i < steps; i++ {
			k := r.Intn(nconn)
			switch c := r.Intn(100); {
			case c < 28 && len(subs) < 7:
				if held[k] && waiting[k] >= 2 {
					continue // keep the order in which blocked operations get the lock deterministic
				}
				out := o.Do("P", fmt.Sprintf("sg.sub %d", k), true)
				sb := &sub{conn: k, acked: strings.HasPrefix(out, "acked")}
				subs = append(subs, sb)
				if !sb.acked {
					waiting[k]++
				}
				o.Count("op:subscribe")
				if !sb.acked {
					o.Count("op:subscribe-held")
				}
			case c < 45:
				var cand []int
				for j, sb := range subs {
					if sb.acked && !sb.cancelled && !(held[sb.conn] && waiting[sb.conn] >= 2) {
						cand = append(cand, j)
					}
				}
				if len(cand) > 0 {
					j := cand[r.Intn(len(cand))]
					out := o.Do("P", fmt.Sprintf("sg.cancel %d", j), true)
					subs[j].cancelled = true
					if out == "pending" {
						subs[j].pendingCancel = true
						waiting[subs[j].conn]++
					}
					o.Count("op:cancel")
				}
			case c < 62:
				emitN++
				o.Do("P", fmt.Sprintf("sg.emit %d", emitN), true)
				o.Count("op:emit")
			case c < 75:
				// the other object of the service: same signal identifier, same connections
				anyHeld := false
				for _, h := range held {
					anyHeld = anyHeld || h
				}
				switch d := r.Intn(10); {
				case oterminated:
					// the object is gone; whoever subscribed to it may still call its cancel function
					if !anyHeld {
						for j, c := range osubs {
							if !c && r.Chance(50) {
								o.Do("P", fmt.Sprintf("sg.ocancel %d", j), true)
								osubs[j] = true
								o.Count("op:cancel-after-the-object-is-gone")
								break
							}
						}
					}
				case d >= 7 && len(osubs) > 0 && !anyHeld:
					o.Do("P", "sg.oterm", true)
					oterminated = true
					o.Count("op:other-object-removed")
				case d < 4 && !held[k] && waiting[k] == 0 && len(osubs) < 4:
					o.Do("P", fmt.Sprintf("sg.osub %d", k), true)
					osubs = append(osubs, false)
					o.Count("op:other-object-subscribe")
				case d < 5 && !anyHeld:
					for j, c := range osubs {
						if !c {
							o.Do("P", fmt.Sprintf("sg.ocancel %d", j), true)
							osubs[j] = true
							o.Count("op:other-object-cancel")
							break
						}
					}
				default:
					emitN++
					o.Do("P", fmt.Sprintf("sg.oemit %d", emitN), true)
					o.Count("op:other-object-emit")
				}
			case c < 78:
				// a subscription that fails, on a connection that has no subscriber at this moment
				free := !held[k] && waiting[k] == 0
				for _, sb := range subs {
					if sb.conn == k && !(sb.acked && sb.cancelled && !sb.pendingCancel) {
						free = false
					}
				}
				if free {
					o.Do("P", fmt.Sprintf("sg.subfail %d", k), true)
					o.Count("op:subscription-that-fails")
				}
			case c < 80:
				if !held[k] {
					o.Do("P", fmt.Sprintf("sg.call %d", k), true)
					o.Count("op:other-traffic")
				}
			case c < 82:
				if !held[k] && waiting[k] == 0 {
					if others[k] > 0 && r.Chance(50) {
						o.Do("P", fmt.Sprintf("sg.unother %d", k), true)
						others[k]--
						o.Count("op:registration-for-another-signal-given-up")
					} else {
						o.Do("P", fmt.Sprintf("sg.other %d", k), true)
						others[k]++
						o.Count("op:registration-for-another-signal")
					}
				}
			case c < 90:
				if !held[k] && waiting[k] == 0 {
					if r.Chance(40) {
						o.Do("P", fmt.Sprintf("sg.holdunreg %d", k), true)
						o.Count("op:hold-unregistrations")
					} else {
						o.Do("P", fmt.Sprintf("sg.hold %d", k), true)
						o.Count("op:hold")
					}
					held[k] = true
				}
			case c < 96:
				if held[k] {
					o.Do("P", fmt.Sprintf("sg.release %d", k), true)
					held[k] = false
					waiting[k] = 0
					for _, sb := range subs {
						if sb.conn == k {
							sb.acked = true
						}
					}
				}
			default:
				if len(subs) > 0 && r.Bool() {
					o.Do("P", fmt.Sprintf("sg.got %d", r.Intn(len(subs))), true)
					o.Count("op:observe")
				} else if !held[k] && waiting[k] == 0 {
					o.Do("P", fmt.Sprintf("sg.wire %d", k), true)
					o.Count("op:observe-the-connection")
				}
			}
		}
		for k := range held {
			if held[k] {
				o.Do("P", fmt.Sprintf("sg.release %d", k), true)
			}
		}
		emitN++
		o.Do("P", fmt.Sprintf("sg.emit %d", emitN), true)
		for j := range subs {
			o.Do("P", fmt.Sprintf("sg.got %d", j), true)
		}
		for k := 0; k < nconn; k++ {
			o.Do("P", fmt.Sprintf("sg.wire %d", k), true)
		}
		for j := range osubs {
			o.Do("P", fmt.Sprintf("sg.ogot %d", j), true)
		}
	}
	// the witnesses of the two repaired defects
	for _, l := range []string{
		"sg.reset", "sg.conn", "sg.hold 0", "sg.sub 0", "sg.sub 0", "sg.emit 1", "sg.release 0", "sg.emit 2", "sg.got 0", "sg.got 1",
	} {
		o.Do("P", l, true)
	}
	// a failed subscription, then ordinary ones on the same connection
	emitN += 2
	for _, l := range []string{
		"sg.reset", "sg.conn", "sg.subfail 0", "sg.sub 0", fmt.Sprintf("sg.emit %d", emitN-1), "sg.got 0", "sg.cancel 0", "sg.subfail 0", "sg.sub 0",
		fmt.Sprintf("sg.emit %d", emitN), "sg.got 0", "sg.got 1",
	} {
		o.Do("P", l, true)
	}
	// a subscriber whose object was removed calls its cancel function after somebody else has subscribed
	emitN++
	for _, l := range []string{
		"sg.reset", "sg.conn", "sg.osub 0", "sg.osub 0", "sg.oterm", "sg.sub 0", "sg.ocancel 0", "sg.sub 0", "sg.ocancel 1",
		fmt.Sprintf("sg.emit %d", emitN), "sg.got 0", "sg.got 1", "sg.ogot 0", "sg.ogot 1",
	} {
		o.Do("P", l, true)
	}
	// registrations for several signals of the object on several connections; one leaves while a later one stays:
	// what the server still puts on the connection that left
	emitN += 3
	for _, l := range []string{
		"sg.reset", "sg.conn", "sg.conn", "sg.conn", "sg.sub 0", "sg.other 1", "sg.sub 2", "sg.other 2", fmt.Sprintf("sg.emit %d", emitN-2),
		"sg.cancel 0", fmt.Sprintf("sg.emit %d", emitN-1), "sg.wire 0", "sg.wire 1", "sg.wire 2", "sg.cancel 1", fmt.Sprintf("sg.emit %d", emitN),
		"sg.wire 0", "sg.wire 2", "sg.got 0", "sg.got 1",
		// a registration for another signal is given up on a connection that keeps its subscription to this one
		"sg.unother 2", fmt.Sprintf("sg.emit %d", emitN+1), "sg.wire 2", "sg.got 1", "sg.other 2", "sg.unother 2", "sg.unother 1", fmt.Sprintf("sg.emit %d", emitN+2), "sg.got 1", "sg.wire 1",
	} {
		o.Do("P", l, true)
	}
	emitN += 2
	// several registrations for the signal on one connection, made by hand (that connection has no subscriber of the
	// proxy's): one event per registration and emission; giving up the newest leaves the others
	for _, l := range []string{
		"sg.reset", "sg.conn", "sg.conn", "sg.sub 0", "sg.rawreg 1", "sg.rawreg 1", fmt.Sprintf("sg.emit %d", emitN+1), "sg.wire 1", "sg.wire 0",
		"sg.rawunreg 1", fmt.Sprintf("sg.emit %d", emitN+2), "sg.wire 1", "sg.got 0", "sg.rawreg 1", "sg.rawreg 1", "sg.rawunreg 1",
		fmt.Sprintf("sg.emit %d", emitN+3), "sg.wire 1", "sg.rawunreg 1", "sg.rawunreg 1", fmt.Sprintf("sg.emit %d", emitN+4), "sg.wire 1", "sg.wire 0", "sg.got 0",
	} {
		o.Do("P", l, true)
	}
	emitN += 4
	o.Count("scenario:several-registrations-on-one-connection")
	// a subscriber the server can no longer write to, registered between two others: they go on receiving
	for _, l := range []string{
		"sg.reset", "sg.conn", "sg.conn", "sg.conn", "sg.sub 0", "sg.sub 1", "sg.sub 2", fmt.Sprintf("sg.emit %d", emitN+1), "sg.got 0", "sg.got 2",
		"sg.mute 1", fmt.Sprintf("sg.emit %d", emitN+2), fmt.Sprintf("sg.emit %d", emitN+3), "sg.got 0", "sg.got 2", "sg.wire 0", "sg.wire 2",
	} {
		o.Do("P", l, true)
	}
	emitN += 3
	o.Count("scenario:a-subscriber-that-cannot-be-written-to")
	// a neighbour on the same connection that never reads
	if out := o.Do("P", "sg.stats", true); out != "ok" {
		o.Fail("subscribers of an object whose statistics are on: "+strings.SplitN(strings.TrimPrefix(out, "fail:"), " ", 2)[0], "sg.stats => "+out)
	}
	o.Count("scenario:statistics-on")
	if out := o.Do("P", "sg.neighbour", true); out != "ok" {
		o.Fail("subscriptions: "+strings.SplitN(strings.TrimPrefix(out, "fail:"), " ", 2)[0]+": a subscriber whose neighbour on the connection does not read", "sg.neighbour => "+out)
	}
	o.Count("scenario:a-neighbour-that-never-reads")
	// an unregistration acknowledged while an emission is between its copy of the users and its writes
	if out := o.Do("P", "sg.emitrace", true); sgLastRace == "late=1" {
		o.Fail("an event is sent after the acknowledgement of the removal: the emission had copied the users before", "sg.emitrace => late=1")
	} else if out != "late<=1" {
		o.Fail("subscriptions: emission against unregistration: "+out, "sg.emitrace => "+out)
	}
	o.Count("scenario:unregistration-during-an-emission")
	// events already queued for a subscriber when it asks to cancel are dropped (known finding)
	if out := o.Do("P", "sg.burstcancel 80", true); sgLastBurst == "lost" {
		o.Fail("events queued for a subscriber are dropped when it cancels", "sg.burstcancel 80 => lost")
	} else if out != "lost-or-ok" {
		o.Fail("subscriptions: burst then cancel: "+out, "sg.burstcancel 80 => "+out)
	}
	storms := [][3]int{{1, 2, 300}, {2, 2, 300}, {3, 3, 400}, {1, 4, 300}}
	if tier == "thorough" {
		storms = append(storms, [][3]int{{4, 4, 2000}, {2, 6, 2000}, {1, 8, 2000}, {6, 2, 2000}}...)
	}
	for _, st := range storms {
		line := fmt.Sprintf("sg.storm %d %d %d %d", st[0], st[1], st[2], r.U64()>>1)
		if out := o.Do("P", line, true); out != "ok" {
			cls := strings.SplitN(strings.TrimPrefix(out, "fail:"), ":", 2)[0]
			o.Fail("subscriptions: "+cls, line+" => "+out)
		}
		o.Count("storm")
		if t := int(atomic.LoadInt64(&sgMaxTail)); t > o.Counters["storm-longest-tail-dropped-at-cancel"] {
			o.Counters["storm-longest-tail-dropped-at-cancel"] = t
		}
	}
}
