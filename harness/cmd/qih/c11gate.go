package main

// C11: a call and a subscription made while the connection is being shut down — between the moment the endpoint has
// noticed the loss and the moment its stream's Close has returned.  Whatever was registered before, and whatever is
// registered in that window, must end: calls with an error, subscription channels closed, disconnect callbacks once.

import (
	"context"
	"errors"
	"fmt"
	"io"
	"io/ioutil"
	"log"
	"sync"
	"sync/atomic"
	"time"

	"github.com/lugu/qiloop/bus"
	qnet "github.com/lugu/qiloop/bus/net"
)

type gateStream struct {
	mu      sync.Mutex
	in      chan []byte
	pending []byte
	eof     chan struct{}
	entered chan struct{}
	gate    chan struct{}
	closed  chan struct{}
	once    sync.Once
	late    []byte // handed to the reader after the stream was closed: data that raced the close
	lateGo  chan struct{}
	deaf    bool // a transport whose Close does not wake a pending Read (a descriptor in blocking mode)
}

func (s *gateStream) Read(p []byte) (int, error) {
	for {
		s.mu.Lock()
		if len(s.pending) > 0 {
			n := copy(p, s.pending)
			s.pending = s.pending[n:]
			s.mu.Unlock()
			return n, nil
		}
		s.mu.Unlock()
		if s.deaf {
			select {
			case b := <-s.in:
				s.mu.Lock()
				s.pending = append(s.pending, b...)
				s.mu.Unlock()
			case <-s.eof:
				return 0, io.EOF
			}
			continue
		}
		select {
		case b := <-s.in:
			s.mu.Lock()
			s.pending = append(s.pending, b...)
			s.mu.Unlock()
		case <-s.eof:
			return 0, io.EOF
		case <-s.closed:
			if s.lateGo != nil {
				<-s.lateGo
			}
			s.mu.Lock()
			if len(s.late) > 0 {
				n := copy(p, s.late)
				s.late = s.late[n:]
				s.mu.Unlock()
				return n, nil
			}
			s.mu.Unlock()
			return 0, errors.New("use of closed stream")
		}
	}
}

// the stream takes writes until its Close has returned (a connection whose shutdown is under way still accepts them)
func (s *gateStream) Write(p []byte) (int, error) {
	select {
	case <-s.closed:
		return 0, errors.New("write on closed stream")
	default:
		return len(p), nil
	}
}

func (s *gateStream) Close() error {
	s.once.Do(func() {
		close(s.entered)
		<-s.gate
		close(s.closed)
	})
	return nil
}
func (s *gateStream) String() string            { return "gate://stream" }
func (s *gateStream) Context() context.Context { return context.TODO() }

// cl.closegate <how: eof|local>
func clCloseGate(a []string) string {
	log.SetOutput(ioutil.Discard)
	st := &gateStream{in: make(chan []byte, 8), eof: make(chan struct{}), entered: make(chan struct{}), gate: make(chan struct{}), closed: make(chan struct{})}
	ep := qnet.NewEndPoint(st)
	client := bus.NewClient(bus.NewContext(ep))
	type outcome struct {
		name string
		err  error
	}
	outs := make(chan outcome, 4)
	call := func(name string) {
		cancel := make(chan struct{})
		timer := time.AfterFunc(4*time.Second, func() { close(cancel) })
		_, err := client.Call(cancel, 5, 1, 100, []byte{1})
		timer.Stop()
		select {
		case <-cancel:
			err = nil // given up by the harness: the call was left waiting
		default:
		}
		outs <- outcome{name, err}
	}
	subscribe := func() (chan []byte, error) {
		_, ch, err := client.Subscribe(5, 1, 200)
		return ch, err
	}
	var cb int64
	client.OnDisconnect(func(error) { atomic.AddInt64(&cb, 1) })
	go call("A")
	sub1, err := subscribe()
	if err != nil {
		return "setup-error:" + err.Error()
	}
	time.Sleep(20 * time.Millisecond)
	// the loss
	if a[0] == "eof" {
		close(st.eof)
	} else {
		go ep.Close()
	}
	select {
	case <-st.entered:
	case <-time.After(3 * time.Second):
		return "fail:the stream is not closed after the loss"
	}
	// the window: the shutdown is inside the stream's Close
	go call("B")
	sub2ch := make(chan chan []byte, 1)
	go func() {
		ch, err := subscribe()
		if err != nil {
			ch = nil
		}
		sub2ch <- ch
	}()
	time.Sleep(30 * time.Millisecond)
	close(st.gate)
	for i := 0; i < 2; i++ {
		select {
		case o := <-outs:
			if o.err == nil {
				return fmt.Sprintf("fail:call %s was left waiting after the connection was lost", o.name)
			}
		case <-time.After(6 * time.Second):
			return "fail:a call did not return"
		}
	}
	closedSoon := func(ch chan []byte) bool {
		for {
			select {
			case _, ok := <-ch:
				if !ok {
					return true
				}
			case <-time.After(3 * time.Second):
				return false
			}
		}
	}
	if !closedSoon(sub1) {
		return "fail:the channel of the subscription made before the loss is not closed"
	}
	select {
	case ch := <-sub2ch:
		if ch != nil && !closedSoon(ch) {
			return "fail:the channel of the subscription made during the shutdown is not closed"
		}
	case <-time.After(3 * time.Second):
		return "fail:the subscription made during the shutdown did not return"
	}
	time.Sleep(5 * time.Millisecond)
	if n := atomic.LoadInt64(&cb); n != 1 {
		return fmt.Sprintf("fail:the disconnect callback ran %d times", n)
	}
	return "ok"
}

// cl.closegate late: the local side closes the connection while the last bytes of a message are on their way; the reader
// gets them after the close (a read that raced it) and the message is dispatched on the closed endpoint.  What is asked
// of the connection afterwards fails, at once.
func clCloseLate() string {
	log.SetOutput(ioutil.Discard)
	hdr := qnet.NewHeader(qnet.Reply, 5, 1, 100, 999)
	hdr.Size = 4
	frame := wireOf(hdr, []byte{1, 2, 3, 4})
	st := &gateStream{in: make(chan []byte, 8), eof: make(chan struct{}), entered: make(chan struct{}), gate: make(chan struct{}), closed: make(chan struct{})}
	st.late = frame[len(frame)-3:]
	st.lateGo = make(chan struct{})
	ep := qnet.NewEndPoint(st)
	client := bus.NewClient(bus.NewContext(ep))
	var cb int64
	client.OnDisconnect(func(error) { atomic.AddInt64(&cb, 1) })
	st.in <- frame[:len(frame)-3]
	time.Sleep(20 * time.Millisecond)
	go ep.Close()
	select {
	case <-st.entered:
	case <-time.After(3 * time.Second):
		return "fail:the stream is not closed after the loss"
	}
	close(st.gate)
	time.Sleep(30 * time.Millisecond)
	close(st.lateGo) // the shutdown is over: now the reader gets the last bytes
	time.Sleep(30 * time.Millisecond)
	type outcome struct {
		name string
		err  error
	}
	outs := make(chan outcome, 2)
	go func() {
		cancel := make(chan struct{})
		timer := time.AfterFunc(3*time.Second, func() { close(cancel) })
		_, err := client.Call(cancel, 5, 1, 100, []byte{1})
		timer.Stop()
		select {
		case <-cancel:
			err = nil
		default:
		}
		outs <- outcome{"call", err}
	}()
	go func() {
		_, ch, err := client.Subscribe(5, 1, 200)
		if err == nil {
			select {
			case _, ok := <-ch:
				if !ok {
					err = errors.New("closed")
				}
			case <-time.After(3 * time.Second):
			}
		}
		outs <- outcome{"subscription", err}
	}()
	for i := 0; i < 2; i++ {
		select {
		case o := <-outs:
			if o.err == nil {
				return fmt.Sprintf("fail:a %s made after the connection was closed was left waiting", o.name)
			}
		case <-time.After(5 * time.Second):
			return "fail:a call or a subscription made after the connection was closed did not return"
		}
	}
	if n := atomic.LoadInt64(&cb); n != 1 {
		return fmt.Sprintf("fail:the disconnect callback ran %d times", n)
	}
	return "ok"
}

// cl.closegate deaf: the local side closes a connection whose transport does not wake the pending read.  The calls in
// flight end with an error, the subscription channels are closed, the callbacks run once — the close does not wait for
// the reader.
func clCloseDeaf() string {
	log.SetOutput(ioutil.Discard)
	st := &gateStream{in: make(chan []byte, 8), eof: make(chan struct{}), entered: make(chan struct{}), gate: make(chan struct{}), closed: make(chan struct{}), deaf: true}
	close(st.gate)
	defer close(st.eof)
	ep := qnet.NewEndPoint(st)
	client := bus.NewClient(bus.NewContext(ep))
	var cb int64
	client.OnDisconnect(func(error) { atomic.AddInt64(&cb, 1) })
	outs := make(chan error, 3)
	for i := 0; i < 3; i++ {
		go func() {
			cancel := make(chan struct{})
			timer := time.AfterFunc(4*time.Second, func() { close(cancel) })
			_, err := client.Call(cancel, 5, 1, 100, []byte{1})
			timer.Stop()
			select {
			case <-cancel:
				err = nil
			default:
			}
			outs <- err
		}()
	}
	_, sub, err := client.Subscribe(5, 1, 200)
	if err != nil {
		return "setup-error:" + err.Error()
	}
	time.Sleep(30 * time.Millisecond)
	closed := make(chan struct{})
	go func() { ep.Close(); close(closed) }()
	select {
	case <-closed:
	case <-time.After(3 * time.Second):
		return "fail:the local close does not return"
	}
	for i := 0; i < 3; i++ {
		select {
		case err := <-outs:
			if err == nil {
				return "fail:a call in flight was left waiting after the local close of a connection whose read does not wake"
			}
		case <-time.After(6 * time.Second):
			return "fail:a call did not return"
		}
	}
	select {
	case _, ok := <-sub:
		if ok {
			return "fail:an event on a closed connection"
		}
	case <-time.After(3 * time.Second):
		return "fail:the channel of a subscription is not closed after the local close of a connection whose read does not wake"
	}
	time.Sleep(5 * time.Millisecond)
	if n := atomic.LoadInt64(&cb); n != 1 {
		return fmt.Sprintf("fail:the disconnect callback ran %d times", n)
	}
	return "ok"
}

func init() {
	executors["cl.closegate"] = func(a []string) string {
		if len(a) == 1 && a[0] == "deaf" {
			r := clCloseDeaf()
			if r != "ok" {
				lastFailDetail = r
			}
			return r
		}
		if len(a) == 1 && a[0] == "late" {
			r := clCloseLate()
			if r != "ok" {
				lastFailDetail = r
			}
			return r
		}
		r := clCloseGate(a)
		if r != "ok" {
			lastFailDetail = r
		}
		return r
	}
}
