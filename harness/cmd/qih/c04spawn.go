package main

// C04: an object executes a slow call while its mailbox is full and the readers of two other connections wait to queue
// one more call each; the next call in the queue makes the object add a child object to its service.  Every call is
// executed once and gets one answer, its own.
//
// sv.spawnfull

import (
	"encoding/binary"
	"fmt"
	"io/ioutil"
	"log"
	"sync"
	"time"

	"github.com/lugu/qiloop/bus"
	qnet "github.com/lugu/qiloop/bus/net"
	"github.com/lugu/qiloop/bus/util"
)

type spawnChild struct{}

func (spawnChild) Receive(m *qnet.Message, from bus.Channel) error { return from.SendReply(m, m.Payload) }
func (spawnChild) Activate(bus.Activation) error                     { return nil }
func (spawnChild) OnTerminate()                                      {}

type spawnActor struct {
	sync.Mutex
	act     bus.Activation
	runs    map[uint32]int
	entered chan struct{}
	gate    chan struct{}
}

func (a *spawnActor) Activate(act bus.Activation) error { a.act = act; return nil }
func (a *spawnActor) OnTerminate()                      {}
func (a *spawnActor) Receive(m *qnet.Message, from bus.Channel) error {
	if m.Header.Type != qnet.Call {
		return nil
	}
	if len(m.Payload) == 4 {
		a.Lock()
		a.runs[binary.LittleEndian.Uint32(m.Payload)]++
		a.Unlock()
	}
	switch m.Header.Action {
	case 100: // echo
	case 101: // slow
		a.entered <- struct{}{}
		select {
		case <-a.gate:
		case <-time.After(20 * time.Second):
		}
	case 102: // spawn
		if _, err := a.act.Service.Add(spawnChild{}); err != nil {
			return from.SendError(m, err)
		}
	default:
		return from.SendError(m, bus.ErrActionNotFound)
	}
	return from.SendReply(m, m.Payload)
}

func svSpawnFull(a []string) string {
	log.SetOutput(ioutil.Discard)
	addr := util.NewUnixAddr()
	l, err := qnet.Listen(addr)
	if err != nil {
		return "setup-error:" + err.Error()
	}
	srv, err := bus.StandAloneServer(l, bus.Yes{}, bus.PrivateNamespace())
	if err != nil {
		return "setup-error:" + err.Error()
	}
	defer func() {
		done := make(chan struct{})
		go func() { srv.Terminate(); close(done) }()
		select {
		case <-done:
		case <-time.After(3 * time.Second):
		}
	}()
	actor := &spawnActor{runs: map[uint32]int{}, entered: make(chan struct{}, 1), gate: make(chan struct{})}
	svc, err := srv.NewService("Spawn", actor)
	if err != nil {
		return "setup-error:" + err.Error()
	}
	sid := svc.ServiceID()
	var conns []*lendRaw
	for i := 0; i < 3; i++ {
		c, err := lendDial(addr)
		if err != nil {
			return "setup-error:" + err.Error()
		}
		defer c.conn.Close()
		conns = append(conns, c)
	}
	call := func(c *lendRaw, action, id uint32) {
		p := make([]byte, 4)
		binary.LittleEndian.PutUint32(p, id)
		c.send(qnet.NewHeader(qnet.Call, sid, 1, action, id), p)
	}
	call(conns[0], 101, 1)
	select {
	case <-actor.entered:
	case <-time.After(3 * time.Second):
		return "setup-error:the slow call does not start"
	}
	call(conns[0], 102, 2) // the next one the object runs adds a child
	for id := uint32(3); id <= 11; id++ {
		call(conns[0], 100, id)
	}
	time.Sleep(150 * time.Millisecond) // the mailbox is full
	call(conns[1], 100, 100)
	call(conns[2], 100, 101)
	time.Sleep(300 * time.Millisecond) // the readers of two connections wait to queue
	close(actor.gate)
	want := map[int][]uint32{0: {1, 2, 3, 4, 5, 6, 7, 8, 9, 10, 11}, 1: {100}, 2: {101}}
	for k, ids := range want {
		got := map[uint32]int{}
		deadline := time.After(6 * time.Second)
		for n := 0; n < len(ids); {
			select {
			case m, ok := <-conns[k].in:
				if !ok {
					return "fail:unanswered a connection is closed"
				}
				if m.Header.Type != qnet.Reply || len(m.Payload) != 4 || binary.LittleEndian.Uint32(m.Payload) != m.Header.ID {
					return fmt.Sprintf("fail:wrong-answer call %d got type %d payload %x", m.Header.ID, m.Header.Type, m.Payload)
				}
				got[m.Header.ID]++
				n++
			case <-deadline:
				var missing []uint32
				for _, id := range ids {
					if got[id] == 0 {
						missing = append(missing, id)
					}
				}
				return fmt.Sprintf("fail:unanswered calls %v never answered (a full mailbox, two more connections waiting, the object adds a child)", missing)
			}
		}
		for _, id := range ids {
			if got[id] != 1 {
				return fmt.Sprintf("fail:answers call %d got %d answers", id, got[id])
			}
		}
	}
	actor.Lock()
	defer actor.Unlock()
	for id, n := range actor.runs {
		if n != 1 {
			return fmt.Sprintf("fail:runs call %d ran %d times", id, n)
		}
	}
	if len(actor.runs) != 13 {
		return fmt.Sprintf("fail:runs %d calls ran of 13", len(actor.runs))
	}
	return "ok"
}

func init() {
	executors["sv.spawnfull"] = func(a []string) string {
		r := svSpawnFull(a)
		if r != "ok" {
			lastFailDetail = r
		}
		return r
	}
}
