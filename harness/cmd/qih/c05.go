package main

// C05 — generated proxy and stub: the generated package is compiled and run.
//
// gen.pkg <idl hex>       parse, generate (stub.GeneratePackage: implementor interface, stub, proxy,
//                         structs), add a generated implementor, go build in a scratch module, start the
//                         driver (harness/c05drv): every interface served by a real server, reached
//                         through a real session.  Answer: ok | <stage>-error …
// gen.call / gen.signal / gen.prop / gen.update
//                         one operation through the generated proxy / helper of the current package;
//                         values travel to the driver as bytes of the documented layout.

import (
	"bufio"
	"bytes"
	"fmt"
	"go/ast"
	"go/parser"
	"go/printer"
	"go/token"
	"io"
	"os"
	"os/exec"
	"path/filepath"
	"sort"
	"strings"
	"time"

	"github.com/lugu/qiloop/meta/idl"
	"github.com/lugu/qiloop/meta/signature"
	"github.com/lugu/qiloop/meta/stub"
	"github.com/lugu/qiloop/type/object"
)

// ---- generated packages ----

type c05Param struct {
	name string
	t    *sigT
}

type c05Action struct {
	kind   string // fn sig prop
	name   string
	params []c05Param
	ret    *sigT // nil: nothing
}

type c05Itf struct {
	name    string
	actions []c05Action
}

type c05Pkg struct {
	name    string
	structs []*sigT
	itfs    []c05Itf
}

var c05Keyword = map[byte]string{'c': "int8", 'C': "uint8", 'w': "int16", 'W': "uint16", 'i': "int32", 'I': "uint32",
	'l': "int64", 'L': "uint64", 'f': "float32", 'd': "float64", 'b': "bool", 's': "str", 'm': "any", 'o': "obj",
	'v': "nothing", 'X': "unknown"}

func c05IDLType(t *sigT) string {
	switch t.kind {
	case '[':
		return "Vec<" + c05IDLType(t.elems[0]) + ">"
	case '{':
		return "Map<" + c05IDLType(t.elems[0]) + "," + c05IDLType(t.elems[1]) + ">"
	case '(':
		p := make([]string, len(t.elems))
		for i, e := range t.elems {
			p[i] = c05IDLType(e)
		}
		return "Tuple<" + strings.Join(p, ",") + ">"
	case 'S':
		return t.name
	}
	return c05Keyword[t.kind]
}

func (p *c05Pkg) idl() string {
	var b strings.Builder
	fmt.Fprintf(&b, "package %s\n", p.name)
	for _, s := range p.structs {
		fmt.Fprintf(&b, "struct %s\n", s.name)
		for i, m := range s.members {
			fmt.Fprintf(&b, "\t%s: %s\n", m, c05IDLType(s.elems[i]))
		}
		b.WriteString("end\n")
	}
	for _, itf := range p.itfs {
		fmt.Fprintf(&b, "interface %s\n", itf.name)
		for _, a := range itf.actions {
			ps := make([]string, len(a.params))
			for i, q := range a.params {
				ps[i] = q.name + ": " + c05IDLType(q.t)
			}
			line := fmt.Sprintf("\t%s %s(%s)", a.kind, a.name, strings.Join(ps, ", "))
			if a.kind == "fn" && a.ret != nil {
				line += " -> " + c05IDLType(a.ret)
			}
			b.WriteString(line + "\n")
		}
		b.WriteString("end\n")
	}
	return b.String()
}

var c05Scalars = "IisLlbfdmcCwW"

// c05GenType: the types of the class: every scalar, strings, dynamic values, lists, maps with
// comparable scalar keys, tuples, the package's structs.
func c05GenType(r *Rand, depth int, structs []*sigT) *sigT {
	if depth <= 0 || r.Chance(35) {
		if len(structs) > 0 && r.Chance(25) {
			return structs[r.Intn(len(structs))]
		}
		return &sigT{kind: c05Scalars[r.Intn(len(c05Scalars))]}
	}
	switch r.Intn(4) {
	case 0:
		return &sigT{kind: '[', elems: []*sigT{c05GenType(r, depth-1, structs)}}
	case 1:
		return &sigT{kind: '{', elems: []*sigT{{kind: mapKeyLetters[r.Intn(len(mapKeyLetters))]}, c05GenType(r, depth-1, structs)}}
	case 2:
		n := 1 + r.Intn(3)
		if r.Chance(8) {
			n = 0
		}
		t := &sigT{kind: '('}
		for i := 0; i < n; i++ {
			t.elems = append(t.elems, c05GenType(r, depth-1, structs))
		}
		return t
	default:
		if len(structs) > 0 {
			return structs[r.Intn(len(structs))]
		}
		return &sigT{kind: c05Scalars[r.Intn(len(c05Scalars))]}
	}
}

var c05StructNames = []string{"Point", "Item", "Config_2", "record", "Node9", "Pair", "T", "Info"}
var c05MemberNames = []string{"x", "y", "name", "value", "uid", "zed", "a", "b", "count_1", "Label", "inner", "data2"}
var c05ParamNames = []string{"alpha", "beta", "gamma", "delta", "count", "label", "items", "table", "flag", "x1", "y_2",
	"Zed", "camelCase", "with_underscore", "a", "b", "n", "val", "data", "key", "id", "index"}
var c05ActionNames = []string{"echo", "compute", "fetchAll", "store", "ping", "transform", "run2", "Merge", "clear_all",
	"lookup", "apply", "reset", "send", "resolve", "tick", "changed", "level", "position", "mode", "state_1", "Counter",
	"threshold", "alarm", "progress"}
var c05ItfNames = []string{"Svc", "Engine", "Store2", "worker", "Remote_ctl"}
var c05PkgNames = []string{"gen", "svc2", "pkg_a", "robot"}

var c05Generated int // packages drawn in this run

func c05GenPkg(r *Rand) *c05Pkg {
	p := &c05Pkg{name: c05PkgNames[r.Intn(len(c05PkgNames))]}
	ns := r.Intn(4)
	small := r.Chance(40) // small packages: what the generated file imports depends on what else it contains
	if small {
		ns = r.Intn(2)
	}
	sperm := permN(r, len(c05StructNames))
	for i := 0; i < ns; i++ {
		s := &sigT{kind: 'S', name: c05StructNames[sperm[i]]}
		nm := 1 + r.Intn(4)
		if r.Chance(6) {
			nm = 0
		}
		mperm := permN(r, len(c05MemberNames))
		for j := 0; j < nm; j++ {
			s.members = append(s.members, c05MemberNames[mperm[j]])
			s.elems = append(s.elems, c05GenType(r, 2, p.structs)) // earlier structs only
		}
		p.structs = append(p.structs, s)
	}
	ni := 1 + r.Intn(2)
	if small {
		ni = 1
	}
	// action names are distinct in the whole package: a signal or property with several parameters
	// declares a struct of its name (listed finding struct-name-collision)
	aperm := permN(r, len(c05ActionNames))
	anext := 0
	iperm := permN(r, len(c05ItfNames))
	for i := 0; i < ni; i++ {
		itf := c05Itf{name: c05ItfNames[iperm[i]]}
		na := 3 + r.Intn(6)
		if small {
			na = 1 + r.Intn(2)
		}
		for j := 0; j < na && anext < len(aperm); j++ {
			a := c05Action{name: c05ActionNames[aperm[anext]]}
			anext++
			pperm := permN(r, len(c05ParamNames))
			np := 0
			switch k := r.Intn(10); {
			case k < 6:
				a.kind = "fn"
				np = r.Intn(4)
				if r.Chance(75) {
					a.ret = c05GenType(r, 2, p.structs)
				}
			case k < 8:
				a.kind = "sig"
				np = 1 + r.Intn(3)
			default:
				a.kind = "prop"
				np = 1
				if r.Chance(25) {
					np = 2 + r.Intn(2)
				}
			}
			for q := 0; q < np; q++ {
				t := c05GenType(r, 2, p.structs)
				for a.kind == "prop" && np == 1 && t.kind == 'm' { // a property of type any: known finding, exercised by c05Known
					t = c05GenType(r, 2, p.structs)
				}
				a.params = append(a.params, c05Param{c05ParamNames[pperm[q]], t})
			}
			itf.actions = append(itf.actions, a)
			// the same method name with other parameters (the Go methods are told apart by a suffix, the calls by
			// the signature of the parameters)
			if a.kind == "fn" && r.Chance(20) {
				for tries := 0; tries < 4; tries++ {
					b := c05Action{kind: "fn", name: a.name}
					if r.Chance(75) {
						b.ret = c05GenType(r, 2, p.structs)
					}
					np := r.Intn(4)
					for q := 0; q < np; q++ {
						b.params = append(b.params, c05Param{c05ParamNames[pperm[(q+5)%len(pperm)]], c05GenType(r, 1, p.structs)})
					}
					same := false
					for _, e := range itf.actions {
						if e.kind == "fn" && e.name == b.name && c05ParamSig(e) == c05ParamSig(b) {
							same = true
						}
					}
					if !same {
						itf.actions = append(itf.actions, b)
						break
					}
				}
			}
		}
		p.itfs = append(p.itfs, itf)
	}
	c05Generated++
	if c05Generated == 1 || (!small && r.Chance(30)) {
		// properties whose value has a list (a map) of elements of a fixed size followed by another member: the values
		// the harness draws for them hold a few thousand elements (c05Lengthen)
		p.itfs = append(p.itfs, c05Itf{name: "RangeFinder", actions: []c05Action{
			{kind: "prop", name: "lastScan", params: []c05Param{{"ranges", parseSigT("[f]")}, {"seq", parseSigT("i")}}},
			{kind: "prop", name: "histogram", params: []c05Param{{"bins", parseSigT("[I]")}, {"label", parseSigT("s")}}},
		}})
	}
	return p
}

// ---- the current package: generated, built, running ----

type c05GoNames struct {
	kind                                         string
	proxy, impl                                  string // fn
	helper, subscribe                            string // sig
	get, set, update, onChange, propertySubcribe string // prop
	params                                       []*sigT
	ret                                          *sigT
	valueT                                       *sigT // the event / property type
}

type c05Session struct {
	dir     string
	cmd     *exec.Cmd
	in      io.WriteCloser
	out     *bufio.Reader
	actions map[string]*c05GoNames // "Itf.action"
	stderr  *bytes.Buffer
}

var c05Cur *c05Session

func (s *c05Session) close() {
	if s == nil {
		return
	}
	if s.in != nil {
		s.in.Close()
	}
	if s.cmd != nil && s.cmd.Process != nil {
		done := make(chan struct{})
		go func() { s.cmd.Wait(); close(done) }()
		select {
		case <-done:
		case <-time.After(3 * time.Second):
			s.cmd.Process.Kill()
			<-done
		}
	}
	if s.dir != "" {
		os.RemoveAll(s.dir)
	}
}

func (s *c05Session) ask(line string) string {
	if s == nil || s.in == nil {
		return "no-package"
	}
	if _, err := io.WriteString(s.in, line+"\n"); err != nil {
		return "driver-gone"
	}
	ch := make(chan string, 1)
	go func() {
		l, err := s.out.ReadString('\n')
		if err != nil {
			ch <- "driver-gone"
			return
		}
		ch <- strings.TrimRight(l, "\n")
	}()
	select {
	case l := <-ch:
		return l
	case <-time.After(20 * time.Second):
		s.cmd.Process.Kill()
		return "driver-hangs"
	}
}

func firstLine(s string) string {
	for _, l := range strings.Split(s, "\n") {
		l = strings.TrimSpace(l)
		if l != "" && !strings.HasPrefix(l, "#") && !strings.HasPrefix(l, "WARNING") {
			if len(l) > 200 {
				l = l[:200]
			}
			return l
		}
	}
	return ""
}

// c05TypeOfSig maps a parsed IDL type back to the harness's type (by signature).
func c05FromSig(sig string) *sigT { return parseSigT(sig) }

// c05Impl writes the implementor of every <Itf>Implementor interface found in the generated source.
func c05Impl(pkgName string, src []byte, itfs []string) (string, error) {
	fset := token.NewFileSet()
	f, err := parser.ParseFile(fset, "gen.go", src, 0)
	if err != nil {
		return "", err
	}
	var b strings.Builder
	fmt.Fprintf(&b, "package %s\n\nimport (\n\tbus \"github.com/lugu/qiloop/bus\"\n\tobject \"github.com/lugu/qiloop/type/object\"\n\tvalue \"github.com/lugu/qiloop/type/value\"\n\t\"qiverif/harness/c05drv\"\n)\n\n", pkgName)
	b.WriteString("var _ value.Value\nvar _ object.MetaObject\n\n")
	typeStr := func(e ast.Expr) string {
		var tb bytes.Buffer
		printer.Fprint(&tb, fset, e)
		return tb.String()
	}
	found := map[string]bool{}
	for _, d := range f.Decls {
		gd, ok := d.(*ast.GenDecl)
		if !ok {
			continue
		}
		for _, sp := range gd.Specs {
			ts, ok := sp.(*ast.TypeSpec)
			if !ok || !strings.HasSuffix(ts.Name.Name, "Implementor") {
				continue
			}
			it, ok := ts.Type.(*ast.InterfaceType)
			if !ok {
				continue
			}
			itf := strings.TrimSuffix(ts.Name.Name, "Implementor")
			found[itf] = true
			fmt.Fprintf(&b, "type c05impl%s struct{ rec *c05drv.Rec }\n\n", itf)
			fmt.Fprintf(&b, "func (i *c05impl%s) Activate(activation bus.Activation, helper %sSignalHelper) error {\n\ti.rec.SetHelper(%q, helper)\n\treturn nil\n}\n\n", itf, itf, itf)
			fmt.Fprintf(&b, "func (i *c05impl%s) OnTerminate() {}\n\n", itf)
			for _, m := range it.Methods.List {
				ft, ok := m.Type.(*ast.FuncType)
				if !ok || len(m.Names) != 1 {
					continue
				}
				name := m.Names[0].Name
				if name == "Activate" || name == "OnTerminate" {
					continue
				}
				var ps, as []string
				k := 0
				if ft.Params != nil {
					for _, fl := range ft.Params.List {
						n := len(fl.Names)
						if n == 0 {
							n = 1
						}
						for j := 0; j < n; j++ {
							ps = append(ps, fmt.Sprintf("a%d %s", k, typeStr(fl.Type)))
							as = append(as, fmt.Sprintf("a%d", k))
							k++
						}
					}
				}
				key := itf + "." + name
				nres := 0
				if ft.Results != nil {
					nres = len(ft.Results.List)
				}
				gotArgs := ""
				if len(as) > 0 {
					gotArgs = ", " + strings.Join(as, ", ")
				}
				switch nres {
				case 1:
					fmt.Fprintf(&b, "func (i *c05impl%s) %s(%s) error {\n\ti.rec.Got(%q%s)\n\treturn i.rec.Err(%q)\n}\n\n", itf, name, strings.Join(ps, ", "), key, gotArgs, key)
				case 2:
					rt := typeStr(ft.Results.List[0].Type)
					fmt.Fprintf(&b, "func (i *c05impl%s) %s(%s) (%s, error) {\n\ti.rec.Got(%q%s)\n\tr, _ := i.rec.Ret(%q).(%s)\n\treturn r, i.rec.Err(%q)\n}\n\n", itf, name, strings.Join(ps, ", "), rt, key, gotArgs, key, rt, key)
				default:
					return "", fmt.Errorf("implementor method %s with %d results", name, nres)
				}
			}
		}
	}
	b.WriteString("// Registry lists the generated interfaces.\nfunc Registry() []c05drv.Entry {\n\treturn []c05drv.Entry{\n")
	for _, itf := range itfs {
		if !found[itf] {
			return "", fmt.Errorf("no %sImplementor in the generated code", itf)
		}
		fmt.Fprintf(&b, "\t\t{Name: %q, Object: func(rec *c05drv.Rec) bus.Actor { return %sObject(&c05impl%s{rec}) }, Make: func(s bus.Session, p bus.Proxy) interface{} { return Make%s(s, p) }},\n",
			itf, itf, itf, signature.CleanName(itf))
	}
	b.WriteString("\t}\n}\n")
	return b.String(), nil
}

func c05Open(idlText []byte) (sess *c05Session, res string) { return c05OpenMode(idlText, true) }

// c05OpenMode: with run == false only the generated package is compiled.
func c05OpenMode(idlText []byte, run bool) (sess *c05Session, res string) {
	sess = &c05Session{actions: map[string]*c05GoNames{}}
	// 1. parse
	var pkg *idl.PackageDeclaration
	var err error
	func() {
		defer func() {
			if e := recover(); e != nil {
				err = fmt.Errorf("panic: %v", e)
			}
		}()
		pkg, err = idl.ParsePackage(idlText)
	}()
	if err != nil {
		return sess, "parse-error " + firstLine(err.Error())
	}
	// 2. generate
	var gen bytes.Buffer
	func() {
		defer func() {
			if e := recover(); e != nil {
				err = fmt.Errorf("panic: %v", e)
			}
		}()
		err = stub.GeneratePackage(&gen, "c05gen/gen", pkg)
	}()
	if err != nil {
		return sess, "generate-error " + firstLine(err.Error())
	}
	var itfNames []string
	for _, typ := range pkg.Types {
		itf, ok := typ.(*idl.InterfaceType)
		if !ok {
			continue
		}
		itfNames = append(itfNames, itf.Name)
		meta := itf.MetaObject()
		meta.ForEachMethodAndSignal(func(m object.MetaMethod, methodName string) error {
			me := itf.Methods[m.Uid]
			g := &c05GoNames{kind: "fn", proxy: signature.CleanMethodName(methodName), impl: methodName}
			for _, q := range me.Params {
				g.params = append(g.params, c05FromSig(q.Type.Signature()))
			}
			if me.Return.Signature() != "v" {
				g.ret = c05FromSig(me.Return.Signature())
			}
			sess.actions[itf.Name+"."+m.Name+m.ParametersSignature] = g
			return nil
		}, func(s object.MetaSignal, signalName string) error {
			si := itf.Signals[s.Uid]
			g := &c05GoNames{kind: "sig", helper: "Signal" + signalName, subscribe: signature.CleanName("Subscribe" + signalName)}
			for _, q := range si.Params {
				g.params = append(g.params, c05FromSig(q.Type.Signature()))
			}
			g.valueT = c05FromSig(si.Type().Signature())
			sess.actions[itf.Name+"."+s.Name] = g
			return nil
		}, func(p object.MetaProperty, propertyName string) error {
			pr := itf.Properties[p.Uid]
			g := &c05GoNames{kind: "prop", get: "Get" + propertyName, set: "Set" + propertyName, update: "Update" + propertyName,
				onChange: "On" + propertyName + "Change", propertySubcribe: "Subscribe" + propertyName}
			for _, q := range pr.Params {
				g.params = append(g.params, c05FromSig(q.Type.Signature()))
			}
			g.valueT = c05FromSig(pr.Type().Signature())
			sess.actions[itf.Name+"."+p.Name] = g
			return nil
		})
	}
	if len(itfNames) == 0 {
		return sess, "no-interface"
	}
	// 3. scratch module
	dir, err := os.MkdirTemp("", "qih-c05-")
	if err != nil {
		return sess, "scratch-error"
	}
	sess.dir = dir
	repo := os.Getenv("QIH_REPO")
	if repo == "" {
		repo = "/repo"
	}
	harness := os.Getenv("QIH_HARNESS")
	if harness == "" {
		harness = "/verif/harness"
	}
	os.MkdirAll(filepath.Join(dir, "gen"), 0o755)
	gomod := fmt.Sprintf("module c05gen\n\ngo 1.13\n\nrequire (\n\tgithub.com/lugu/qiloop v0.0.0\n\tqiverif/harness v0.0.0\n)\n\nreplace github.com/lugu/qiloop => %s\n\nreplace qiverif/harness => %s\n", repo, harness)
	os.WriteFile(filepath.Join(dir, "go.mod"), []byte(gomod), 0o644)
	if sum, err := os.ReadFile(filepath.Join(harness, "go.sum")); err == nil {
		os.WriteFile(filepath.Join(dir, "go.sum"), sum, 0o644)
	}
	os.WriteFile(filepath.Join(dir, "gen", "gen.go"), gen.Bytes(), 0o644)
	os.WriteFile(filepath.Join(dir, "main.go"), []byte("package main\n\nimport (\n\tg \"c05gen/gen\"\n\t\"qiverif/harness/c05drv\"\n)\n\nfunc main() { c05drv.Run(g.Registry()) }\n"), 0o644)
	goenv := append(os.Environ(), "GOFLAGS=-mod=mod", "GOPROXY=off", "GOSUMDB=off", "GOTOOLCHAIN=local", "CGO_ENABLED=0")
	// 4. the generated code alone must compile
	build := func(args ...string) (string, error) {
		c := exec.Command("go", args...)
		c.Dir = dir
		c.Env = goenv
		out, err := c.CombinedOutput()
		return string(out), err
	}
	if out, err := build("build", "./gen"); err != nil {
		os.WriteFile(filepath.Join(os.Getenv("QIH_WORK"), "c05-last-build-error.txt"), []byte(out+"\n----\n"+string(idlText)+"\n----\n"+gen.String()), 0o644)
		return sess, "build-error " + c05BuildClass(out)
	}
	if !run {
		return sess, "ok"
	}
	// 5. implementor + driver
	impl, err := c05Impl(pkg.Name, gen.Bytes(), itfNames)
	if err != nil {
		return sess, "harness-error implementor: " + firstLine(err.Error())
	}
	os.WriteFile(filepath.Join(dir, "gen", "impl.go"), []byte(impl), 0o644)
	if out, err := build("build", "-o", "drv", "."); err != nil {
		os.WriteFile(filepath.Join(os.Getenv("QIH_WORK"), "c05-last-build-error.txt"), []byte(out+"\n----\n"+impl), 0o644)
		return sess, "harness-error driver build: " + firstLine(out)
	}
	// 6. run
	cmd := exec.Command(filepath.Join(dir, "drv"))
	cmd.Dir = dir
	sess.stderr = &bytes.Buffer{}
	cmd.Stderr = sess.stderr
	in, _ := cmd.StdinPipe()
	outp, _ := cmd.StdoutPipe()
	if err := cmd.Start(); err != nil {
		return sess, "start-error"
	}
	sess.cmd, sess.in, sess.out = cmd, in, bufio.NewReaderSize(outp, 1<<20)
	ready := make(chan string, 1)
	go func() {
		l, err := sess.out.ReadString('\n')
		if err != nil {
			ready <- "start-error driver exited: " + firstLine(sess.stderr.String())
			return
		}
		ready <- strings.TrimSpace(l)
	}()
	select {
	case l := <-ready:
		if l != "READY" {
			return sess, "start-error " + l
		}
	case <-time.After(30 * time.Second):
		cmd.Process.Kill()
		return sess, "start-error timeout"
	}
	return sess, "ok"
}

// c05BuildClass: the compiler's first complaint without positions.
func c05BuildClass(out string) string {
	l := firstLine(out)
	if i := strings.Index(l, ".go:"); i >= 0 {
		rest := l[i+4:]
		// line:col: message
		parts := strings.SplitN(rest, ": ", 2)
		if len(parts) == 2 {
			return parts[1]
		}
	}
	return l
}

func execGenPkg(a []string) string {
	c05Cur.close()
	c05Cur = nil
	sess, res := c05Open(unhx(a[0]))
	if res != "ok" {
		sess.close()
		return res
	}
	c05Cur = sess
	return "ok"
}

// c05Split: the value tokens of a tuple, per element, as "sig hex" pairs
func c05Pairs(ts []*sigT, vs []*tval) string {
	var p []string
	for i, t := range ts {
		p = append(p, t.String(), hx(encD(t, vs[i])))
	}
	return strings.Join(p, " ")
}

func c05RenderHex(t *sigT, h string) string {
	v, rest, ok := decD(t, unhx(h))
	if !ok || len(rest) != 0 {
		return "undecodable:" + h
	}
	return renderTValD(t, v)
}

func c05RenderGot(ts []*sigT, got string) string {
	if got == "none" {
		if len(ts) == 0 {
			return "()"
		}
		return "none"
	}
	hs := strings.Split(got, ",")
	if len(hs) != len(ts) {
		return "arity:" + got
	}
	p := make([]string, len(ts))
	for i, t := range ts {
		p[i] = c05RenderHex(t, hs[i])
	}
	return "(" + strings.Join(p, ",") + ")"
}

func c05Action_(a []string) (*c05GoNames, string) {
	if c05Cur == nil {
		return nil, ""
	}
	g := c05Cur.actions[a[0]+"."+a[1]]
	if g == nil && len(a) > 3 { // a method: several may share the name, the parameters tell them apart
		g = c05Cur.actions[a[0]+"."+a[1]+string(unhx(a[3]))]
	}
	return g, a[0]
}

// the verb sent to the driver of the generated package: "call", or "callheld" — the same call through a proxy whose
// client lets another caller make a whole call of the same method, with other arguments, after the arguments of this
// one have been encoded and before its message is written
var c05CallVerb = "call"

// gen.callheld: as gen.call, with another caller's call in the middle
func execGenCallHeld(a []string) string {
	c05CallVerb = "callheld"
	defer func() { c05CallVerb = "call" }()
	return execGenCall(a)
}

// gen.call <itf> <action> <retsighex|-> <paramssighex> [ret tokens] params-tuple tokens
func execGenCall(a []string) string {
	g, itf := c05Action_(a)
	if g == nil || g.kind != "fn" {
		return "no-action"
	}
	toks := a[4:]
	retPart := "- -"
	var retT *sigT
	if a[2] != "-" {
		retT = parseSigT(string(unhx(a[2])))
		var rv *tval
		rv, toks = parseTValTokens(toks)
		retPart = retT.String() + " " + hx(encD(retT, rv))
	}
	pt := parseSigT(string(unhx(a[3])))
	pv, _ := parseTValTokens(toks)
	line := fmt.Sprintf("%s %s %s %s %s %s", c05CallVerb, itf, g.proxy, itf+"."+g.impl, retPart, c05Pairs(pt.elems, pv.elems))
	res := c05Cur.ask(strings.TrimSpace(line))
	f := strings.Fields(res)
	if len(f) >= 2 && f[0] == "got" {
		out := "got " + c05RenderGot(pt.elems, f[1])
		if retT != nil {
			if len(f) == 4 && f[2] == "ret" {
				out += " ret " + c05RenderHex(retT, f[3])
			} else {
				out += " ret missing"
			}
		}
		return out
	}
	return res
}

// gen.signal <itf> <action> <eventsighex> <paramssighex> params-tuple tokens
func execGenSignal(a []string) string {
	g, itf := c05Action_(a)
	if g == nil || g.kind != "sig" {
		return "no-action"
	}
	et := parseSigT(string(unhx(a[2])))
	pt := parseSigT(string(unhx(a[3])))
	pv, _ := parseTValTokens(a[4:])
	line := fmt.Sprintf("signal %s %s %s %s %s", itf, g.helper, g.subscribe, et.String(), c05Pairs(pt.elems, pv.elems))
	res := c05Cur.ask(strings.TrimSpace(line))
	f := strings.Fields(res)
	if len(f) == 2 && f[0] == "event" {
		return "event " + c05RenderHex(et, f[1])
	}
	return res
}

// gen.burst <itf> <action> <eventsighex> <paramssighex> <n> params-tuple tokens: n emissions in a row, read afterwards
func execGenBurst(a []string) string {
	g, itf := c05Action_(a)
	if g == nil || g.kind != "sig" {
		return "no-action"
	}
	et := parseSigT(string(unhx(a[2])))
	pt := parseSigT(string(unhx(a[3])))
	pv, _ := parseTValTokens(a[5:])
	line := fmt.Sprintf("signalburst %s %s %s %s %s %s", itf, g.helper, g.subscribe, et.String(), a[4], c05Pairs(pt.elems, pv.elems))
	res := c05Cur.ask(strings.TrimSpace(line))
	f := strings.Fields(res)
	if len(f) == 3 && f[0] == "events" && f[2] != "differing" {
		return "events " + f[1] + " " + c05RenderHex(et, f[2])
	}
	return res
}

// gen.prop <itf> <action> <valuesighex> <paramssighex> value tokens
func execGenProp(a []string) string {
	g, itf := c05Action_(a)
	if g == nil || g.kind != "prop" {
		return "no-action"
	}
	vt := parseSigT(string(unhx(a[2])))
	pt := parseSigT(string(unhx(a[3])))
	v, _ := parseTValTokens(a[4:])
	var psigs []string
	for _, e := range pt.elems {
		psigs = append(psigs, e.String())
	}
	line := fmt.Sprintf("prop %s %s %s %s %s %s %s", itf, g.set, g.get, g.onChange, vt.String(), hx(encD(vt, v)), strings.Join(psigs, " "))
	res := c05Cur.ask(strings.TrimSpace(line))
	f := strings.Fields(res)
	if len(f) == 4 && f[0] == "onchange" && f[2] == "get" {
		return "onchange " + c05RenderGot(pt.elems, f[1]) + " get " + c05RenderHex(vt, f[3])
	}
	return res
}

// gen.update <itf> <action> <valuesighex> <paramssighex> params-tuple tokens
func execGenUpdate(a []string) string {
	g, itf := c05Action_(a)
	if g == nil || g.kind != "prop" {
		return "no-action"
	}
	vt := parseSigT(string(unhx(a[2])))
	pt := parseSigT(string(unhx(a[3])))
	pv, _ := parseTValTokens(a[4:])
	line := fmt.Sprintf("update %s %s %s %s %s", itf, g.update, g.get, vt.String(), c05Pairs(pt.elems, pv.elems))
	res := c05Cur.ask(strings.TrimSpace(line))
	f := strings.Fields(res)
	if len(f) == 2 && f[0] == "get" {
		return "get " + c05RenderHex(vt, f[1])
	}
	return res
}

// gen.pkgx <id> <idl hex>: a package outside the class the generators handle (a listed finding):
// both sides answer known-weakness; whether it still fails is reported by the runner.
var c05LastX string

func execGenPkgx(a []string) string {
	c05Cur.close()
	c05Cur = nil
	sess, res := c05Open(unhx(a[1]))
	sess.close()
	c05LastX = res
	return "known-weakness"
}

// the packages the generators are known not to handle: id, what is special, IDL
var c05Known = []struct{ id, what, idl string }{
	{"param-c", "a parameter named like a local of the generated stub (c)", "package gen\ninterface A\n\tfn f(c: int16)\nend\n"},
	{"param-p", "a parameter named like the receiver of the generated code (p)", "package gen\ninterface A\n\tfn f(p: int16)\nend\n"},
	{"param-buf", "a parameter named like a local of the generated stub (buf)", "package gen\ninterface A\n\tfn f(buf: int16)\nend\n"},
	{"param-msg", "a parameter named like a parameter of the generated stub (msg)", "package gen\ninterface A\n\tfn f(msg: int16)\nend\n"},
	{"param-err", "a parameter named err", "package gen\ninterface A\n\tfn f(err: int16)\nend\n"},
	{"param-ret", "a parameter named ret", "package gen\ninterface A\n\tfn f(ret: int16) -> int16\nend\n"},
	{"param-fmt", "a parameter named like an imported package (fmt)", "package gen\ninterface A\n\tfn f(fmt: int32, bytes: str)\nend\n"},
	{"param-value", "a parameter named like an imported package (value)", "package gen\ninterface A\n\tfn f(value: uint64) -> any\nend\n"},
	{"struct-name-collision", "two interfaces with a property of several parameters and the same name", "package gen\ninterface A\n\tprop lookup(count: int32, index: uint8)\nend\ninterface B\n\tprop lookup(label: str, index: uint8, n: uint16)\nend\n"},
	{"param-keyword", "a parameter named like a Go keyword (type)", "package gen\ninterface A\n\tfn f(type: int16)\nend\n"},
	{"signal-param-p", "a signal parameter named p", "package gen\ninterface A\n\tsig s(p: int16)\nend\n"},
	{"signal-param-buf", "a signal parameter named buf", "package gen\ninterface A\n\tsig s(buf: int16)\nend\n"},
	{"property-param-p", "a property parameter named p", "package gen\ninterface A\n\tprop s(p: int16)\nend\n"},
	{"accessor-collision", "a method named like the accessor of a property (getLevel / level)", "package gen\ninterface A\n\tfn getLevel() -> int32\n\tprop level(v: int32)\nend\n"},
	{"subscribe-collision", "a method named like the subscriber of a signal (subscribeTick / tick)", "package gen\ninterface A\n\tfn subscribeTick()\n\tsig tick(v: int32)\nend\n"},
	{"method-proxy", "a method named proxy", "package gen\ninterface A\n\tfn proxy()\nend\n"},
	{"do-collision", "a method named like the renamed form of a reserved name (subscribe / doSubscribe)", "package gen\ninterface A\n\tfn subscribe()\n\tfn doSubscribe()\nend\n"},
	{"helper-collision", "a method named like the helper of a signal (signalTick / tick)", "package gen\ninterface A\n\tfn signalTick(a1: int32)\n\tsig tick(a1: int32)\nend\n"},
	{"callback-collision", "a method named like the callback of a property (onLevelChange / level)", "package gen\ninterface A\n\tfn onLevelChange(a1: int32)\n\tprop level(a1: int32)\nend\n"},
	{"struct-named-like-proxy", "a struct named like a generated type (AProxy)", "package gen\nstruct AProxy\n\ta: int32\nend\ninterface A\n\tfn f(x: AProxy)\nend\n"},
	{"method-activate", "a method named activate", "package gen\ninterface A\n\tfn activate()\nend\n"},
	{"map-key", "a map whose key type is not comparable in Go", "package gen\ninterface A\n\tfn f(m: Map<Vec<int32>,str>)\nend\n"},
	{"obj-param", "a parameter of type obj", "package gen\ninterface A\n\tfn f(o: obj) -> obj\nend\n"},
	{"member-case", "struct members that differ by case only", "package gen\nstruct S\n\ta: int32\n\tA: int32\nend\ninterface A\n\tfn f(o: S)\nend\n"},
	{"unknown-param", "a parameter of type unknown", "package gen\ninterface A\n\tfn f(o: unknown)\nend\n"},
	{"nothing-param", "a parameter of type nothing", "package gen\ninterface A\n\tfn f(o: nothing)\nend\n"},
	{"struct-recursive", "a struct that contains itself", "package gen\nstruct N\n\tnext: N\n\tv: int32\nend\ninterface A\n\tfn f(x: N)\nend\n"},
	{"property-empty", "a property without parameter", "package gen\ninterface A\n\tprop s()\nend\n"},
}

func c05Names(w string) []string {
	if w == "-" {
		return nil
	}
	return strings.Split(w, ",")
}

func c05Join(ns []string) string {
	if len(ns) == 0 {
		return "-"
	}
	return strings.Join(ns, ",")
}

// gen.names <methods> <signals> <properties>: the Go names ForEachMethodAndSignal hands out
func execGenNames(a []string) string {
	var meta object.MetaObject
	meta.Methods = map[uint32]object.MetaMethod{}
	meta.Signals = map[uint32]object.MetaSignal{}
	meta.Properties = map[uint32]object.MetaProperty{}
	id := uint32(100)
	for _, n := range c05Names(a[0]) {
		meta.Methods[id] = object.MetaMethod{Uid: id, Name: n}
		id++
	}
	for _, n := range c05Names(a[1]) {
		meta.Signals[id] = object.MetaSignal{Uid: id, Name: n}
		id++
	}
	for _, n := range c05Names(a[2]) {
		meta.Properties[id] = object.MetaProperty{Uid: id, Name: n}
		id++
	}
	var m, sg, p, px []string
	meta.ForEachMethodAndSignal(func(_ object.MetaMethod, name string) error {
		m = append(m, name)
		px = append(px, signature.CleanMethodName(name))
		return nil
	}, func(_ object.MetaSignal, name string) error {
		sg = append(sg, name)
		return nil
	}, func(_ object.MetaProperty, name string) error {
		p = append(p, name)
		return nil
	})
	return fmt.Sprintf("m:%s s:%s p:%s proxy:%s", c05Join(m), c05Join(sg), c05Join(p), c05Join(px))
}

// gen.clash <methods> <signals> <properties>: does a package with actions of these names compile?
func execGenClash(a []string) string {
	var b strings.Builder
	b.WriteString("package gen\ninterface A\n")
	for _, n := range c05Names(a[0]) {
		fmt.Fprintf(&b, "\tfn %s()\n", n)
	}
	for _, n := range c05Names(a[1]) {
		fmt.Fprintf(&b, "\tsig %s(a1: int32)\n", n)
	}
	for _, n := range c05Names(a[2]) {
		fmt.Fprintf(&b, "\tprop %s(a1: int32)\n", n)
	}
	b.WriteString("end\n")
	sess, res := c05OpenMode([]byte(b.String()), false)
	sess.close()
	if res == "ok" {
		return "ok"
	}
	for _, w := range []string{"duplicate method", "redeclared", "wrong type for method", "already declared", "duplicate field"} {
		if strings.Contains(res, w) {
			return "clash"
		}
	}
	return res
}

func init() {
	runners["C05"] = runC05
	executors["gen.names"] = execGenNames
	executors["gen.clash"] = execGenClash
	executors["gen.pkgx"] = execGenPkgx
	executors["gen.pkg"] = execGenPkg
	executors["gen.call"] = execGenCall
	executors["gen.callheld"] = execGenCallHeld
	executors["gen.signal"] = execGenSignal
	executors["gen.burst"] = execGenBurst
	executors["gen.prop"] = execGenProp
	executors["gen.update"] = execGenUpdate
}

// c05Corpus: the minimised packages of the defects found so far; they run first.
func c05Corpus() []*c05Pkg {
	sc := func(c byte) *sigT { return &sigT{kind: c} }
	tup := func(ts ...*sigT) *sigT { return &sigT{kind: '(', elems: ts} }
	vec := func(t *sigT) *sigT { return &sigT{kind: '[', elems: []*sigT{t}} }
	one := func(itf string, a c05Action) *c05Pkg {
		return &c05Pkg{name: "gen", itfs: []c05Itf{{name: itf, actions: []c05Action{a}}}}
	}
	par := func(n string, t *sigT) c05Param { return c05Param{n, t} }
	return []*c05Pkg{
		// the tuple marshal assigned an undeclared err (signal and property helpers)
		one("A", c05Action{kind: "sig", name: "tick", params: []c05Param{par("a", tup(sc('i'), sc('s')))}}),
		one("A", c05Action{kind: "prop", name: "level", params: []c05Param{par("a", tup(sc('i'), sc('s')))}}),
		// the getter's local variable shadowed the value package
		one("A", c05Action{kind: "prop", name: "level", params: []c05Param{par("a", vec(sc('m')))}}),
		// nothing reads the buffer of an empty tuple
		one("A", c05Action{kind: "fn", name: "run", params: []c05Param{par("a", tup())}}),
		one("A", c05Action{kind: "prop", name: "level", params: []c05Param{par("a", tup())}}),
		// the property callback with several parameters
		one("A", c05Action{kind: "prop", name: "level", params: []c05Param{par("a", sc('i')), par("b", sc('s'))}}),
		// an interface whose name starts with a lower-case letter
		one("worker", c05Action{kind: "fn", name: "run", params: []c05Param{par("a", sc('i'))}, ret: sc('s')}),
		// type/basic used only through text: the import was missing
		one("A", c05Action{kind: "fn", name: "run", ret: sc('s')}),
		one("A", c05Action{kind: "fn", name: "run", params: []c05Param{par("a", vec(sc('m')))}}),
		// one name, several parameter lists
		{name: "gen", itfs: []c05Itf{{name: "A", actions: []c05Action{
			{kind: "fn", name: "store", params: []c05Param{par("a", sc('i'))}, ret: sc('i')},
			{kind: "fn", name: "store", params: []c05Param{par("a", sc('s'))}, ret: sc('s')},
			{kind: "fn", name: "store", params: []c05Param{par("a", sc('i')), par("b", sc('s'))}},
			{kind: "fn", name: "store", ret: vec(sc('d'))},
		}}}},
		// parameters whose names differ by the case of the first letter only
		one("A", c05Action{kind: "fn", name: "blend", params: []c05Param{par("a", sc('i')), par("A", sc('i'))}, ret: sc('i')}),
		one("A", c05Action{kind: "fn", name: "mix", params: []c05Param{par("k", sc('s')), par("K", sc('I')), par("kk", sc('i'))}}),
		// a returned value without content
		one("A", c05Action{kind: "fn", name: "run", params: []c05Param{par("a", sc('C'))}, ret: tup()}),
		// a list or a map of elements without content: the loop variable was unused
		one("A", c05Action{kind: "sig", name: "tick", params: []c05Param{par("a", &sigT{kind: '{', elems: []*sigT{sc('c'), tup()}}), par("b", vec(tup()))}}),
	}
}

func c05ParamSig(a c05Action) string {
	var ts []*sigT
	for _, q := range a.params {
		ts = append(ts, q.t)
	}
	return c05Tuple(ts).String()
}

func c05Tuple(ts []*sigT) *sigT { return &sigT{kind: '(', elems: ts} }

func c05Shape(t *sigT) string {
	s := t.String()
	var k []string
	for _, c := range []struct{ ch, name string }{{"[", "list"}, {"{", "map"}, {"<", "struct"}, {"m", "dynamic"}} {
		if strings.Contains(s, c.ch) {
			k = append(k, c.name)
		}
	}
	if len(k) == 0 {
		return "scalar"
	}
	return strings.Join(k, "+")
}

func runC05(r *Rand, tier string, o *Out) {
	// an interface of the package as the type of a parameter and of a result: objects of the service and
	// objects of the client's side go to the stub and come back
	if out := o.Do("P", "gen.objects 1", true); out != "ok" {
		why := strings.TrimPrefix(out, "fail:")
		if k := strings.Index(why, ":"); k > 0 {
			why = why[:k]
		}
		o.Fail("objects passed to the generated stub and asked back: "+why, "gen.objects 1 => "+out+" "+tail(lastFailDetail, 400))
	}
	o.Count("scenario:objects-as-arguments-and-results")
	// a call whose arguments cannot be encoded, then calls that can
	if out := o.Do("P", "gen.objects 3", true); out != "ok" {
		why := strings.TrimPrefix(out, "fail:")
		if k := strings.Index(why, ":"); k > 0 {
			why = why[:k]
		}
		o.Fail("calls after a call whose arguments could not be encoded: "+why, "gen.objects 3 => "+out+" "+tail(lastFailDetail, 400))
	}
	o.Count("scenario:call-after-a-failed-encode")
	// a proxy bound to a context, and the proxy it was derived from
	if out := o.Do("P", "gen.objects 4", true); out != "ok" {
		why := strings.TrimPrefix(out, "fail:")
		if k := strings.Index(why, ":"); k > 0 {
			why = why[:k]
		}
		o.Fail("a proxy bound to a context: "+why, "gen.objects 4 => "+out+" "+tail(lastFailDetail, 400))
	}
	o.Count("scenario:proxy-bound-to-a-context")
	// lists of objects as an argument and as a result (a listed finding)
	o.Do("X", "gen.objectsx 2", true)
	if c05LastObjX != "ok" {
		o.Fail("a list of objects as an argument or a result of a generated method: the call fails", "gen.objects 2 => "+c05LastObjX+" "+tail(lastFailDetail, 400))
	}
	o.Count("known-scenarios")
	npk, nval := 8, 3
	if tier == "thorough" {
		npk, nval = 80, 6
	}
	defer func() { c05Cur.close(); c05Cur = nil }()
	// the listed findings first
	for _, k := range c05Known {
		o.Do("X", "gen.pkgx "+k.id+" "+hx([]byte(k.idl)), true)
		o.Count("known-scenarios")
		if c05LastX != "ok" {
			o.Fail("the generated code does not compile: "+k.what, fmt.Sprintf("%s: %s for\n%s", k.id, c05LastX, k.idl))
		}
	}
	{
		// a property of type any: compiles, but cannot be set
		text := "package gen\ninterface A\n\tprop level(v: any)\nend\n"
		if res := o.Do("P", "gen.pkg "+hx([]byte(text)), true); res == "ok" {
			v := &tval{kind: 'm', dynT: &sigT{kind: 'i'}, elems: []*tval{{kind: 'n', n: 7}}}
			c05Cur.ask("noop A")
			line := fmt.Sprintf("prop A SetLevel GetLevel OnLevelChange m %s m", hx(encD(&sigT{kind: 'm'}, v)))
			if r := c05Cur.ask(line); !strings.HasPrefix(r, "onchange "+hx(encD(&sigT{kind: 'm'}, v))) {
				o.Fail("a property of type any cannot be set through the generated accessor", "prop level(v: any), Set(int32 7): "+r)
			}
		} else {
			o.Fail("a well-formed IDL package does not yield a running proxy and stub: "+c05FailClass(res), res+" for\n"+text)
		}
	}
	// the names: what ForEachMethodAndSignal hands out, and whether the declared method sets clash
	pool := []string{"tick", "Tick", "level", "getLevel", "setLevel", "subscribeTick", "subscribeLevel", "signalTick", "updateLevel",
		"onLevelChange", "proxy", "activate", "receive", "metaObject", "onTerminate", "withContext", "subscribe", "doSubscribe",
		"call", "property", "stats", "run", "Run", "run_0", "tick_0", "Tick_1", "terminate", "a", "b_2"}
	nnames, nclash := 300, 8
	if tier == "thorough" {
		nnames, nclash = 3000, 60
	}
	draw := func(max int) string {
		n := r.Intn(max + 1)
		var ns []string
		for j := 0; j < n; j++ {
			ns = append(ns, pool[r.Intn(len(pool))])
		}
		return c05Join(ns)
	}
	for i := 0; i < nnames; i++ {
		o.Do("P", fmt.Sprintf("gen.names %s %s %s", draw(6), draw(3), draw(3)), true)
		o.Count("name-sets")
	}
	for _, fixed := range []string{"getLevel - level", "subscribeTick tick -", "signalTick tick -", "updateLevel - level", "onLevelChange - level",
		"activate - -", "subscribe,doSubscribe - -", "tick,Tick tick tick", "stats,proxy,withContext,property - -", "receive - -"} {
		res := o.Do("X", "gen.clash "+fixed, true)
		o.Count("clash-answer:" + res)
	}
	for i := 0; i < nclash; i++ {
		// distinct names within each kind (a name declared twice in one kind is the overloading / renaming case of gen.names)
		pick := func(max int) string {
			seen := map[string]bool{}
			var ns []string
			for j := r.Intn(max + 1); j > 0; j-- {
				n := pool[r.Intn(len(pool))]
				if !seen[strings.ToLower(n)] {
					seen[strings.ToLower(n)] = true
					ns = append(ns, n)
				}
			}
			return c05Join(ns)
		}
		res := o.Do("X", fmt.Sprintf("gen.clash %s %s %s", pick(3), pick(2), pick(2)), true)
		o.Count("clash-answer:" + res)
	}
	corpus := c05Corpus()
	for i := 0; i < len(corpus)+npk; i++ {
		var p *c05Pkg
		if i < len(corpus) {
			p = corpus[i]
			o.Count("corpus-packages")
		} else {
			p = c05GenPkg(r)
		}
		text := p.idl()
		res := o.Do("P", "gen.pkg "+hx([]byte(text)), true)
		o.Count("packages")
		o.Count(fmt.Sprintf("structs:%d", len(p.structs)))
		if res != "ok" {
			o.Fail("a well-formed IDL package does not yield a running proxy and stub: "+c05FailClass(res), fmt.Sprintf("%s for the package\n%s", res, text))
			continue
		}
		for _, itf := range p.itfs {
			for _, a := range itf.actions {
				o.Count("action:" + a.kind)
				if a.kind == "fn" {
					for _, e := range itf.actions {
						if e.kind == "fn" && e.name == a.name && c05ParamSig(e) != c05ParamSig(a) {
							o.Count("action:overloaded")
							break
						}
					}
				}
				var pts []*sigT
				for _, q := range a.params {
					pts = append(pts, q.t)
					o.Count("type:" + c05Shape(q.t))
				}
				pt := c05Tuple(pts)
				for k := 0; k < nval; k++ {
					pv := genTVal(r, pt, 2)
					if a.kind == "prop" && k == 0 && c05Lengthen(r, pt, pv, 1) {
						o.Count("value:a-list-of-thousands-of-fixed-size-elements")
					}
					switch a.kind {
					case "fn":
						retH, retToks := "-", ""
						if a.ret != nil {
							retH = hx([]byte(a.ret.String()))
							retToks = genTVal(r, a.ret, 2).tokens() + " "
							o.Count("type:" + c05Shape(a.ret))
						}
						op := fmt.Sprintf("gen.call %s %s %s %s %s%s", itf.name, a.name, retH, hx([]byte(pt.String())), retToks, pv.tokens())
						res := o.Do("P", op, true)
						want := "got " + renderTValD(pt, pv)
						if a.ret != nil {
							rv, _ := parseTValTokens(strings.Fields(retToks))
							want += " ret " + renderTValD(a.ret, rv)
						}
						if !strings.HasPrefix(res, "got ") {
							o.Fail("a call through the generated proxy does not come back: "+c05FailClass(res), fmt.Sprintf("%s.%s%s: %s", itf.name, a.name, pt.String(), res))
						} else if res != want {
							o.Fail("a call through the generated proxy changes a value: "+c05Shape(pt), fmt.Sprintf("%s.%s%s: %s (want %s)", itf.name, a.name, pt.String(), res, want))
						}
						if k == 0 && len(pts) > 0 {
							// the same call while another caller calls the same method in the middle of it
							res := o.Do("P", "gen.callheld"+strings.TrimPrefix(op, "gen.call"), true)
							o.Count("call:another-caller-in-the-middle")
							if strings.HasPrefix(res, "got ") && res != want {
								o.Fail("a call through the generated proxy carries the arguments of another caller", fmt.Sprintf("%s.%s%s: %s (want %s)", itf.name, a.name, pt.String(), res, want))
							}
						}
					case "sig":
						et := pts[0]
						if len(pts) != 1 {
							et = &sigT{kind: 'S', name: a.name, elems: pts}
							for _, q := range a.params {
								et.members = append(et.members, q.name)
							}
						}
						op := fmt.Sprintf("gen.signal %s %s %s %s %s", itf.name, a.name, hx([]byte(et.String())), hx([]byte(pt.String())), pv.tokens())
						res := o.Do("P", op, true)
						ev := pv
						if len(pts) == 1 {
							ev = pv.elems[0]
						}
						want := "event " + renderTValD(et, ev)
						if !strings.HasPrefix(res, "event ") {
							o.Fail("a signal emitted through the generated helper does not arrive: "+c05FailClass(res), fmt.Sprintf("%s.%s%s: %s", itf.name, a.name, pt.String(), res))
						} else if res != want {
							o.Fail("a signal emitted through the generated helper changes a value: "+c05Shape(pt), fmt.Sprintf("%s.%s%s: %s (want %s)", itf.name, a.name, pt.String(), res, want))
						}
						if r.Chance(12) {
							// a burst: the subscriber reads only after the last emission
							n := 12 + r.Intn(40)
							bop := fmt.Sprintf("gen.burst %s %s %s %s %d %s", itf.name, a.name, hx([]byte(et.String())), hx([]byte(pt.String())), n, pv.tokens())
							bres := o.Do("P", bop, true)
							if bres != fmt.Sprintf("events %d %s", n, renderTValD(et, ev)) {
								o.Fail("signals emitted in a row through the generated helper do not all arrive", fmt.Sprintf("%s.%s%s: %s (want events %d)", itf.name, a.name, pt.String(), bres, n))
							}
							o.Count("signal-bursts")
						}
					case "prop":
						vt := pts[0]
						var v *tval
						if len(pts) != 1 {
							vt = &sigT{kind: 'S', name: a.name, elems: pts}
							for _, q := range a.params {
								vt.members = append(vt.members, q.name)
							}
							v = pv
						} else {
							v = pv.elems[0]
						}
						name := "gen.prop"
						toks := v.tokens()
						if k%2 == 1 {
							name = "gen.update"
							toks = pv.tokens()
						}
						op := fmt.Sprintf("%s %s %s %s %s %s", name, itf.name, a.name, hx([]byte(vt.String())), hx([]byte(pt.String())), toks)
						res := o.Do("P", op, true)
						want := "get " + renderTValD(vt, v)
						if name == "gen.prop" {
							want = "onchange " + renderTValD(pt, pv) + " " + want
						}
						if !strings.HasPrefix(res, "onchange (") && !strings.HasPrefix(res, "get ") || strings.Contains(res, "err ") {
							o.Fail("a property does not round-trip through the generated accessors: "+c05FailClass(res), fmt.Sprintf("%s.%s%s: %s", itf.name, a.name, pt.String(), res))
						} else if res != want {
							o.Fail("a property changes its value through the generated accessors: "+c05Shape(pt), fmt.Sprintf("%s.%s%s: %s (want %s)", itf.name, a.name, pt.String(), res, want))
						}
					}
				}
			}
		}
	}
	keys := make([]string, 0)
	for k := range o.Counters {
		keys = append(keys, k)
	}
	sort.Strings(keys)
}

// c05FailClass: a short stable class for a failed stage.
func c05FailClass(res string) string {
	f := strings.Fields(res)
	if len(f) == 0 {
		return "no answer"
	}
	switch f[0] {
	case "build-error", "generate-error", "parse-error", "start-error", "harness-error":
		return f[0]
	case "err":
		if len(f) > 3 {
			return strings.Join(f[:4], " ")
		}
	}
	if len(res) > 60 {
		return res[:60]
	}
	return res
}

// c05Lengthen: the first list of elements of a fixed size found in the value gets between a thousand and four thousand
// elements (more than 4096 bytes, not a multiple of it)
func c05Lengthen(r *Rand, t *sigT, v *tval, budget int) bool {
	if t == nil || v == nil {
		return false
	}
	switch t.kind {
	case '[':
		if len(t.elems) == 1 && strings.ContainsRune("bcCwWiIlLfd", rune(t.elems[0].kind)) && v.kind == '[' {
			n := []int{1025, 1500, 2600, 4000}[r.Intn(4)]
			v.elems = v.elems[:0]
			for i := 0; i < n; i++ {
				v.elems = append(v.elems, genTVal(r, t.elems[0], 0))
			}
			return true
		}
		for _, e := range v.elems {
			if c05Lengthen(r, t.elems[0], e, budget) {
				return true
			}
		}
	case '(', 'S':
		if len(t.elems) == len(v.elems) {
			for i := range t.elems {
				if c05Lengthen(r, t.elems[i], v.elems[i], budget) {
					return true
				}
			}
		}
	}
	return false
}
