package main

import (
	"bytes"
	"encoding/binary"
	"fmt"
	"reflect"
	"sort"
	"strconv"
	"strings"

	"github.com/lugu/qiloop/meta/signature"
	"github.com/lugu/qiloop/type/value"
)

// ---- typed values over signatures (harness-side, independent of the repository's codecs) ----

type tval struct {
	kind  byte // 'n' num, 's' str, 'v' void, '[' list, '{' map (elems = k0,v0,k1,v1…), '(' tuple, 'm' dyn
	n     uint64
	s     []byte
	elems []*tval
	dynT  *sigT
}

var codecLetters = "IisLlbfdmvcCwW"
var mapKeyLetters = "IisLlbcCwW"

func widthOf(c byte) int {
	switch c {
	case 'c', 'C', 'b':
		return 1
	case 'w', 'W':
		return 2
	case 'i', 'I', 'f':
		return 4
	case 'l', 'L', 'd':
		return 8
	}
	return 0
}

// genCodecSig generates signatures whose Go types the harness can build: no `o`, no `X`,
// map keys are comparable scalars, struct member names are distinct after CleanName.
func genCodecSig(r *Rand, depth int, key bool) *sigT {
	if key {
		return &sigT{kind: mapKeyLetters[r.Intn(len(mapKeyLetters))]}
	}
	if depth <= 0 || r.Chance(40) {
		return &sigT{kind: codecLetters[r.Intn(len(codecLetters))]}
	}
	switch r.Intn(5) {
	case 0:
		return &sigT{kind: '[', elems: []*sigT{genCodecSig(r, depth-1, false)}}
	case 1:
		return &sigT{kind: '{', elems: []*sigT{genCodecSig(r, 0, true), genCodecSig(r, depth-1, false)}}
	case 2:
		n := r.Intn(4)
		t := &sigT{kind: '('}
		for i := 0; i < n; i++ {
			t.elems = append(t.elems, genCodecSig(r, depth-1, false))
		}
		return t
	default:
		n := r.Intn(4)
		names := []string{"a", "b", "x1", "name", "value", "uid", "zed"}
		t := &sigT{kind: 'S', name: structNames[r.Intn(len(structNames))]}
		perm := permN(r, len(names))
		for i := 0; i < n; i++ {
			t.elems = append(t.elems, genCodecSig(r, depth-1, false))
			t.members = append(t.members, names[perm[i]])
		}
		return t
	}
}

func genTVal(r *Rand, t *sigT, depth int) *tval {
	switch t.kind {
	case '[':
		n := r.Intn(4)
		if r.Chance(10) {
			n = 0
		}
		v := &tval{kind: '['}
		for i := 0; i < n; i++ {
			v.elems = append(v.elems, genTVal(r, t.elems[0], depth))
		}
		return v
	case '{':
		n := r.Intn(4)
		v := &tval{kind: '{'}
		seen := map[string]bool{}
		for i := 0; i < n; i++ {
			k := genTVal(r, t.elems[0], depth)
			ks := string(encD(t.elems[0], k))
			if seen[ks] {
				continue
			}
			seen[ks] = true
			v.elems = append(v.elems, k, genTVal(r, t.elems[1], depth))
		}
		sortMapEntries(t, v)
		return v
	case '(', 'S':
		v := &tval{kind: '('}
		for _, e := range t.elems {
			v.elems = append(v.elems, genTVal(r, e, depth))
		}
		return v
	case 's':
		n := r.Intn(6)
		b := make([]byte, n)
		for i := range b {
			b[i] = byte('a' + r.Intn(26))
		}
		if r.Chance(10) {
			b = []byte{0, 0xff, 0x80}
		}
		return &tval{kind: 's', s: b}
	case 'v':
		return &tval{kind: 'v'}
	case 'm':
		d := 2
		if depth <= 0 {
			d = 0
		}
		it := genCodecSig(r, d, false)
		for it.kind == 'm' { // a value directly wrapping a value is normalised by NewValue (DESIGN §4, F-C02-2)
			it = genCodecSig(r, d, false)
		}
		return &tval{kind: 'm', dynT: it, elems: []*tval{genTVal(r, it, depth-1)}}
	case 'b':
		return &tval{kind: 'n', n: uint64(r.Intn(2))}
	}
	w := uint(widthOf(t.kind))
	var n uint64
	switch r.Intn(5) {
	case 0:
		n = 0
	case 1:
		n = ^uint64(0) >> (64 - 8*w)
	case 2:
		n = uint64(1) << (8*w - 1)
	default:
		n = r.U64() >> (64 - 8*w)
	}
	if t.kind == 'f' && n&0x7f800000 == 0x7f800000 && n&0x7fffff != 0 {
		n = 0x3fc00000 // no NaN: the float32→float64→float32 path may quiet it
	}
	if t.kind == 'd' && n&0x7ff0000000000000 == 0x7ff0000000000000 && n&0xfffffffffffff != 0 {
		n = 0x3ff8000000000000
	}
	return &tval{kind: 'n', n: n}
}

func sortMapEntries(t *sigT, v *tval) {
	type ent struct {
		k, v *tval
		enc  string
	}
	var es []ent
	for i := 0; i+1 < len(v.elems); i += 2 {
		es = append(es, ent{v.elems[i], v.elems[i+1], string(encD(t.elems[0], v.elems[i]))})
	}
	sort.Slice(es, func(i, j int) bool { return es[i].enc < es[j].enc })
	v.elems = v.elems[:0]
	for _, e := range es {
		v.elems = append(v.elems, e.k, e.v)
	}
}

func leBytes(w int, n uint64) []byte {
	b := make([]byte, 8)
	binary.LittleEndian.PutUint64(b, n)
	return b[:w]
}

// encD: the documented layout, written from doc/about-qimessaging.md
func encD(t *sigT, v *tval) []byte {
	switch t.kind {
	case '[':
		out := leBytes(4, uint64(len(v.elems)))
		for _, e := range v.elems {
			out = append(out, encD(t.elems[0], e)...)
		}
		return out
	case '{':
		out := leBytes(4, uint64(len(v.elems)/2))
		for i := 0; i+1 < len(v.elems); i += 2 {
			out = append(out, encD(t.elems[0], v.elems[i])...)
			out = append(out, encD(t.elems[1], v.elems[i+1])...)
		}
		return out
	case '(', 'S':
		var out []byte
		for i, e := range t.elems {
			out = append(out, encD(e, v.elems[i])...)
		}
		return out
	case 's':
		return append(leBytes(4, uint64(len(v.s))), v.s...)
	case 'v':
		return nil
	case 'm':
		sig := v.dynT.String()
		out := append(leBytes(4, uint64(len(sig))), sig...)
		return append(out, encD(v.dynT, v.elems[0])...)
	}
	return leBytes(widthOf(t.kind), v.n)
}

func (v *tval) tokens() string {
	switch v.kind {
	case 'n':
		return "n" + strconv.FormatUint(v.n, 10)
	case 's':
		return "s" + hx(v.s)
	case 'v':
		return "v"
	case 'm':
		return "m" + hx([]byte(v.dynT.String())) + " " + v.elems[0].tokens()
	case '{':
		p := []string{"{" + strconv.Itoa(len(v.elems)/2)}
		for _, e := range v.elems {
			p = append(p, e.tokens())
		}
		return strings.Join(p, " ")
	}
	p := []string{string(v.kind) + strconv.Itoa(len(v.elems))}
	for _, e := range v.elems {
		p = append(p, e.tokens())
	}
	return strings.Join(p, " ")
}

func parseTValTokens(ws []string) (*tval, []string) {
	w := ws[0]
	ws = ws[1:]
	switch w[0] {
	case 'v':
		return &tval{kind: 'v'}, ws
	case 'n':
		n, _ := strconv.ParseUint(w[1:], 10, 64)
		return &tval{kind: 'n', n: n}, ws
	case 's':
		return &tval{kind: 's', s: unhx(w[1:])}, ws
	case 'm':
		st := parseSigT(string(unhx(w[1:])))
		var e *tval
		e, ws = parseTValTokens(ws)
		return &tval{kind: 'm', dynT: st, elems: []*tval{e}}, ws
	}
	k, _ := strconv.Atoi(w[1:])
	v := &tval{kind: w[0]}
	if w[0] == '{' {
		k *= 2
	}
	for i := 0; i < k; i++ {
		var e *tval
		e, ws = parseTValTokens(ws)
		v.elems = append(v.elems, e)
	}
	return v, ws
}

// parseSigT parses a signature string produced by sigT.String (harness-side parser,
// independent of the repository's).
func parseSigT(s string) *sigT {
	t, rest := parseSigT1(s)
	if rest != "" {
		panic("parseSigT: trailing " + rest)
	}
	return t
}

func parseSigT1(s string) (*sigT, string) {
	switch s[0] {
	case '[':
		e, r := parseSigT1(s[1:])
		return &sigT{kind: '[', elems: []*sigT{e}}, r[1:]
	case '{':
		k, r := parseSigT1(s[1:])
		v, r := parseSigT1(r)
		return &sigT{kind: '{', elems: []*sigT{k, v}}, r[1:]
	case '(':
		t := &sigT{kind: '('}
		r := s[1:]
		for r[0] != ')' {
			var e *sigT
			e, r = parseSigT1(r)
			t.elems = append(t.elems, e)
		}
		r = r[1:]
		if len(r) > 0 && r[0] == '<' {
			// find the matching '>' (template names nest one level)
			depth, i := 0, 0
			for i = 0; i < len(r); i++ {
				if r[i] == '<' {
					depth++
				} else if r[i] == '>' {
					depth--
					if depth == 0 {
						break
					}
				}
			}
			inner := r[1:i]
			r = r[i+1:]
			parts := splitTop(inner)
			t.kind = 'S'
			t.name = parts[0]
			t.members = parts[1:]
		}
		return t, r
	}
	return &sigT{kind: s[0]}, s[1:]
}

func splitTop(s string) []string {
	var out []string
	depth, start := 0, 0
	for i := 0; i < len(s); i++ {
		switch s[i] {
		case '<':
			depth++
		case '>':
			depth--
		case ',':
			if depth == 0 {
				out = append(out, s[start:i])
				start = i + 1
			}
		}
	}
	return append(out, s[start:])
}

// ---- Go types and values for the reflection codec ---------------------------------

var valueIface = reflect.TypeOf((*value.Value)(nil)).Elem()

// platformInts: the Go types built for `l` and `L` are int and uint (eight bytes on the wire, as the encoder has it)
// instead of int64 and uint64
var platformInts bool

func goTypeOf(t *sigT) reflect.Type {
	if platformInts && t.kind == 'l' {
		return reflect.TypeOf(int(0))
	}
	if platformInts && t.kind == 'L' {
		return reflect.TypeOf(uint(0))
	}
	switch t.kind {
	case '[':
		return reflect.SliceOf(goTypeOf(t.elems[0]))
	case '{':
		return reflect.MapOf(goTypeOf(t.elems[0]), goTypeOf(t.elems[1]))
	case '(':
		fs := make([]reflect.StructField, len(t.elems))
		for i, e := range t.elems {
			fs[i] = reflect.StructField{Name: fmt.Sprintf("P%d", i), Type: goTypeOf(e)}
		}
		return reflect.StructOf(fs)
	case 'S':
		fs := make([]reflect.StructField, len(t.elems))
		for i, e := range t.elems {
			fs[i] = reflect.StructField{Name: signature.CleanName(t.members[i]), Type: goTypeOf(e)}
		}
		return reflect.StructOf(fs)
	case 's':
		return reflect.TypeOf("")
	case 'm':
		return valueIface
	case 'v':
		return reflect.TypeOf(struct{}{})
	case 'b':
		return reflect.TypeOf(false)
	case 'c':
		return reflect.TypeOf(int8(0))
	case 'C':
		return reflect.TypeOf(uint8(0))
	case 'w':
		return reflect.TypeOf(int16(0))
	case 'W':
		return reflect.TypeOf(uint16(0))
	case 'i':
		return reflect.TypeOf(int32(0))
	case 'I':
		return reflect.TypeOf(uint32(0))
	case 'l':
		return reflect.TypeOf(int64(0))
	case 'L':
		return reflect.TypeOf(uint64(0))
	case 'f':
		return reflect.TypeOf(float32(0))
	case 'd':
		return reflect.TypeOf(float64(0))
	}
	panic("goTypeOf " + string(t.kind))
}

func goValueOf(t *sigT, v *tval) reflect.Value {
	rt := goTypeOf(t)
	out := reflect.New(rt).Elem()
	switch t.kind {
	case '[':
		s := reflect.MakeSlice(rt, len(v.elems), len(v.elems))
		for i, e := range v.elems {
			s.Index(i).Set(goValueOf(t.elems[0], e))
		}
		return s
	case '{':
		m := reflect.MakeMapWithSize(rt, len(v.elems)/2)
		for i := 0; i+1 < len(v.elems); i += 2 {
			m.SetMapIndex(goValueOf(t.elems[0], v.elems[i]), goValueOf(t.elems[1], v.elems[i+1]))
		}
		return m
	case '(', 'S':
		for i, e := range t.elems {
			out.Field(i).Set(goValueOf(e, v.elems[i]))
		}
		return out
	case 's':
		out.SetString(string(v.s))
	case 'm':
		out.Set(reflect.ValueOf(value.Opaque(v.dynT.String(), encD(v.dynT, v.elems[0]))))
	case 'v':
	case 'b':
		out.SetBool(v.n != 0)
	case 'c', 'w', 'i', 'l':
		w := uint(widthOf(t.kind))
		out.SetInt(int64(v.n<<(64-8*w)) >> (64 - 8*w))
	case 'C', 'W', 'I', 'L':
		out.SetUint(v.n)
	case 'f':
		out.SetFloat(float64(float32frombits(uint32(v.n))))
	case 'd':
		out.SetFloat(float64frombits(v.n))
	}
	return out
}

// renderGoD renders a decoded Go value in the DVal syntax of the Lean driver.
func renderGoD(t *sigT, v reflect.Value) string {
	switch t.kind {
	case '[':
		p := make([]string, v.Len())
		for i := range p {
			p[i] = renderGoD(t.elems[0], v.Index(i))
		}
		return "[" + strings.Join(p, ",") + "]"
	case '{':
		var p []string
		for _, k := range v.MapKeys() {
			p = append(p, renderGoD(t.elems[0], k)+"="+renderGoD(t.elems[1], v.MapIndex(k)))
		}
		sort.Strings(p)
		return "{" + strings.Join(p, ",") + "}"
	case '(', 'S':
		p := make([]string, len(t.elems))
		for i, e := range t.elems {
			p[i] = renderGoD(e, v.Field(i))
		}
		return "(" + strings.Join(p, ",") + ")"
	case 's':
		return "s" + hx([]byte(v.String()))
	case 'm':
		if v.IsNil() {
			return "nil"
		}
		var b bytes.Buffer
		v.Interface().(value.Value).Write(&b)
		return "m" + hx(b.Bytes())
	case 'v':
		return "v"
	case 'b':
		if v.Bool() {
			return "n1"
		}
		return "n0"
	case 'c', 'w', 'i', 'l':
		w := uint(widthOf(t.kind))
		return "n" + strconv.FormatUint(uint64(v.Int())&(^uint64(0)>>(64-8*w)), 10)
	case 'C', 'W', 'I', 'L':
		return "n" + strconv.FormatUint(v.Uint(), 10)
	case 'f':
		return "n" + strconv.FormatUint(uint64(float32bits(float32(v.Float()))), 10)
	case 'd':
		return "n" + strconv.FormatUint(float64bits(v.Float()), 10)
	}
	return "?"
}

// renderTValD renders a typed value the way the model renders what the decoders return.
func renderTValD(t *sigT, v *tval) string {
	switch t.kind {
	case '[':
		p := make([]string, len(v.elems))
		for i, e := range v.elems {
			p[i] = renderTValD(t.elems[0], e)
		}
		return "[" + strings.Join(p, ",") + "]"
	case '{':
		var p []string
		for i := 0; i+1 < len(v.elems); i += 2 {
			p = append(p, renderTValD(t.elems[0], v.elems[i])+"="+renderTValD(t.elems[1], v.elems[i+1]))
		}
		sort.Strings(p)
		return "{" + strings.Join(p, ",") + "}"
	case '(', 'S':
		p := make([]string, len(t.elems))
		for i, e := range t.elems {
			p[i] = renderTValD(e, v.elems[i])
		}
		return "(" + strings.Join(p, ",") + ")"
	case 's':
		return "s" + hx(v.s)
	case 'm':
		return "m" + hx(encD(t, v))
	case 'v':
		return "v"
	}
	return "n" + strconv.FormatUint(v.n, 10)
}
