package main

// C16: the subscribers of a removed object are told, each of them, when registrations arrive while they are being
// told.  A slow method keeps the object's mailbox busy while two late registrations queue up behind it; the object is
// removed from another goroutine; the connection of the first subscriber takes the announcement slowly, so the walk over
// the subscribers stands at the first one while the mailbox handles the late registrations; then it goes on.  Every
// subscriber that was there at the removal has been told (its channel is closed).

import (
	"sync"
	"fmt"
	"io/ioutil"
	"log"
	gonet "net"
	"sync/atomic"
	"time"

	"github.com/lugu/qiloop/bus"
	qnet "github.com/lugu/qiloop/bus/net"
	"github.com/lugu/qiloop/bus/util"
	"github.com/lugu/qiloop/examples/pong"
)

// slowWriteStream: once armed, a write waits at the gate and then goes through
type slowWriteStream struct {
	qnet.Stream
	armed   int32
	entered chan struct{}
	gate    chan struct{}
	once    int32
}

func (h *slowWriteStream) Write(p []byte) (int, error) {
	if atomic.LoadInt32(&h.armed) == 1 {
		if atomic.CompareAndSwapInt32(&h.once, 0, 1) {
			close(h.entered)
		}
		<-h.gate
	}
	return h.Stream.Write(p)
}

func childSvcTermWalk(a []string) string {
	log.SetOutput(ioutil.Discard)
	l := &auListener{ch: make(chan qnet.Stream), closed: make(chan struct{})}
	srv, err := bus.StandAloneServer(l, bus.Yes{}, bus.PrivateNamespace())
	if err != nil {
		return "setup-error:" + err.Error()
	}
	impl := &abandonImpl{seen: map[string]int{}, entered: make(chan struct{}), gate: make(chan struct{})}
	svc, err := srv.NewService("PingPong", pong.PingPongObject(impl))
	if err != nil {
		return "setup-error:" + err.Error()
	}
	sid := svc.ServiceID()
	type sub struct{ told chan struct{} }
	mk := func(stream func(qnet.Stream) qnet.Stream) (*sub, bus.Client, error) {
		p, q := gonet.Pipe()
		l.ch <- stream(qnet.ConnStream(q))
		ep := qnet.NewEndPoint(qnet.ConnStream(p))
		if err := bus.AuthenticateUser(ep, "", ""); err != nil {
			return nil, nil, err
		}
		cl := bus.NewClient(bus.NewContext(ep))
		m, err := bus.GetMetaObject(cl, sid, 1)
		if err != nil {
			return nil, nil, err
		}
		sigID, err := m.SignalID("pong", "(s)")
		if err != nil {
			return nil, nil, err
		}
		_, ch, err := bus.NewProxy(cl, m, sid, 1).SubscribeID(sigID)
		if err != nil {
			return nil, nil, err
		}
		s := &sub{told: make(chan struct{})}
		go func() {
			for range ch {
			}
			close(s.told)
		}()
		return s, cl, nil
	}
	plain := func(s qnet.Stream) qnet.Stream { return s }
	hw := &slowWriteStream{entered: make(chan struct{}), gate: make(chan struct{})}
	s1, _, err := mk(func(s qnet.Stream) qnet.Stream { hw.Stream = s; return hw })
	if err != nil {
		return "setup-error:" + err.Error()
	}
	s2, _, err := mk(plain)
	if err != nil {
		return "setup-error:" + err.Error()
	}
	s3, cl3, err := mk(plain)
	if err != nil {
		return "setup-error:" + err.Error()
	}
	// a caller of its own: the slow method, then two late registrations behind it
	p, q := gonet.Pipe()
	l.ch <- qnet.ConnStream(q)
	epC := qnet.NewEndPoint(qnet.ConnStream(p))
	if err := bus.AuthenticateUser(epC, "", ""); err != nil {
		return "setup-error:" + err.Error()
	}
	clC := bus.NewClient(bus.NewContext(epC))
	meta, err := bus.GetMetaObject(clC, sid, 1)
	if err != nil {
		return "setup-error:" + err.Error()
	}
	hello, _, err := meta.MethodID("hello", "(s)")
	if err != nil {
		return "setup-error:" + err.Error()
	}
	sigID, err := meta.SignalID("pong", "(s)")
	if err != nil {
		return "setup-error:" + err.Error()
	}
	go clC.Call(nil, sid, 1, hello, svString("slow"))
	select {
	case <-impl.entered:
	case <-time.After(3 * time.Second):
		return "setup-error:the slow call did not start"
	}
	late := make(chan error, 2)
	for i, cl := range []bus.Client{clC, cl3} {
		pr := bus.NewProxy(cl, meta, sid, 1)
		uid := uint64(880000 + i)
		go func() { _, err := bus.MakeObject(pr).RegisterEvent(1, sigID, uid); late <- err }()
	}
	time.Sleep(30 * time.Millisecond) // the two registrations wait in the mailbox
	atomic.StoreInt32(&hw.armed, 1)
	removed := make(chan error, 1)
	go func() { removed <- svc.Remove(1) }()
	select {
	case <-hw.entered:
	case <-time.After(3 * time.Second):
		return "fail:the removal did not start telling the subscribers"
	}
	close(impl.gate) // the method returns: the mailbox goes on with the late registrations
	for i := 0; i < 2; i++ {
		select {
		case <-late:
		case <-time.After(3 * time.Second):
			return "fail:a registration that was waiting in the mailbox of the removed object has no answer"
		}
	}
	close(hw.gate)
	select {
	case <-removed:
	case <-time.After(4 * time.Second):
		return "fail:stuck the removal does not return"
	}
	for i, s := range []*sub{s1, s2, s3} {
		select {
		case <-s.told:
		case <-time.After(3 * time.Second):
			return fmt.Sprintf("fail:subscriber %d of the removed object was not told", i+1)
		}
	}
	done := make(chan struct{})
	go func() { srv.Terminate(); close(done) }()
	select {
	case <-done:
	case <-time.After(3 * time.Second):
	}
	return "ok"
}

func init() {
	children["svc.termwalk"] = childSvcTermWalk
	executors["svc.termwalk"] = func(a []string) string {
		out := runChild("svc.termwalk", "", 60*time.Second, 0)
		if out.Result != "ok" {
			lastFailDetail = out.Stderr
		}
		switch out.Result {
		case "crash", "crash-noresult":
			return "crash"
		}
		return out.Result
	}
}

// svc.posttold: a subscriber that registered with a post (no answer wanted) — it receives the events like any other —
// is told when the object is removed, like any other.
func svcPostTold(a []string) string {
	log.SetOutput(ioutil.Discard)
	addr := util.NewUnixAddr()
	l, err := qnet.Listen(addr)
	if err != nil {
		return "setup-error:" + err.Error()
	}
	ml := &muteListener{Listener: l}
	srv, err := bus.StandAloneServer(ml, bus.Yes{}, bus.PrivateNamespace())
	if err != nil {
		return "setup-error:" + err.Error()
	}
	defer func() {
		done := make(chan struct{})
		go func() { srv.Terminate(); close(done) }()
		select {
		case <-done:
		case <-time.After(3 * time.Second):
		}
	}()
	impl := &sgImpl{}
	svc, err := srv.NewService("PingPong", pong.PingPongObject(impl))
	if err != nil {
		return "setup-error:" + err.Error()
	}
	sid := svc.ServiceID()
	// a first subscriber, on a connection of its own, that the server cannot write to any more when the object is
	// removed (its connection is still open: the server has not seen it go) — the others are told all the same
	rawM, err := lendDial(addr)
	if err != nil {
		return "setup-error:" + err.Error()
	}
	defer rawM.conn.Close()
	reg0 := append(append(leBytes(4, 1), leBytes(4, 102)...), leBytes(8, 4141)...)
	rawM.send(qnet.NewHeader(qnet.Call, sid, 1, 0, 76), reg0)
	time.Sleep(40 * time.Millisecond)
	// both kinds of registration are live; then the object is removed and both are told
	rawC, err := lendDial(addr)
	if err != nil {
		return "setup-error:" + err.Error()
	}
	defer rawC.conn.Close()
	rawP, err := lendDial(addr)
	if err != nil {
		return "setup-error:" + err.Error()
	}
	defer rawP.conn.Close()
	reg := append(append(leBytes(4, 1), leBytes(4, 102)...), leBytes(8, 4242)...)
	rawC.send(qnet.NewHeader(qnet.Call, sid, 1, 0, 77), reg)
	reg2 := append(append(leBytes(4, 1), leBytes(4, 102)...), leBytes(8, 4343)...)
	rawP.send(qnet.NewHeader(qnet.Post, sid, 1, 0, 78), reg2)
	time.Sleep(80 * time.Millisecond)
	go impl.h.SignalPong("x")
	got := func(r *lendRaw, want uint8, d time.Duration) bool {
		deadline := time.After(d)
		for {
			select {
			case m, ok := <-r.in:
				if !ok {
					return false
				}
				if m.Header.Type == want {
					return true
				}
			case <-deadline:
				return false
			}
		}
	}
	if !got(rawC, qnet.Event, 2*time.Second) {
		return "fail:the subscriber registered with a call receives no event"
	}
	if !got(rawP, qnet.Event, 2*time.Second) {
		return "fail:the subscriber registered with a post receives no event"
	}
	if !got(rawM, qnet.Event, 2*time.Second) {
		return "fail:the first subscriber receives no event"
	}
	if !ml.mute(0) {
		return "setup-error:no accepted stream to mute"
	}
	removed := make(chan error, 1)
	go func() { removed <- svc.Remove(1) }()
	select {
	case <-removed:
	case <-time.After(3 * time.Second):
		return "fail:stuck the removal does not return"
	}
	if !got(rawC, qnet.Error, 2*time.Second) {
		return "fail:not-told the subscriber registered with a call is not told that the object is removed"
	}
	if !got(rawP, qnet.Error, 2*time.Second) {
		return "fail:not-told the subscriber registered with a post is not told that the object is removed"
	}
	return "ok"
}

// muteListener hands the server streams whose writes can be made to fail while the connection stays open
type muteListener struct {
	qnet.Listener
	mu      sync.Mutex
	streams []*muteStream
}

func (l *muteListener) Accept() (qnet.Stream, error) {
	s, err := l.Listener.Accept()
	if err != nil {
		return nil, err
	}
	ms := &muteStream{Stream: s}
	l.mu.Lock()
	l.streams = append(l.streams, ms)
	l.mu.Unlock()
	return ms, nil
}

func (l *muteListener) mute(i int) bool {
	l.mu.Lock()
	defer l.mu.Unlock()
	if i >= len(l.streams) {
		return false
	}
	atomic.StoreInt32(&l.streams[i].muted, 1)
	return true
}

func init() {
	executors["svc.posttold"] = func(a []string) string {
		r := svcPostTold(a)
		if r != "ok" {
			lastFailDetail = r
		}
		return r
	}
}
