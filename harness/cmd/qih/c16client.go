package main

// C16, objects that live on the client's side of a service (bus/service_reference.go: what a generated CreateX makes
// for an object handed to a remote service): their identifiers, their removal, and removals at the same time.
//
// svc.clientobjs <rounds>: in a child process.  (a) three objects; one is removed, then removed again (refused): the
// others are untouched and still receive their messages; (b) <rounds> times: eight objects are removed at the same
// moment by eight goroutines (what eight remote terminate requests do: every client-side object has a goroutine of its
// own): every removal succeeds, every hook has run once, the process is still there.

import (
	"fmt"
	"io/ioutil"
	"log"
	"sync"
	"sync/atomic"
	"time"

	"github.com/lugu/qiloop/bus"
	qnet "github.com/lugu/qiloop/bus/net"
)

type coActor struct {
	terminated int32
	received   int32
}

func (a *coActor) Receive(m *qnet.Message, from bus.Channel) error {
	atomic.AddInt32(&a.received, 1)
	return nil
}
func (a *coActor) Activate(bus.Activation) error { return nil }
func (a *coActor) OnTerminate()                  { atomic.AddInt32(&a.terminated, 1) }

func childSvcClientObjs(a []string) string {
	log.SetOutput(ioutil.Discard)
	var rounds int
	fmt.Sscanf(a[0], "%d", &rounds)
	x, y := qnet.Pipe()
	defer x.Close()
	defer y.Close()
	ref := bus.NewServiceReference(nil, x, 7)
	// (a)
	objs := []*coActor{{}, {}, {}}
	var ids []uint32
	for _, o := range objs {
		id, err := ref.Add(o)
		if err != nil {
			return "setup-error:" + err.Error()
		}
		if id < 1<<31 {
			return fmt.Sprintf("fail:identifier %d of a client-side object is below 2^31", id)
		}
		for _, other := range ids {
			if other == id {
				return fmt.Sprintf("fail:identifier %d handed out twice", id)
			}
		}
		ids = append(ids, id)
	}
	if err := ref.Remove(ids[1]); err != nil {
		return "fail:removal refused: " + err.Error()
	}
	if err := ref.Remove(ids[1]); err == nil {
		return "fail:the second removal of an object is accepted"
	}
	// an object added after a removal, while older ones are alive: an identifier of its own
	late := &coActor{}
	lateID, err := ref.Add(late)
	if err != nil {
		return "setup-error:" + err.Error()
	}
	for _, k := range []int{0, 2} {
		if lateID == ids[k] {
			return fmt.Sprintf("fail:identifier-reused an object added after a removal got the identifier %d of an object that is alive", lateID)
		}
	}
	time.Sleep(20 * time.Millisecond)
	if n := atomic.LoadInt32(&objs[1].terminated); n != 1 {
		return fmt.Sprintf("fail:the hook of the removed object ran %d times", n)
	}
	for _, k := range []int{0, 2} {
		if n := atomic.LoadInt32(&objs[k].terminated); n != 0 {
			return fmt.Sprintf("fail:others-affected the hook of another object ran (%d) when an object was removed twice", n)
		}
		if err := y.Send(qnet.NewMessage(qnet.NewHeader(qnet.Post, 7, ids[k], 100, 1), nil)); err != nil {
			return "setup-error:" + err.Error()
		}
	}
	if err := y.Send(qnet.NewMessage(qnet.NewHeader(qnet.Post, 7, ids[1], 100, 2), nil)); err != nil {
		return "setup-error:" + err.Error()
	}
	deadline := time.Now().Add(3 * time.Second)
	for time.Now().Before(deadline) && (atomic.LoadInt32(&objs[0].received) == 0 || atomic.LoadInt32(&objs[2].received) == 0) {
		time.Sleep(time.Millisecond)
	}
	if atomic.LoadInt32(&objs[0].received) != 1 || atomic.LoadInt32(&objs[2].received) != 1 {
		return "fail:others-affected an object that was not removed no longer receives its messages"
	}
	if atomic.LoadInt32(&objs[1].received) != 0 {
		return "fail:a removed object is invoked"
	}
	if lateID != ids[1] && atomic.LoadInt32(&late.received) != 0 {
		return "fail:others-affected a message for another object reached the object added after a removal"
	}
	if err := ref.Remove(lateID); err != nil {
		return "fail:removal refused: " + err.Error()
	}
	time.Sleep(5 * time.Millisecond)
	if atomic.LoadInt32(&late.terminated) != 1 || atomic.LoadInt32(&objs[0].terminated) != 0 || atomic.LoadInt32(&objs[2].terminated) != 0 {
		return "fail:others-affected the removal of the object added after a removal ran the wrong hooks"
	}
	for _, k := range []int{0, 2} {
		if err := ref.Remove(ids[k]); err != nil {
			return "fail:removal refused: " + err.Error()
		}
	}
	// (b)
	for r := 0; r < rounds; r++ {
		const n = 8
		var as [n]*coActor
		var is [n]uint32
		for i := range as {
			as[i] = &coActor{}
			id, err := ref.Add(as[i])
			if err != nil {
				return "setup-error:" + err.Error()
			}
			is[i] = id
		}
		var wg sync.WaitGroup
		start := make(chan struct{})
		errs := make(chan error, n)
		for i := range as {
			wg.Add(1)
			go func(i int) {
				defer wg.Done()
				<-start
				errs <- ref.Remove(is[i])
			}(i)
		}
		close(start)
		done := make(chan struct{})
		go func() { wg.Wait(); close(done) }()
		select {
		case <-done:
		case <-time.After(5 * time.Second):
			return fmt.Sprintf("fail:stuck removals at the same moment do not return (round %d)", r)
		}
		close(errs)
		for err := range errs {
			if err != nil {
				return "fail:a removal at the same moment as others is refused: " + err.Error()
			}
		}
		time.Sleep(time.Millisecond)
		for i := range as {
			if k := atomic.LoadInt32(&as[i].terminated); k != 1 {
				return fmt.Sprintf("fail:the hook of an object removed at the same moment as others ran %d times (round %d)", k, r)
			}
		}
	}
	return "ok"
}

func init() {
	children["svc.clientobjs"] = childSvcClientObjs
	executors["svc.clientobjs"] = func(a []string) string {
		out := runChild("svc.clientobjs", a[0], 90*time.Second, 0)
		if out.Result != "ok" {
			lastFailDetail = out.Stderr
		}
		switch out.Result {
		case "crash", "crash-noresult":
			return "crash"
		}
		return out.Result
	}
}
