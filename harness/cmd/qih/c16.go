package main

import (
	"encoding/binary"
	"fmt"
	"io/ioutil"
	"log"
	"math/rand"
	"sort"
	"strconv"
	"strings"
	"sync"
	"sync/atomic"
	"time"

	"github.com/lugu/qiloop/bus"
	qnet "github.com/lugu/qiloop/bus/net"
	"github.com/lugu/qiloop/bus/util"
	"github.com/lugu/qiloop/examples/pong"
)

// ---- instrumented PingPong implementation (one per object instance) ---------------

type lifeImpl struct {
	uid    int
	calls  int64
	terms  int64
	helper pong.PingPongSignalHelper
	// an object whose activation waits for the harness: Add is then between its two critical sections
	entered chan uint32
	gate    chan struct{}
}

func (p *lifeImpl) Activate(a bus.Activation, h pong.PingPongSignalHelper) error {
	p.helper = h
	if p.gate != nil {
		p.entered <- a.ObjectID
		<-p.gate
	}
	return nil
}

type pendingAdd struct {
	impl *lifeImpl
	done chan error
}

// lifeAddBegin starts an Add and returns once the new object is being activated; its identifier is known by then
func (w *lifeWorld) addBegin() (uint32, string) {
	impl := &lifeImpl{entered: make(chan uint32, 1), gate: make(chan struct{})}
	done := make(chan error, 1)
	go func() { _, err := w.service.Add(pong.PingPongObject(impl)); done <- err }()
	select {
	case id := <-impl.entered:
		if w.pend == nil {
			w.pend = map[uint32]*pendingAdd{}
		}
		w.pend[id] = &pendingAdd{impl, done}
		return id, "ok"
	case <-done:
		return 0, "err"
	case <-time.After(3 * time.Second):
		return 0, "timeout"
	}
}

// addEnd lets the activation return and waits for Add
func (w *lifeWorld) addEnd(id uint32) string {
	p := w.pend[id]
	if p == nil {
		return "bad-state"
	}
	delete(w.pend, id)
	close(p.impl.gate)
	select {
	case err := <-p.done:
		if err != nil {
			return "err"
		}
	case <-time.After(3 * time.Second):
		return "timeout"
	}
	p.impl.uid = len(w.insts)
	w.insts = append(w.insts, p.impl)
	w.byID[id] = p.impl
	return "added"
}
func (p *lifeImpl) OnTerminate()                   { atomic.AddInt64(&p.terms, 1) }
func (p *lifeImpl) Hello(a string) (string, error) { atomic.AddInt64(&p.calls, 1); return "echo:" + a, nil }
func (p *lifeImpl) Ping(a string) error            { atomic.AddInt64(&p.calls, 1); return nil }

type lifeSub struct {
	uid    int // instance subscribed to
	events chan []byte
	closed bool
}

type lifeWorld struct {
	srv     bus.Server
	service bus.Service
	sid     uint32
	cl      bus.Client
	insts   []*lifeImpl
	byID    map[uint32]*lifeImpl // current binding id -> instance
	subs    []*lifeSub
	idmap   map[uint32]uint32 // op-line id -> real id (identity except in replays)
	pend    map[uint32]*pendingAdd
	lastCl     bus.Client
	lastAction uint32
}

func (w *lifeWorld) real(id uint32) uint32 {
	if r, ok := w.idmap[id]; ok {
		return r
	}
	return id
}

var life *lifeWorld

func le32b(v uint32) []byte { b := make([]byte, 4); binary.LittleEndian.PutUint32(b, v); return b }
func le64b(v uint64) []byte { b := make([]byte, 8); binary.LittleEndian.PutUint64(b, v); return b }
func strPayload(s string) []byte {
	return append(le32b(uint32(len(s))), []byte(s)...)
}

// callT performs a raw call with a deadline.
func callT(cl bus.Client, sid, oid, action uint32, payload []byte, d time.Duration) string {
	type res struct {
		b   []byte
		err error
	}
	ch := make(chan res, 1)
	go func() {
		b, err := cl.Call(nil, sid, oid, action, payload)
		ch <- res{b, err}
	}()
	select {
	case r := <-ch:
		if r.err != nil {
			return "error"
		}
		return "reply"
	case <-time.After(d):
		return "timeout"
	}
}

func lifeReset() string {
	log.SetOutput(ioutil.Discard)
	if life != nil {
		life.srv.Terminate()
	}
	addr := util.NewUnixAddr()
	l, err := qnet.Listen(addr)
	if err != nil {
		return "setup-error"
	}
	srv, err := bus.StandAloneServer(l, bus.Yes{}, bus.PrivateNamespace())
	if err != nil {
		return "setup-error"
	}
	root := &lifeImpl{uid: 0}
	service, err := srv.NewService("Probe", pong.PingPongObject(root))
	if err != nil {
		return "setup-error"
	}
	life = &lifeWorld{srv: srv, service: service, sid: service.ServiceID(), cl: srv.Client(),
		insts: []*lifeImpl{root}, byID: map[uint32]*lifeImpl{1: root}, idmap: map[uint32]uint32{}}
	return "ok"
}

func execSvc(op string) func(a []string) string {
	return func(a []string) string {
		w := life
		u32 := func(s string) uint32 {
			v, _ := strconv.ParseUint(s, 10, 32)
			if w != nil && op != "add" && op != "addbegin" {
				return w.real(uint32(v))
			}
			return uint32(v)
		}
		switch op {
		case "reset":
			return lifeReset()
		case "add":
			// "svc.add <id>" cannot force the id the implementation draws: the line's id is
			// mapped to the real one (identity during generation, where the line is written
			// after the fact).  "svc.add 1" is the service's first object, created by reset.
			if u32(a[0]) == 1 {
				return "added"
			}
			impl := &lifeImpl{uid: len(w.insts)}
			id, err := w.service.Add(pong.PingPongObject(impl))
			if err != nil {
				return "err"
			}
			w.insts = append(w.insts, impl)
			w.byID[id] = impl
			w.idmap[u32(a[0])] = id
			lastAddedID = id
			return "added"
		case "addbegin":
			id, res := w.addBegin()
			if res == "ok" {
				v, _ := strconv.ParseUint(a[0], 10, 32)
				w.idmap[uint32(v)] = id
			}
			return res
		case "addend":
			return w.addEnd(u32(a[0]))
		case "remove":
			if err := w.service.Remove(u32(a[0])); err != nil {
				return "err"
			}
			delete(w.byID, u32(a[0]))
			return "ok"
		case "call":
			return callT(w.cl, w.sid, u32(a[0]), 100, strPayload("x"), 3*time.Second)
		case "term":
			arg := u32(a[1])
			if a[1] != a[0] && a[1] != "0" { // a deliberately wrong id stays wrong
				arg = u32(a[0]) + 1
			}
			r := callT(w.cl, w.sid, u32(a[0]), 3, le32b(arg), 3*time.Second)
			return r
		case "sub":
			id := u32(a[0])
			h, _ := strconv.ParseUint(a[1], 10, 64)
			// one connection per subscriber — or, with a third word, the connection of the previous
			// subscriber and another signal: several subscriptions of one client on one connection
			action := uint32(102)
			cl := w.lastCl
			if len(a) > 2 && cl != nil {
				w.lastAction++
				action = w.lastAction
			} else {
				cl = w.srv.Client()
				w.lastCl = cl
				w.lastAction = 102
			}
			_, events, err := cl.Subscribe(w.sid, id, action)
			if err != nil {
				return "err"
			}
			payload := append(append(le32b(id), le32b(action)...), le64b(h)...)
			r := callT(cl, w.sid, id, 0, payload, 3*time.Second)
			if r == "reply" {
				inst := w.byID[id]
				uid := -1
				if inst != nil {
					uid = inst.uid
				}
				w.subs = append(w.subs, &lifeSub{uid: uid, events: events})
			}
			return r
		case "state":
			// sentinel on the main connection, then let notifications on the subscriber
			// connections settle
			callT(w.cl, w.sid, 1, 2, le32b(0), time.Second)
			last := -1
			stable := 0
			for i := 0; i < 60 && stable < 8; i++ {
				n := 0
				for _, s := range w.subs {
					if !s.closed {
						select {
						case _, ok := <-s.events:
							if !ok {
								s.closed = true
							}
						default:
						}
					}
					if s.closed {
						n++
					}
				}
				if n == last {
					stable++
				} else {
					stable = 0
				}
				last = n
				time.Sleep(time.Millisecond)
			}
			parts := make([]string, len(w.insts))
			for i, in := range w.insts {
				told := 0
				for _, s := range w.subs {
					if s.uid == in.uid && s.closed {
						told++
					}
				}
				parts[i] = fmt.Sprintf("u%d:inv=%d,term=%d,told=%d", in.uid, atomic.LoadInt64(&in.calls), atomic.LoadInt64(&in.terms), told)
			}
			return strings.Join(parts, ";")
		}
		return "bad-op"
	}
}

var lastAddedID uint32

// svc.race <goroutines> <rounds>: concurrent removals of one object (local Remove from several
// goroutines, plus a remote terminate every other round); the object's termination hook must
// have run exactly once and exactly one caller must have been told that it removed the object.
func execSvcRace(a []string) string {
	n, _ := strconv.Atoi(a[0])
	rounds, _ := strconv.Atoi(a[1])
	if lifeReset() != "ok" {
		return "setup-error"
	}
	w := life
	for r := 0; r < rounds; r++ {
		impl := &lifeImpl{uid: r + 1}
		sibling := &lifeImpl{uid: -r - 1}
		id, err := w.service.Add(pong.PingPongObject(impl))
		if err != nil {
			return "setup-error"
		}
		sid2, err := w.service.Add(pong.PingPongObject(sibling))
		if err != nil {
			return "setup-error"
		}
		var wg sync.WaitGroup
		var okCount int64
		start := make(chan struct{})
		for g := 0; g < n; g++ {
			wg.Add(1)
			go func(g int) {
				defer wg.Done()
				<-start
				if g == 0 && r%2 == 1 {
					if callT(w.cl, w.sid, id, 3, le32b(id), 3*time.Second) == "reply" {
						atomic.AddInt64(&okCount, 1)
					}
					return
				}
				if w.service.Remove(id) == nil {
					atomic.AddInt64(&okCount, 1)
				}
			}(g)
		}
		close(start)
		wg.Wait()
		terms := atomic.LoadInt64(&impl.terms)
		if terms != 1 {
			return fmt.Sprintf("fail:termination-hook-ran-%d-times", terms)
		}
		if atomic.LoadInt64(&sibling.terms) != 0 {
			return "fail:sibling-terminated"
		}
		if callT(w.cl, w.sid, sid2, 100, strPayload("x"), 3*time.Second) != "reply" {
			return "fail:sibling-unreachable"
		}
		w.service.Remove(sid2)
	}
	return "ok"
}

// ---- removal of a busy object -------------------------------------------------------------------

type busyImpl struct {
	lifeImpl
	slow time.Duration
}

func (p *busyImpl) Hello(a string) (string, error) {
	atomic.AddInt64(&p.calls, 1)
	time.Sleep(p.slow)
	return "echo:" + a, nil
}

// svc.busy <clients> <rounds> <seed>: an object that takes its time is called by several clients at
// once — its mailbox is full, further messages wait for room — and is removed meanwhile (locally,
// or by a client's terminate request).  Every call gets an answer; a call made after the removal
// has been acknowledged gets an error and does not reach the object; the hook has run once; the
// sibling object goes on answering.  Runs in a process of its own.
func childSvcBusy(a []string) string {
	log.SetOutput(ioutil.Discard)
	nc, _ := strconv.Atoi(a[0])
	rounds, _ := strconv.Atoi(a[1])
	seed, _ := strconv.ParseUint(a[2], 10, 64)
	r := NewRand(seed)
	addr := util.NewUnixAddr()
	l, err := qnet.Listen(addr)
	if err != nil {
		return "setup-error"
	}
	srv, err := bus.StandAloneServer(l, bus.Yes{}, bus.PrivateNamespace())
	if err != nil {
		return "setup-error"
	}
	defer srv.Terminate()
	service, err := srv.NewService("Probe", pong.PingPongObject(&lifeImpl{}))
	if err != nil {
		return "setup-error"
	}
	sid := service.ServiceID()
	var clients []bus.Client
	for i := 0; i < nc; i++ {
		ep, err := qnet.DialEndPoint(addr)
		if err != nil {
			return "setup-error:" + err.Error()
		}
		defer ep.Close()
		if err := bus.AuthenticateUser(ep, "", ""); err != nil {
			return "setup-error:" + err.Error()
		}
		clients = append(clients, bus.NewClient(bus.NewContext(ep)))
	}
	for round := 0; round < rounds; round++ {
		impl := &busyImpl{slow: time.Duration(200+r.Intn(2000)) * time.Microsecond}
		sibling := &lifeImpl{}
		id, err := service.Add(pong.PingPongObject(impl))
		if err != nil {
			return "setup-error"
		}
		sid2, err := service.Add(pong.PingPongObject(sibling))
		if err != nil {
			return "setup-error"
		}
		var wg sync.WaitGroup
		stop := make(chan struct{})
		fails := make(chan string, nc*8)
		for c := 0; c < nc; c++ {
			for k := 0; k < 6; k++ { // six calls in flight per connection
				wg.Add(1)
				go func(cl bus.Client) {
					defer wg.Done()
					for {
						select {
						case <-stop:
							return
						default:
						}
						if callT(cl, sid, id, 100, strPayload("x"), 5*time.Second) == "timeout" {
							fails <- "a call made around the removal was never answered"
							return
						}
					}
				}(clients[c])
			}
		}
		time.Sleep(time.Duration(1+r.Intn(8)) * time.Millisecond)
		if round%2 == 0 {
			if service.Remove(id) != nil {
				close(stop)
				return "fail:remove-refused"
			}
		} else if callT(clients[0], sid, id, 3, le32b(id), 5*time.Second) != "reply" {
			close(stop)
			return "fail:terminate-not-answered"
		}
		time.Sleep(time.Duration(r.Intn(3)) * time.Millisecond)
		close(stop)
		wg.Wait()
		select {
		case f := <-fails:
			return "fail:" + f
		default:
		}
		// what was queued before the removal may still be served; once that has drained, nothing reaches the object
		before := atomic.LoadInt64(&impl.calls)
		for i := 0; i < 200; i++ {
			time.Sleep(2 * time.Millisecond)
			now := atomic.LoadInt64(&impl.calls)
			if now == before {
				break
			}
			before = now
		}
		for _, cl := range clients {
			if got := callT(cl, sid, id, 100, strPayload("late"), 3*time.Second); got != "error" {
				return "fail:call-after-removal-" + got
			}
		}
		if atomic.LoadInt64(&impl.calls) != before {
			return "fail:removed-object-invoked"
		}
		if t := atomic.LoadInt64(&impl.terms); t != 1 {
			return fmt.Sprintf("fail:termination-hook-ran-%d-times", t)
		}
		if atomic.LoadInt64(&sibling.terms) != 0 {
			return "fail:sibling-terminated"
		}
		if callT(clients[0], sid, sid2, 100, strPayload("x"), 3*time.Second) != "reply" {
			return "fail:sibling-unreachable"
		}
		service.Remove(sid2)
	}
	return "ok"
}

// svc.hookremove <children>: an object whose termination hook removes the objects it made (a parent and its children,
// through the Service of its activation); the parent is removed — locally, then by a remote terminate.  Every hook has
// run once, parent and children are gone, the sibling answers.  Runs in a process of its own.
type hookParent struct {
	lifeImpl
	svc      bus.Service
	children []uint32
}

func (p *hookParent) Activate(a bus.Activation, h pong.PingPongSignalHelper) error {
	p.svc = a.Service
	return nil
}
func (p *hookParent) OnTerminate() {
	atomic.AddInt64(&p.terms, 1)
	for _, c := range p.children {
		p.svc.Remove(c)
	}
}

func childSvcHookRemove(a []string) string {
	log.SetOutput(ioutil.Discard)
	nch, _ := strconv.Atoi(a[0])
	addr := util.NewUnixAddr()
	l, err := qnet.Listen(addr)
	if err != nil {
		return "setup-error"
	}
	srv, err := bus.StandAloneServer(l, bus.Yes{}, bus.PrivateNamespace())
	if err != nil {
		return "setup-error"
	}
	defer srv.Terminate()
	service, err := srv.NewService("Probe", pong.PingPongObject(&lifeImpl{}))
	if err != nil {
		return "setup-error"
	}
	sid := service.ServiceID()
	cl := srv.Client()
	for _, remote := range []bool{false, true} {
		parent := &hookParent{}
		pid, err := service.Add(pong.PingPongObject(parent))
		if err != nil {
			return "setup-error:" + err.Error()
		}
		var kids []*lifeImpl
		for i := 0; i < nch; i++ {
			k := &lifeImpl{}
			id, err := service.Add(pong.PingPongObject(k))
			if err != nil {
				return "setup-error:" + err.Error()
			}
			kids = append(kids, k)
			parent.children = append(parent.children, id)
		}
		sibling := &lifeImpl{}
		sibID, err := service.Add(pong.PingPongObject(sibling))
		if err != nil {
			return "setup-error:" + err.Error()
		}
		done := make(chan string, 1)
		go func() {
			if remote {
				done <- callT(cl, sid, pid, 3, le32b(pid), 3*time.Second)
			} else if err := service.Remove(pid); err != nil {
				done <- "err"
			} else {
				done <- "reply"
			}
		}()
		select {
		case r := <-done:
			if r != "reply" {
				return "fail:the removal of the parent answered " + r
			}
		case <-time.After(4 * time.Second):
			return "fail:the removal of an object whose hook removes other objects does not return"
		}
		if n := atomic.LoadInt64(&parent.terms); n != 1 {
			return fmt.Sprintf("fail:termination-hook-of-the-parent-ran-%d-times", n)
		}
		for i, k := range kids {
			if n := atomic.LoadInt64(&k.terms); n != 1 {
				return fmt.Sprintf("fail:termination-hook-of-a-child-ran-%d-times", n)
			}
			if r := callT(cl, sid, parent.children[i], 100, strPayload("x"), 3*time.Second); r != "error" {
				return "fail:a removed child answered " + r
			}
		}
		if r := callT(cl, sid, pid, 100, strPayload("x"), 3*time.Second); r != "error" {
			return "fail:the removed parent answered " + r
		}
		if r := callT(cl, sid, sibID, 100, strPayload("x"), 3*time.Second); r != "reply" {
			return "fail:sibling-unreachable " + r
		}
		if atomic.LoadInt64(&sibling.terms) != 0 {
			return "fail:sibling-terminated"
		}
		service.Remove(sibID)
	}
	return "ok"
}

func init() {
	children["svc.hookremove"] = childSvcHookRemove
	executors["svc.hookremove"] = func(a []string) string {
		out := runChild("svc.hookremove", strings.Join(a, " "), 60*time.Second, 0)
		if out.Result != "ok" {
			lastFailDetail = out.Stderr
		}
		if out.Result == "crash-noresult" {
			return "crash"
		}
		return out.Result
	}
	children["svc.busy"] = childSvcBusy
	executors["svc.busy"] = func(a []string) string {
		out := runChild("svc.busy", strings.Join(a, " "), 120*time.Second, 0)
		if out.Result != "ok" {
			lastFailDetail = out.Stderr
		}
		if out.Result == "crash-noresult" {
			return "crash"
		}
		return out.Result
	}
	for _, op := range []string{"reset", "add", "addbegin", "addend", "remove", "call", "term", "sub", "state"} {
		executors["svc."+op] = execSvc(op)
	}
	executors["svc.race"] = execSvcRace
	runners["C16"] = runC16
}

func runC16(r *Rand, tier string, o *Out) {
	seqs := 40
	if tier == "thorough" {
		seqs = 400
	}
	sub := 1000
	for s := 0; s < seqs; s++ {
		o.Do("P", "svc.reset", false)
		o.Do("P", "svc.add 1", false) // the service's first object (id 1) is instance 0 of the model
		live := []uint32{1}
		removed := []uint32{}
		n := 8 + r.Intn(25)
		var seq []string
		var pending []uint32 // identifiers whose Add is between its two critical sections
		closeWindow := func(id uint32) {
			res := o.Do("P", fmt.Sprintf("svc.addend %d", id), true)
			seq = append(seq, fmt.Sprintf("addend(%d)=%s", id, res))
			pending = removeU32(pending, id)
			if res == "added" {
				live = append(live, id)
				removed = removeU32(removed, id)
			}
			o.Count("op:add-second-half")
		}
		for i := 0; i < n || len(pending) > 0; i++ {
			pick := func(l []uint32) uint32 { return l[r.Intn(len(l))] }
			k := r.Intn(100)
			if i >= n || (len(pending) > 0 && r.Chance(25)) {
				closeWindow(pending[r.Intn(len(pending))])
				continue
			}
			if len(pending) < 2 && r.Chance(12) {
				// the first half of an Add: the new object is being activated, the service goes on
				id, res := life.addBegin()
				if res != "ok" {
					o.Op("P", "svc.addbegin 0", res, true)
					continue
				}
				if containsU32(live, id) || containsU32(pending, id) {
					o.Fail("Add handed out an identifier that a live object holds", strings.Join(seq, " ")+fmt.Sprintf(" addbegin=>%d", id))
				}
				pending = append(pending, id)
				o.Op("P", fmt.Sprintf("svc.addbegin %d", id), "ok", true)
				seq = append(seq, fmt.Sprintf("addbegin(%d)", id))
				o.Count("op:add-first-half")
				continue
			}
			if len(pending) > 0 && r.Chance(15) {
				// something addressed to the identifier that is being added
				id := pick(pending)
				// (not its removal: the identifier has not been returned to anybody who could ask for it)
				sub++
				line := []string{fmt.Sprintf("svc.call %d", id), fmt.Sprintf("svc.term %d %d", id, id), fmt.Sprintf("svc.sub %d %d", id, sub)}[r.Intn(3)]
				res := o.Do("P", line, true)
				seq = append(seq, strings.TrimPrefix(line, "svc.")+"="+res)
				o.Count("op:addressed-to-a-pending-identifier")
				continue
			}
			var line string
			switch {
			case k < 18:
				// Add: the implementation draws the id — often, and then several times in a row, from a source put back
				// to one state, so that it draws identifiers it has handed out already (a collision is one in 2^31 otherwise)
				burst, reset := 1, r.Chance(60)
				if reset && r.Chance(50) {
					burst = 2 + r.Intn(3)
				}
				for bi := 0; bi < burst; bi++ {
					impl := &lifeImpl{uid: len(life.insts)}
					if reset {
						rand.Seed(int64(r.Intn(2)))
						o.Count("op:add-identifier-source-reset")
					}
					id, err := life.service.Add(pong.PingPongObject(impl))
					if err != nil {
						o.Op("P", "svc.add 0", "err", true)
						continue
					}
					if containsU32(live, id) {
						o.Fail("Add handed out an identifier that a live object holds",
							strings.Join(seq, " ")+fmt.Sprintf(" add=>%d", id))
					}
					life.insts = append(life.insts, impl)
					life.byID[id] = impl
					live = append(live, id)
					removed = removeU32(removed, id) // the identifier is bound again
					o.Op("P", fmt.Sprintf("svc.add %d", id), "added", true)
					o.Count("op:add")
					seq = append(seq, fmt.Sprintf("add(%d)", id))
				}
				continue
			case k < 30 && len(live) > 0:
				id := pick(live)
				line = fmt.Sprintf("svc.remove %d", id)
				live = removeU32(live, id)
				removed = append(removed, id)
				o.Count("op:remove-live")
			case k < 36 && len(removed) > 0:
				line = fmt.Sprintf("svc.remove %d", pick(removed))
				o.Count("op:remove-again")
			case k < 40:
				line = fmt.Sprintf("svc.remove %d", 2+r.Intn(1000))
				o.Count("op:remove-unknown")
			case k < 55 && len(live) > 0:
				line = fmt.Sprintf("svc.call %d", pick(live))
				o.Count("op:call-live")
			case k < 70 && len(removed) > 0:
				line = fmt.Sprintf("svc.call %d", pick(removed))
				o.Count("op:call-removed")
			case k < 74:
				line = fmt.Sprintf("svc.call %d", 2+r.Intn(1000))
				o.Count("op:call-unknown")
			case k < 82 && len(live) > 0:
				id := pick(live)
				arg := id
				switch r.Intn(4) {
				case 0:
					arg = 0
				case 1:
					arg = id + 1 // wrong object id: refused
				}
				line = fmt.Sprintf("svc.term %d %d", id, arg)
				if arg == id || arg == 0 {
					live = removeU32(live, id)
					removed = append(removed, id)
				}
				o.Count("op:remote-terminate")
			case k < 86 && len(removed) > 0:
				id := pick(removed)
				line = fmt.Sprintf("svc.term %d %d", id, id)
				o.Count("op:terminate-removed")
			case k < 96 && len(live) > 0:
				sub++
				line = fmt.Sprintf("svc.sub %d %d", pick(live), sub)
				o.Count("op:subscribe-live")
				if r.Chance(40) {
					line += " shared"
					o.Count("op:subscribe-on-the-previous-connection")
				}
			case len(removed) > 0:
				sub++
				line = fmt.Sprintf("svc.sub %d %d", pick(removed), sub)
				o.Count("op:subscribe-removed")
			default:
				continue
			}
			if f := strings.Fields(line); f[0] == "svc.remove" {
				if id64, _ := strconv.ParseUint(f[1], 10, 32); containsU32(pending, uint32(id64)) {
					continue // the removal of an identifier that Add has not returned yet is nobody's to ask for
				}
			}
			res := o.Do("P", line, true)
			seq = append(seq, strings.TrimPrefix(line, "svc.")+"="+res)
			// direct oracle: a message to a removed identifier must be answered with an error
			f := strings.Fields(line)
			if (f[0] == "svc.call" || f[0] == "svc.sub" || f[0] == "svc.term") && res != "error" {
				id64, _ := strconv.ParseUint(f[1], 10, 32)
				if containsU32(removed, uint32(id64)) && !containsU32(live, uint32(id64)) && !(f[0] == "svc.term" && res == "reply" && justRemoved(line, removed)) {
					o.Fail("message to a removed object is not refused: "+strings.TrimPrefix(f[0], "svc."),
						strings.Join(seq, " "))
				}
			}
			if r.Chance(25) {
				o.Do("P", "svc.state", true)
			}
		}
		st := o.Do("P", "svc.state", true)
		// direct oracle: termination hook exactly once per removed instance, never twice
		for _, part := range strings.Split(st, ";") {
			if strings.Contains(part, "term=2") || strings.Contains(part, "term=3") {
				o.Fail("termination hook ran more than once", strings.Join(seq, " ")+" => "+st)
			}
		}
		_ = sort.Strings
	}
	// concurrent removals of the same object
	rounds := 3000
	if tier == "thorough" {
		rounds = 40000
	}
	for _, g := range []int{2, 16} {
		op := fmt.Sprintf("svc.race %d %d", g, rounds)
		res := o.Do("P", op, true)
		o.Count("op:concurrent-remove")
		if res != "ok" {
			o.Fail("concurrent removals of one object: "+strings.TrimPrefix(res, "fail:"), op+" => "+res)
		}
	}
	busy := [][2]int{{1, 6}, {3, 6}}
	if tier == "thorough" {
		busy = [][2]int{{1, 100}, {2, 100}, {4, 100}, {8, 60}}
	}
	for _, b := range busy {
		op := fmt.Sprintf("svc.busy %d %d %d", b[0], b[1], r.U64()>>1)
		res := o.Do("P", op, true)
		o.Count("op:remove-busy-object")
		if res != "ok" {
			o.Fail("removal of a busy object: "+strings.TrimPrefix(res, "fail:"), op+" => "+res+" "+crashReason(lastFailDetail))
		}
	}
	for _, n := range []int{1, 3} {
		op := fmt.Sprintf("svc.hookremove %d", n)
		res := o.Do("P", op, true)
		o.Count("op:hook-removes-other-objects")
		if res != "ok" {
			o.Fail("removal of an object whose hook removes other objects: "+strings.TrimPrefix(res, "fail:"), op+" => "+res+" "+crashReason(lastFailDetail))
		}
	}
	{
		op := "svc.clientobjs 300"
		if tier == "thorough" {
			op = "svc.clientobjs 3000"
		}
		res := o.Do("P", op, true)
		o.Count("op:objects-on-the-client-side")
		if res != "ok" {
			o.Fail("objects on the client's side of a service: "+strings.SplitN(strings.TrimPrefix(res, "fail:"), " ", 2)[0], op+" => "+res+" "+crashReason(lastFailDetail))
		}
	}
	if res := o.Do("P", "svc.posttold", true); res != "ok" {
		o.Fail("removal of an object with subscribers: "+strings.SplitN(strings.TrimPrefix(res, "fail:"), " ", 2)[0], "svc.posttold => "+res)
	}
	o.Count("op:subscriber-registered-with-a-post")
	for i := 0; i < 2; i++ {
		res := o.Do("P", "svc.termwalk", true)
		o.Count("op:registrations-while-the-subscribers-are-told")
		if res != "ok" {
			o.Fail("removal of an object with subscribers: "+strings.SplitN(strings.TrimPrefix(res, "fail:"), " ", 2)[0], "svc.termwalk => "+res+" "+crashReason(lastFailDetail))
		}
	}
	if life != nil {
		life.srv.Terminate()
		life = nil
	}
}

// a successful remote terminate is itself the removal
func justRemoved(line string, removed []uint32) bool {
	f := strings.Fields(line)
	if f[0] != "svc.term" {
		return false
	}
	id, _ := strconv.ParseUint(f[1], 10, 32)
	n := 0
	for _, x := range removed {
		if x == uint32(id) {
			n++
		}
	}
	return n == 1
}

func removeU32(l []uint32, x uint32) []uint32 {
	out := l[:0:0]
	for _, v := range l {
		if v != x {
			out = append(out, v)
		}
	}
	return out
}
func containsU32(l []uint32, x uint32) bool {
	for _, v := range l {
		if v == x {
			return true
		}
	}
	return false
}
