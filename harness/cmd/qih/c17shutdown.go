package main

// C17: a handler removed by its owner while the shutdown of the end point is telling the handlers, one after the other,
// that the connection is gone.  Every close callback runs once, every queue is closed once, after its callback.
//
// ep.shutdownrace <handlers> <attempts>: the callback of the first handler starts the removal of the last one; whoever
// closes the last one takes its time (until Close has returned).

import (
	"fmt"
	gonet "net"
	"sync/atomic"
	"time"

	qnet "github.com/lugu/qiloop/bus/net"
)

func epShutdownRace(a []string) string {
	count, attempts := 20000, 3
	fmt.Sscanf(a[0], "%d", &count)
	fmt.Sscanf(a[1], "%d", &attempts)
	for attempt := 0; attempt < attempts; attempt++ {
		x, y := gonet.Pipe()
		e := qnet.ConnEndPoint(y)
		filter := func(hdr *qnet.Header) (bool, bool) { return false, true }
		calls := make([]int32, count)
		queues := make([]chan *qnet.Message, count)
		ids := make([]int, count)
		started := make(chan struct{})
		sweepDone := make(chan struct{})
		twice := make(chan int, count)
		for i := 0; i < count; i++ {
			i := i
			queues[i] = make(chan *qnet.Message, 1)
			ids[i] = e.MakeHandler(filter, queues[i], func(err error) {
				if n := atomic.AddInt32(&calls[i], 1); n > 1 {
					twice <- i
					select {} // the queue is not closed a second time: the process would end
				}
				if i == 0 {
					close(started)
				}
				if i == count-1 {
					select {
					case <-sweepDone:
					case <-time.After(5 * time.Second):
					}
				}
			})
		}
		removed := make(chan error, 1)
		go func() {
			<-started
			removed <- e.RemoveHandler(ids[count-1])
		}()
		e.Close()
		close(sweepDone)
		x.Close()
		select {
		case i := <-twice:
			return fmt.Sprintf("fail:twice the close callback of handler %d ran twice (removed by its owner during the shutdown)", i)
		case <-removed:
		case <-time.After(10 * time.Second):
			return "fail:stuck a removal during the shutdown does not return"
		}
		timeout := time.After(10 * time.Second)
		for i := 0; i < count; i++ {
			select {
			case _, ok := <-queues[i]:
				if ok {
					return "fail:message a message in the queue of a handler whose filter takes nothing"
				}
			case j := <-twice:
				return fmt.Sprintf("fail:twice the close callback of handler %d ran twice (removed by its owner during the shutdown)", j)
			case <-timeout:
				return fmt.Sprintf("fail:open the queue of handler %d is never closed", i)
			}
		}
		select {
		case j := <-twice:
			return fmt.Sprintf("fail:twice the close callback of handler %d ran twice (removed by its owner during the shutdown)", j)
		case <-time.After(30 * time.Millisecond):
		}
		for i := 0; i < count; i++ {
			if n := atomic.LoadInt32(&calls[i]); n != 1 {
				return fmt.Sprintf("fail:callbacks the close callback of handler %d ran %d times", i, n)
			}
		}
	}
	return "ok"
}

func init() {
	executors["ep.shutdownrace"] = func(a []string) string {
		r := epShutdownRace(a)
		if r != "ok" {
			lastFailDetail = r
		}
		return r
	}
}
