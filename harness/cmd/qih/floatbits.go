package main

import "math"

func float32frombits(b uint32) float32 { return math.Float32frombits(b) }
func float64frombits(b uint64) float64 { return math.Float64frombits(b) }
func float32bits(f float32) uint32     { return math.Float32bits(f) }
func float64bits(f float64) uint64     { return math.Float64bits(f) }
