package main

// C05, objects as arguments and results: an interface of the package is the type of a parameter and of a
// returned value.  The generated package and a scenario written against its API are compiled and run with
// `go test`: objects that live in the service and objects that live on the client's side (the first of which
// gets the identifier 2^31, the lowest of the client range) are passed to a method and asked back; what comes
// back has to be the very object that was passed.  The Lean model has no object references: this scenario is
// decided by its oracle alone (the driver answers "ok").

import (
	"bytes"
	"fmt"
	"os"
	"os/exec"
	"path/filepath"
	"strings"
	"time"

	"github.com/lugu/qiloop/meta/idl"
	"github.com/lugu/qiloop/meta/stub"
)

const c05ObjIDL = `package objs

interface Item
	fn weight() -> int32
	fn label() -> str
	sig moved(to: int32)
	prop owner(name: str)
end

interface Shelf
	fn put(slot: int32, item: Item)
	fn take(slot: int32) -> Item
	fn make(weight: int32) -> Item
	fn all() -> Vec<Item>
	fn putAll(items: Vec<Item>)
	sig placed(item: Item)
	sig stock(items: Vec<Item>)
end

interface Notes
	fn store(name: str, data: any) -> str
	fn title(n: int32) -> str
end
`

const c05ObjScenario = `package objs

import (
	"context"
	"fmt"
	"testing"
	"time"

	"github.com/lugu/qiloop/bus"
	"github.com/lugu/qiloop/bus/net"
	"github.com/lugu/qiloop/bus/util"
	"github.com/lugu/qiloop/type/value"
)

type itemImpl struct{ weight int32 }

func (b *itemImpl) Activate(activation bus.Activation, helper ItemSignalHelper) error {
	return helper.UpdateOwner("nobody")
}
func (b *itemImpl) OnTerminate()                    {}
func (b *itemImpl) Weight() (int32, error)          { return b.weight, nil }
func (b *itemImpl) Label() (string, error)          { return fmt.Sprintf("item-%d", b.weight), nil }
func (b *itemImpl) OnOwnerChange(name string) error { return nil }

type shelfImpl struct {
	session bus.Session
	service bus.Service
	slots   map[int32]ItemProxy
	helper  ShelfSignalHelper
}

func (c *shelfImpl) Activate(activation bus.Activation, helper ShelfSignalHelper) error {
	c.session = activation.Session
	c.service = activation.Service
	c.slots = map[int32]ItemProxy{}
	c.helper = helper
	return nil
}
func (c *shelfImpl) OnTerminate() {}
func (c *shelfImpl) Put(slot int32, item ItemProxy) error {
	c.slots[slot] = item
	if slot >= 100 {
		// the object travels in a signal, alone and in a list
		if err := c.helper.SignalPlaced(item); err != nil {
			return err
		}
		return c.helper.SignalStock([]ItemProxy{item, item})
	}
	return nil
}
func (c *shelfImpl) PutAll(items []ItemProxy) error {
	for i, it := range items {
		c.slots[int32(100+i)] = it
	}
	return nil
}
func (c *shelfImpl) All() ([]ItemProxy, error) {
	var l []ItemProxy
	for s := int32(100); s < 110; s++ {
		if it, ok := c.slots[s]; ok {
			l = append(l, it)
		}
	}
	return l, nil
}
func (c *shelfImpl) Take(slot int32) (ItemProxy, error) {
	it, ok := c.slots[slot]
	if !ok {
		return nil, fmt.Errorf("empty slot %d", slot)
	}
	return it, nil
}
func (c *shelfImpl) Make(weight int32) (ItemProxy, error) {
	return CreateItem(c.session, c.service, &itemImpl{weight: weight})
}

func check(t *testing.T, shelf ShelfProxy, slot int32, item ItemProxy, weight int32) {
	id := item.Proxy().ObjectID()
	if err := shelf.Put(slot, item); err != nil {
		t.Fatalf("object %d: put: %v", id, err)
	}
	back, err := shelf.Take(slot)
	if err != nil {
		t.Fatalf("object %d: take after put: %v", id, err)
	}
	w, err := back.Weight()
	if err != nil {
		t.Fatalf("object %d: call the object that was passed as an argument: %v", id, err)
	}
	if w != weight {
		t.Fatalf("object %d: not the object that was passed: weight %d instead of %d", id, w, weight)
	}
	l, err := back.Label()
	if err != nil || l != fmt.Sprintf("item-%d", weight) {
		t.Fatalf("object %d: label %q, %v", id, l, err)
	}
}

func TestObjects(t *testing.T) {
	listener, err := net.Listen(util.NewUnixAddr())
	if err != nil {
		t.Fatal(err)
	}
	srv, err := bus.StandAloneServer(listener, bus.Yes{}, bus.PrivateNamespace())
	if err != nil {
		t.Fatal(err)
	}
	defer srv.Terminate()
	if _, err = srv.NewService("Shelf", ShelfObject(&shelfImpl{})); err != nil {
		t.Fatal(err)
	}
	session := srv.Session()
	defer session.Terminate()
	shelf, err := Shelf(session)
	if err != nil {
		t.Fatal(err)
	}
	// objects of the service
	for i := int32(1); i <= 3; i++ {
		it, err := shelf.Make(100 + i)
		if err != nil {
			t.Fatal(err)
		}
		check(t, shelf, i, it, 100+i)
	}
	// objects that live on this side
	remote := shelf.Proxy().ProxyService(session)
	var mine []ItemProxy
	for i := int32(0); i < 4; i++ {
		it, err := CreateItem(session, remote, &itemImpl{weight: 40 + i})
		if err != nil {
			t.Fatal(err)
		}
		mine = append(mine, it)
	}
	for _, i := range []int{2, 0, 3, 1, 0} {
		check(t, shelf, int32(10+i), mine[i], int32(40+i))
	}
	// objects carried by a signal, alone and in a list: what arrives is the object that was sent
	cancelPlaced, placed, err := shelf.SubscribePlaced()
	if err != nil {
		t.Fatalf("subscribe to a signal that carries an object: %v", err)
	}
	defer cancelPlaced()
	cancelStock, stock, err := shelf.SubscribeStock()
	if err != nil {
		t.Fatalf("subscribe to a signal that carries a list of objects: %v", err)
	}
	defer cancelStock()
	for i := int32(0); i < 2; i++ {
		it, err := shelf.Make(200 + i)
		if err != nil {
			t.Fatal(err)
		}
		if err := shelf.Put(100+i, it); err != nil {
			t.Fatalf("put with signals: %v", err)
		}
		select {
		case got := <-placed:
			if w, err := got.Weight(); err != nil || w != 200+i {
				t.Fatalf("object carried by a signal: weight %d, %v", w, err)
			}
		case <-time.After(3 * time.Second):
			t.Fatalf("signal that carries an object: nothing received")
		}
		select {
		case got := <-stock:
			if len(got) != 2 {
				t.Fatalf("signal that carries a list of objects: %d objects", len(got))
			}
			for _, g := range got {
				if w, err := g.Weight(); err != nil || w != 200+i {
					t.Fatalf("object carried in a list by a signal: weight %d, %v", w, err)
				}
			}
		case <-time.After(3 * time.Second):
			t.Fatalf("signal that carries a list of objects: nothing received")
		}
	}
	// what was put first is still there
	for i := int32(0); i < 4; i++ {
		back, err := shelf.Take(10 + i)
		if err != nil {
			t.Fatal(err)
		}
		if w, err := back.Weight(); err != nil || w != 40+i {
			t.Fatalf("slot %d: weight %d, %v", 10+i, w, err)
		}
	}
}
`

const c05ObjScenario3 = `
type notesImpl struct{ last string }

func (n *notesImpl) Activate(activation bus.Activation, helper NotesSignalHelper) error { return nil }
func (n *notesImpl) OnTerminate()                                                      {}
func (n *notesImpl) Store(name string, data value.Value) (string, error) {
	n.last = name
	return "stored " + name, nil
}
func (n *notesImpl) Title(k int32) (string, error) { return fmt.Sprintf("title number %d", k), nil }

// a proxy bound to a context (WithContext) is a proxy of its own: when that context is over, the calls through the
// proxy it was derived from still reach the implementation
func TestBoundedProxy(t *testing.T) {
	listener, err := net.Listen(util.NewUnixAddr())
	if err != nil {
		t.Fatal(err)
	}
	srv, err := bus.StandAloneServer(listener, bus.Yes{}, bus.PrivateNamespace())
	if err != nil {
		t.Fatal(err)
	}
	defer srv.Terminate()
	if _, err = srv.NewService("Notes", NotesObject(&notesImpl{})); err != nil {
		t.Fatal(err)
	}
	session := srv.Session()
	defer session.Terminate()
	notes, err := Notes(session)
	if err != nil {
		t.Fatal(err)
	}
	ctx, cancel := context.WithCancel(context.Background())
	bounded := notes.WithContext(ctx)
	if got, err := bounded.Title(1); err != nil || got != "title number 1" {
		t.Fatalf("call through the bounded proxy: %q, %v", got, err)
	}
	if got, err := notes.Title(2); err != nil || got != "title number 2" {
		t.Fatalf("call through the proxy it was derived from: %q, %v", got, err)
	}
	cancel()
	if _, err := bounded.Title(3); err == nil {
		t.Fatalf("a call through a proxy whose context is over succeeds")
	}
	if got, err := notes.Title(4); err != nil || got != "title number 4" {
		t.Fatalf("after the context of a derived proxy is over, a call through the proxy it was derived from: %q, %v", got, err)
	}
}

// a call whose arguments cannot be encoded (a value that is nil, behind a string that can) returns an error and
// sends nothing; the calls made after it arrive with their own arguments
func TestFailedEncode(t *testing.T) {
	listener, err := net.Listen(util.NewUnixAddr())
	if err != nil {
		t.Fatal(err)
	}
	srv, err := bus.StandAloneServer(listener, bus.Yes{}, bus.PrivateNamespace())
	if err != nil {
		t.Fatal(err)
	}
	defer srv.Terminate()
	impl := &notesImpl{}
	if _, err = srv.NewService("Notes", NotesObject(impl)); err != nil {
		t.Fatal(err)
	}
	session := srv.Session()
	defer session.Terminate()
	notes, err := Notes(session)
	if err != nil {
		t.Fatal(err)
	}
	for i := int32(0); i < 20; i++ {
		if _, err := notes.Store("incomplete entry", nil); err == nil {
			t.Fatalf("round %d: a call with a nil value is accepted", i)
		}
		got, err := notes.Title(i)
		if err != nil || got != fmt.Sprintf("title number %d", i) {
			t.Fatalf("round %d: the call after a call that could not be encoded: %q, %v", i, got, err)
		}
		got, err = notes.Store(fmt.Sprintf("entry %d", i), value.Int(i))
		if err != nil || got != fmt.Sprintf("stored entry %d", i) {
			t.Fatalf("round %d: the second call after a call that could not be encoded: %q, %v", i, got, err)
		}
	}
}
`

const c05ObjScenario2 = `
// lists of objects as an argument and as a result of a method
func TestObjectLists(t *testing.T) {
	listener, err := net.Listen(util.NewUnixAddr())
	if err != nil {
		t.Fatal(err)
	}
	srv, err := bus.StandAloneServer(listener, bus.Yes{}, bus.PrivateNamespace())
	if err != nil {
		t.Fatal(err)
	}
	defer srv.Terminate()
	if _, err = srv.NewService("Shelf", ShelfObject(&shelfImpl{})); err != nil {
		t.Fatal(err)
	}
	session := srv.Session()
	defer session.Terminate()
	shelf, err := Shelf(session)
	if err != nil {
		t.Fatal(err)
	}
	var items []ItemProxy
	for i := int32(0); i < 2; i++ {
		it, err := shelf.Make(200 + i)
		if err != nil {
			t.Fatal(err)
		}
		items = append(items, it)
	}
	if err := shelf.PutAll(items); err != nil {
		t.Fatalf("a list of objects as an argument: %v", err)
	}
	all, err := shelf.All()
	if err != nil || len(all) != 2 {
		t.Fatalf("a list of objects as a result: %d objects, %v", len(all), err)
	}
	for i, g := range all {
		if w, err := g.Weight(); err != nil || w != int32(200+i) {
			t.Fatalf("object returned in a list: weight %d, %v", w, err)
		}
	}
}
`

func execGenObjects(a []string) string {
	pkg, err := idl.ParsePackage([]byte(c05ObjIDL))
	if err != nil {
		return "parse-error " + firstLine(err.Error())
	}
	var gen bytes.Buffer
	if err := stub.GeneratePackage(&gen, "c05gen/objs", pkg); err != nil {
		return "generate-error " + firstLine(err.Error())
	}
	dir, err := os.MkdirTemp("", "qih-c05obj-")
	if err != nil {
		return "scratch-error"
	}
	defer os.RemoveAll(dir)
	repo := os.Getenv("QIH_REPO")
	if repo == "" {
		repo = "/repo"
	}
	harness := os.Getenv("QIH_HARNESS")
	if harness == "" {
		harness = "/verif/harness"
	}
	os.MkdirAll(filepath.Join(dir, "objs"), 0o755)
	gomod := fmt.Sprintf("module c05gen\n\ngo 1.13\n\nrequire github.com/lugu/qiloop v0.0.0\n\nreplace github.com/lugu/qiloop => %s\n", repo)
	os.WriteFile(filepath.Join(dir, "go.mod"), []byte(gomod), 0o644)
	if sum, err := os.ReadFile(filepath.Join(harness, "go.sum")); err == nil {
		os.WriteFile(filepath.Join(dir, "go.sum"), sum, 0o644)
	}
	os.WriteFile(filepath.Join(dir, "objs", "gen.go"), gen.Bytes(), 0o644)
	os.WriteFile(filepath.Join(dir, "objs", "scenario_test.go"), []byte(c05ObjScenario+c05ObjScenario2+c05ObjScenario3), 0o644)
	test := "TestObjects$"
	if len(a) > 0 && a[0] == "2" {
		test = "TestObjectLists$"
	}
	if len(a) > 0 && a[0] == "3" {
		test = "TestFailedEncode$"
	}
	if len(a) > 0 && a[0] == "4" {
		test = "TestBoundedProxy$"
	}
	goenv := append(os.Environ(), "GOFLAGS=-mod=mod", "GOPROXY=off", "GOSUMDB=off", "GOTOOLCHAIN=local", "CGO_ENABLED=0")
	var out []byte
	for attempt := 0; attempt < 2; attempt++ {
		c := exec.Command("go", "test", "-vet=off", "-count=1", "-timeout", "60s", "-run", test, "./objs")
		c.Dir = dir
		c.Env = goenv
		done := make(chan error, 1)
		var buf bytes.Buffer
		c.Stdout, c.Stderr = &buf, &buf
		if err := c.Start(); err != nil {
			return "start-error"
		}
		go func() { done <- c.Wait() }()
		select {
		case err = <-done:
		case <-time.After(150 * time.Second):
			c.Process.Kill()
			err = fmt.Errorf("timeout")
		}
		out = buf.Bytes()
		if err == nil {
			return "ok"
		}
		if strings.Contains(string(out), "[build failed]") || strings.Contains(string(out), "cannot find") {
			break
		}
	}
	lastFailDetail = string(out)
	if w := os.Getenv("QIH_WORK"); w != "" {
		os.WriteFile(filepath.Join(w, "c05obj-last-error.txt"), []byte(string(out)+"\n----\n"+gen.String()), 0o644)
	}
	for _, l := range strings.Split(string(out), "\n") {
		l = strings.TrimSpace(l)
		if strings.Contains(l, "_test.go:") {
			if i := strings.Index(l, ": "); i >= 0 {
				return "fail:" + l[i+2:]
			}
		}
	}
	return "fail:" + firstLine(string(out))
}

// gen.objectsx 2: the scenario of a listed finding: both sides answer known-weakness; whether it still fails is
// reported by the runner
var c05LastObjX string

func init() {
	executors["gen.objects"] = execGenObjects
	executors["gen.objectsx"] = func(a []string) string {
		c05LastObjX = execGenObjects(a)
		return "known-weakness"
	}
}
