package main

import (
	"fmt"
	"strconv"
	"strings"
	"time"

	"github.com/lugu/qiloop/meta/signature"
)

var objTypeString = func() string {
	defer func() { recover() }()
	return signature.NewObjectType().Type().String()
}()

// sig.parse <hex of the input bytes>
func execSigParse(a []string) string {
	return withTimeout(20*time.Second, func() string { return execSigParse1(a) })
}

func execSigParse1(a []string) string {
	in := string(unhx(a[0]))
	t, err := signature.Parse(in)
	if err != nil {
		return "err"
	}
	goT := func() (s string) {
		defer func() {
			if r := recover(); r != nil {
				s = "PANIC"
			}
		}()
		s = t.Type().String()
		if objTypeString != "" {
			s = strings.ReplaceAll(s, objTypeString, "OBJ")
		}
		return strings.ReplaceAll(s, " ", "_")
	}()
	return fmt.Sprintf("ok sig=%s idl=%s go=%s", hx([]byte(t.Signature())), t.SignatureIDL(), goT)
}

// sig.reparse <hex A> <hex B>: both texts are parsed, their types are used the way the generators use them
// (registered into one type set, where a struct whose name is taken is renamed), then both texts are parsed
// again: what a text parses to does not depend on what was done with the result of an earlier parse
func execSigReparse(a []string) string {
	ta, err := signature.Parse(string(unhx(a[0])))
	if err != nil {
		return "err"
	}
	tb, err := signature.Parse(string(unhx(a[1])))
	if err != nil {
		return "err"
	}
	func() {
		defer func() { recover() }()
		set := signature.NewTypeSet()
		ta.RegisterTo(set)
		tb.RegisterTo(set)
	}()
	out := "ok"
	for _, h := range a[:2] {
		t, err := signature.Parse(string(unhx(h)))
		if err != nil {
			return out + " err"
		}
		out += fmt.Sprintf(" sig=%s idl=%s", hx([]byte(t.Signature())), t.SignatureIDL())
	}
	return out
}

// sigDeepText builds the text of sig.deep: <shape> nested <n> times
//   list  [[[…i…]]]     map  {i{i{i…i…}}}     open  [[[[…  (nothing closes)     shut  ]]]]…[[[[…i…]]]]
func sigDeepText(shape string, n int) string {
	switch shape {
	case "list":
		return strings.Repeat("[", n) + "i" + strings.Repeat("]", n)
	case "map":
		return strings.Repeat("{i", n) + "i" + strings.Repeat("}", n)
	case "open":
		return strings.Repeat("[", n)
	case "shut":
		return strings.Repeat("]", n) + strings.Repeat("[", n) + "i" + strings.Repeat("]", n)
	}
	return ""
}

// sig.deep <shape> <n>: a text too long for the line protocol, built on both sides; in a process of
// its own: an error or a type, whatever the depth
func childSigDeep(a []string) string {
	n, _ := strconv.Atoi(a[1])
	t, err := signature.Parse(sigDeepText(a[0], n))
	if err != nil {
		return "err"
	}
	if t.Signature() != sigDeepText(a[0], n) {
		return "ok-other-signature"
	}
	return "ok"
}

func init() {
	executors["sig.parse"] = execSigParse
	executors["sig.reparse"] = execSigReparse
	children["sig.deep"] = childSigDeep
	executors["sig.deep"] = func(a []string) string {
		out := runChild("sig.deep", strings.Join(a, " "), 300*time.Second, 0)
		if out.Result != "ok" && out.Result != "err" {
			lastFailDetail = out.Stderr
		}
		if out.Result == "crash-noresult" {
			return "crash"
		}
		return out.Result
	}
	runners["C09"] = runC09
}

// ---- signature generator (shared with the codec checks) ---------------------------

type sigT struct {
	kind    byte // basic letter, or '[' '{' '(' (tuple) 'S' (struct)
	elems   []*sigT
	name    string
	members []string
}

var basicLetters = "IisLlbfdmoXvcCwW"

var sigNames = []string{"a", "b", "x1", "Name", "value", "uid", "P0", "A", "a_b", "Z9", "metaObject", "i", "s"}
var structNames = []string{"S", "Foo", "Point", "List<double>", "Map<K>", "a", "T_1", "MetaMethod", "i", "MetaObject", "ServiceInfo"}

func genSig(r *Rand, depth int, allow string) *sigT {
	if depth <= 0 || r.Chance(40) {
		return &sigT{kind: allow[r.Intn(len(allow))]}
	}
	switch r.Intn(5) {
	case 0:
		return &sigT{kind: '[', elems: []*sigT{genSig(r, depth-1, allow)}}
	case 1:
		return &sigT{kind: '{', elems: []*sigT{genSig(r, depth-1, allow), genSig(r, depth-1, allow)}}
	case 2:
		n := r.Intn(4)
		t := &sigT{kind: '('}
		for i := 0; i < n; i++ {
			t.elems = append(t.elems, genSig(r, depth-1, allow))
		}
		return t
	default:
		n := r.Intn(4)
		t := &sigT{kind: 'S', name: structNames[r.Intn(len(structNames))]}
		perm := permN(r, len(sigNames))
		for i := 0; i < n; i++ {
			t.elems = append(t.elems, genSig(r, depth-1, allow))
			t.members = append(t.members, sigNames[perm[i]])
		}
		return t
	}
}

func (t *sigT) String() string {
	switch t.kind {
	case 'R': // a signature as it stands (read back from an op line)
		return t.name
	case '[':
		return "[" + t.elems[0].String() + "]"
	case '{':
		return "{" + t.elems[0].String() + t.elems[1].String() + "}"
	case '(':
		s := "("
		for _, e := range t.elems {
			s += e.String()
		}
		return s + ")"
	case 'S':
		s := "("
		for _, e := range t.elems {
			s += e.String()
		}
		s += ")<" + t.name
		for _, m := range t.members {
			s += "," + m
		}
		return s + ">"
	}
	return string(t.kind)
}

func (t *sigT) depthTuple() int {
	d := 0
	for _, e := range t.elems {
		if x := e.depthTuple(); x > d {
			d = x
		}
	}
	if t.kind == '(' || t.kind == 'S' {
		d++
	}
	return d
}

func runC09(r *Rand, tier string, o *Out) {
	n := 2500
	if tier == "thorough" {
		n = 30000
	}
	ws := []string{" ", "\t", "\n", "\r", "  "}
	// corpus: minimised past failures run first
	corpus := []*sigT{
		{kind: '{', elems: []*sigT{{kind: '[', elems: []*sigT{{kind: 'i'}}}, {kind: 'i'}}},
		{kind: 'S', name: "S", elems: []*sigT{{kind: 'i'}, {kind: 'i'}}, members: []string{"a", "A"}},
		{kind: '{', elems: []*sigT{{kind: 'o'}, {kind: 'i'}}},
	}
	for _, t := range corpus {
		s := t.String()
		res := o.Do("P", "sig.parse "+hx([]byte(s)), true)
		o.Count("case:corpus")
		if !strings.HasPrefix(res, "ok sig="+hx([]byte(s))+" ") {
			o.Fail("grammar signature does not print back: "+sigShape(t), s+" => "+res)
		} else if strings.HasSuffix(res, "go=PANIC") {
			o.Fail("accepted signature has no Go type: "+goPanicWhy(t), s)
		}
	}
	for i := 0; i < n; i++ {
		depth := 1 + r.Intn(5)
		t := genSig(r, depth, basicLetters)
		for t.depthTuple() > 7 { // nested parentheses are parsed in exponential time (see C07)
			t = genSig(r, depth, basicLetters)
		}
		s := t.String()
		switch k := r.Intn(100); {
		case k < 45:
			o.Count("case:grammar")
			res := o.Do("P", "sig.parse "+hx([]byte(s)), true)
			if !strings.HasPrefix(res, "ok sig="+hx([]byte(s))+" ") {
				o.Fail("grammar signature does not print back: "+sigShape(t), s+" => "+res)
			} else if strings.HasSuffix(res, "go=PANIC") {
				o.Fail("accepted signature has no Go type: "+goPanicWhy(t), s)
			}
		case k < 60: // white space in front of tokens is accepted by the tokenizer
			o.Count("case:whitespace")
			pos := r.Intn(len(s) + 1)
			m := s[:pos] + ws[r.Intn(len(ws))] + s[pos:]
			res := o.Do("P", "sig.parse "+hx([]byte(m)), true)
			checkFixedPoint(o, m, res)
		case k < 85: // near misses: delete / insert / swap one character
			o.Count("case:near-miss")
			b := []byte(s)
			switch r.Intn(3) {
			case 0:
				if len(b) > 0 {
					p := r.Intn(len(b))
					b = append(b[:p:p], b[p+1:]...)
				}
			case 1:
				p := r.Intn(len(b) + 1)
				cs := "()[]{}<>,iIsm Xr9_"; c := cs[r.Intn(len(cs))]
				b = append(b[:p:p], append([]byte{c}, b[p:]...)...)
			case 2:
				if len(b) > 1 {
					p := r.Intn(len(b) - 1)
					b[p], b[p+1] = b[p+1], b[p]
				}
			}
			if strings.Count(string(b), "(") > 9 {
				continue
			}
			res := o.Do("P", "sig.parse "+hx(b), true)
			checkFixedPoint(o, string(b), res)
		default: // arbitrary bytes
			o.Count("case:random-bytes")
			l := r.Intn(12)
			b := make([]byte, l)
			alphabet := "()[]{}<>,iIsmlLbfdoXvcCwWaZ_09 \t\n\x00\xff\x80"
			for j := range b {
				b[j] = alphabet[r.Intn(len(alphabet))]
			}
			res := o.Do("P", "sig.parse "+hx(b), true)
			checkFixedPoint(o, string(b), res)
		}
	}
	// every input of one byte, and every byte after / before a letter: the grammar is over bytes, most of which are
	// in no token
	for c := 0; c < 256; c++ {
		for _, b := range [][]byte{{byte(c)}, {'i', byte(c)}, {byte(c), 'i'}, {'[', byte(c), ']'}} {
			res := o.Do("P", "sig.parse "+hx(b), true)
			checkFixedPoint(o, string(b), res)
		}
		o.Count("case:every-single-byte")
	}
	// a struct followed by a second definition (or by half of one): one definition per struct is the grammar
	for i := 0; i < 60; i++ {
		n := 1 + r.Intn(3)
		st := &sigT{kind: 'S', name: []string{"A", "Foo", "Map<K>"}[r.Intn(3)]}
		for j := 0; j < n; j++ {
			st.elems = append(st.elems, genSig(r, 1, "ifsbIm"))
			st.members = append(st.members, string(rune('a'+j)))
		}
		if r.Chance(20) {
			st.elems, st.members = nil, nil
		}
		one := st.String()
		def := one[strings.Index(one, ")")+1:]
		extra := []string{def, "<B,b>", "<B>", "<>", "<B", "<B,b><C,c>", "<B,b"}[r.Intn(7)]
		wrap := []string{"%s", "[%s]", "{s%s}", "(i%s)", "(%si)<W,p,q>"}[r.Intn(5)]
		text := fmt.Sprintf(wrap, one+extra)
		res := o.Do("P", "sig.parse "+hx([]byte(text)), true)
		checkFixedPoint(o, text, res)
		o.Count("case:second-definition")
	}
	// two signatures that use one struct name for different members (or for the same), used and parsed again
	pairs := 150
	if tier == "thorough" {
		pairs = 1500
	}
	for i := 0; i < pairs; i++ {
		name := []string{"Point", "Item", "T", "Pair<K>"}[r.Intn(4)]
		mk := func() *sigT {
			n := 1 + r.Intn(3)
			st := &sigT{kind: 'S', name: name}
			for j := 0; j < n; j++ {
				st.elems = append(st.elems, genSig(r, 1, "ifsbIlLd"))
				st.members = append(st.members, []string{"x", "y", "id", "name", "key"}[(j+r.Intn(2))%5])
			}
			switch r.Intn(4) {
			case 0:
				return &sigT{kind: '[', elems: []*sigT{st}}
			case 1:
				return &sigT{kind: '{', elems: []*sigT{{kind: 's'}, st}}
			case 2:
				return &sigT{kind: '(', elems: []*sigT{{kind: 'i'}, st}}
			}
			return st
		}
		ta, tb := mk(), mk()
		if r.Chance(20) {
			tb = ta
		}
		sa, sb := ta.String(), tb.String()
		res := o.Do("P", "sig.reparse "+hx([]byte(sa))+" "+hx([]byte(sb)), true)
		o.Count("case:parsed-again-after-use")
		want := "ok sig=" + hx([]byte(sa))
		if res != "err" && !strings.HasPrefix(res, want+" ") {
			o.Fail("a signature parsed again after its type was used does not print back", sa+" / "+sb+" => "+res)
		}
	}
	// depth: at the bound the parser sets itself, around it, and far beyond (megabytes of brackets:
	// what a message may carry)
	deep := [][2]string{{"list", "999"}, {"list", "1000"}, {"list", "1001"}, {"map", "1000"}, {"map", "1001"}, {"shut", "1000"}, {"shut", "1001"},
		{"list", "1500000"}, {"map", "1500000"}, {"open", "3000000"}}
	if tier == "thorough" {
		deep = append(deep, [][2]string{{"list", "4000000"}, {"map", "2500000"}, {"open", "9000000"}, {"shut", "2000000"}, {"list", "20000"}}...)
	}
	for _, d := range deep {
		line := "sig.deep " + d[0] + " " + d[1]
		out := o.Do("P", line, true)
		o.Count("case:depth-" + d[0])
		if out != "ok" && out != "err" {
			o.Fail("signature parser does not return on deep nesting: "+out, line+" => "+out+" "+crashReason(lastFailDetail))
		}
	}
	if tier == "thorough" {
		exhaustiveSigs(o)
	}
}

// fixed point: whatever is accepted prints a string that is accepted and prints the same
func checkFixedPoint(o *Out, in string, res string) {
	if res == "panic" {
		o.Fail("signature parser panics", fmt.Sprintf("%q", in))
		return
	}
	if !strings.HasPrefix(res, "ok sig=") {
		return
	}
	printed := strings.Fields(res)[1][4:]
	res2 := execSigParse([]string{printed})
	if !strings.HasPrefix(res2, "ok sig="+printed+" ") {
		o.Fail("printing is not a fixed point", fmt.Sprintf("%q prints %s which parses to %s", in, printed, res2))
	}
}

func sigShape(t *sigT) string {
	switch t.kind {
	case '[':
		return "list"
	case '{':
		return "map"
	case '(':
		return "tuple"
	case 'S':
		return "struct"
	}
	return "basic " + string(t.kind)
}

// why Type() panics on an accepted signature (canonical class for known findings)
func goPanicWhy(t *sigT) string {
	var why string
	var walk func(t *sigT)
	walk = func(t *sigT) {
		if t.kind == 'S' {
			seen := map[string]bool{}
			for _, m := range t.members {
				c := signature.CleanName(m)
				if seen[c] {
					why = "struct members collide after CleanName"
				}
				seen[c] = true
			}
		}
		if t.kind == '{' && why == "" {
			if !sigComparable(t.elems[0]) {
				why = "map key is not a comparable Go type"
			}
		}
		for _, e := range t.elems {
			walk(e)
		}
	}
	walk(t)
	if why == "" {
		why = "unknown reason"
	}
	return why
}

func sigComparable(t *sigT) bool {
	switch t.kind {
	case '[', '{', 'o':
		return false
	case '(', 'S':
		for _, e := range t.elems {
			if !sigComparable(e) {
				return false
			}
		}
	}
	return true
}

// every signature of depth <= 2 / width <= 2 over the alphabet {i, s, m}
func exhaustiveSigs(o *Out) {
	base := []string{"i", "s", "m"}
	level := append([]string{}, base...)
	count := 0
	for d := 0; d < 2; d++ {
		var next []string
		for _, a := range level {
			next = append(next, "["+a+"]", "("+a+")", "()<S>", "("+a+")<S,f>")
			for _, b := range base {
				next = append(next, "{"+a+b+"}", "("+a+b+")", "("+a+b+")<S,f,g>")
			}
		}
		level = append(level, next...)
	}
	seen := map[string]bool{}
	for _, s := range level {
		if seen[s] || strings.Count(s, "(") > 6 {
			continue
		}
		seen[s] = true
		res := o.Do("P", "sig.parse "+hx([]byte(s)), true)
		if !strings.HasPrefix(res, "ok sig="+hx([]byte(s))+" ") {
			o.Fail("grammar signature does not print back: exhaustive", s+" => "+res)
		}
		count++
	}
	o.Counters["exhaustive:signatures"] = count
}
