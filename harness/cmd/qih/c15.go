package main

// C15: the service directory.  A real directory server; remote operations through the generated
// ServiceDirectory proxy of a session, local operations through Server.NewService and
// Service.Terminate of the hosting server; a subscriber to serviceAdded and serviceRemoved.
// Sequential scripts (exhaustive to a small depth in the thorough tier, random otherwise) are
// compared with the machine of Model/Directory.lean; concurrent histories of two remote clients
// and the local server are decided by the linearizability acceptor of the driver.

import (
	"bytes"
	gonet "net"
	"encoding/binary"
	"fmt"
	"io/ioutil"
	"log"
	"strings"
	"sync"
	"sync/atomic"
	"time"

	"github.com/lugu/qiloop/bus"
	dir "github.com/lugu/qiloop/bus/directory"
	qnet "github.com/lugu/qiloop/bus/net"
	"github.com/lugu/qiloop/bus/session"
	"github.com/lugu/qiloop/bus/util"
)

type sdNoop struct{}

func (sdNoop) Receive(m *qnet.Message, from bus.Channel) error {
	return from.SendError(m, bus.ErrActionNotFound)
}
func (sdNoop) Activate(bus.Activation) error { return nil }
func (sdNoop) OnTerminate()                  {}

type sdWorld struct {
	addr    string
	srv     bus.Server
	sess    bus.Session
	sd      dir.ServiceDirectoryProxy
	local   map[uint32]bus.Service
	mu      sync.Mutex
	added   []string
	removed []string
	deaf    []gonet.Conn
}

var sdw *sdWorld

func sdNew() (*sdWorld, string) {
	log.SetOutput(ioutil.Discard)
	addr := util.NewUnixAddr()
	srv, err := dir.NewServer(addr, nil)
	if err != nil {
		return nil, "setup-error:" + err.Error()
	}
	sess, err := session.NewSession(addr)
	if err != nil {
		return nil, "setup-error:" + err.Error()
	}
	time.Sleep(15 * time.Millisecond)
	proxy, err := sess.Proxy("ServiceDirectory", 1)
	if err != nil {
		return nil, "setup-error:" + err.Error()
	}
	w := &sdWorld{addr: addr, srv: srv, sess: sess, sd: dir.MakeServiceDirectory(sess, proxy), local: map[uint32]bus.Service{}}
	_, chA, err := w.sd.SubscribeServiceAdded()
	if err != nil {
		return nil, "setup-error:" + err.Error()
	}
	_, chR, err := w.sd.SubscribeServiceRemoved()
	if err != nil {
		return nil, "setup-error:" + err.Error()
	}
	go func() {
		for e := range chA {
			w.mu.Lock()
			w.added = append(w.added, fmt.Sprintf("%d:%s", e.ServiceID, e.Name))
			w.mu.Unlock()
		}
	}()
	go func() {
		for e := range chR {
			w.mu.Lock()
			w.removed = append(w.removed, fmt.Sprintf("%d:%s", e.ServiceID, e.Name))
			w.mu.Unlock()
		}
	}()
	return w, "ok"
}

func sdDeafBystander(w *sdWorld) string {
	conn, err := gonet.Dial("unix", strings.TrimPrefix(w.addr, "unix://"))
	if err != nil {
		return "setup-error:" + err.Error()
	}
	w.deaf = append(w.deaf, conn)
	var buf bytes.Buffer
	if err := bus.WriteCapabilityMap(bus.ClientCap("", ""), &buf); err != nil {
		return "setup-error:" + err.Error()
	}
	send := func(h qnet.Header, p []byte) error { m := qnet.NewMessage(h, p); return m.Write(conn) }
	read := func() (*qnet.Message, error) {
		conn.SetReadDeadline(time.Now().Add(3 * time.Second))
		m := new(qnet.Message)
		return m, m.Read(conn)
	}
	if send(qnet.NewHeader(qnet.Call, 0, 0, 8, 2), buf.Bytes()) != nil {
		return "setup-error:auth"
	}
	if m, err := read(); err != nil || m.Header.Type != qnet.Reply {
		return "setup-error:auth"
	}
	meta := w.sd.Proxy().MetaObject()
	for i, name := range []string{"serviceAdded", "serviceRemoved"} {
		var sid uint32
		for id, sg := range meta.Signals {
			if sg.Name == name {
				sid = id
			}
		}
		p := append(append(le32(1), le32(sid)...), le64(uint64(880000+len(w.deaf)*10+i))...)
		if send(qnet.NewHeader(qnet.Call, 1, 1, 0, uint32(10+i)), p) != nil {
			return "setup-error:subscribe"
		}
		if m, err := read(); err != nil || m.Header.Type != qnet.Reply {
			return "setup-error:subscribe"
		}
	}
	if u, ok := conn.(*gonet.UnixConn); ok {
		u.CloseRead()
	}
	return "ok"
}

func (w *sdWorld) close() {
	for _, c := range w.deaf {
		c.Close()
	}
	w.sess.Terminate()
	w.srv.Terminate()
}

func sdInfo(name, machine, process, eps string, id uint32) dir.ServiceInfo {
	i := dir.ServiceInfo{ServiceId: id}
	if name != "-" {
		i.Name = name
	}
	if machine != "-" {
		i.MachineId = machine
	}
	fmt.Sscanf(process, "%d", &i.ProcessId)
	if eps != "-" {
		for _, e := range strings.Split(eps, ",") {
			if e == "E" {
				i.Endpoints = append(i.Endpoints, "")
			} else {
				i.Endpoints = append(i.Endpoints, "tcp://192.0.2.1:"+e)
			}
		}
	}
	return i
}

// sdShow: everything a ServiceInfo says, so that a list or a lookup that lags behind an update shows;
// services the hosting server registered itself carry its machine, process and address: "host"
func sdShow(s dir.ServiceInfo) string {
	if s.MachineId != "" && s.MachineId != "m" && s.MachineId != "m2" {
		if sdw != nil && (len(s.Endpoints) != 1 || s.Endpoints[0] != sdw.addr) {
			// a service of the hosting server that no longer carries the server's address
			return fmt.Sprintf("%d:%s:host-with-other-endpoints:%s", s.ServiceId, s.Name, strings.Join(s.Endpoints, ","))
		}
		return fmt.Sprintf("%d:%s:host", s.ServiceId, s.Name)
	}
	m := s.MachineId
	if m == "" {
		m = "-"
	}
	var eps []string
	for _, e := range s.Endpoints {
		if e == "" {
			eps = append(eps, "E")
		} else {
			eps = append(eps, strings.TrimPrefix(e, "tcp://192.0.2.1:"))
		}
	}
	e := strings.Join(eps, ",")
	if len(eps) == 0 {
		e = "-"
	}
	return fmt.Sprintf("%d:%s:%s:%d:%s", s.ServiceId, s.Name, m, s.ProcessId, e)
}

func execSd(op string) func(a []string) string {
	return func(a []string) string {
		w := sdw
		var id uint32
		switch op {
		case "reset":
			if sdw != nil {
				sdw.close()
			}
			nw, res := sdNew()
			sdw = nw
			return res
		case "deaf":
			// a bystander: a connection subscribed to both signals of the directory that stops reading for good (its
			// reading side is shut down, it does not close): the server's writes to it fail from now on, while the
			// server sees no end of that stream.  What the directory answers its other clients is what it was.
			return sdDeafBystander(w)
		case "reg":
			k, err := w.sd.RegisterService(sdInfo(a[0], a[1], a[2], a[3], 0))
			if err != nil {
				return "err"
			}
			return fmt.Sprintf("ok %d", k)
		case "ready":
			fmt.Sscanf(a[0], "%d", &id)
			if w.sd.ServiceReady(id) != nil {
				return "err"
			}
			return "ok"
		case "unreg":
			fmt.Sscanf(a[0], "%d", &id)
			if w.sd.UnregisterService(id) != nil {
				return "err"
			}
			return "ok"
		case "update":
			fmt.Sscanf(a[0], "%d", &id)
			if w.sd.UpdateServiceInfo(sdInfo(a[1], a[2], a[3], a[4], id)) != nil {
				return "err"
			}
			return "ok"
		case "service":
			name := a[0]
			if name == "-" {
				name = ""
			}
			i, err := w.sd.Service(name)
			if err != nil {
				return "err"
			}
			return sdShow(i)
		case "services":
			l, err := w.sd.Services()
			if err != nil {
				return "err"
			}
			parts := make([]string, len(l))
			for i, s := range l {
				parts[i] = sdShow(s)
			}
			return strings.Join(parts, " ")
		case "lnew":
			s, err := w.srv.NewService(a[0], sdNoop{})
			if err != nil {
				return "err"
			}
			w.local[s.ServiceID()] = s
			return fmt.Sprintf("ok %d", s.ServiceID())
		case "lterm":
			fmt.Sscanf(a[0], "%d", &id)
			if s, ok := w.local[id]; ok {
				s.Terminate()
				delete(w.local, id)
			}
			return "ok"
		case "events":
			last := -1
			for i := 0; i < 200; i++ {
				w.mu.Lock()
				n := len(w.added) + len(w.removed)
				w.mu.Unlock()
				if n == last && i > 3 {
					break
				}
				last = n
				time.Sleep(time.Millisecond)
			}
			w.mu.Lock()
			defer w.mu.Unlock()
			return fmt.Sprintf("added=[%s] removed=[%s]", strings.Join(w.added, ","), strings.Join(w.removed, ","))
		}
		return "bad-op"
	}
}

// sdHistory: two remote clients and the hosting server work on the names x, y, z concurrently
func sdHistory(r *Rand) (string, string) {
	w, res := sdNew()
	if res != "ok" {
		return "", res
	}
	defer w.close()
	sess2, err := session.NewSession(w.sessAddr())
	if err != nil {
		return "", "setup-error:" + err.Error()
	}
	defer sess2.Terminate()
	time.Sleep(10 * time.Millisecond)
	p2, err := sess2.Proxy("ServiceDirectory", 1)
	if err != nil {
		return "", "setup-error:" + err.Error()
	}
	sd2 := dir.MakeServiceDirectory(sess2, p2)
	var clock int64
	var mu sync.Mutex
	var hist []string
	rec := func(inv, resp int64, kind, name string, id uint32, res int64) {
		mu.Lock()
		hist = append(hist, fmt.Sprintf("%d %d %s %s %d %d", inv, resp, kind, name, id, res))
		mu.Unlock()
	}
	names := []string{"x", "y"}
	remote := func(sd dir.ServiceDirectoryProxy, plan []int, nm []string) {
		var mine []uint32
		for i, k := range plan {
			name := nm[i%len(nm)]
			switch {
			case k < 35:
				inv := atomic.AddInt64(&clock, 1)
				id, err := sd.RegisterService(sdInfo(name, "m", "1", "1", 0))
				resp := atomic.AddInt64(&clock, 1)
				if err != nil {
					rec(inv, resp, "reg", name, 0, -1)
				} else {
					rec(inv, resp, "reg", name, 0, int64(id))
					mine = append(mine, id)
				}
			case k < 60 && len(mine) > 0:
				id := mine[len(mine)-1]
				inv := atomic.AddInt64(&clock, 1)
				err := sd.ServiceReady(id)
				resp := atomic.AddInt64(&clock, 1)
				res := int64(1)
				if err != nil {
					res = -1
				}
				rec(inv, resp, "ready", "-", id, res)
			case k < 80 && len(mine) > 0:
				id := mine[0]
				mine = mine[1:]
				inv := atomic.AddInt64(&clock, 1)
				err := sd.UnregisterService(id)
				resp := atomic.AddInt64(&clock, 1)
				res := int64(1)
				if err != nil {
					res = -1
				}
				rec(inv, resp, "unreg", "-", id, res)
			default:
				inv := atomic.AddInt64(&clock, 1)
				info, err := sd.Service(name)
				resp := atomic.AddInt64(&clock, 1)
				if err != nil {
					rec(inv, resp, "service", name, 0, -1)
				} else {
					rec(inv, resp, "service", name, 0, int64(info.ServiceId))
				}
			}
		}
	}
	plan := func(n int) []int {
		p := make([]int, n)
		for i := range p {
			p[i] = r.Intn(100)
		}
		return p
	}
	pa, pb := plan(3), plan(2)
	localName := []string{"x", "z"}[r.Intn(2)]
	var wg sync.WaitGroup
	wg.Add(3)
	go func() { defer wg.Done(); remote(w.sd, pa, names) }()
	go func() { defer wg.Done(); remote(sd2, pb, []string{"y", "x"}) }()
	go func() {
		defer wg.Done()
		// the hosting server: NewService = register then ready, each one atomic step of the directory
		inv := atomic.AddInt64(&clock, 1)
		s, err := w.srv.NewService(localName, sdNoop{})
		resp := atomic.AddInt64(&clock, 1)
		if err != nil {
			rec(inv, resp, "reg", localName, 0, -1)
			return
		}
		rec(inv, resp, "reg", localName, 0, int64(s.ServiceID()))
		rec(inv, resp, "ready", "-", s.ServiceID(), 1)
		inv = atomic.AddInt64(&clock, 1)
		s.Terminate()
		resp = atomic.AddInt64(&clock, 1)
		rec(inv, resp, "unreg", "-", s.ServiceID(), 1)
	}()
	wg.Wait()
	return strings.Join(hist, " "), "ok"
}

func (w *sdWorld) sessAddr() string { return w.addr }

// sd.stress <iterations>: in a child process (a fatal runtime error cannot be recovered) the hosting
// server registers and removes services locally while a client does the same remotely
// sd.samename <rounds> <writers>: in every round several registrations of one fresh name at the same moment — local
// ones (Server.NewService, which reserves the name directly) and a remote one (through the directory object): a name
// is held by at most one service: exactly one of them is granted, and the list holds the name once.
func childSdSameName(a []string) string {
	var rounds, writers int
	fmt.Sscanf(a[0], "%d", &rounds)
	fmt.Sscanf(a[1], "%d", &writers)
	w, res := sdNew()
	if res != "ok" {
		return res
	}
	defer w.close()
	for round := 0; round < rounds; round++ {
		name := fmt.Sprintf("same%d", round)
		start := make(chan struct{})
		var wg sync.WaitGroup
		var granted int64
		var locals []bus.Service
		var mu sync.Mutex
		var remote uint32
		for g := 0; g < writers; g++ {
			wg.Add(1)
			go func(g int) {
				defer wg.Done()
				<-start
				if g == 0 {
					if id, err := w.sd.RegisterService(sdInfo(name, "m", "1", "1", 0)); err == nil {
						atomic.AddInt64(&granted, 1)
						remote = id
					}
					return
				}
				if s, err := w.srv.NewService(name, sdNoop{}); err == nil {
					atomic.AddInt64(&granted, 1)
					mu.Lock()
					locals = append(locals, s)
					mu.Unlock()
				}
			}(g)
		}
		close(start)
		wg.Wait()
		if granted != 1 {
			return fmt.Sprintf("fail:name-granted-%d-times", granted)
		}
		if remote != 0 {
			w.sd.ServiceReady(remote)
		}
		l, err := w.sd.Services()
		if err != nil {
			return "fail:" + err.Error()
		}
		count := 0
		for _, i := range l {
			if i.Name == name {
				count++
			}
		}
		if count != 1 {
			return fmt.Sprintf("fail:name-listed-%d-times", count)
		}
		if remote != 0 {
			w.sd.UnregisterService(remote)
		}
		for _, s := range locals {
			s.Terminate()
		}
	}
	return "ok"
}

func childSdStress(a []string) string {
	var n int
	fmt.Sscanf(a[0], "%d", &n)
	w, res := sdNew()
	if res != "ok" {
		return res
	}
	defer w.close()
	var wg sync.WaitGroup
	var bad atomic.Value
	wg.Add(2)
	go func() {
		defer wg.Done()
		for i := 0; i < n; i++ {
			s, err := w.srv.NewService(fmt.Sprintf("local%d", i), sdNoop{})
			if err != nil {
				bad.Store("local registration refused: " + err.Error())
				return
			}
			s.Terminate()
		}
	}()
	go func() {
		defer wg.Done()
		last := uint32(0)
		for i := 0; i < n; i++ {
			id, err := w.sd.RegisterService(sdInfo(fmt.Sprintf("remote%d", i), "m", "1", "1", 0))
			if err != nil {
				bad.Store("remote registration refused: " + err.Error())
				return
			}
			if id <= last {
				bad.Store(fmt.Sprintf("id %d handed out after id %d", id, last))
				return
			}
			last = id
			w.sd.ServiceReady(id)
			w.sd.Services()
			w.sd.UnregisterService(id)
		}
	}()
	wg.Wait()
	if v := bad.Load(); v != nil {
		return "fail:" + v.(string)
	}
	l, err := w.sd.Services()
	if err != nil || len(l) != 1 {
		return fmt.Sprintf("fail:%d services left", len(l))
	}
	return "ok"
}

// sd.evrace <iterations>: in a child process.  Every iteration the hosting server registers and
// enables a service locally while a remote client tries to unregister the id that service will get.
// A third connection receives serviceAdded and serviceRemoved on ONE queue, in the order they arrive
// on the wire.  Whatever the interleaving, for one id the events are nothing at all (unregistered
// while it was staged) or added then removed: the state changes and their events are one step each.
func childSdEvRace(a []string) string {
	var n int
	fmt.Sscanf(a[0], "%d", &n)
	w, res := sdNew()
	if res != "ok" {
		return res
	}
	defer w.close()
	ep, err := qnet.DialEndPoint(w.addr)
	if err != nil {
		return "setup-error:dial " + err.Error()
	}
	defer ep.Close()
	if err := bus.AuthenticateUser(ep, "", ""); err != nil {
		return "setup-error:auth " + err.Error()
	}
	cl := bus.NewClient(bus.NewContext(ep))
	meta, err := bus.GetMetaObject(cl, 1, 1)
	if err != nil {
		return "setup-error:meta " + err.Error()
	}
	addedID, err := meta.SignalID("serviceAdded", "(Is)")
	if err != nil {
		return "setup-error:signal " + err.Error()
	}
	removedID, err := meta.SignalID("serviceRemoved", "(Is)")
	if err != nil {
		return "setup-error:signal " + err.Error()
	}
	queue := make(chan *qnet.Message, 1<<16)
	ep.MakeHandler(func(h *qnet.Header) (bool, bool) {
		return h.Type == qnet.Event && h.Service == 1 && (h.Action == addedID || h.Action == removedID), true
	}, queue, func(error) {})
	obj := bus.MakeObject(bus.NewProxy(cl, meta, 1, 1))
	if _, err := obj.RegisterEvent(1, addedID, 7001); err != nil {
		return "setup-error:register " + err.Error()
	}
	if _, err := obj.RegisterEvent(1, removedID, 7002); err != nil {
		return "setup-error:register " + err.Error()
	}
	// the next id: one registration to learn where the counter stands
	first, err := w.sd.RegisterService(sdInfo("probe", "m", "1", "1", 0))
	if err != nil {
		return "setup-error:probe " + err.Error()
	}
	w.sd.UnregisterService(first)
	next := first + 1
	for i := 0; i < n; i++ {
		done := make(chan struct{})
		var wg sync.WaitGroup
		wg.Add(2)
		go func() {
			defer wg.Done()
			defer close(done)
			s, err := w.srv.NewService(fmt.Sprintf("race%d", i), sdNoop{})
			if err == nil {
				s.Terminate()
			}
		}()
		go func(id uint32) {
			defer wg.Done()
			for {
				select {
				case <-done:
					return
				default:
				}
				if w.sd.UnregisterService(id) == nil {
					return
				}
			}
		}(next)
		wg.Wait()
		next++
	}
	// everything emitted has been written before the answer to this call
	w.sd.Services()
	time.Sleep(50 * time.Millisecond)
	seq := map[uint32][]string{}
	for len(queue) > 0 {
		m := <-queue
		if len(m.Payload) < 4 {
			return "fail:event without id"
		}
		id := binary.LittleEndian.Uint32(m.Payload)
		kind := "added"
		if m.Header.Action == removedID {
			kind = "removed"
		}
		seq[id] = append(seq[id], kind)
	}
	for id, ev := range seq {
		s := strings.Join(ev, ",")
		if s != "added,removed" {
			return fmt.Sprintf("fail:service %d events %s", id, s)
		}
	}
	return "ok"
}

// sd.updaterace <attempts>: in a child process.  A remote client updates the description of a local service of the
// hosting server with a very long endpoint list (its validation takes a while) while the server removes that service;
// the removal starts at varying moments of the update.  Whatever the order of the two, once the removal has returned
// the service is gone: not found by name, not listed, its name free again.
func childSdUpdateRace(a []string) string {
	var n int
	fmt.Sscanf(a[0], "%d", &n)
	w, res := sdNew()
	if res != "ok" {
		return res
	}
	defer w.close()
	many := make([]string, 280000)
	for i := range many {
		many[i] = "tcp://198.51.100.7:9559"
	}
	// how long such an update takes from the call to its answer (most of it is the transport and the decoding; the
	// validation and the write come at the end): the removals are spread over the second half of that time
	var total time.Duration
	{
		s, err := w.srv.NewService("updprobe", sdNoop{})
		if err != nil {
			return "setup-error:" + err.Error()
		}
		info, err := w.sd.Service("updprobe")
		if err != nil {
			return "setup-error:" + err.Error()
		}
		info.Endpoints = many
		t0 := time.Now()
		if err := w.sd.UpdateServiceInfo(info); err != nil {
			return "setup-error:update " + err.Error()
		}
		total = time.Since(t0)
		s.Terminate()
	}
	for i := 0; i < n; i++ {
		name := fmt.Sprintf("upd%d", i)
		s, err := w.srv.NewService(name, sdNoop{})
		if err != nil {
			return "setup-error:" + err.Error()
		}
		info, err := w.sd.Service(name)
		if err != nil {
			return "fail:a local service is not found: " + err.Error()
		}
		info.Endpoints = many
		done := make(chan error, 1)
		go func() { done <- w.sd.UpdateServiceInfo(info) }()
		time.Sleep(total * time.Duration(40+(i*65)/n) / 100)
		s.Terminate()
		select {
		case <-done:
		case <-time.After(20 * time.Second):
			return "fail:the update has no answer"
		}
		if got, err := w.sd.Service(name); err == nil {
			return fmt.Sprintf("fail:visible-after-removal service %d (%s) is found after its removal has returned (attempt %d)", got.ServiceId, name, i)
		}
		l, err := w.sd.Services()
		if err != nil {
			return "fail:" + err.Error()
		}
		for _, x := range l {
			if x.Name == name {
				return fmt.Sprintf("fail:visible-after-removal service %s is listed after its removal has returned (attempt %d)", name, i)
			}
		}
		s2, err := w.srv.NewService(name, sdNoop{})
		if err != nil {
			return fmt.Sprintf("fail:name-not-free the name %s cannot be registered again after the removal: %v", name, err)
		}
		s2.Terminate()
	}
	return "ok"
}

var sdLastHistory string

func init() {
	children["sd.history"] = func(a []string) string {
		var seed uint64
		fmt.Sscanf(a[0], "%d", &seed)
		h, res := sdHistory(NewRand(seed))
		if res != "ok" {
			return res
		}
		return "H " + h
	}
	executors["sd.history"] = func(a []string) string {
		out := runChild("sd.history", strings.Join(a, " "), 60*time.Second, 0)
		if strings.HasPrefix(out.Result, "H ") {
			sdLastHistory = strings.TrimPrefix(out.Result, "H ")
			return "recorded"
		}
		lastFailDetail = out.Stderr
		if out.Result == "crash-noresult" {
			return "crash"
		}
		return out.Result
	}
	children["sd.updaterace"] = childSdUpdateRace
	executors["sd.updaterace"] = func(a []string) string {
		out := runChild("sd.updaterace", strings.Join(a, " "), 120*time.Second, 0)
		if out.Result != "ok" {
			lastFailDetail = out.Stderr
		}
		if out.Result == "crash-noresult" {
			return "crash"
		}
		if strings.HasPrefix(out.Result, "fail:") {
			lastFailDetail = out.Result
			return "fail"
		}
		return out.Result
	}
	children["sd.evrace"] = childSdEvRace
	executors["sd.evrace"] = func(a []string) string {
		out := runChild("sd.evrace", strings.Join(a, " "), 120*time.Second, 0)
		if out.Result != "ok" {
			lastFailDetail = out.Stderr
		}
		if out.Result == "crash-noresult" {
			return "crash"
		}
		if strings.HasPrefix(out.Result, "fail:") {
			lastFailDetail = out.Result
			return "fail"
		}
		return out.Result
	}
	children["sd.samename"] = childSdSameName
	executors["sd.samename"] = func(a []string) string {
		out := runChild("sd.samename", strings.Join(a, " "), 120*time.Second, 0)
		if out.Result != "ok" {
			lastFailDetail = out.Stderr
		}
		if out.Result == "crash-noresult" {
			return "crash"
		}
		return out.Result
	}
	children["sd.stress"] = childSdStress
	executors["sd.stress"] = func(a []string) string {
		out := runChild("sd.stress", strings.Join(a, " "), 120*time.Second, 0)
		if out.Result != "ok" {
			lastFailDetail = out.Stderr
		}
		if out.Result == "crash-noresult" {
			return "crash"
		}
		return out.Result
	}
	for _, op := range []string{"deaf", "reset", "reg", "ready", "unreg", "update", "service", "services", "lnew", "lterm", "events"} {
		executors["sd."+op] = execSd(op)
	}
	executors["sd.lin"] = func(a []string) string { return "lin" }
	runners["C15"] = runC15
}

func runC15(r *Rand, tier string, o *Out) {
	names := []string{"a", "b", "c", "ServiceDirectory"}
	idName := map[int]string{} // the name each registered id was given (this script)
	gen := func(ids []int, locals []int) string {
		name := names[r.Intn(len(names))]
		id := 1 + r.Intn(6)
		if len(ids) > 0 && r.Chance(70) {
			id = ids[r.Intn(len(ids))]
		}
		switch k := r.Intn(100); {
		case k < 22:
			m, p, e := "m", "1", "1"
			switch r.Intn(12) {
			case 0:
				name = "-"
			case 1:
				m = "-"
			case 2:
				p = "0"
			case 3:
				e = "-"
			case 4:
				e = "1,E"
			case 5:
				e = "1,2"
			}
			return fmt.Sprintf("sd.reg %s %s %s %s", name, m, p, e)
		case k < 40:
			return fmt.Sprintf("sd.ready %d", id)
		case k < 55:
			return fmt.Sprintf("sd.unreg %d", id)
		case k < 65:
			m, p, e := "m2", "2", "3"
			if r.Chance(20) {
				e = "-"
			}
			if n, ok := idName[id]; ok && r.Chance(65) {
				name = n // an update that keeps name and identity: the one that is accepted
			}
			return fmt.Sprintf("sd.update %d %s %s %s %s", id, name, m, p, e)
		case k < 75:
			return "sd.service " + name
		case k < 82:
			return "sd.services"
		case k < 90:
			return "sd.lnew " + []string{"a", "b", "l1", "l2"}[r.Intn(4)]
		case k < 95 && len(locals) > 0:
			return fmt.Sprintf("sd.lterm %d", locals[r.Intn(len(locals))])
		default:
			return "sd.events"
		}
	}
	scripts := 40
	if tier == "thorough" {
		scripts = 400
	}
	for s := 0; s < scripts; s++ {
		o.Do("P", "sd.reset", false)
		if r.Chance(35) {
			o.Do("P", "sd.deaf", false)
			o.Count("world:a-subscriber-that-stopped-reading")
		}
		var ids, locals []int
		for k := range idName {
			delete(idName, k)
		}
		n := 10 + r.Intn(25)
		for i := 0; i < n; i++ {
			line := gen(ids, locals)
			out := o.Do("P", line, true)
			if !strings.HasPrefix(line, "sd.events") && !strings.HasPrefix(line, "sd.services") && !strings.HasPrefix(line, "sd.service ") {
				o.Count(strings.SplitN(line, " ", 2)[0] + ":" + strings.SplitN(out, " ", 2)[0])
			} else {
				o.Count(strings.SplitN(line, " ", 2)[0])
			}
			var k int
			if strings.HasPrefix(out, "ok ") {
				fmt.Sscanf(out, "ok %d", &k)
				ids = append(ids, k)
				if f := strings.Fields(line); len(f) > 1 && (f[0] == "sd.reg" || f[0] == "sd.lnew") {
					idName[k] = f[1]
				}
				if strings.HasPrefix(line, "sd.lnew") {
					locals = append(locals, k)
				}
			}
			if strings.HasPrefix(line, "sd.lterm") {
				var t int
				fmt.Sscanf(line, "sd.lterm %d", &t)
				for j, l := range locals {
					if l == t {
						locals = append(locals[:j], locals[j+1:]...)
						break
					}
				}
			}
		}
		o.Do("P", "sd.services", true)
		o.Do("P", "sd.events", true)
	}
	// services of the hosting server itself (they are registered with the server's own list of addresses): an update of
	// one of them, then what the directory says of the others and of itself, then another local registration
	for _, l := range []string{"sd.reset", "sd.lnew l1", "sd.lnew l2", "sd.update 2 l1 m2 2 3", "sd.service l1", "sd.service l2",
		"sd.service ServiceDirectory", "sd.services", "sd.lnew a", "sd.service a", "sd.update 1 ServiceDirectory m2 4 5", "sd.service l2",
		"sd.services", "sd.events"} {
		o.Do("P", l, true)
	}
	o.Count("scenario:update-of-a-local-service")
	if tier == "thorough" {
		// every sequence of four operations over two names and the ids they can produce
		alphabet := []string{"sd.reg a m 1 1", "sd.reg b m 1 1", "sd.ready 2", "sd.ready 3", "sd.unreg 2", "sd.unreg 3",
			"sd.update 2 a m2 2 3", "sd.update 2 b m2 2 3", "sd.service a", "sd.services"}
		var rec func(prefix []string, depth int)
		rec = func(prefix []string, depth int) {
			if depth == 0 {
				o.Do("P", "sd.reset", false)
				for _, l := range prefix {
					o.Do("P", l, true)
				}
				o.Do("P", "sd.services", true)
				o.Do("P", "sd.events", true)
				return
			}
			for _, l := range alphabet {
				rec(append(append([]string{}, prefix...), l), depth-1)
			}
		}
		rec(nil, 3)
		o.Count("exhaustive-depth-3")
	}
	stress := 3
	if tier == "thorough" {
		stress = 20
	}
	for i := 0; i < stress; i++ {
		if out := o.Do("P", "sd.stress 300", true); out != "ok" {
			o.Fail("directory under concurrent local and remote operations: "+strings.SplitN(out, " ", 2)[0], "sd.stress 300 => "+out+" "+tail(lastFailDetail, 300))
		}
		o.Count("stress")
	}
	// one name asked for by several at once
	same := [][2]int{{400, 2}, {400, 6}}
	if tier == "thorough" {
		same = [][2]int{{8000, 2}, {8000, 6}, {4000, 12}}
	}
	for _, sn := range same {
		line := fmt.Sprintf("sd.samename %d %d", sn[0], sn[1])
		if out := o.Do("P", line, true); out != "ok" {
			o.Fail("one name registered by several at once: "+strings.TrimPrefix(out, "fail:"), line+" => "+out+" "+tail(lastFailDetail, 300))
		}
		o.Count("same-name-races")
	}
	races := 2
	if tier == "thorough" {
		races = 10
	}
	for i := 0; i < races; i++ {
		if out := o.Do("P", "sd.updaterace 32", true); out != "ok" {
			o.Fail("an update against a removal: "+strings.SplitN(strings.TrimPrefix(lastFailDetail, "fail:"), " ", 2)[0], "sd.updaterace 32 => "+out+" "+tail(lastFailDetail, 300))
		}
		o.Count("scenario:update-against-removal")
		if out := o.Do("P", "sd.evrace 400", true); out != "ok" {
			o.Fail("a state change of the directory and its event are not one step: "+out, "sd.evrace 400 => "+out+" "+tail(lastFailDetail, 300))
		}
		o.Count("event-order races")
	}
	hists := 40
	if tier == "thorough" {
		hists = 400
	}
	for i := 0; i < hists; i++ {
		line := fmt.Sprintf("sd.history %d", r.U64()>>1)
		if out := o.Do("P", line, true); out != "recorded" {
			o.Fail("directory under concurrent local and remote operations: "+strings.SplitN(out, " ", 2)[0], line+" => "+out+" "+tail(lastFailDetail, 300))
			continue
		}
		o.Op("P", "sd.lin "+sdLastHistory, "lin", true)
		o.Count("history")
	}
}
