package main

import (
	"bufio"
	"bytes"
	"context"
	"encoding/binary"
	"fmt"
	"io"
	"io/ioutil"
	"log"
	"os"
	"os/exec"
	"reflect"
	"runtime"
	"runtime/debug"
	"strconv"
	"strings"
	"syscall"
	"time"

	"github.com/lugu/qiloop/bus"
	"github.com/lugu/qiloop/bus/directory"
	qnet "github.com/lugu/qiloop/bus/net"
	"github.com/lugu/qiloop/meta/idl"
	"github.com/lugu/qiloop/meta/signature"
	"github.com/lugu/qiloop/type/encoding"
	"github.com/lugu/qiloop/type/object"
	"github.com/lugu/qiloop/type/value"
)

// ---- decoder entry points ---------------------------------------------------------------

// runEntry feeds data to one decoder entry point; returns "ok" or "err".
func runEntry(entry string, data []byte) string {
	r := bytes.NewReader(data)
	var err error
	switch {
	case entry == "msg":
		var m qnet.Message
		err = m.Read(r)
	case entry == "val":
		_, err = value.NewValue(r)
	case entry == "cap":
		_, err = bus.ReadCapabilityMap(r)
	case entry == "gen:MetaObject":
		_, err = object.ReadMetaObject(r)
	case entry == "gen:ObjectReference":
		_, err = object.ReadObjectReference(r)
	case entry == "gen:ServiceInfo":
		_, err = directory.ReadServiceInfo(r)
	case entry == "sig":
		_, err = signature.Parse(string(data))
	case entry == "idl":
		// the package, then the meta-objects of its interfaces (which asks every declared type for its signature)
		if _, err = idl.ParsePackage(data); err == nil {
			_, err = idl.ParseIDL(bytes.NewReader(data))
		}
	case strings.HasPrefix(entry, "rd:"):
		var rd signature.TypeReader
		rd, err = signature.MakeReader(entry[3:])
		if err == nil {
			_, err = rd.Read(r)
		}
	case strings.HasPrefix(entry, "refl:"):
		t := parseSigT(entry[5:])
		p := reflect.New(goTypeOf(t))
		err = encoding.NewDecoder(encoding.DefaultCap(), r).Decode(p.Interface())
	default:
		return "bad-entry"
	}
	if err != nil {
		return "err"
	}
	return "ok"
}

// child "c07": reads "<entry> <hex>" lines from the file named by its argument and answers
// "<index> <class> <allocBytes> <micros>" per line.
func childC07(a []string) string {
	log.SetOutput(ioutil.Discard)
	// address-space limit: an allocation of gigabytes fails instead of taking the machine down
	lim := uint64(6) << 30
	syscall.Setrlimit(syscall.RLIMIT_AS, &syscall.Rlimit{Cur: lim, Max: lim})
	debug.SetGCPercent(50)
	f, err := os.Open(a[0])
	if err != nil {
		return "child-error"
	}
	defer f.Close()
	start, _ := strconv.Atoi(a[1])
	sc := bufio.NewScanner(f)
	sc.Buffer(make([]byte, 1<<20), 1<<26)
	out := bufio.NewWriter(os.Stdout)
	i := 0
	for sc.Scan() {
		if i < start {
			i++
			continue
		}
		w := strings.Fields(sc.Text())
		data := []byte(nil)
		if len(w) > 1 {
			data = unhx(w[1])
		}
		fmt.Fprintf(out, "BEGIN %d\n", i)
		out.Flush()
		var m0, m1 runtime.MemStats
		runtime.ReadMemStats(&m0)
		t0 := cpuMicros()
		class := func() (c string) {
			defer func() {
				if r := recover(); r != nil {
					c = "panic"
				}
			}()
			return runEntry(w[0], data)
		}()
		d := cpuMicros() - t0
		runtime.ReadMemStats(&m1)
		fmt.Fprintf(out, "DONE %d %s %d %d\n", i, class, m1.TotalAlloc-m0.TotalAlloc, d)
		out.Flush()
		i++
	}
	return "end"
}

// cpuMicros: the processor time this process has used (user + system).  The budget of an input is
// measured in processor time, not in wall-clock time: the verdict must not depend on what else the
// machine is doing.
func cpuMicros() int64 {
	var ru syscall.Rusage
	if err := syscall.Getrusage(syscall.RUSAGE_SELF, &ru); err != nil {
		return time.Now().UnixNano() / 1000
	}
	return ru.Utime.Sec*1e6 + int64(ru.Utime.Usec) + ru.Stime.Sec*1e6 + int64(ru.Stime.Usec)
}

type c07Result struct {
	class  string
	alloc  uint64
	micros int64
}

// runBatch runs all inputs through child processes, restarting after a crash or a hang.
func runBatch(dir string, lines []string, perInput time.Duration) []c07Result {
	path := dir + "/c07-inputs.txt"
	if err := ioutil.WriteFile(path, []byte(strings.Join(lines, "\n")+"\n"), 0o644); err != nil {
		panic(err)
	}
	res := make([]c07Result, len(lines))
	start := 0
	self, _ := os.Executable()
	for start < len(lines) {
		ctx, cancel := context.WithCancel(context.Background())
		cmd := exec.CommandContext(ctx, self)
		cmd.Env = append(os.Environ(), "QIH_CHILD=c07", "QIH_CHILD_ARGS="+path+" "+strconv.Itoa(start), "GOMEMLIMIT=3GiB")
		var stderr bytes.Buffer
		cmd.Stderr = &stderr
		pipe, _ := cmd.StdoutPipe()
		if err := cmd.Start(); err != nil {
			panic(err)
		}
		lineCh := make(chan string, 64)
		go func() {
			sc := bufio.NewScanner(pipe)
			for sc.Scan() {
				lineCh <- sc.Text()
			}
			close(lineCh)
		}()
		current := -1
		timedOut := false
	loop:
		for {
			select {
			case l, ok := <-lineCh:
				if !ok {
					break loop
				}
				w := strings.Fields(l)
				switch w[0] {
				case "BEGIN":
					current, _ = strconv.Atoi(w[1])
				case "DONE":
					i, _ := strconv.Atoi(w[1])
					a, _ := strconv.ParseUint(w[3], 10, 64)
					us, _ := strconv.ParseInt(w[4], 10, 64)
					res[i] = c07Result{w[2], a, us}
					start = i + 1
					current = -1
				}
			case <-time.After(perInput):
				timedOut = true
				cancel()
				break loop
			}
		}
		cancel()
		io.Copy(ioutil.Discard, pipe)
		cmd.Wait()
		if start >= len(lines) {
			break
		}
		if current >= 0 && res[current].class == "" {
			switch {
			case timedOut:
				res[current] = c07Result{class: "timeout"}
			case strings.Contains(stderr.String(), "out of memory") || strings.Contains(stderr.String(), "cannot allocate"):
				res[current] = c07Result{class: "oom"}
			default:
				res[current] = c07Result{class: "crash"}
			}
			start = current + 1
		} else if current < 0 {
			// the child ended without starting the next input: should not happen; skip one
			if res[start].class == "" {
				res[start] = c07Result{class: "crash"}
			}
			start++
		}
	}
	return res
}

// runParallel spreads the inputs over `workers` independent child processes.
func runParallel(dir string, lines []string, perInput time.Duration, workers int) []c07Result {
	if workers < 1 {
		workers = 1
	}
	res := make([]c07Result, len(lines))
	type part struct {
		idx   []int
		lines []string
	}
	parts := make([]part, workers)
	for i, l := range lines {
		w := i % workers
		parts[w].idx = append(parts[w].idx, i)
		parts[w].lines = append(parts[w].lines, l)
	}
	done := make(chan int, workers)
	for w := range parts {
		go func(w int) {
			if len(parts[w].lines) > 0 {
				sub := dir + "/w" + strconv.Itoa(w)
				os.MkdirAll(sub, 0o755)
				r := runBatch(sub, parts[w].lines, perInput)
				for k, i := range parts[w].idx {
					res[i] = r[k]
				}
			}
			done <- w
		}(w)
	}
	for range parts {
		<-done
	}
	return res
}

func init() {
	// c07.deep <shape> <n>: a dynamic value whose signature is <n> brackets deep (see sig.deep), read from the wire by
	// value.NewValue, in a process of its own: an error (or a value), never the end of the process
	children["c07.deep"] = func(a []string) string {
		n, _ := strconv.Atoi(a[1])
		sig := sigDeepText(a[0], n)
		var b bytes.Buffer
		binary.Write(&b, binary.LittleEndian, uint32(len(sig)))
		b.WriteString(sig)
		b.Write(make([]byte, 64))
		if _, err := value.NewValue(&b); err != nil {
			return "err"
		}
		return "ok"
	}
	executors["c07.deep"] = func(a []string) string {
		out := runChild("c07.deep", strings.Join(a, " "), 300*time.Second, 0)
		if out.Result != "ok" && out.Result != "err" {
			lastFailDetail = out.Stderr
		}
		if out.Result == "crash-noresult" {
			return "crash"
		}
		return out.Result
	}
	children["c07"] = childC07
	runners["C07"] = runC07
	// replay of one input: "c07 <entry> <hex>"
	executors["c07"] = func(a []string) string {
		data := ""
		if len(a) > 1 {
			data = a[1]
		}
		dir, _ := ioutil.TempDir("", "qiverif-c07")
		defer os.RemoveAll(dir)
		r := runBatch(dir, []string{a[0] + " " + data}, 20*time.Second)
		return classify07(r[0], len(unhx(data)))
	}
}

const allocFloor = 48 << 20 // one capped allocation (10 MiB string / payload, 4096 entries) plus slack

func classify07(r c07Result, n int) string {
	switch r.class {
	case "ok", "err":
		if r.alloc > uint64(allocFloor+512*n) {
			return "blowup"
		}
		if r.micros > 3_000_000 {
			return "blowup"
		}
		return r.class
	}
	return r.class // panic, crash, oom, timeout
}

// ---- hostile inputs --------------------------------------------------------------------

var hostileCounts = []uint32{0, 1, 2, 0x7FFFFFFF, 0x80000000, 0xFFFFFFFF, 0x01000000, 4096, 4097, 0x00A00001, 65536, 1 << 20, 2000000}

// mutateCounts replaces each aligned 4-byte field, in turn, by a hostile value.
func mutateCounts(r *Rand, enc []byte, max int) [][]byte {
	var out [][]byte
	for off := 0; off+4 <= len(enc) && len(out) < max; off += 1 + r.Intn(3) {
		m := append([]byte{}, enc...)
		v := hostileCounts[r.Intn(len(hostileCounts))]
		m[off], m[off+1], m[off+2], m[off+3] = byte(v), byte(v>>8), byte(v>>16), byte(v>>24)
		out = append(out, m)
	}
	return out
}

type c07Case struct {
	entry string
	data  []byte
	kind  string
}

func runC07(r *Rand, tier string, o *Out) {
	log.SetOutput(ioutil.Discard)
	var cases []c07Case
	add := func(entry string, data []byte, kind string) { cases = append(cases, c07Case{entry, data, kind}) }
	le := func(v uint32) []byte { return leBytes(4, uint64(v)) }

	// corpus: minimised witnesses of past findings first
	add("gen:MetaObject", le(0xFFFFFF7F), "corpus")
	add("gen:MetaObject", append(le(1), append(le(7), append(le(0), append(le(0), append(le(0), append(le(0), le(0x7FFFFFFF)...)...)...)...)...)...), "corpus")
	add("gen:ServiceInfo", append(le(0), append(le(0), append(le(0), append(le(0), le(0xFFFFFFFF)...)...)...)...), "corpus")
	add("rd:[v]", le(0xFFFFFFFF), "corpus")
	add("rd:[()]", le(0xFFFFFFFF), "corpus")
	add("rd:{vv}", le(0x7FFFFFFF), "corpus")
	add("sig", []byte(strings.Repeat("(", 24)+"i"+strings.Repeat(")", 24)), "corpus")
	add("refl:[i]", le(0x80000000), "corpus")
	add("refl:(s[i])", append(le(0), le(0xFFFFFFFF)...), "corpus")
	add("val", append(append(le(3), "[m]"...), le(0xFFFFFFFF)...), "corpus")
	add("val", append(append(le(1), "r"...), le(0xFFFFFFFF)...), "corpus")
	add("cap", le(0xFFFFFFFF), "corpus")
	add("msg", wireOf(qnet.Header{Magic: qnet.Magic, Type: 1, Size: 0xFFFFFFFF}, nil), "corpus")
	// lists of elements of a fixed size announcing millions of them, with little or nothing behind the
	// count: through the signature-driven reader, inside a value, inside typed data
	for _, e := range []string{"c", "C", "w", "W", "i", "I", "l", "L", "f", "d", "b"} {
		for _, cnt := range []uint32{0x00800000, 0x7FFFFFFF, 0xFFFFFFFF} {
			data := append(le(cnt), make([]byte, []int{0, 16}[int(cnt>>31)^1&1])...)
			add("rd:["+e+"]", data, "fixed-size-elements")
			add("val", append(append(le(3), ("["+e+"]")...), data...), "fixed-size-elements")
		}
		add("rd:{s["+e+"]}", append(append(le(1), le(0)...), le(0x00800000)...), "fixed-size-elements")
		add("val", append(append(append(le(3), "[m]"...), le(1)...), append(append(le(3), ("["+e+"]")...), le(0x00800000)...)...), "fixed-size-elements")
	}

	// lists of values that announce between a few thousand and a few million elements, one inside the other,
	// with nothing behind the last count: every level that is accepted keeps its allocation alive
	for _, cnt := range []uint32{4097, 65536, 1 << 20, 2000000, 2097152, 2097153} {
		for _, depth := range []int{1, 4, 12} {
			var data []byte
			for d := 0; d < depth; d++ {
				data = append(append(append(data, le(3)...), "[m]"...), le(cnt)...)
			}
			add("val", data, "nested-value-lists")
			add("rd:[m]", append(le(1), data...), "nested-value-lists")
		}
	}

	// values nested thousands of levels deep — a value in a value in a value …, one-item lists of values in one another —
	// that end in nothing: refused, at a cost in proportion to the input
	for _, depth := range []int{2500, 6000} {
		var data, l []byte
		for d := 0; d < depth; d++ {
			data = append(append(data, le(1)...), 'm')
		}
		for d := 0; d < depth*2/3; d++ {
			l = append(append(append(l, le(3)...), "[m]"...), le(1)...)
		}
		add("val", data, "deeply-nested-values-cut")
		add("val", l, "deeply-nested-values-cut")
	}

	// valid signatures nested tens to hundreds of levels deep — lists in lists, maps in the keys of maps — in a value
	// that holds an empty list / map: building the reader costs in proportion to the depth
	for _, depth := range []int{26, 48, 200, 900} {
		lists := strings.Repeat("[", depth) + "i" + strings.Repeat("]", depth)
		maps := strings.Repeat("{", depth) + "i" + strings.Repeat("i}", depth)
		for _, sg := range []string{lists, maps} {
			data := append(append(le(uint32(len(sg))), sg...), le(0)...)
			add("val", data, "deep-valid-signature")
			add("rd:[m]", append(le(1), data...), "deep-valid-signature")
		}
	}
	// valid signatures of tens of kilobytes in a value — a struct with a very long name, a tuple of thousands of
	// members — each twice in a row (whatever the first left behind — a cache, a table — meets the second)
	for _, sg := range []string{"(i)<" + strings.Repeat("A", 20000) + ",a>", "(" + strings.Repeat("i", 17000) + ")"} {
		n := 1
		if sg[1] == 'i' && sg[2] == 'i' {
			n = 17000
		}
		data := append(append(le(uint32(len(sg))), sg...), make([]byte, 4*n)...)
		add("val", data, "long-valid-signature")
		add("val", data, "long-valid-signature")
		add("rd:[m]", append(le(2), append(append([]byte{}, data...), data...)...), "long-valid-signature")
	}

	rounds := 10
	if tier == "thorough" {
		rounds = 250
	}
	genSigs := map[string]string{"gen:MetaObject": signature.MetaObjectSignature, "gen:ObjectReference": signature.ObjectSignature,
		"gen:ServiceInfo": serviceInfoSig}
	for i := 0; i < rounds; i++ {
		// generated readers and the capability map: valid encodings with every count/length field mutated
		for _, entry := range []string{"gen:MetaObject", "gen:ObjectReference", "gen:ServiceInfo"} {
			sig := genSigs[entry]
			st := parseSigT(sig)
			enc := encD(st, genTVal(r, st, 1))
			add(entry, enc, "valid")
			for _, m := range mutateCounts(r, enc, 6) {
				add(entry, m, "mutated-count")
			}
		}
		capT := parseSigT("{sm}")
		enc := encD(capT, genTVal(r, capT, 1))
		add("cap", enc, "valid")
		for _, m := range mutateCounts(r, enc, 4) {
			add("cap", m, "mutated-count")
		}
		// typed data: signature reader and reflection decoder
		t := genCodecSig(r, 1+r.Intn(3), false)
		enc = encD(t, genTVal(r, t, 2))
		for _, e := range []string{"rd:", "refl:"} {
			add(e+t.String(), enc, "valid")
			for _, m := range mutateCounts(r, enc, 4) {
				add(e+t.String(), m, "mutated-count")
			}
		}
		// dynamic values
		g := genGVal(r, 2)
		add("val", g.encode(), "valid")
		for _, m := range mutateCounts(r, g.encode(), 4) {
			add("val", m, "mutated-count")
		}
		// messages
		h, _ := genHeader(r, true)
		h.Size = hostileCounts[r.Intn(len(hostileCounts))]
		add("msg", wireOf(h, r.Bytes(r.Intn(20))), "mutated-count")
		// random bytes everywhere
		entries := []string{"msg", "val", "cap", "gen:MetaObject", "gen:ObjectReference", "gen:ServiceInfo", "rd:[s]",
			"rd:{s[m]}", "rd:m", "refl:[s]", "refl:{Is}", "refl:m"}
		add(entries[r.Intn(len(entries))], r.Bytes(r.Intn(40)), "random")
		// parsers: grammar strings, deep nesting, near misses, random text
		s := genSig(r, 1+r.Intn(4), basicLetters).String()
		add("sig", []byte(s), "valid")
		depth := 2 + r.Intn(11)
		add("sig", []byte(strings.Repeat("(", depth)+"i"+strings.Repeat(")", depth)), "nested-tuples")
		add("sig", []byte(strings.Repeat("[", 200+r.Intn(400))+"i"), "nested-lists")
		add("sig", r.Bytes(r.Intn(30)), "random")
		// near misses of valid signatures: a character dropped, doubled or replaced; member names that do not
		// match the member types, at any depth
		add("sig", mutateText(r, genSig(r, 1+r.Intn(4), basicLetters).String()), "mutated-text")
		{
			inner := []string{"(s)<A,a,b>", "(ss)<A,a>", "(I)<A>", "()<A,a>", "(s(s)<B,a,b>)<A,x,y>", "(i)<A,a,>", "(i)<,a>"}[r.Intn(7)]
			wrap := []string{"[%s]", "{s%s}", "(%s)", "(i%s)<S,a,b>", "[[%s]]", "{I[%s]}", "%s"}[r.Intn(7)]
			add("sig", []byte(fmt.Sprintf(wrap, inner)), "member-count-mismatch")
		}
		if i == 0 {
			// a chain of structs that each refer twice to the next: the signature of the first doubles with every link
			var b strings.Builder
			b.WriteString("package p\n")
			const links = 19
			for k := 0; k < links; k++ {
				fmt.Fprintf(&b, "struct S%d\n\ta: S%d\n\tb: S%d\nend\n", k, k+1, k+1)
			}
			fmt.Fprintf(&b, "struct S%d\n\ta: int32\nend\ninterface A\n\tfn f(x: S0)\nend\n", links)
			add("idl", []byte(b.String()), "struct-chain")
		}
		add("idl", []byte(idlSamples[r.Intn(len(idlSamples))]), "valid")
		add("idl", mutateText(r, idlSamples[r.Intn(len(idlSamples))]), "mutated-text")
		add("idl", r.Bytes(r.Intn(60)), "random")
	}

	lines := make([]string, len(cases))
	for i, c := range cases {
		lines[i] = c.entry + " " + hx(c.data)
	}
	results := runParallel(o.dir, lines, 5*time.Second, 8)
	// an input that crashed, ran out of memory or timed out inside a batch is re-run alone in a
	// fresh process (garbage left by earlier inputs must not be blamed on it); at most a few per
	// entry point, the others keep the batch verdict
	confirmed := map[string]int{}
	var rerun []int
	for i, c := range cases {
		cl := results[i].class
		if cl == "ok" || cl == "err" {
			continue
		}
		key := c.entry
		if strings.HasPrefix(key, "rd:") || strings.HasPrefix(key, "refl:") {
			key = key[:3]
		}
		if confirmed[key] >= 4 {
			continue
		}
		confirmed[key]++
		rerun = append(rerun, i)
		o.Count("rerun-alone")
	}
	{
		var rl []string
		for _, i := range rerun {
			rl = append(rl, lines[i])
		}
		rr := runParallel(o.dir, rl, 5*time.Second, len(rl))
		for k, i := range rerun {
			results[i] = rr[k]
		}
	}
	worstAlloc, worstMicros := uint64(0), int64(0)
	for i, c := range cases {
		cl := classify07(results[i], len(c.data))
		e := c.entry
		if strings.HasPrefix(e, "rd:") {
			e = "rd"
		} else if strings.HasPrefix(e, "refl:") {
			e = "refl"
		}
		o.Count("entry:" + e)
		o.Count("input:" + c.kind)
		o.Count("class:" + cl)
		class := "P"
		if c.entry == "idl" {
			// no Lean model of the IDL parser yet: the oracle alone decides
			rec := cl
			if cl == "ok" || cl == "err" {
				rec = "ok-or-err"
			}
			if c.kind == "struct-chain" {
				// a listed finding: both sides answer known-weakness, whether it still fails is reported here
				o.Op("X", "c07.idlx "+hx(c.data), "known-weakness", true)
				if cl == "blowup" || cl == "timeout" || cl == "oom" {
					o.Fail("idl parser needs memory exponential in a chain of structs that each refer twice to the next", fmt.Sprintf("%d bytes of IDL => %s (alloc=%d us=%d)", len(c.data), cl, results[i].alloc, results[i].micros))
				} else if cl != "ok" && cl != "err" {
					o.Fail("idl parser: "+cl, fmt.Sprintf("%q", c.data))
				}
				continue
			}
			o.Op("P", "c07.idl "+hx(c.data), rec, true)
			if cl != "ok" && cl != "err" {
				o.Fail("idl parser: "+cl, fmt.Sprintf("%q", c.data))
			}
			continue
		}
		o.Op(class, "c07 "+c.entry+" "+hx(c.data), cl, true)
		if results[i].class == "ok" || results[i].class == "err" {
			if results[i].alloc > worstAlloc {
				worstAlloc = results[i].alloc
			}
			if results[i].micros > worstMicros {
				worstMicros = results[i].micros
			}
		}
		if cl != "ok" && cl != "err" {
			o.Fail(c07Class(c, cl), fmt.Sprintf("c07 %s %s => %s (alloc=%d us=%d)", c.entry, hx(c.data), cl, results[i].alloc, results[i].micros))
		}
	}
	// signatures of millions of brackets in a value read from the wire
	for _, d := range [][2]string{{"list", "1500000"}, {"open", "3000000"}, {"map", "1200000"}} {
		line := "c07.deep " + d[0] + " " + d[1]
		if out := o.Do("P", line, true); out != "ok" && out != "err" {
			o.Fail("a deeply nested signature in a value ends the process: "+out, line+" => "+out+" "+crashReason(lastFailDetail))
		}
		o.Count("class:deep-signature")
	}
	o.Extra["worst_alloc_bytes_among_ok_err"] = worstAlloc
	o.Extra["worst_micros_among_ok_err"] = worstMicros
}

// canonical class of a resource / crash failure: the entry point and the mechanism
func c07Class(c c07Case, cl string) string {
	// a listed finding is a resource blow-up of one mechanism; a panic or a crash at the same entry
	// point is something else and keeps its own class
	resource := cl == "blowup" || cl == "timeout" || cl == "oom"
	switch {
	case c.entry == "sig" && resource:
		return "signature parser takes exponential time on nested parentheses"
	case c.entry == "sig":
		return "signature parser: " + cl
	case strings.HasPrefix(c.entry, "gen:") && resource:
		return "generated reader allocates the element count found on the wire"
	case strings.HasPrefix(c.entry, "gen:"):
		return "generated reader: " + cl
	case strings.HasPrefix(c.entry, "rd:"):
		t := parseSigTSafe(c.entry[3:])
		if t != nil && hasZeroSizeElem(t) && resource {
			return "signature-driven reader iterates the wire count over zero-size elements"
		}
		return "signature-driven reader: " + cl
	}
	return c.entry + ": " + cl
}

func parseSigTSafe(s string) (t *sigT) {
	defer func() {
		if recover() != nil {
			t = nil
		}
	}()
	return parseSigT(s)
}

func hasZeroSizeElem(t *sigT) bool {
	switch t.kind {
	case '[':
		return zeroSizeSig(t.elems[0]) || hasZeroSizeElem(t.elems[0])
	case '{':
		return zeroSizeSig(t.elems[0]) && zeroSizeSig(t.elems[1]) || hasZeroSizeElem(t.elems[0]) || hasZeroSizeElem(t.elems[1])
	case '(', 'S':
		for _, e := range t.elems {
			if hasZeroSizeElem(e) {
				return true
			}
		}
	}
	return false
}

var idlSamples = []string{
	"struct Node\n\tleft: Node\n\tright: Node\nend\ninterface Tree\n\tfn root() -> Node\nend\n",
	"struct A\n\tb: B\n\tc: Vec<A>\nend\nstruct B\n\ta: A\n\tb: Map<str,B>\nend\ninterface I\n\tfn f(a: A) -> B\n\tsig s(b: B)\nend\n",
	"struct L\n\tnext: L\n\tother: Tuple<L,L>\n\tv: int32\nend\ninterface J\n\tprop p(l: L)\nend\n",
	"package test\ninterface A\n\tfn f(a: int32, b: str) -> bool //uid:100\n\tsig s(x: float32) //uid:101\n\tprop p(v: Vec<str>) //uid:102\nend\n",
	"struct P\n\tx: int32\n\ty: Map<str,Vec<float64>>\nend\ninterface B\n\tfn g(p: P) -> Tuple<int32,str>\nend\n",
	"package a.b\nenum E\n\tone = 1\n\ttwo = 2\nend\ninterface C\n\tfn h(e: E) -> any\nend\n",
	"interface D\n\tfn m() //uid:3\nend\ninterface F\n\tfn n(d: D) -> obj\nend\n",
}

func mutateText(r *Rand, s string) []byte {
	b := []byte(s)
	for k := 0; k < 1+r.Intn(3) && len(b) > 0; k++ {
		p := r.Intn(len(b))
		switch r.Intn(3) {
		case 0:
			b = append(b[:p:p], b[p+1:]...)
		case 1:
			cs := "<>(),:/ \n\tabz09_-=\x00"; c := cs[r.Intn(len(cs))]
			b = append(b[:p:p], append([]byte{c}, b[p:]...)...)
		case 2:
			b[p] = byte(r.U64())
		}
	}
	return b
}
