package main

// C04 / C19: calls that share one client, and the handler slots of its connection.
//
// c04.cancelcross: caller A gives up its call; while its Cancel message is on its way out the answer to that call
// arrives (A's reply handler is consumed, its slot is free again) and caller B, on the same client, starts a call (its
// handler gets that slot).  Then A's Cancel goes out and A returns.  B's call is answered and returns its answer.
//
// c04.staleremove: a handler of the connection is removed twice (the second removal is refused); two calls that overlap
// afterwards each return their own answer.

import (
	"fmt"
	"io/ioutil"
	"log"
	gonet "net"
	"sync"
	"time"

	"github.com/lugu/qiloop/bus"
	qnet "github.com/lugu/qiloop/bus/net"
)

// holdCancelEP holds Cancel messages back until the gate opens
type holdCancelEP struct {
	qnet.EndPoint
	entered chan struct{}
	gate    chan struct{}
	once    sync.Once
}

func (h *holdCancelEP) Send(m qnet.Message) error {
	if m.Header.Type == qnet.Cancel {
		h.once.Do(func() { close(h.entered) })
		<-h.gate
	}
	return h.EndPoint.Send(m)
}

// slotPeer is the other end of the connection, by hand: it reads the frames the client sends
type slotPeer struct {
	conn  gonet.Conn
	calls chan *qnet.Message
}

func newSlotPeer(conn gonet.Conn) *slotPeer {
	p := &slotPeer{conn: conn, calls: make(chan *qnet.Message, 16)}
	go func() {
		for {
			m := new(qnet.Message)
			if m.Read(conn) != nil {
				close(p.calls)
				return
			}
			if m.Header.Type == qnet.Call {
				p.calls <- m
			}
		}
	}()
	return p
}

func (p *slotPeer) nextCall() (*qnet.Message, bool) {
	select {
	case m, ok := <-p.calls:
		return m, ok
	case <-time.After(3 * time.Second):
		return nil, false
	}
}

func (p *slotPeer) reply(to *qnet.Message, payload []byte) error {
	h := qnet.NewHeader(qnet.Reply, to.Header.Service, to.Header.Object, to.Header.Action, to.Header.ID)
	m := qnet.NewMessage(h, payload)
	return m.Write(p.conn)
}

type slotOutcome struct {
	payload []byte
	err     error
}

func c04CancelCross(a []string) string {
	log.SetOutput(ioutil.Discard)
	x, y := gonet.Pipe()
	defer x.Close()
	defer y.Close()
	peer := newSlotPeer(y)
	hep := &holdCancelEP{EndPoint: qnet.NewEndPoint(qnet.ConnStream(x)), entered: make(chan struct{}), gate: make(chan struct{})}
	cl := bus.NewClient(bus.NewContext(hep))
	cancelA := make(chan struct{})
	outA := make(chan slotOutcome, 1)
	go func() { p, err := cl.Call(cancelA, 1, 1, 100, svString("a")); outA <- slotOutcome{p, err} }()
	callA, ok := peer.nextCall()
	if !ok {
		return "fail:the first call did not reach the peer"
	}
	close(cancelA)
	select {
	case <-hep.entered:
	case <-time.After(3 * time.Second):
		return "fail:the cancelled call does not send its cancel message"
	}
	if err := peer.reply(callA, svString("answer-a")); err != nil {
		return "setup-error:" + err.Error()
	}
	time.Sleep(5 * time.Millisecond) // the answer is dispatched: A's handler is consumed
	outB := make(chan slotOutcome, 1)
	go func() { p, err := cl.Call(nil, 1, 1, 100, svString("b")); outB <- slotOutcome{p, err} }()
	callB, ok := peer.nextCall()
	if !ok {
		return "fail:the second call did not reach the peer"
	}
	close(hep.gate) // A's cancel message goes out, A returns
	select {
	case <-outA:
	case <-time.After(3 * time.Second):
		return "fail:the cancelled call does not return"
	}
	time.Sleep(5 * time.Millisecond)
	if err := peer.reply(callB, svString("answer-b")); err != nil {
		return "setup-error:" + err.Error()
	}
	select {
	case o := <-outB:
		if o.err != nil {
			return "fail:the call of another caller, answered by the peer, returns an error: " + o.err.Error()
		}
		if string(o.payload) != string(svString("answer-b")) {
			return "fail:the call of another caller returns " + hx(o.payload)
		}
	case <-time.After(3 * time.Second):
		return "fail:the call of another caller, answered by the peer, does not return"
	}
	return "ok"
}

func c04StaleRemove(a []string) string {
	log.SetOutput(ioutil.Discard)
	for round := 0; round < 3; round++ {
		x, y := gonet.Pipe()
		peer := newSlotPeer(y)
		ep := qnet.NewEndPoint(qnet.ConnStream(x))
		cl := bus.NewClient(bus.NewContext(ep))
		// a handler that is removed twice: the second removal is refused
		id := ep.MakeHandler(func(*qnet.Header) (bool, bool) { return false, true }, make(chan *qnet.Message, 1), nil)
		if err := ep.RemoveHandler(id); err != nil {
			return "fail:removal refused: " + err.Error()
		}
		if err := ep.RemoveHandler(id); err == nil {
			return "fail:a second removal of the same handler is accepted"
		}
		outs := make([]chan slotOutcome, 2+round)
		var calls []*qnet.Message
		for i := range outs {
			outs[i] = make(chan slotOutcome, 1)
			arg := fmt.Sprintf("c%d", i)
			go func(ch chan slotOutcome) { p, err := cl.Call(nil, 1, 1, 100, svString(arg)); ch <- slotOutcome{p, err} }(outs[i])
			m, ok := peer.nextCall()
			if !ok {
				return "fail:a call did not reach the peer"
			}
			calls = append(calls, m)
		}
		// answered in the order of the calls: each caller gets the answer to its own
		for i, m := range calls {
			if err := peer.reply(m, append(svString("answer-to-"), m.Payload...)); err != nil {
				return "setup-error:" + err.Error()
			}
			select {
			case o := <-outs[i]:
				want := append(svString("answer-to-"), svString(fmt.Sprintf("c%d", i))...)
				if o.err != nil {
					return fmt.Sprintf("fail:call %d of %d, answered by the peer, returns an error: %v", i, len(calls), o.err)
				}
				if string(o.payload) != string(want) {
					return fmt.Sprintf("fail:call %d returns the answer to another call", i)
				}
			case <-time.After(3 * time.Second):
				return fmt.Sprintf("fail:call %d of %d overlapping calls was answered by the peer and does not return", i, len(calls))
			}
		}
		x.Close()
		y.Close()
	}
	return "ok"
}

func init() {
	executors["c04.cancelcross"] = func(a []string) string {
		r := c04CancelCross(a)
		if r != "ok" {
			lastFailDetail = r
		}
		return r
	}
	executors["c04.staleremove"] = func(a []string) string {
		r := c04StaleRemove(a)
		if r != "ok" {
			lastFailDetail = r
		}
		return r
	}
}
