package main

// C14: one change event per accepted write to each subscriber, when the set of subscribers changes while an
// announcement is under way: the first subscriber's connection does not read, so the announcement waits in its
// write; meanwhile the second subscriber leaves; then the first one reads again.  The third subscriber has received
// the value of every write once.

import (
	"fmt"
	"io/ioutil"
	"log"
	gonet "net"
	"sync"
	"sync/atomic"
	"time"

	"github.com/lugu/qiloop/bus"
	qnet "github.com/lugu/qiloop/bus/net"
	"github.com/lugu/qiloop/type/object"
	"github.com/lugu/qiloop/type/value"
)

// holdWriteStream: once armed, a write waits at the gate and then fails (the peer is gone by then)
type holdWriteStream struct {
	qnet.Stream
	armed   int32
	entered chan struct{}
	gate    chan struct{}
	once    sync.Once
}

func (h *holdWriteStream) Write(p []byte) (int, error) {
	if atomic.LoadInt32(&h.armed) == 1 {
		h.once.Do(func() { close(h.entered) })
		<-h.gate
		return 0, fmt.Errorf("connection reset by peer")
	}
	return h.Stream.Write(p)
}

func prEmitRace(a []string) string { return prEmitRaceMode("leave") }

// pr.hanguprace: the first subscriber's connection is lost while the announcement of a write waits in the write to
// it; the clean-up of the lost connection has removed its registration by the time that write fails.  The other
// subscribers have received the value of every write once.
func prEmitRaceMode(mode string) string {
	log.SetOutput(ioutil.Discard)
	l := &auListener{ch: make(chan qnet.Stream), closed: make(chan struct{})}
	srv, err := bus.StandAloneServer(l, bus.Yes{}, bus.PrivateNamespace())
	if err != nil {
		return "setup-error:" + err.Error()
	}
	defer srv.Terminate()
	var meta object.MetaObject
	meta.Properties = map[uint32]object.MetaProperty{200: {Uid: 200, Name: "level", Signature: "i"}}
	custom := bus.NewBasicObject(prNoop{}, meta, func(string, []byte) error { return nil })
	svc, err := srv.NewService("Custom", custom)
	if err != nil {
		return "setup-error:" + err.Error()
	}
	sid := svc.ServiceID()
	// the first subscriber, by hand
	x, y := gonet.Pipe()
	hw := &holdWriteStream{Stream: qnet.ConnStream(y), entered: make(chan struct{}), gate: make(chan struct{})}
	l.ch <- hw
	defer x.Close()
	ask := func(h qnet.Header, p []byte) (*qnet.Message, error) {
		m := qnet.NewMessage(h, p)
		werr := make(chan error, 1)
		go func() { werr <- m.Write(x) }()
		select {
		case err := <-werr:
			if err != nil {
				return nil, err
			}
		case <-time.After(2 * time.Second):
			return nil, fmt.Errorf("write timeout")
		}
		r := new(qnet.Message)
		rerr := make(chan error, 1)
		go func() { rerr <- r.Read(x) }()
		select {
		case err := <-rerr:
			return r, err
		case <-time.After(2 * time.Second):
			return nil, fmt.Errorf("read timeout")
		}
	}
	if _, err := ask(qnet.NewHeader(qnet.Call, 0, 0, 8, 1), auMap(nil)); err != nil {
		return "setup-error:authenticate:" + err.Error()
	}
	reg := append(append(leBytes(4, 1), leBytes(4, 200)...), leBytes(8, 7)...)
	if r, err := ask(qnet.NewHeader(qnet.Call, sid, 1, 0, 2), reg); err != nil || r.Header.Type != qnet.Reply {
		return fmt.Sprintf("setup-error:registerEvent:%v", err)
	}
	// two ordinary subscribers on connections of their own
	type sub struct {
		mu     sync.Mutex
		got    []int64
		cancel func()
		obj    bus.ObjectProxy
	}
	mk := func() (*sub, error) {
		p, q := gonet.Pipe()
		l.ch <- qnet.ConnStream(q)
		ep := qnet.NewEndPoint(qnet.ConnStream(p))
		if err := bus.AuthenticateUser(ep, "", ""); err != nil {
			return nil, err
		}
		cl := bus.NewClient(bus.NewContext(ep))
		m, err := bus.GetMetaObject(cl, sid, 1)
		if err != nil {
			return nil, err
		}
		cancel, ch, err := bus.NewProxy(cl, m, sid, 1).SubscribeID(200)
		if err != nil {
			return nil, err
		}
		s := &sub{cancel: cancel, obj: bus.MakeObject(bus.NewProxy(cl, m, sid, 1))}
		go func() {
			for p := range ch {
				s.mu.Lock()
				s.got = append(s.got, prDecodeBytes("i", p))
				s.mu.Unlock()
			}
		}()
		return s, nil
	}
	s2, err := mk()
	if err != nil {
		return "setup-error:" + err.Error()
	}
	s3, err := mk()
	if err != nil {
		return "setup-error:" + err.Error()
	}
	update := func(v int64) chan error {
		done := make(chan error, 1)
		_, raw := prEncode("i", v)
		go func() { done <- custom.UpdateProperty(200, "i", raw) }()
		return done
	}
	if mode == "hangup" {
		atomic.StoreInt32(&hw.armed, 1)
		first := update(42)
		select {
		case <-hw.entered:
		case <-time.After(3 * time.Second):
			return "setup-error:the announcement did not reach the first connection"
		}
		x.Close()
		time.Sleep(300 * time.Millisecond) // the server notices, the closers of the connection run
		close(hw.gate)
		select {
		case <-first:
		case <-time.After(3 * time.Second):
			return "stuck-announcement"
		}
		// the write is stored, whatever became of its announcement to the subscriber that is gone
		if v, err := s3.obj.Property(value.String("level")); err != nil {
			return "fail:read after the write: " + err.Error()
		} else if _, got := prDecode(v); got != 42 {
			return fmt.Sprintf("fail:stored the value read after the accepted write of 42 is %d", got)
		}
		select {
		case <-update(43):
		case <-time.After(3 * time.Second):
			return "stuck-announcement"
		}
		deadline := time.Now().Add(2 * time.Second)
		for time.Now().Before(deadline) {
			s2.mu.Lock()
			n2 := len(s2.got)
			s2.mu.Unlock()
			s3.mu.Lock()
			n3 := len(s3.got)
			s3.mu.Unlock()
			if n2 >= 2 && n3 >= 2 {
				break
			}
			time.Sleep(time.Millisecond)
		}
		time.Sleep(20 * time.Millisecond)
		s2.mu.Lock()
		defer s2.mu.Unlock()
		s3.mu.Lock()
		defer s3.mu.Unlock()
		return fmt.Sprintf("%v %v", s2.got, s3.got)
	}
	first := update(42)
	select {
	case <-first:
		return "setup-error:the announcement did not wait for the first connection"
	case <-time.After(40 * time.Millisecond):
	}
	left := make(chan struct{})
	go func() { s2.cancel(); close(left) }()
	select {
	case <-left:
	case <-time.After(3 * time.Second):
		return "stuck-cancel"
	}
	go func() { // the first subscriber reads again
		for {
			r := new(qnet.Message)
			if r.Read(x) != nil {
				return
			}
		}
	}()
	select {
	case <-first:
	case <-time.After(3 * time.Second):
		return "stuck-announcement"
	}
	select {
	case <-update(43):
	case <-time.After(3 * time.Second):
		return "stuck-announcement"
	}
	deadline := time.Now().Add(2 * time.Second)
	for time.Now().Before(deadline) {
		s3.mu.Lock()
		n := len(s3.got)
		s3.mu.Unlock()
		if n >= 2 {
			break
		}
		time.Sleep(time.Millisecond)
	}
	time.Sleep(20 * time.Millisecond)
	s3.mu.Lock()
	defer s3.mu.Unlock()
	return fmt.Sprintf("%v", s3.got)
}

// pr.sameuid: one connection registers for two properties of an object under one user id, by hand: the second
// registration is refused (a user id names one registration of the object), the first goes on receiving its events,
// and giving it up is answered.
func prSameUID(a []string) string {
	log.SetOutput(ioutil.Discard)
	l := &auListener{ch: make(chan qnet.Stream), closed: make(chan struct{})}
	srv, err := bus.StandAloneServer(l, bus.Yes{}, bus.PrivateNamespace())
	if err != nil {
		return "setup-error:" + err.Error()
	}
	defer func() { // an object that has stopped answering must not keep the harness
		done := make(chan struct{})
		go func() { srv.Terminate(); close(done) }()
		select {
		case <-done:
		case <-time.After(3 * time.Second):
		}
	}()
	var meta object.MetaObject
	meta.Properties = map[uint32]object.MetaProperty{200: {Uid: 200, Name: "level", Signature: "i"}, 201: {Uid: 201, Name: "gain", Signature: "i"}}
	custom := bus.NewBasicObject(prNoop{}, meta, func(string, []byte) error { return nil })
	svc, err := srv.NewService("Custom", custom)
	if err != nil {
		return "setup-error:" + err.Error()
	}
	sid := svc.ServiceID()
	x, y := gonet.Pipe()
	l.ch <- qnet.ConnStream(y)
	defer x.Close()
	read := func() (*qnet.Message, error) {
		r := new(qnet.Message)
		rerr := make(chan error, 1)
		go func() { rerr <- r.Read(x) }()
		select {
		case err := <-rerr:
			return r, err
		case <-time.After(2 * time.Second):
			return nil, fmt.Errorf("read timeout")
		}
	}
	ask := func(h qnet.Header, p []byte) (*qnet.Message, error) {
		m := qnet.NewMessage(h, p)
		werr := make(chan error, 1)
		go func() { werr <- m.Write(x) }()
		select {
		case err := <-werr:
			if err != nil {
				return nil, err
			}
		case <-time.After(2 * time.Second):
			return nil, fmt.Errorf("write timeout")
		}
		return read()
	}
	if _, err := ask(qnet.NewHeader(qnet.Call, 0, 0, 8, 1), auMap(nil)); err != nil {
		return "setup-error:authenticate:" + err.Error()
	}
	reg := func(prop uint32, id uint32) string {
		p := append(append(leBytes(4, 1), leBytes(4, uint64(prop))...), leBytes(8, 7)...)
		r, err := ask(qnet.NewHeader(qnet.Call, sid, 1, 0, id), p)
		if err != nil {
			return "no-answer"
		}
		if r.Header.Type == qnet.Reply {
			return "accepted"
		}
		return "refused"
	}
	first, second := reg(200, 2), reg(201, 3)
	_, raw := prEncode("i", int64(42))
	done := make(chan error, 1)
	go func() { done <- custom.UpdateProperty(200, "i", raw) }()
	ev := "none"
	if m, err := read(); err == nil && m.Header.Type == qnet.Event && m.Header.Action == 200 {
		ev = fmt.Sprintf("%d", prDecodeBytes("i", m.Payload))
	}
	select {
	case <-done:
	case <-time.After(3 * time.Second):
		return "stuck-announcement"
	}
	unreg := append(append(leBytes(4, 1), leBytes(4, 200)...), leBytes(8, 7)...)
	left := "unanswered"
	if r, err := ask(qnet.NewHeader(qnet.Call, sid, 1, 1, 4), unreg); err == nil {
		left = "answered"
		if r.Header.Type != qnet.Reply {
			left = "refused"
		}
	}
	return fmt.Sprintf("first=%s second=%s event=%s unregister=%s", first, second, ev, left)
}

// pr.twosubs: one client follows two properties of an object and gives one of them up: the other goes on announcing
// its accepted writes
func prTwoSubs(a []string) string {
	log.SetOutput(ioutil.Discard)
	l := &auListener{ch: make(chan qnet.Stream), closed: make(chan struct{})}
	srv, err := bus.StandAloneServer(l, bus.Yes{}, bus.PrivateNamespace())
	if err != nil {
		return "setup-error:" + err.Error()
	}
	defer func() {
		done := make(chan struct{})
		go func() { srv.Terminate(); close(done) }()
		select {
		case <-done:
		case <-time.After(3 * time.Second):
		}
	}()
	var meta object.MetaObject
	meta.Properties = map[uint32]object.MetaProperty{200: {Uid: 200, Name: "level", Signature: "i"}, 201: {Uid: 201, Name: "gain", Signature: "i"}}
	custom := bus.NewBasicObject(prNoop{}, meta, func(string, []byte) error { return nil })
	svc, err := srv.NewService("Custom", custom)
	if err != nil {
		return "setup-error:" + err.Error()
	}
	sid := svc.ServiceID()
	p, q := gonet.Pipe()
	l.ch <- qnet.ConnStream(q)
	ep := qnet.NewEndPoint(qnet.ConnStream(p))
	defer ep.Close()
	if err := bus.AuthenticateUser(ep, "", ""); err != nil {
		return "setup-error:" + err.Error()
	}
	cl := bus.NewClient(bus.NewContext(ep))
	m, err := bus.GetMetaObject(cl, sid, 1)
	if err != nil {
		return "setup-error:" + err.Error()
	}
	proxy := bus.NewProxy(cl, m, sid, 1)
	_, level, err := proxy.SubscribeID(200)
	if err != nil {
		return "setup-error:" + err.Error()
	}
	cancelGain, gain, err := proxy.SubscribeID(201)
	if err != nil {
		return "setup-error:" + err.Error()
	}
	upd := func(id uint32, v int64) {
		_, raw := prEncode("i", v)
		go custom.UpdateProperty(id, "i", raw)
	}
	get := func(ch chan []byte) string {
		select {
		case b, ok := <-ch:
			if !ok {
				return "closed"
			}
			return fmt.Sprint(prDecodeBytes("i", b))
		case <-time.After(2 * time.Second):
			return "none"
		}
	}
	upd(200, 1)
	upd(201, 2)
	r1, r2 := get(level), get(gain)
	cancelGain()
	upd(200, 3)
	r3 := get(level)
	upd(200, 4)
	r4 := get(level)
	return fmt.Sprintf("level=%s gain=%s after-cancel level=%s level=%s", r1, r2, r3, r4)
}

func init() {
	executors["pr.twosubs"] = func(a []string) string {
		r := prTwoSubs(a)
		if r != "level=1 gain=2 after-cancel level=3 level=4" {
			lastFailDetail = r
		}
		return r
	}
	executors["pr.sameuid"] = func(a []string) string {
		r := prSameUID(a)
		if r != "first=accepted second=refused event=42 unregister=answered" {
			lastFailDetail = r
		}
		return r
	}
	executors["pr.hanguprace"] = func(a []string) string {
		r := prEmitRaceMode("hangup")
		if r != "[42 43] [42 43]" {
			lastFailDetail = r
		}
		return r
	}
	executors["pr.emitrace"] = func(a []string) string {
		r := prEmitRace(a)
		if r != "[42 43]" {
			lastFailDetail = r
		}
		return r
	}
}
