package main

import (
	"bytes"
	"fmt"
	"reflect"
	"sort"
	"strconv"
	"strings"
	"time"

	"github.com/lugu/qiloop/bus"
	"github.com/lugu/qiloop/bus/directory"
	"github.com/lugu/qiloop/meta/signature"
	"github.com/lugu/qiloop/type/object"
	"github.com/lugu/qiloop/type/value"
)

const serviceInfoSig = "(sIsI[s]ss)<ServiceInfo,name,serviceId,machineId,processId,endpoints,sessionId,objectUid>"

// renderAny renders an arbitrary decoded Go value in the DVal syntax (struct fields in
// declaration order, maps sorted, dynamic values as the bytes of their encoding).
func renderAny(v reflect.Value) string {
	if v.IsValid() && v.Type().Implements(valueIface) && v.Kind() != reflect.Interface {
		var b bytes.Buffer
		v.Interface().(value.Value).Write(&b)
		return "m" + hx(b.Bytes())
	}
	switch v.Kind() {
	case reflect.Interface:
		if v.IsNil() {
			return "nil"
		}
		return renderAny(v.Elem())
	case reflect.Ptr:
		if v.IsNil() {
			return "nil"
		}
		return renderAny(v.Elem())
	case reflect.Struct:
		p := make([]string, v.NumField())
		for i := range p {
			p[i] = renderAny(v.Field(i))
		}
		return "(" + strings.Join(p, ",") + ")"
	case reflect.Slice:
		p := make([]string, v.Len())
		for i := range p {
			p[i] = renderAny(v.Index(i))
		}
		return "[" + strings.Join(p, ",") + "]"
	case reflect.Map:
		var p []string
		for _, k := range v.MapKeys() {
			p = append(p, renderAny(k)+"="+renderAny(v.MapIndex(k)))
		}
		sort.Strings(p)
		return "{" + strings.Join(p, ",") + "}"
	case reflect.String:
		return "s" + hx([]byte(v.String()))
	case reflect.Bool:
		if v.Bool() {
			return "n1"
		}
		return "n0"
	case reflect.Int8, reflect.Int16, reflect.Int32, reflect.Int64, reflect.Int:
		bits := uint(v.Type().Size() * 8)
		return "n" + strconv.FormatUint(uint64(v.Int())&(^uint64(0)>>(64-bits)), 10)
	case reflect.Uint8, reflect.Uint16, reflect.Uint32, reflect.Uint64, reflect.Uint:
		return "n" + strconv.FormatUint(v.Uint(), 10)
	case reflect.Float32:
		return "n" + strconv.FormatUint(uint64(float32bits(float32(v.Float()))), 10)
	case reflect.Float64:
		return "n" + strconv.FormatUint(float64bits(v.Float()), 10)
	}
	return "?" + v.Kind().String()
}

// dec.gen <sighex> <datahex>: the generated reader of a known type
func execDecGen(a []string) string {
	sig, data := string(unhx(a[0])), unhx(a[1])
	return withTimeout(4*time.Second, func() string {
		r, left := newDataReader(data)
		var v interface{}
		var err error
		switch sig {
		case signature.MetaObjectSignature:
			v, err = object.ReadMetaObject(r)
		case signature.ObjectSignature:
			v, err = object.ReadObjectReference(r)
		case serviceInfoSig:
			v, err = directory.ReadServiceInfo(r)
		default:
			return "bad-op"
		}
		if err != nil {
			return "err"
		}
		return fmt.Sprintf("ok %s rest=%d", renderAny(reflect.ValueOf(v)), left())
	})
}

// dec.cap <datahex>: bus.ReadCapabilityMap
func execDecCap(a []string) string {
	data := unhx(a[0])
	return withTimeout(4*time.Second, func() string {
		r, left := newDataReader(data)
		m, err := bus.ReadCapabilityMap(r)
		if err != nil {
			return "err"
		}
		return fmt.Sprintf("ok %s rest=%d", renderAny(reflect.ValueOf(map[string]value.Value(m))), left())
	})
}

func init() {
	executors["dec.gen"] = execDecGen
	executors["dec.cap"] = execDecCap
	runners["C08"] = runC08
}

// cutPositions: every cut for short encodings, a spread for long ones (always 0, 1, n-1)
func cutPositions(r *Rand, n int) []int {
	if n <= 160 {
		p := make([]int, n)
		for i := range p {
			p[i] = i
		}
		return p
	}
	seen := map[int]bool{0: true, 1: true, n - 1: true, n - 2: true}
	for len(seen) < 60 {
		seen[r.Intn(n)] = true
	}
	var p []int
	for k := range seen {
		p = append(p, k)
	}
	sort.Ints(p)
	return p
}

func runC08(r *Rand, tier string, o *Out) {
	rounds := 60
	if tier == "thorough" {
		rounds = 700
	}
	exhaustive := 0
	check := func(kind, class, op string, pre string, enc []byte, post string) {
		cuts := cutPositions(r, len(enc))
		// the complete encoding (model/implementation correspondence) comes first — or last: a decoder that remembers
		// something of a type from its first, failed, attempt shows it on the later ones
		cutsFirst := r.Bool()
		if !cutsFirst {
			o.Do("X", op+" "+pre+hx(enc)+post, true)
		} else {
			defer func() { o.Do("X", op+" "+pre+hx(enc)+post, true) }()
			o.Count("cuts-before-the-complete-encoding")
		}
		if len(cuts) == len(enc) {
			exhaustive++
		}
		for _, k := range cuts {
			res := o.Do("P", op+" "+pre+hx(enc[:k])+post, true)
			o.Count("cut:" + kind)
			if res != "err" && res != "eof" {
				o.Fail("truncated encoding accepted: "+class, fmt.Sprintf("%s %s cut at %d of %d => %s", op, pre, k, len(enc), res))
			}
		}
	}
	// raw data — lists of bytes, alone, last in a tuple, in a map, in a list — cut inside the bytes
	for _, sg := range []string{"[C]", "[c]", "(s[C])", "{s[C]}", "[[C]]", "(i[C])<A,a,b>", "[b]"} {
		t := parseSigT(sg)
		for n := 0; n < 3; n++ {
			v := genTVal(r, t, 2)
			enc := encD(t, v)
			if len(enc) <= 4 {
				continue
			}
			sigh := hx([]byte(sg)) + " "
			check("reader", "signature-driven reader, raw data", "rd.read", sigh, enc, "")
			check("reflect", "reflection decoder, raw data", "dec.reflect", sigh, enc, "")
		}
	}
	// a long list of elements of a fixed size followed by another member, cut at sixty places (the last bytes among them)
	for _, n := range []int{1025, 2600} {
		l := &tval{kind: '['}
		for j := 0; j < n; j++ {
			l.elems = append(l.elems, &tval{kind: 'n', n: uint64(j*5 + 2)})
		}
		t := parseSigT("([I]I)")
		enc := encD(t, &tval{kind: '(', elems: []*tval{l, {kind: 'n', n: 9}}})
		sigh := hx([]byte("([I]I)")) + " "
		check("reader", "signature-driven reader, a long list of fixed-size elements", "rd.read", sigh, enc, "")
		check("reflect", "reflection decoder, a long list of fixed-size elements", "dec.reflect", sigh, enc, "")
	}
	// strings of more than 64 KiB — alone, last in a tuple, as a dynamic value — cut in their size, inside their bytes,
	// before their last byte (a decoder that copies a long string from the stream must notice that the stream ended)
	for _, n := range []int{65537, 100000} {
		str := &tval{kind: 's', s: r.Bytes(n)}
		for _, sg := range []string{"s", "(is)"} {
			t := parseSigT(sg)
			v := str
			if sg != "s" {
				v = &tval{kind: '(', elems: []*tval{{kind: 'n', n: 7}, str}}
			}
			enc := encD(t, v)
			sigh := hx([]byte(sg)) + " "
			check("reader", "signature-driven reader, a string of more than 64 KiB", "rd.read", sigh, enc, "")
			check("reflect", "reflection decoder, a string of more than 64 KiB", "dec.reflect", sigh, enc, "")
		}
		g := &gval{kind: "s", b: str.s}
		check("value", "dynamic value, a string of more than 64 KiB", "val.read", "", g.encode(), "")
		o.Count("long-string")
	}
	for i := 0; i < rounds; i++ {
		// typed data of a random signature: signature-driven reader and reflection decoder
		t := genCodecSig(r, 1+r.Intn(3), false)
		v := genTVal(r, t, 2)
		enc := encD(t, v)
		sigh := hx([]byte(t.String())) + " "
		if len(enc) > 0 {
			check("reader", "signature-driven reader, "+codecWhy(t), "rd.read", sigh, enc, "")
			check("reflect", "reflection decoder, "+codecWhy(t), "dec.reflect", sigh, enc, "")
			if strings.ContainsAny(t.String(), "lL") && !strings.Contains(t.String(), "<") {
				check("reflect", "reflection decoder with int / uint, "+codecWhy(t), "dec.reflectp", sigh, enc, "")
			}
		}
		// a dynamic value
		g := genGVal(r, 2)
		check("value", "dynamic value "+g.kind, "val.read", "", g.encode(), "")
		// generated readers
		for _, s := range []string{signature.MetaObjectSignature, signature.ObjectSignature, serviceInfoSig} {
			if i%3 != 0 && s != serviceInfoSig {
				continue
			}
			st := parseSigT(s)
			tv := genTVal(r, st, 1)
			check("generated:"+st.name, "generated reader "+st.name, "dec.gen", hx([]byte(s))+" ", encD(st, tv), "")
		}
		// capability map
		capT := parseSigT("{sm}")
		check("capmap", "capability map", "dec.cap", "", encD(capT, genTVal(r, capT, 1)), "")
		// a message
		h, _ := genHeader(r, true)
		p := r.Bytes(r.Intn(30))
		h.Size = uint32(len(p))
		w := wireOf(h, p)
		for _, k := range cutPositions(r, len(w)) {
			chunks := "e:" + hx(w[:k])
			if k == 0 {
				chunks = ""
			} else if k > 3 && r.Bool() {
				c := 1 + r.Intn(k-1)
				chunks = "d:" + hx(w[:c]) + " e:" + hx(w[c:k])
			}
			res := o.Do("P", strings.TrimSpace("msg.read 1 "+chunks), true)
			o.Count("cut:message")
			if res != "err" && res != "eof" {
				o.Fail("truncated encoding accepted: message", fmt.Sprintf("msg.read cut at %d of %d => %s", k, len(w), res))
			}
			if i%6 == 0 {
				// the same prefix from a peer that hangs up, on a real connection
				res = o.Do("P", "msg.conn 1 "+hx(w[:k]), true)
				o.Count("cut:message-on-a-connection")
				if res != "err" && res != "eof" {
					o.Fail("truncated encoding accepted: message", fmt.Sprintf("msg.conn cut at %d of %d => %s", k, len(w), res))
				}
			}
		}
	}
	// large messages — payloads around 64 KiB and its multiples — cut inside the payload, far from and close to its end
	for _, sz := range []int{65536, 70000, 131072, 196608} {
		h, _ := genHeader(r, true)
		p := r.Bytes(sz)
		h.Size = uint32(len(p))
		w := wireOf(h, p)
		for _, k := range []int{len(w) - 1, len(w) - 1 - r.Intn(4000), len(w) - 65536, len(w) - 65537, 28 + r.Intn(sz)} {
			c := 1 + r.Intn(k-1)
			res := o.Do("P", "msg.read 1 d:"+hx(w[:c])+" e:"+hx(w[c:k]), true)
			o.Count("cut:large-message")
			if res != "err" && res != "eof" {
				o.Fail("truncated encoding accepted: message", fmt.Sprintf("msg.read cut at %d of %d => %s", k, len(w), tail2(res, 60)))
			}
		}
	}
	o.Extra["encodings_cut_at_every_position"] = exhaustive
}
