package main

import (
	"bytes"
	"context"
	"fmt"
	"os"
	"os/exec"
	"strings"
	"time"
)

// children are functions run in a separate process (inputs that may crash the
// runtime, hang or exhaust memory).  The child prints its canonical answer on
// the last line of stdout prefixed with "RESULT ".
var children = map[string]func(args []string) string{}

// childMain handles invocations as a child process.  Returns true when the
// process was started as a child and has done its work.
func childMain() bool {
	name := os.Getenv("QIH_CHILD")
	if name == "" {
		return false
	}
	f, ok := children[name]
	if !ok {
		fmt.Println("RESULT bad-child")
		return true
	}
	args := strings.Fields(os.Getenv("QIH_CHILD_ARGS"))
	res := func() (r string) {
		defer func() {
			if e := recover(); e != nil {
				r = "panic"
				fmt.Fprintf(os.Stderr, "child panic: %v\n", e)
			}
		}()
		return f(args)
	}()
	fmt.Println("RESULT " + res)
	return true
}

type childOutcome struct {
	Result string // RESULT line, or "crash", "timeout", "oom"
	Stderr string
	Wall   time.Duration
}

// runChild re-executes this binary as child `name`.
func runChild(name string, args string, timeout time.Duration, memLimitMB int) childOutcome {
	ctx, cancel := context.WithTimeout(context.Background(), timeout)
	defer cancel()
	self, _ := os.Executable()
	cmd := exec.CommandContext(ctx, self)
	cmd.Env = append(os.Environ(), "QIH_CHILD="+name, "QIH_CHILD_ARGS="+args)
	if memLimitMB > 0 {
		cmd.Env = append(cmd.Env, fmt.Sprintf("GOMEMLIMIT=%dMiB", memLimitMB), fmt.Sprintf("QIH_MEMLIMIT_MB=%d", memLimitMB))
	}
	var so, se bytes.Buffer
	cmd.Stdout = &so
	cmd.Stderr = &se
	t0 := time.Now()
	err := cmd.Run()
	out := childOutcome{Wall: time.Since(t0), Stderr: reasonLine(se.String()) + tail(se.String(), 1500)}
	if ctx.Err() == context.DeadlineExceeded {
		out.Result = "timeout"
		return out
	}
	for _, l := range strings.Split(so.String(), "\n") {
		if strings.HasPrefix(l, "RESULT ") {
			out.Result = strings.TrimPrefix(l, "RESULT ")
		}
	}
	if out.Result == "" {
		out.Result = "crash"
		if err == nil {
			out.Result = "crash-noresult"
		}
		if strings.Contains(se.String(), "out of memory") || strings.Contains(se.String(), "cannot allocate memory") {
			out.Result = "oom"
		}
	}
	return out
}

func tail(s string, n int) string {
	if len(s) > n {
		return s[len(s)-n:]
	}
	return s
}

func reasonLine(stderr string) string {
	for _, l := range strings.Split(stderr, "\n") {
		if strings.HasPrefix(l, "panic:") || strings.HasPrefix(l, "fatal error:") {
			return l + "\n"
		}
	}
	return ""
}

// crashReason extracts the runtime's own reason (panic: …, fatal error: …) from a child's stderr
func crashReason(stderr string) string {
	for _, l := range strings.Split(stderr, "\n") {
		if strings.HasPrefix(l, "panic:") || strings.HasPrefix(l, "fatal error:") || strings.HasPrefix(l, "child panic:") {
			return "(" + strings.TrimSpace(l) + ")"
		}
	}
	return ""
}
