package main

// childMain handles invocations as a sandboxed child process (used by the
// checks whose inputs may crash, hang or exhaust memory).  Returns true when
// the process was started as a child and has done its work.
func childMain() bool { return false }
