package main

// C11: losing the connection.  The real bus client (Call / Subscribe / OnDisconnect) runs over
// a harness-implemented net.Stream: every Write blocks until the script lets it succeed or
// fail, the reading goroutine gets exactly the bytes (or the error) the script feeds it.
// The script places faults at every position; the observed outcome of every call,
// subscription and disconnect callback is compared with the machine of Model/Client.lean.

import (
	"context"
	"encoding/binary"
	"errors"
	"fmt"
	"io"
	"io/ioutil"
	"log"
	gonet "net"
	"strconv"
	"strings"
	"sync"
	"sync/atomic"
	"time"

	"github.com/lugu/qiloop/bus"
	qnet "github.com/lugu/qiloop/bus/net"
)

type wkey struct {
	id  uint32
	typ uint8
}

type readItem struct {
	data []byte
	err  error
	once bool // the error comes once, with the last of these bytes; after it the stream is silent
}

type faultStream struct {
	mu        sync.Mutex
	closed    bool
	writeDead bool
	readErr   error
	onceErr   error // reported once, by the Read that hands out the last pending byte
	pending   []byte
	readCh    chan readItem
	closeCh   chan struct{}
	blocked   map[wkey]chan error
	arrived   chan wkey
	written   [][]byte
	closeErr  bool // Close reports an error (a TLS connection whose closing alert cannot be written any more)
}

func newFaultStream() *faultStream {
	return &faultStream{readCh: make(chan readItem, 64), closeCh: make(chan struct{}), blocked: map[wkey]chan error{}, arrived: make(chan wkey, 64)}
}

func (s *faultStream) Read(p []byte) (int, error) {
	for {
		s.mu.Lock()
		if len(s.pending) > 0 {
			n := copy(p, s.pending)
			s.pending = s.pending[n:]
			var err error
			if len(s.pending) == 0 && s.onceErr != nil {
				err, s.onceErr = s.onceErr, nil
			}
			s.mu.Unlock()
			return n, err
		}
		if s.onceErr != nil {
			err := s.onceErr
			s.onceErr = nil
			s.mu.Unlock()
			return 0, err
		}
		if s.readErr != nil {
			err := s.readErr
			s.mu.Unlock()
			return 0, err
		}
		if s.closed {
			s.mu.Unlock()
			return 0, errors.New("use of closed stream")
		}
		s.mu.Unlock()
		select {
		case it := <-s.readCh:
			s.mu.Lock()
			if it.once {
				s.pending = append(s.pending, it.data...)
				s.onceErr = it.err
			} else if it.err != nil {
				s.readErr = it.err
			} else {
				s.pending = append(s.pending, it.data...)
			}
			s.mu.Unlock()
		case <-s.closeCh:
		}
	}
}

func (s *faultStream) Write(p []byte) (int, error) {
	s.mu.Lock()
	if s.closed || s.writeDead {
		s.mu.Unlock()
		return 0, errors.New("write on dead stream")
	}
	k := wkey{}
	if len(p) >= 28 {
		k = wkey{binary.LittleEndian.Uint32(p[4:8]), p[14]}
	}
	ch := make(chan error, 1)
	s.blocked[k] = ch
	s.mu.Unlock()
	s.arrived <- k
	err := <-ch
	s.mu.Lock()
	if err != nil {
		s.writeDead = true
		s.mu.Unlock()
		// a failing Write may have put part of the frame on the wire
		return len(p) / 2, err
	}
	s.written = append(s.written, append([]byte(nil), p...))
	s.mu.Unlock()
	return len(p), nil
}

func (s *faultStream) Close() error {
	s.mu.Lock()
	defer s.mu.Unlock()
	if !s.closed {
		s.closed = true
		close(s.closeCh)
		if s.closeErr {
			return errors.New("close: broken pipe")
		}
	}
	return nil
}
func (s *faultStream) String() string            { return "fault://stream" }
func (s *faultStream) Context() context.Context { return context.TODO() }

type clCall struct {
	id     uint32
	cancel chan struct{}
	done   chan string
	result string // "" while running
}

type clSub struct {
	mu     sync.Mutex
	got    []uint32
	closed bool
	late   bool
}

type clWorld struct {
	st        *faultStream
	ep        qnet.EndPoint
	client    bus.Client
	clients   []bus.Client // all clients sharing the endpoint (clients[0] == client)
	sentinel  chan *qnet.Message
	sentDead  bool
	calls     []*clCall
	subs      []*clSub
	idle      []chan []byte // subscriptions nobody reads (until the final observation)
	idleLate  []bool
	cbs       []*int64
	cbLate    []bool
	lost      bool // the connection has been closed or has failed for reading
}

var clw *clWorld

// every wait has a ceiling; once a ceiling has been hit (the implementation is hanging where
// the model says it must not), later waits are cut short so that the run still ends and
// reports the failing lines
var clSlow int32

func clCeil() time.Duration {
	if atomic.LoadInt32(&clSlow) != 0 {
		return 100 * time.Millisecond
	}
	return 3 * time.Second
}

func clHit() { atomic.StoreInt32(&clSlow, 1) }

const clSentinelAction = 999999

func clReset() string {
	log.SetOutput(ioutil.Discard)
	if clw != nil {
		clw.ep.Close()
		// release whatever is still blocked in a Write
		clw.st.mu.Lock()
		for _, ch := range clw.st.blocked {
			select {
			case ch <- errors.New("reset"):
			default:
			}
		}
		clw.st.mu.Unlock()
	}
	w := &clWorld{st: newFaultStream(), sentinel: make(chan *qnet.Message, 64)}
	w.ep = qnet.EndPointFinalizer(w.st, func(e qnet.EndPoint) {
		e.MakeHandler(func(h *qnet.Header) (bool, bool) { return h.Action == clSentinelAction, true }, w.sentinel, nil)
	})
	w.client = bus.NewClient(bus.NewContext(w.ep))
	w.clients = []bus.Client{w.client}
	clw = w
	return "ok"
}

func (w *clWorld) poll(c *clCall, d time.Duration) string {
	if c.result != "" {
		return c.result
	}
	select {
	case r := <-c.done:
		c.result = r
		return r
	case <-time.After(d):
		select { // an outcome that is there wins whatever became of the timer meanwhile
		case r := <-c.done:
			c.result = r
			return r
		default:
		}
		if d >= 100*time.Millisecond {
			clHit()
		}
		return "pending"
	}
}

func clClassify(c *clCall, idx int, p []byte, err error) string {
	if err == nil {
		if len(p) == 4 && binary.LittleEndian.Uint32(p) == atomic.LoadUint32(&c.id) {
			return fmt.Sprintf("reply %d", idx)
		}
		return "reply-wrong"
	}
	if err == bus.ErrCancelled {
		return "cancelled"
	}
	msg := err.Error()
	if strings.HasPrefix(msg, "call service") || strings.HasPrefix(msg, "cancel failed") {
		return "failed"
	}
	return "error"
}

// waitArrival waits until the Write of this call (its call frame: the id is learnt from it; or its
// cancel frame) blocks in the stream, or the call returns
func (w *clWorld) waitArrival(c *clCall, typ uint8) string {
	deadline := time.After(clCeil())
	for {
		select {
		case a := <-w.st.arrived:
			if typ == qnet.Call && a.typ == qnet.Call && atomic.LoadUint32(&c.id) == 0 {
				atomic.StoreUint32(&c.id, a.id)
				return "writing"
			}
			if typ == qnet.Cancel && a.typ == qnet.Cancel && a.id == atomic.LoadUint32(&c.id) {
				return "writing"
			}
		case r := <-c.done:
			c.result = r
			return r
		case <-deadline:
			clHit()
			return "timeout"
		}
	}
}

// feed hands a frame to the reading goroutine, followed by a sentinel frame, and waits until
// the sentinel has been dispatched
func (w *clWorld) feed(frame []byte) string {
	if w.lost {
		return "dead"
	}
	sent := wireOf(qnet.Header{Magic: 0x42dead42, ID: 1, Type: qnet.Event, Service: 1, Object: 1, Action: clSentinelAction}, nil)
	w.st.readCh <- readItem{data: append(append([]byte(nil), frame...), sent...)}
	select {
	case _, ok := <-w.sentinel:
		if !ok {
			w.sentDead = true
			return "closed"
		}
		return "dispatched"
	case <-time.After(clCeil()):
		clHit()
		return "timeout"
	}
}

// settle waits until everything registered before the loss has been closed (bounded)
func (w *clWorld) settleLoss() {
	deadline := time.Now().Add(clCeil())
	if !w.sentDead {
		select {
		case _, ok := <-w.sentinel:
			if !ok {
				w.sentDead = true
			}
		case <-time.After(clCeil()):
			clHit()
		}
	}
	defer func() {
		if !time.Now().Before(deadline) {
			clHit()
		}
	}()
	for time.Now().Before(deadline) {
		open := 0
		for i, s := range w.subs {
			s.mu.Lock()
			if !s.closed && !s.late {
				open++
			}
			s.mu.Unlock()
			_ = i
		}
		for i, c := range w.cbs {
			if !w.cbLate[i] && atomic.LoadInt64(c) == 0 {
				open++
			}
		}
		if open == 0 {
			break
		}
		time.Sleep(200 * time.Microsecond)
	}
	time.Sleep(time.Millisecond)
}

func execCl(op string) func(a []string) string {
	return func(a []string) string {
		w := clw
		n := func(i int) int { v, _ := strconv.Atoi(a[i]); return v }
		switch op {
		case "reset":
			return clReset()
		case "client":
			// what Cache.Proxy and NewClientObject do: one more client on the same endpoint
			w.clients = append(w.clients, bus.NewClient(bus.NewContext(w.ep)))
			return "ok"
		case "replyid":
			p := make([]byte, 4)
			h := qnet.Header{Magic: 0x42dead42, ID: uint32(n(0)), Size: 4, Type: qnet.Reply, Service: 1, Object: 1, Action: 100}
			return w.feed(wireOf(h, p))
		case "call":
			idx := len(w.calls)
			client := w.client
			if len(a) > 0 && n(0) < len(w.clients) {
				client = w.clients[n(0)]
			}
			c := &clCall{cancel: make(chan struct{}), done: make(chan string, 1)}
			w.calls = append(w.calls, c)
			go func() {
				p, err := client.Call(c.cancel, 1, 1, 100, []byte{byte(idx)})
				c.done <- clClassify(c, idx, p, err)
			}()
			return w.waitArrival(c, qnet.Call)
		case "wok", "wfail":
			c := w.calls[n(0)]
			w.st.mu.Lock()
			ch, ok := w.st.blocked[wkey{c.id, qnet.Call}]
			isCancel := false
			if !ok {
				ch, ok = w.st.blocked[wkey{c.id, qnet.Cancel}]
				isCancel = true
			}
			delete(w.st.blocked, wkey{c.id, qnet.Call})
			delete(w.st.blocked, wkey{c.id, qnet.Cancel})
			w.st.mu.Unlock()
			if !ok {
				return "ok" // nothing blocked: no-op, as in the model
			}
			if op == "wok" {
				ch <- nil
				if isCancel {
					w.poll(c, clCeil())
				}
			} else {
				ch <- errors.New("injected write error")
				w.poll(c, clCeil())
			}
			return "ok"
		case "cancel":
			c := w.calls[n(0)]
			w.st.mu.Lock()
			_, writing := w.st.blocked[wkey{c.id, qnet.Call}]
			w.st.mu.Unlock()
			if writing || w.poll(c, 20*time.Millisecond) != "pending" {
				return "noop"
			}
			select {
			case <-c.cancel:
				return "noop"
			default:
			}
			close(c.cancel)
			return w.waitArrival(c, qnet.Cancel)
		case "reply":
			c := w.calls[n(0)]
			p := make([]byte, 4)
			binary.LittleEndian.PutUint32(p, c.id)
			h := qnet.Header{Magic: 0x42dead42, ID: c.id, Size: 4, Type: qnet.Reply, Service: 1, Object: 1, Action: 100}
			return w.feed(wireOf(h, p))
		case "event", "eventerr":
			id, typ := uint32(0), uint8(qnet.Event)
			if op == "event" {
				id = uint32(n(1))
			} else {
				id, typ = 999, qnet.Error
			}
			p := make([]byte, 4)
			binary.LittleEndian.PutUint32(p, id)
			h := qnet.Header{Magic: 0x42dead42, ID: id, Size: 4, Type: typ, Service: 1, Object: 1, Action: uint32(900000 + n(0))}
			return w.feed(wireOf(h, p))
		case "rfail":
			if w.lost {
				return "ok"
			}
			var err error = io.EOF
			if a[0] == "err" || a[0] == "once" {
				err = errors.New("injected read error")
			}
			// part of a frame first: the fault hits in the middle of a message
			h := qnet.Header{Magic: 0x42dead42, ID: 2, Size: 8, Type: qnet.Reply, Service: 1, Object: 1, Action: 100}
			frame := wireOf(h, []byte{1, 2, 3, 4, 5, 6, 7, 8})
			off := n(1)
			if off > len(frame)-1 && a[0] != "once" {
				off = len(frame) - 1
			}
			if off > len(frame) {
				off = len(frame) // the fault may come with the very last byte of the frame
			}
			if a[0] == "once" {
				// a fault reported once, together with the bytes that came before it; then nothing
				w.st.readCh <- readItem{data: frame[:off], err: err, once: true}
			} else {
				if off > 0 {
					w.st.readCh <- readItem{data: frame[:off]}
				}
				w.st.readCh <- readItem{err: err}
			}
			w.lost = true
			w.settleLoss()
			return "ok"
		case "closeerr":
			// from now on the stream's Close reports an error (and closes all the same)
			w.st.mu.Lock()
			w.st.closeErr = true
			w.st.mu.Unlock()
			return "ok"
		case "close":
			w.ep.Close()
			w.lost = true
			w.settleLoss()
			return "ok"
		case "out":
			return w.poll(w.calls[n(0)], clCeil())
		case "peek":
			return w.poll(w.calls[n(0)], 20*time.Millisecond)
		case "sub":
			s := &clSub{late: w.lost}
			w.subs = append(w.subs, s)
			_, events, err := w.client.Subscribe(1, 1, uint32(900000+n(0)))
			if err != nil {
				return "err"
			}
			go func() {
				for p := range events {
					s.mu.Lock()
					if len(p) == 4 {
						s.got = append(s.got, binary.LittleEndian.Uint32(p))
					} else {
						s.got = append(s.got, 0xFFFFFFFF)
					}
					s.mu.Unlock()
				}
				s.mu.Lock()
				s.closed = true
				s.mu.Unlock()
			}()
			return "ok"
		case "subidle":
			// a subscriber that does not read: its queue fills up, what does not fit is dropped, nothing else waits
			_, events, err := w.client.Subscribe(1, 1, uint32(900050+n(0)))
			if err != nil {
				return "err"
			}
			w.idle = append(w.idle, events)
			w.idleLate = append(w.idleLate, w.lost)
			return "ok"
		case "flood":
			if w.lost {
				return "dead"
			}
			var frames []byte
			for i := 1; i <= n(1); i++ {
				p := make([]byte, 4)
				binary.LittleEndian.PutUint32(p, uint32(2000+2*i))
				h := qnet.Header{Magic: 0x42dead42, ID: uint32(2000 + 2*i), Size: 4, Type: qnet.Event, Service: 1, Object: 1, Action: uint32(900050 + n(0))}
				frames = append(frames, wireOf(h, p)...)
			}
			return w.feed(frames)
		case "ondisc":
			var cnt int64
			w.cbs = append(w.cbs, &cnt)
			w.cbLate = append(w.cbLate, w.lost)
			w.client.OnDisconnect(func(error) { atomic.AddInt64(&cnt, 1) })
			return "ok"
		case "final":
			time.Sleep(3 * time.Millisecond)
			var parts []string
			for _, s := range w.subs {
				s.mu.Lock()
				st := "open"
				if s.closed {
					st = "closed"
				}
				parts = append(parts, fmt.Sprintf("sub=[%s]:%s", fmtIDs(s.got), st))
				s.mu.Unlock()
			}
			for i, ch := range w.idle {
				// now somebody reads: what was queued comes out, then — the connection being lost — the end
				closed := make(chan struct{})
				go func(ch chan []byte) {
					for range ch {
					}
					close(closed)
				}(ch)
				st := "open"
				wait := 30 * time.Millisecond
				if w.lost && !w.idleLate[i] {
					wait = clCeil()
				}
				select {
				case <-closed:
					st = "closed"
				case <-time.After(wait):
					if wait >= 100*time.Millisecond {
						clHit()
					}
				}
				parts = append(parts, "idle:"+st)
			}
			if w.lost {
				// the callbacks of a lost connection run in goroutines of their own: give each the time to have run
				// once (then a moment more, in which a second run would show)
				deadline := time.Now().Add(clCeil())
				for _, c := range w.cbs {
					for atomic.LoadInt64(c) == 0 && time.Now().Before(deadline) {
						time.Sleep(200 * time.Microsecond)
					}
				}
				time.Sleep(2 * time.Millisecond)
			}
			for _, c := range w.cbs {
				parts = append(parts, fmt.Sprintf("cb=%d", atomic.LoadInt64(c)))
			}
			for _, c := range w.calls {
				parts = append(parts, w.poll(c, 20*time.Millisecond))
			}
			return strings.Join(parts, ";")
		}
		return "bad-op"
	}
}

// ---- storm: concurrent calls on a real pipe, the connection is lost at a random moment ----

func clStorm(a []string) string {
	log.SetOutput(ioutil.Discard)
	if len(a) != 3 {
		return "bad-op"
	}
	N, _ := strconv.Atoi(a[0])
	mode := a[1]
	seed, _ := strconv.ParseUint(a[2], 10, 64)
	r := NewRand(seed)
	x, y := gonet.Pipe()
	ep := qnet.NewEndPoint(qnet.ConnStream(x))
	client := bus.NewClient(bus.NewContext(ep))
	var cbCount int64
	// one callback in two takes its time: it waits (at most 4 s) until every call has returned and the
	// subscription is closed.  What the loss of the connection owes to the calls and the subscriptions
	// does not depend on how long a callback of the application runs.
	slowCB := seed%2 == 1
	allDone := make(chan struct{})
	client.OnDisconnect(func(error) {
		if slowCB {
			select {
			case <-allDone:
			case <-time.After(4 * time.Second):
			}
		}
		atomic.AddInt64(&cbCount, 1)
	})
	_, events, _ := client.Subscribe(1, 1, 900001)
	evClosed := make(chan struct{})
	go func() {
		for range events {
		}
		close(evClosed)
	}()
	// the peer answers some calls (echo of the payload), then the connection is lost
	answer := r.Intn(N + 1)
	cutAt := r.Intn(40)
	go func() {
		for i := 0; ; i++ {
			var m qnet.Message
			if err := m.Read(y); err != nil {
				return
			}
			if i >= answer {
				switch mode {
				case "peerclose":
					y.Close()
				case "midframe":
					h := m.Header
					h.Type = qnet.Reply
					h.Size = uint32(len(m.Payload))
					frame := wireOf(h, m.Payload)
					k := cutAt % len(frame)
					y.Write(frame[:k])
					y.Close()
				case "localclose":
					ep.Close()
				}
				return
			}
			h := m.Header
			h.Type = qnet.Reply
			reply := qnet.NewMessage(h, m.Payload)
			if reply.Write(y) != nil {
				return
			}
		}
	}()
	type res struct {
		i   int
		p   []byte
		err error
	}
	results := make(chan res, N)
	for i := 0; i < N; i++ {
		go func(i int) {
			p, err := client.Call(nil, 1, 1, 100, []byte{byte(i), byte(i >> 8), 0x5a})
			results <- res{i, p, err}
		}(i)
	}
	replies, errs := 0, 0
	timeout := time.After(10 * time.Second)
	lossSeen := time.Time{}
	for k := 0; k < N; k++ {
		select {
		case rs := <-results:
			if rs.err != nil && lossSeen.IsZero() {
				lossSeen = time.Now()
			}
			if rs.err == nil {
				if len(rs.p) != 3 || rs.p[0] != byte(rs.i) || rs.p[1] != byte(rs.i>>8) {
					return fmt.Sprintf("fail:call %d got the reply of another call", rs.i)
				}
				replies++
			} else {
				errs++
			}
		case <-timeout:
			return fmt.Sprintf("fail:hang %d of %d calls still pending 10 s after the connection was lost (%s)", N-k, N, mode)
		}
	}
	// a later call fails
	late := make(chan error, 1)
	go func() { _, err := client.Call(nil, 1, 1, 100, nil); late <- err }()
	select {
	case err := <-late:
		if err == nil {
			return "fail:a call after the loss succeeded"
		}
	case <-time.After(5 * time.Second):
		return "fail:hang a call issued after the loss does not return"
	}
	select {
	case <-evClosed:
	case <-time.After(5 * time.Second):
		return "fail:subscription channel not closed"
	}
	if slowCB && !lossSeen.IsZero() && time.Since(lossSeen) > 2500*time.Millisecond {
		return fmt.Sprintf("fail:calls and subscriptions waited %v for a disconnect callback of the application to return", time.Since(lossSeen).Round(100*time.Millisecond))
	}
	close(allDone)
	deadline := time.Now().Add(2 * time.Second)
	for atomic.LoadInt64(&cbCount) == 0 && time.Now().Before(deadline) {
		time.Sleep(time.Millisecond)
	}
	time.Sleep(2 * time.Millisecond)
	if c := atomic.LoadInt64(&cbCount); c != 1 {
		return fmt.Sprintf("fail:disconnect callback ran %d times", c)
	}
	ep.Close()
	y.Close()
	return "ok"
}

func init() {
	for _, op := range []string{"closeerr", "subidle", "flood", "client", "replyid", "reset", "call", "wok", "wfail", "cancel", "reply", "event", "eventerr", "rfail", "close", "out", "peek", "sub", "ondisc", "final"} {
		executors["cl."+op] = execCl(op)
	}
	executors["cl.storm"] = func(a []string) string {
		r := clStorm(a)
		if r != "ok" {
			lastFailDetail = r
		}
		return r
	}
	runners["C11"] = runC11
}

// the script generator mirrors just enough state to issue sensible operations
type clGen struct {
	phase []string // writing | waiting | cancelling | done
	lost  bool
	wdead bool
	subs  []int
	idle  []int
}

func runC11(r *Rand, tier string, o *Out) {
	scripts := 400
	if tier == "thorough" {
		scripts = 1500
	}
	for s := 0; s < scripts; s++ {
		o.Do("P", "cl.reset", false)
		if r.Chance(25) {
			o.Do("P", "cl.closeerr", true)
			o.Count("stream:close-reports-an-error")
		}
		g := &clGen{}
		steps := 6 + r.Intn(22)
		faultAt := r.Intn(steps + 4) // position of the loss; beyond the end: no loss before the final close
		evn := uint32(0)
		for i := 0; i < steps; i++ {
			if i == faultAt && !g.lost {
				switch r.Intn(4) {
				case 0:
					o.Do("P", fmt.Sprintf("cl.rfail eof %d", r.Intn(36)), true)
					o.Count("fault:eof")
				case 1:
					if r.Bool() {
						o.Do("P", fmt.Sprintf("cl.rfail once %d", r.Intn(37)), true)
						o.Count("fault:read-error-once-with-bytes")
					} else {
						o.Do("P", fmt.Sprintf("cl.rfail err %d", r.Intn(36)), true)
						o.Count("fault:read-error")
					}
				case 2:
					o.Do("P", "cl.close", true)
					o.Count("fault:local-close")
				case 3:
					// a Write fails (when one is in progress), then the read side goes too
					for c, ph := range g.phase {
						if ph == "writing" || ph == "cancelling" {
							o.Do("P", fmt.Sprintf("cl.wfail %d", c), true)
							g.phase[c] = "done"
							g.wdead = true
							o.Count("fault:write-error")
							break
						}
					}
					o.Do("P", fmt.Sprintf("cl.rfail eof %d", r.Intn(36)), true)
				}
				g.lost = true
				// Writes still in progress fail now (the fault is persistent)
				for c, ph := range g.phase {
					if ph == "writing" || ph == "cancelling" {
						o.Do("P", fmt.Sprintf("cl.wfail %d", c), true)
						g.phase[c] = "done"
					}
				}
				continue
			}
			k := r.Intn(100)
			pick := func(ph ...string) int {
				var cs []int
				for c, p := range g.phase {
					for _, q := range ph {
						if p == q {
							cs = append(cs, c)
						}
					}
				}
				if len(cs) == 0 {
					return -1
				}
				return cs[r.Intn(len(cs))]
			}
			switch {
			case k < 25 && len(g.phase) < 6:
				out := o.Do("P", "cl.call", true)
				if out == "writing" {
					g.phase = append(g.phase, "writing")
				} else {
					g.phase = append(g.phase, "done")
				}
				o.Count("op:call")
				if g.lost {
					o.Count("op:call-after-loss")
				}
			case k < 45:
				if c := pick("writing", "cancelling"); c >= 0 {
					if g.lost || g.wdead {
						o.Do("P", fmt.Sprintf("cl.wfail %d", c), true)
						g.phase[c] = "done"
					} else {
						o.Do("P", fmt.Sprintf("cl.wok %d", c), true)
						if g.phase[c] == "writing" {
							g.phase[c] = "waiting"
						} else {
							g.phase[c] = "done"
						}
					}
					o.Count("op:write-returns")
				}
			case k < 62:
				// a reply — also for a call whose Send has not returned yet (early reply)
				if c := pick("waiting", "writing"); c >= 0 {
					if g.phase[c] == "writing" {
						o.Count("op:early-reply")
					}
					if o.Do("P", fmt.Sprintf("cl.reply %d", c), true) == "dispatched" && g.phase[c] == "waiting" {
						g.phase[c] = "done"
						o.Do("P", fmt.Sprintf("cl.out %d", c), true)
					}
					o.Count("op:reply")
				}
			case k < 68:
				if c := pick("waiting"); c >= 0 && !g.lost {
					out := o.Do("P", fmt.Sprintf("cl.cancel %d", c), true)
					if out == "writing" {
						g.phase[c] = "cancelling"
					} else {
						g.phase[c] = "done"
					}
					o.Count("op:cancel")
				}
			case k < 76 && len(g.subs) < 3:
				a := r.Intn(3)
				o.Do("P", fmt.Sprintf("cl.sub %d", a), true)
				g.subs = append(g.subs, a)
				o.Count("op:subscribe")
			case k < 79 && (len(g.idle) > 0 || r.Chance(40)):
				// a subscriber that does not read, and more events for it than its queue holds
				if len(g.idle) < 2 && (len(g.idle) == 0 || r.Chance(30)) {
					a := len(g.idle)
					o.Do("P", fmt.Sprintf("cl.subidle %d", a), true)
					g.idle = append(g.idle, a)
					o.Count("op:subscribe-not-reading")
				} else {
					o.Do("P", fmt.Sprintf("cl.flood %d %d", g.idle[r.Intn(len(g.idle))], r.Pick(5, 60, 101, 102, 150, 260)), true)
					o.Count("op:flood-unread-subscription")
				}
			case k < 82:
				o.Do("P", "cl.ondisc", true)
				o.Count("op:on-disconnect")
			case k < 92:
				evn += 2 // even: never the id of a call (the model's single-shot filters key on the id alone)
				o.Do("P", fmt.Sprintf("cl.event %d %d", r.Intn(3), evn), true)
				o.Count("op:event")
			case k < 94:
				o.Do("P", fmt.Sprintf("cl.eventerr %d", r.Intn(3)), true)
				o.Count("op:error-event")
			default:
				if c := pick("waiting", "done"); c >= 0 {
					if g.phase[c] == "done" || g.lost {
						o.Do("P", fmt.Sprintf("cl.out %d", c), true)
					} else {
						o.Do("P", fmt.Sprintf("cl.peek %d", c), true)
					}
					o.Count("op:observe")
				}
			}
		}
		// the end: lose the connection if that has not happened, let every Write return, observe
		if !g.lost {
			o.Do("P", []string{"cl.close", "cl.rfail eof 0", "cl.rfail err 17"}[r.Intn(3)], true)
			g.lost = true
		}
		for c, ph := range g.phase {
			if ph == "writing" || ph == "cancelling" {
				o.Do("P", fmt.Sprintf("cl.wfail %d", c), true)
			}
		}
		for c := range g.phase {
			out := o.Do("P", fmt.Sprintf("cl.out %d", c), true)
			if out == "pending" || out == "timeout" {
				o.Fail("call still pending after the connection was lost", fmt.Sprintf("script %d call %d", s, c))
			}
		}
		o.Do("P", "cl.final", true)
	}
	// systematic: one pending call + subscription + callback, the fault at every byte offset
	for off := 0; off <= 36; off++ {
		for _, kind := range []string{"eof", "err", "once"} {
			for _, l := range []string{"cl.reset", "cl.ondisc", "cl.sub 1", "cl.call", "cl.wok 0", "cl.call", "cl.event 1 8",
				fmt.Sprintf("cl.rfail %s %d", kind, off), "cl.wfail 1", "cl.out 0", "cl.out 1", "cl.call", "cl.out 2", "cl.final"} {
				o.Do("P", l, true)
			}
		}
	}
	o.Count("systematic-fault-offsets")
	// concurrent storms
	storms := 60
	if tier == "thorough" {
		storms = 600
	}
	stormFails := 0
	for i := 0; i < storms && stormFails < 3; i++ {
		mode := []string{"peerclose", "midframe", "localclose"}[i%3]
		line := fmt.Sprintf("cl.storm %d %s %d", r.Pick(1, 2, 4, 8, 16), mode, r.U64()>>1)
		if out := o.Do("P", line, true); out != "ok" {
			o.Fail("connection loss: "+strings.SplitN(strings.TrimPrefix(out, "fail:"), " ", 2)[0], line+" => "+out)
			stormFails++
		}
		o.Count("storm:" + mode)
	}
	// a call and a subscription made while the shutdown of the connection is inside the stream's Close
	for _, how := range []string{"eof", "local", "late", "deaf", "eof", "late", "deaf"} {
		line := "cl.closegate " + how
		if out := o.Do("P", line, true); out != "ok" {
			o.Fail("connection loss: "+strings.TrimPrefix(out, "fail:"), line+" => "+out)
		}
		o.Count("scenario:registered-during-the-shutdown")
	}
}
