package main

import (
	"bytes"
	"fmt"
	"math"
	"reflect"
	"sort"
	"strconv"
	"strings"
	"time"
	"unicode"

	"github.com/lugu/qiloop/type/conversion"
	"github.com/lugu/qiloop/type/encoding"
)

// ---- type / value token syntax (see lean/QiVerif/Driver/C20.lean) -----------

type gtype struct {
	kind   string // b i8.. u8.. f32 f64 s [ { (
	elem   *gtype
	key    *gtype
	names  []string
	fields []*gtype
}

func (t *gtype) tokens() string {
	switch t.kind {
	case "[":
		return "[ " + t.elem.tokens()
	case "{":
		return "{ " + t.key.tokens() + " " + t.elem.tokens()
	case "(":
		p := []string{"(", strconv.Itoa(len(t.fields))}
		for i, f := range t.fields {
			p = append(p, t.names[i], f.tokens())
		}
		return strings.Join(p, " ")
	}
	return t.kind
}

var scalarRT = map[string]reflect.Type{
	"b": reflect.TypeOf(false), "i8": reflect.TypeOf(int8(0)), "i16": reflect.TypeOf(int16(0)),
	"i32": reflect.TypeOf(int32(0)), "i64": reflect.TypeOf(int64(0)), "u8": reflect.TypeOf(uint8(0)),
	"u16": reflect.TypeOf(uint16(0)), "u32": reflect.TypeOf(uint32(0)), "u64": reflect.TypeOf(uint64(0)),
	"f32": reflect.TypeOf(float32(0)), "f64": reflect.TypeOf(float64(0)), "s": reflect.TypeOf(""),
}

func (t *gtype) rtype() reflect.Type {
	switch t.kind {
	case "[":
		return reflect.SliceOf(t.elem.rtype())
	case "{":
		return reflect.MapOf(t.key.rtype(), t.elem.rtype())
	case "(":
		fs := make([]reflect.StructField, len(t.fields))
		for i, f := range t.fields {
			fs[i] = reflect.StructField{Name: t.names[i], Type: f.rtype()}
		}
		return reflect.StructOf(fs)
	}
	return scalarRT[t.kind]
}

func parseGType(ws []string) (*gtype, []string) {
	switch ws[0] {
	case "[":
		e, r := parseGType(ws[1:])
		return &gtype{kind: "[", elem: e}, r
	case "{":
		k, r := parseGType(ws[1:])
		e, r := parseGType(r)
		return &gtype{kind: "{", key: k, elem: e}, r
	case "(":
		n, _ := strconv.Atoi(ws[1])
		r := ws[2:]
		t := &gtype{kind: "("}
		for i := 0; i < n; i++ {
			t.names = append(t.names, r[0])
			var f *gtype
			f, r = parseGType(r[1:])
			t.fields = append(t.fields, f)
		}
		return t, r
	}
	return &gtype{kind: ws[0]}, ws[1:]
}

// parseGVal builds a reflect.Value of type t from value tokens.
func parseGVal(t *gtype, ws []string) (reflect.Value, []string) {
	rt := t.rtype()
	v := reflect.New(rt).Elem()
	switch ws[0] {
	case "b":
		v.SetBool(ws[1] == "1")
		return v, ws[2:]
	case "i":
		i, _ := strconv.ParseInt(ws[1], 10, 64)
		v.SetInt(i)
		return v, ws[2:]
	case "u":
		u, _ := strconv.ParseUint(ws[1], 10, 64)
		v.SetUint(u)
		return v, ws[2:]
	case "f32":
		u, _ := strconv.ParseUint(ws[1], 16, 32)
		v.SetFloat(float64(math.Float32frombits(uint32(u))))
		return v, ws[2:]
	case "f64":
		u, _ := strconv.ParseUint(ws[1], 16, 64)
		v.SetFloat(math.Float64frombits(u))
		return v, ws[2:]
	case "s":
		v.SetString(string(unhx(ws[1])))
		return v, ws[2:]
	case "[":
		n, _ := strconv.Atoi(ws[1])
		r := ws[2:]
		s := reflect.MakeSlice(rt, n, n)
		for i := 0; i < n; i++ {
			var e reflect.Value
			e, r = parseGVal(t.elem, r)
			s.Index(i).Set(e)
		}
		return s, r
	case "{":
		n, _ := strconv.Atoi(ws[1])
		r := ws[2:]
		m := reflect.MakeMapWithSize(rt, n)
		for i := 0; i < n; i++ {
			var k, e reflect.Value
			k, r = parseGVal(t.key, r)
			e, r = parseGVal(t.elem, r)
			m.SetMapIndex(k, e)
		}
		return m, r
	case "(":
		n, _ := strconv.Atoi(ws[1])
		r := ws[2:]
		for i := 0; i < n; i++ {
			var e reflect.Value
			e, r = parseGVal(t.fields[i], r[1:])
			v.Field(i).Set(e)
		}
		return v, r
	}
	panic("bad value token " + ws[0])
}

func renderGo(v reflect.Value) string {
	switch v.Kind() {
	case reflect.Bool:
		if v.Bool() {
			return "b1"
		}
		return "b0"
	case reflect.Int, reflect.Int8, reflect.Int16, reflect.Int32, reflect.Int64:
		return "i" + strconv.FormatInt(v.Int(), 10)
	case reflect.Uint, reflect.Uint8, reflect.Uint16, reflect.Uint32, reflect.Uint64:
		return "u" + strconv.FormatUint(v.Uint(), 10)
	case reflect.Float32:
		return fmt.Sprintf("f32:%08x", math.Float32bits(float32(v.Float())))
	case reflect.Float64:
		return fmt.Sprintf("f64:%016x", math.Float64bits(v.Float()))
	case reflect.String:
		return "s:" + hx([]byte(v.String()))
	case reflect.Slice:
		p := make([]string, v.Len())
		for i := range p {
			p[i] = renderGo(v.Index(i))
		}
		return "[" + strings.Join(p, ",") + "]"
	case reflect.Map:
		var p []string
		for _, k := range v.MapKeys() {
			p = append(p, renderGo(k)+"="+renderGo(v.MapIndex(k)))
		}
		sort.Strings(p)
		return "{" + strings.Join(p, ",") + "}"
	case reflect.Struct:
		p := make([]string, v.NumField())
		for i := range p {
			p[i] = v.Type().Field(i).Name + ":" + renderGo(v.Field(i))
		}
		return "(" + strings.Join(p, ",") + ")"
	case reflect.Ptr, reflect.Interface:
		if v.IsNil() {
			return "nil"
		}
		return renderGo(v.Elem())
	}
	return "?" + v.Kind().String()
}

func splitBar(ws []string) [][]string {
	out := [][]string{nil}
	for _, w := range ws {
		if w == "|" {
			out = append(out, nil)
		} else {
			out[len(out)-1] = append(out[len(out)-1], w)
		}
	}
	return out
}

// conv <target type> | <source type> | <value>
// (the Lean side only needs target type and value; the source type is what the
// Go value is built with)
func execConv(a []string) string {
	p := splitBar(a)
	tt, _ := parseGType(p[0])
	st, _ := parseGType(p[1])
	src, _ := parseGVal(st, p[2])
	dst := reflect.New(tt.rtype())
	if err := conversion.ConvertFrom(dst.Interface(), src.Interface()); err != nil {
		return "err"
	}
	return "ok " + renderGo(dst.Elem())
}

// convrt <source type> | <target type> | <value>
func execConvRT(a []string) string {
	p := splitBar(a)
	st, _ := parseGType(p[0])
	tt, _ := parseGType(p[1])
	src, _ := parseGVal(st, p[2])
	dst := reflect.New(tt.rtype())
	if err := conversion.ConvertFrom(dst.Interface(), src.Interface()); err != nil {
		return "err"
	}
	back := reflect.New(st.rtype())
	if err := conversion.ConvertFrom(back.Interface(), dst.Elem().Interface()); err != nil {
		return "ok " + renderGo(dst.Elem()) + " back err"
	}
	return "ok " + renderGo(dst.Elem()) + " back " + renderGo(back.Elem())
}

// convdec <target type> | <source type> | <value>: the value travels encoded (as the result of a call whose remote
// signature differs from the expected one does) and is decoded into the target with conversion.DecodeFrom
func execConvDec(a []string) string {
	p := splitBar(a)
	tt, _ := parseGType(p[0])
	st, _ := parseGType(p[1])
	src, _ := parseGVal(st, p[2])
	var buf bytes.Buffer
	if err := encoding.NewEncoder(nil, &buf).Encode(src.Interface()); err != nil {
		return "encode-error"
	}
	dst := reflect.New(tt.rtype())
	if err := conversion.DecodeFrom(encoding.NewDecoder(nil, &buf), dst.Interface(), st.rtype()); err != nil {
		return "err"
	}
	return "ok " + renderGo(dst.Elem())
}

// convre <source type> | <target type> | <value 1> | <value 2> [| <value 3> …]
// the destination (and the destination of the way back) is used twice: what it held after the first
// conversion must not show in the second
func execConvReuse(a []string) string {
	p := splitBar(a)
	st, _ := parseGType(p[0])
	tt, _ := parseGType(p[1])
	dst := reflect.New(tt.rtype())
	back := reflect.New(st.rtype())
	res := ""
	for _, vs := range p[2:] {
		src, _ := parseGVal(st, vs)
		if err := conversion.ConvertFrom(dst.Interface(), src.Interface()); err != nil {
			return "err"
		}
		if err := conversion.ConvertFrom(back.Interface(), dst.Elem().Interface()); err != nil {
			res = "ok " + renderGo(dst.Elem()) + " back err"
			continue
		}
		res = "ok " + renderGo(dst.Elem()) + " back " + renderGo(back.Elem())
	}
	return res
}

// scribble overwrites everything that can be reached through v: the elements of slices, the entries of maps, the
// fields of structs
func scribble(v reflect.Value) {
	switch v.Kind() {
	case reflect.Slice:
		for i := 0; i < v.Len(); i++ {
			scribble(v.Index(i))
		}
	case reflect.Map:
		for _, k := range v.MapKeys() {
			v.SetMapIndex(k, reflect.Value{})
		}
	case reflect.Struct:
		for i := 0; i < v.NumField(); i++ {
			scribble(v.Field(i))
		}
	case reflect.Ptr, reflect.Interface:
	default:
		if v.CanSet() {
			v.Set(reflect.Zero(v.Type()))
		}
	}
}

// convalias <source type> | <target type> | <value>: the value is converted, then the caller overwrites every element,
// entry and field of its result: the source is what it was (the result shares nothing with it)
func execConvAlias(a []string) string {
	p := splitBar(a)
	st, _ := parseGType(p[0])
	tt, _ := parseGType(p[1])
	src, _ := parseGVal(st, p[2])
	before := renderGo(src)
	dst := reflect.New(tt.rtype())
	if err := conversion.ConvertFrom(dst.Interface(), src.Interface()); err != nil {
		return "err"
	}
	scribble(dst.Elem())
	if after := renderGo(src); after != before {
		return "changed " + before + " => " + after
	}
	return "ok unchanged"
}

func hasMap(t *gtype) bool {
	switch t.kind {
	case "{":
		return true
	case "[":
		return hasMap(t.elem)
	case "(":
		for _, f := range t.fields {
			if hasMap(f) {
				return true
			}
		}
	}
	return false
}

// convrace <fields> <base>: two goroutines convert, at the same moment, values of a pair of struct types that nobody
// has converted before in this process (a wide pair: the first conversion takes a while); the first converts once, the
// second again and again until the first has finished. Every result is the source, field by field.
func execConvRace(a []string) string {
	n, _ := strconv.Atoi(a[0])
	base, _ := strconv.Atoi(a[1])
	var sf, tf []reflect.StructField
	for i := 0; i < n; i++ {
		sf = append(sf, reflect.StructField{Name: fmt.Sprintf("F%dX%d", i, base), Type: reflect.TypeOf(int32(0))})
	}
	for i := n - 1; i >= 0; i-- {
		tf = append(tf, reflect.StructField{Name: fmt.Sprintf("F%dX%d", i, base), Type: reflect.TypeOf(int64(0))})
	}
	st, tt := reflect.StructOf(sf), reflect.StructOf(tf)
	src := reflect.New(st).Elem()
	for i := 0; i < n; i++ {
		src.Field(i).SetInt(int64(base + i + 1))
	}
	bad := func(dst reflect.Value) int {
		k := 0
		for i := 0; i < n; i++ {
			if dst.Field(n-1-i).Int() != int64(base+i+1) {
				k++
			}
		}
		return k
	}
	start, done := make(chan struct{}), make(chan struct{})
	res := make(chan string, 2)
	go func() {
		<-start
		dst := reflect.New(tt)
		err := conversion.ConvertFrom(dst.Interface(), src.Interface())
		close(done)
		if err != nil {
			res <- "err"
		} else if k := bad(dst.Elem()); k > 0 {
			res <- fmt.Sprintf("fail:first %d fields differ", k)
		} else {
			res <- "ok"
		}
	}()
	go func() {
		<-start
		out := "ok"
		for i := 0; i < 400; i++ {
			dst := reflect.New(tt)
			if err := conversion.ConvertFrom(dst.Interface(), src.Interface()); err != nil {
				out = "err"
			} else if k := bad(dst.Elem()); k > 0 && out == "ok" {
				out = fmt.Sprintf("fail:second %d fields differ in round %d", k, i)
			}
			select {
			case <-done:
				res <- out
				return
			default:
			}
		}
		res <- out
	}()
	close(start)
	for i := 0; i < 2; i++ {
		select {
		case r := <-res:
			if r != "ok" {
				return r
			}
		case <-time.After(60 * time.Second):
			return "hang"
		}
	}
	return "ok"
}

func init() {
	executors["convrace"] = execConvRace
	executors["convre"] = execConvReuse
	executors["convalias"] = execConvAlias
	executors["convdec"] = func(a []string) string {
		p := splitBar(a) // same sections as conv: target | value | source
		return execConvDec(append(append(append(append([]string{}, p[0]...), "|"), append(p[2], "|")...), p[1]...))
	}
	executors["conv"] = func(a []string) string {
		// Lean-side syntax is "conv T | v"; the Go side needs the source type too,
		// carried as a third section that the driver ignores: conv T | v | S
		p := splitBar(a)
		return execConv(append(append(append(append([]string{}, p[0]...), "|"), append(p[2], "|")...), p[1]...))
	}
	executors["convrt"] = execConvRT
	runners["C20"] = runC20
}

// ---- generators ----------------------------------------------------------------

var fieldNames = []string{"A", "Bb", "Value", "X1", "Name", "Size_t", "ID", "Zed"}

func genGType(r *Rand, depth int, keyOK bool) *gtype {
	scalars := []string{"b", "i8", "i16", "i32", "i64", "u8", "u16", "u32", "u64", "f32", "f64", "s"}
	if keyOK || depth <= 0 || r.Chance(45) {
		if keyOK {
			// map keys: comparable scalars (no floats: NaN keys are not retrievable)
			ks := []string{"b", "i8", "i16", "i32", "i64", "u8", "u16", "u32", "u64", "s"}
			return &gtype{kind: ks[r.Intn(len(ks))]}
		}
		return &gtype{kind: scalars[r.Intn(len(scalars))]}
	}
	switch r.Intn(3) {
	case 0:
		return &gtype{kind: "[", elem: genGType(r, depth-1, false)}
	case 1:
		return &gtype{kind: "{", key: genGType(r, 0, true), elem: genGType(r, depth-1, false)}
	default:
		n := 1 + r.Intn(4)
		t := &gtype{kind: "("}
		perm := permN(r, len(fieldNames))
		for i := 0; i < n; i++ {
			t.names = append(t.names, fieldNames[perm[i]])
			t.fields = append(t.fields, genGType(r, depth-1, false))
		}
		return t
	}
}

func permN(r *Rand, n int) []int {
	p := make([]int, n)
	for i := range p {
		p[i] = i
	}
	for i := n - 1; i > 0; i-- {
		j := r.Intn(i + 1)
		p[i], p[j] = p[j], p[i]
	}
	return p
}

func bitsOf(k string) int { n, _ := strconv.Atoi(k[1:]); return n }

func genValTokens(r *Rand, t *gtype) string {
	switch t.kind {
	case "b":
		return "b " + strconv.Itoa(r.Intn(2))
	case "i8", "i16", "i32", "i64":
		b := uint(bitsOf(t.kind))
		var v int64
		switch r.Intn(6) {
		case 0:
			v = -1 << (b - 1)
		case 1:
			v = 1<<(b-1) - 1
		case 2:
			v = 0
		case 3:
			v = -1
		default:
			v = int64(r.U64()) >> (64 - b)
		}
		return "i " + strconv.FormatInt(v, 10)
	case "u8", "u16", "u32", "u64":
		b := uint(bitsOf(t.kind))
		var v uint64
		switch r.Intn(5) {
		case 0:
			v = 0
		case 1:
			v = ^uint64(0) >> (64 - b)
		case 2:
			v = uint64(1) << (b - 1)
		default:
			v = r.U64() >> (64 - b)
		}
		return "u " + strconv.FormatUint(v, 10)
	case "f32":
		var f float32
		switch r.Intn(6) {
		case 0:
			f = 0
		case 1:
			f = float32(math.Inf(1))
		case 2:
			f = math.SmallestNonzeroFloat32
		case 3:
			f = math.MaxFloat32
		default:
			f = math.Float32frombits(uint32(r.U64()))
			if f != f {
				f = 1.5
			}
		}
		return fmt.Sprintf("f32 %08x", math.Float32bits(f))
	case "f64":
		f := math.Float64frombits(r.U64())
		if f != f {
			f = -2.25
		}
		if r.Chance(20) {
			f = float64(float32(f)) // representable in float32
		}
		return fmt.Sprintf("f64 %016x", math.Float64bits(f))
	case "s":
		n := r.Intn(6)
		b := make([]byte, n)
		for i := range b {
			b[i] = byte('a' + r.Intn(26))
		}
		return "s " + hx(b)
	case "[":
		n := r.Intn(4)
		p := []string{"[", strconv.Itoa(n)}
		for i := 0; i < n; i++ {
			p = append(p, genValTokens(r, t.elem))
		}
		return strings.Join(p, " ")
	case "{":
		n := r.Intn(4)
		seen := map[string]bool{}
		var es []string
		for i := 0; i < n; i++ {
			k := genValTokens(r, t.key)
			if seen[k] {
				continue
			}
			seen[k] = true
			es = append(es, k, genValTokens(r, t.elem))
		}
		return strings.Join(append([]string{"{", strconv.Itoa(len(es) / 2)}, es...), " ")
	case "(":
		p := []string{"(", strconv.Itoa(len(t.fields))}
		for i, f := range t.fields {
			p = append(p, t.names[i], genValTokens(r, f))
		}
		return strings.Join(p, " ")
	}
	panic("kind " + t.kind)
}

func recase(r *Rand, s string) string {
	// keep the first letter upper-case (exported), vary the others
	rs := []rune(s)
	for i := 1; i < len(rs); i++ {
		if r.Bool() {
			rs[i] = unicode.ToUpper(rs[i])
		} else {
			rs[i] = unicode.ToLower(rs[i])
		}
	}
	return string(rs)
}

// compatTarget derives a structurally compatible target type (the property's
// domain): wider ints of the same signedness, float32→float64, permuted and
// re-cased struct fields, recursively.
func compatTarget(r *Rand, t *gtype, o *Out) *gtype {
	switch t.kind {
	case "i8", "i16", "i32", "i64", "u8", "u16", "u32", "u64":
		ws := []int{8, 16, 32, 64}
		b := bitsOf(t.kind)
		var cands []int
		for _, w := range ws {
			if w >= b {
				cands = append(cands, w)
			}
		}
		w := cands[r.Intn(len(cands))]
		if w != b {
			o.Count("compat:widen-int")
		}
		return &gtype{kind: t.kind[:1] + strconv.Itoa(w)}
	case "f32":
		if r.Bool() {
			o.Count("compat:f32-f64")
			return &gtype{kind: "f64"}
		}
		return &gtype{kind: "f32"}
	case "[":
		return &gtype{kind: "[", elem: compatTarget(r, t.elem, o)}
	case "{":
		o.Count("compat:map")
		return &gtype{kind: "{", key: compatTarget(r, t.key, o), elem: compatTarget(r, t.elem, o)}
	case "(":
		n := len(t.fields)
		p := permN(r, n)
		if r.Chance(40) {
			for i := range p {
				p[i] = i
			}
		} else {
			o.Count("compat:struct-permuted")
		}
		u := &gtype{kind: "("}
		for _, i := range p {
			u.names = append(u.names, recase(r, t.names[i]))
			u.fields = append(u.fields, compatTarget(r, t.fields[i], o))
		}
		return u
	}
	return &gtype{kind: t.kind}
}

// sameLayoutTarget: the same kinds in the same places — the same bytes on the wire — with the names of members of
// one type exchanged among them: matching by name moves the values, matching by position would not
func sameLayoutTarget(r *Rand, t *gtype) *gtype {
	switch t.kind {
	case "[":
		return &gtype{kind: "[", elem: sameLayoutTarget(r, t.elem)}
	case "{":
		return &gtype{kind: "{", key: t.key, elem: sameLayoutTarget(r, t.elem)}
	case "(":
		u := &gtype{kind: "(", names: append([]string{}, t.names...)}
		groups := map[string][]int{}
		for i, f := range t.fields {
			u.fields = append(u.fields, sameLayoutTarget(r, f))
			groups[f.tokens()] = append(groups[f.tokens()], i)
		}
		for _, g := range groups {
			if len(g) > 1 {
				p := permN(r, len(g))
				for k, i := range g {
					u.names[i] = t.names[g[p[k]]]
				}
			}
		}
		return u
	}
	return &gtype{kind: t.kind}
}

// a source type with several members of one type (so that names can be exchanged without changing the layout)
func genTwinStruct(r *Rand, depth int) *gtype {
	u := &gtype{kind: "("}
	n := 2 + r.Intn(3)
	base := genGType(r, depth-1, false)
	for i := 0; i < n; i++ {
		u.names = append(u.names, fieldNames[i])
		if r.Chance(75) {
			u.fields = append(u.fields, base)
		} else {
			u.fields = append(u.fields, genGType(r, depth-1, false))
		}
	}
	switch r.Intn(3) {
	case 0:
		return &gtype{kind: "[", elem: u}
	case 1:
		return &gtype{kind: "(", names: []string{"Inner", "N"}, fields: []*gtype{u, {kind: "i32"}}}
	}
	return u
}

// clashTarget replaces one position (reached through non-empty containers) by a
// type of an incompatible kind.  Returns nil if no such position exists.
func clashTarget(r *Rand, t *gtype, val []string) (*gtype, bool) {
	other := func(k string) *gtype {
		var c []string
		switch k[:1] {
		case "b":
			c = []string{"i32", "s", "f64", "u8"}
		case "i", "u":
			c = []string{"b", "s", "f32", "f64"}
		case "f":
			c = []string{"b", "s", "i64", "u32"}
		case "s":
			c = []string{"b", "i16", "f32", "u64"}
		case "[":
			return &gtype{kind: "{", key: &gtype{kind: "s"}, elem: &gtype{kind: "i32"}}
		case "{":
			return &gtype{kind: "[", elem: &gtype{kind: "i32"}}
		case "(":
			return &gtype{kind: "s"}
		}
		return &gtype{kind: c[r.Intn(len(c))]}
	}
	switch t.kind {
	case "[":
		if val[1] != "0" && r.Chance(70) {
			if e, ok := clashTarget(r, t.elem, val[2:]); ok {
				return &gtype{kind: "[", elem: e}, true
			}
		}
	case "{":
		if val[1] != "0" && r.Chance(70) {
			if r.Bool() {
				if e, ok := clashTarget(r, t.key, val[2:]); ok {
					return &gtype{kind: "{", key: e, elem: t.elem}, true
				}
			}
			// the first entry's value tokens start after the key's tokens
			_, rest := parseGValSkip(t.key, val[2:])
			if e, ok := clashTarget(r, t.elem, rest); ok {
				return &gtype{kind: "{", key: t.key, elem: e}, true
			}
		}
	case "(":
		if len(t.fields) > 0 && r.Chance(70) {
			i := r.Intn(len(t.fields))
			rest := val[2:]
			for j := 0; j < i; j++ {
				_, rest = parseGValSkip(t.fields[j], rest[1:])
			}
			if e, ok := clashTarget(r, t.fields[i], rest[1:]); ok {
				u := &gtype{kind: "(", names: t.names}
				u.fields = append([]*gtype{}, t.fields...)
				u.fields[i] = e
				return u, true
			}
		}
	}
	return other(t.kind), true
}

func parseGValSkip(t *gtype, ws []string) (reflect.Value, []string) { return parseGVal(t, ws) }

func runC20(r *Rand, tier string, o *Out) {
	n := 3000
	if tier == "thorough" {
		n = 40000
	}
	// the first conversions of a pair of struct types, from two goroutines at once
	for k, w := range []int{1500, 2500, 400} {
		op := fmt.Sprintf("convrace %d %d", w, 1000*(k+1)+r.Intn(900))
		if res := o.Do("P", op, true); res != "ok" {
			o.Fail("compatible conversion does not round-trip: two goroutines convert a pair of struct types for the first time", op+" => "+res)
		}
		o.Count("first-conversion-of-a-pair-from-two-goroutines")
	}
	for i := 0; i < n; i++ {
		depth := 1 + r.Intn(4)
		st := genGType(r, depth, false)
		val := genValTokens(r, st)
		o.Count("src:" + st.kind)
		if i%6 == 5 {
			// a destination that is used again (a caller that keeps one result variable): the second
			// conversion must give what a fresh destination gives.  Types without maps: a map that is
			// converted into keeps its entries, which is what the package documents.
			for tries := 0; hasMap(st) && tries < 50; tries++ {
				st = genGType(r, depth, false)
			}
			if !hasMap(st) {
				v1, v2 := genValTokens(r, st), genValTokens(r, st)
				if len(v1) < len(v2) && r.Chance(70) {
					v1, v2 = v2, v1 // the longer one first, most of the time
				}
				tt := compatTarget(r, st, o)
				if r.Chance(30) {
					tt = st // the very same type: nothing to convert, everything to copy
				}
				vals := v1 + " | " + v2
				last := v2
				if r.Chance(50) {
					// long, short, then something in between: the destination has room it does not use
					last = genValTokens(r, st)
					vals += " | " + last
					o.Count("case:destination-reused-three-times")
				}
				res := o.Do("P", fmt.Sprintf("convre %s | %s | %s", st.tokens(), tt.tokens(), vals), true)
				want := func() string { v, _ := parseGVal(st, strings.Fields(last)); return renderGo(v) }()
				if !strings.HasSuffix(res, " back "+want) {
					o.Fail("a destination used twice keeps what it held: "+st.kind, fmt.Sprintf("convre %s | %s | %s => %s (want back %s)", st.tokens(), tt.tokens(), vals, res, want))
				}
				o.Count("case:destination-reused")
				continue
			}
		}
		if i%11 == 7 {
			// a list of lists converted into twice with as many rows, the rows of other lengths: a row that grows
			// must not reach into the next one
			elem := &gtype{kind: []string{"i16", "i64", "u8", "s", "f32"}[r.Intn(5)]}
			st = &gtype{kind: "[", elem: &gtype{kind: "[", elem: elem}}
			n := 2 + r.Intn(3)
			rows := func() string {
				p := []string{"[", strconv.Itoa(n)}
				for k := 0; k < n; k++ {
					m := r.Intn(5)
					q := []string{"[", strconv.Itoa(m)}
					for j := 0; j < m; j++ {
						q = append(q, genValTokens(r, elem))
					}
					p = append(p, strings.Join(q, " "))
				}
				return strings.Join(p, " ")
			}
			if r.Bool() {
				st = &gtype{kind: "(", names: []string{"Rows", "N"}, fields: []*gtype{st, {kind: "i32"}}}
				v1, v2 := "( 2 Rows "+rows()+" N "+genValTokens(r, st.fields[1]), "( 2 Rows "+rows()+" N "+genValTokens(r, st.fields[1])
				tt := compatTarget(r, st, o)
				o.Do("P", fmt.Sprintf("convre %s | %s | %s | %s", st.tokens(), tt.tokens(), v1, v2), true)
			} else {
				tt := compatTarget(r, st, o)
				o.Do("P", fmt.Sprintf("convre %s | %s | %s | %s", st.tokens(), tt.tokens(), rows(), rows()), true)
			}
			o.Count("case:rows-of-other-lengths-into-a-used-destination")
			continue
		}
		if i%13 == 3 {
			// the result is the caller's: overwriting it does not reach the source (same types, or a compatible target
			// in which some containers have the source's very type)
			tt := st
			if r.Bool() {
				tt = compatTarget(r, st, o)
			}
			if res := o.Do("P", fmt.Sprintf("convalias %s | %s | %s", st.tokens(), tt.tokens(), val), true); strings.HasPrefix(res, "changed") {
				o.Fail("the converted value shares elements with its source: "+st.kind, fmt.Sprintf("convalias %s | %s | %s => %s", st.tokens(), tt.tokens(), val, res))
			}
			o.Count("case:result-overwritten-source-unchanged")
			continue
		}
		if i%9 == 4 {
			// the same layout under other names: members of one type exchange their names
			st = genTwinStruct(r, depth)
			val = genValTokens(r, st)
			tt := sameLayoutTarget(r, st)
			o.Do("P", fmt.Sprintf("conv %s | %s | %s", tt.tokens(), val, st.tokens()), true)
			o.Do("P", fmt.Sprintf("convdec %s | %s | %s", tt.tokens(), val, st.tokens()), true)
			o.Count("case:same-layout-other-names")
			continue
		}
		switch r.Intn(10) {
		case 0, 1, 2, 3, 4, 5: // compatible: preserved and converting back recovers the source
			tt := compatTarget(r, st, o)
			res := o.Do("P", fmt.Sprintf("convrt %s | %s | %s", st.tokens(), tt.tokens(), val), true)
			// direct oracle on the implementation: back-conversion must reproduce the source
			want := func() string { v, _ := parseGVal(st, strings.Fields(val)); return renderGo(v) }()
			if !strings.HasSuffix(res, " back "+want) {
				o.Fail(c20Class(st, tt), fmt.Sprintf("convrt %s | %s | %s => %s (want back %s)", st.tokens(), tt.tokens(), val, res, want))
			}
			o.Count("case:compatible")
			if r.Bool() {
				o.Do("P", fmt.Sprintf("convdec %s | %s | %s", tt.tokens(), val, st.tokens()), true)
				o.Count("case:compatible-through-DecodeFrom")
			}
		case 6, 7: // incompatible kinds: must be refused
			tt, _ := clashTarget(r, st, strings.Fields(val))
			res := o.Do("P", fmt.Sprintf("conv %s | %s | %s", tt.tokens(), val, st.tokens()), true)
			if res != "err" {
				o.Fail("incompatible kinds converted: "+st.kind+"->"+tt.kind, fmt.Sprintf("conv %s | %s | %s => %s", tt.tokens(), val, st.tokens(), res))
			}
			o.Count("case:kind-clash")
		default: // anything into anything (narrowing, sign changes, missing fields): model correspondence only
			tt := genGType(r, depth, false)
			if r.Bool() {
				tt = narrowTarget(r, st)
			}
			o.Do("X", fmt.Sprintf("conv %s | %s | %s", tt.tokens(), val, st.tokens()), true)
			o.Count("case:arbitrary")
			if r.Chance(30) {
				o.Do("X", fmt.Sprintf("convdec %s | %s | %s", tt.tokens(), val, st.tokens()), true)
				o.Count("case:arbitrary-through-DecodeFrom")
			}
		}
	}
}

// c20Class names the smallest type constructor pair that is involved.
func c20Class(st, tt *gtype) string {
	var walk func(a, b *gtype) string
	walk = func(a, b *gtype) string {
		switch a.kind {
		case "{":
			return "map"
		case "[":
			if s := walk(a.elem, b.elem); s != "" {
				return s
			}
		case "(":
			for i := range a.fields {
				for j := range b.fields {
					if strings.EqualFold(a.names[i], b.names[j]) {
						if s := walk(a.fields[i], b.fields[j]); s == "map" {
							return s
						}
					}
				}
			}
			return "struct"
		}
		return ""
	}
	k := walk(st, tt)
	if k == "" {
		k = st.kind + "->" + tt.kind
	}
	return "compatible conversion does not round-trip: " + k
}

// narrowTarget: same shape, but integer widths / signedness / float widths drawn freely
func narrowTarget(r *Rand, t *gtype) *gtype {
	switch t.kind {
	case "i8", "i16", "i32", "i64", "u8", "u16", "u32", "u64":
		ks := []string{"i8", "i16", "i32", "i64", "u8", "u16", "u32", "u64"}
		return &gtype{kind: ks[r.Intn(len(ks))]}
	case "f32", "f64":
		return &gtype{kind: []string{"f32", "f64"}[r.Intn(2)]}
	case "[":
		return &gtype{kind: "[", elem: narrowTarget(r, t.elem)}
	case "{":
		// keys keep their type: narrowing keys may merge entries in iteration order
		return &gtype{kind: "{", key: t.key, elem: narrowTarget(r, t.elem)}
	case "(":
		u := &gtype{kind: "("}
		for i, f := range t.fields {
			if r.Chance(15) {
				continue // field missing in the target
			}
			u.names = append(u.names, recase(r, t.names[i]))
			u.fields = append(u.fields, narrowTarget(r, f))
		}
		if r.Chance(20) {
			u.names = append(u.names, "Extra")
			u.fields = append(u.fields, &gtype{kind: "i32"})
		}
		return u
	}
	return &gtype{kind: t.kind}
}
