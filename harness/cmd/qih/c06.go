package main

// C06: the authentication gate.  A real server (StandAloneServer with a harness authenticator
// and two probe services that count their invocations) accepts harness-owned in-memory
// connections; raw frames of every type are written to them, one at a time to quiescence
// (exact comparison with Model/Auth.lean) or in bursts (only the theorem's conclusion is
// monitored: no probe invocation without accepted credentials).

import (
	"bytes"
	"encoding/binary"
	"fmt"
	"io/ioutil"
	"log"
	gonet "net"
	"strconv"
	"strings"
	"sync/atomic"
	"time"

	"github.com/lugu/qiloop/bus"
	qnet "github.com/lugu/qiloop/bus/net"
)

type auListener struct {
	ch     chan qnet.Stream
	closed chan struct{}
}

func (l *auListener) Accept() (qnet.Stream, error) {
	select {
	case s := <-l.ch:
		return s, nil
	case <-l.closed:
		return nil, fmt.Errorf("listener closed")
	}
}
func (l *auListener) Close() error {
	select {
	case <-l.closed:
	default:
		close(l.closed)
	}
	return nil
}

type auProbe struct{ calls *int64 }

func (p auProbe) Receive(m *qnet.Message, from bus.Channel) error {
	if m.Header.Action == 0xFFFFFF { // the harness's barrier
		return from.SendError(m, bus.ErrActionNotFound)
	}
	atomic.AddInt64(p.calls, 1)
	if m.Header.Type == qnet.Post {
		return nil
	}
	return from.SendReply(m, []byte{})
}
func (p auProbe) Activate(bus.Activation) error { return nil }
func (p auProbe) OnTerminate()                  {}

type auAuth struct{ kind string }

func (a auAuth) Authenticate(user, token string) bool {
	switch a.kind {
	case "yes":
		return true
	case "no":
		return false
	case "slow":
		// an authenticator that takes its time for one user (a directory that answers late) and then accepts
		if user == "slow" {
			<-auGate
			return true
		}
	}
	return (user == "alice" && token == "secret") || (user == "bob" && token == "") || (user == "" && token == "anon")
}

type auConn struct {
	c      gonet.Conn
	frames chan *qnet.Message // responses read from the server
	eof    chan struct{}
	dead   bool
}

type auWorld struct {
	l      *auListener
	srv    bus.Server
	probes int64
	conns  []*auConn
	nextID uint32
}

var auw *auWorld

func auReset(kind string) string {
	log.SetOutput(ioutil.Discard)
	if auw != nil {
		for _, c := range auw.conns {
			c.c.Close()
		}
		auw.srv.Terminate()
	}
	w := &auWorld{l: &auListener{ch: make(chan qnet.Stream), closed: make(chan struct{})}, nextID: 100}
	srv, err := bus.StandAloneServer(w.l, auAuth{kind}, bus.PrivateNamespace())
	if err != nil {
		return "setup-error:" + err.Error()
	}
	w.srv = srv
	for _, name := range []string{"p1", "p2"} {
		s, err := srv.NewService(name, auProbe{&w.probes})
		if err != nil {
			return "setup-error:" + err.Error()
		}
		_ = s
	}
	auw = w
	return "ok"
}

func (w *auWorld) connect() *auConn {
	a, b := gonet.Pipe()
	c := &auConn{c: a, frames: make(chan *qnet.Message, 256), eof: make(chan struct{})}
	w.l.ch <- qnet.ConnStream(b)
	go func() {
		defer close(c.eof)
		for {
			m := new(qnet.Message)
			if err := m.Read(a); err != nil {
				return
			}
			c.frames <- m
		}
	}()
	w.conns = append(w.conns, c)
	return c
}

func auErrClass(payload []byte) string {
	// the payload of an error message is a value holding a string
	if len(payload) < 9 {
		return "err-unreadable"
	}
	r := bytes.NewReader(payload)
	var n uint32
	binary.Read(r, binary.LittleEndian, &n)
	sig := make([]byte, n)
	r.Read(sig)
	binary.Read(r, binary.LittleEndian, &n)
	txt := make([]byte, n)
	r.Read(txt)
	t := string(txt)
	switch {
	case t == "Not authenticated":
		return "refused"
	case t == "Service not found":
		return "svc-not-found"
	case t == "Object not found":
		return "obj-not-found"
	case t == "Action not found":
		return "action-not-found"
	case strings.HasPrefix(t, "read map") || strings.HasPrefix(t, "capability map too long"):
		return "cap-error"
	}
	return "err:" + t
}

func (w *auWorld) write(c *auConn, m qnet.Message) bool {
	done := make(chan error, 1)
	go func() { done <- m.Write(c.c) }()
	select {
	case err := <-done:
		return err == nil
	case <-time.After(2 * time.Second):
		return false
	}
}

// frame writes one frame and reports what the peer sees for it
func (w *auWorld) frame(k int, typ uint8, svc, obj, act uint32, payload []byte) string {
	if k >= len(w.conns) {
		return "bad-op"
	}
	c := w.conns[k]
	suffix := func() string { return fmt.Sprintf(" n=%d", atomic.LoadInt64(&w.probes)) }
	if c.dead {
		return "dead" + suffix()
	}
	w.nextID++
	id := w.nextID
	h := qnet.Header{Magic: 0x42dead42, ID: id, Size: uint32(len(payload)), Type: typ, Service: svc, Object: obj, Action: act}
	if !w.write(c, qnet.NewMessage(h, payload)) {
		// the connection was alive and went away while this frame was being written
		c.dead = true
		return "closed-without-answer" + suffix()
	}
	ignored := typ == qnet.Reply || typ == qnet.Error || typ == qnet.Event || typ == qnet.Cancelled
	if svc == 0 && obj == 0 && typ != qnet.Call && typ != qnet.Post && typ >= 1 && typ <= 8 {
		ignored = true // service 0 runs nothing for it and says nothing
	}
	if typ == qnet.Post {
		ignored = true // a post is never answered
	}
	sentinel := uint32(0)
	if ignored {
		// nothing is expected back: a call of an unknown action of service 0 goes the same way
		// (connection goroutine, then the mailbox of service 0) and is always answered, in order
		w.nextID++
		sentinel = w.nextID
		sh := qnet.Header{Magic: 0x42dead42, ID: sentinel, Type: qnet.Call, Service: 0, Object: 0, Action: 0}
		if typ == qnet.Post && svc != 0 {
			// the barrier follows the post to the same object (same mailbox)
			sh.Service, sh.Object, sh.Action = svc, obj, 0xFFFFFF
		}
		if !w.write(c, qnet.NewMessage(sh, nil)) {
			c.dead = true
			return "closed-without-answer" + suffix()
		}
	}
	deadline := time.After(3 * time.Second)
	handle := func(m *qnet.Message) string {
		if ignored && m.Header.ID == sentinel {
			return "ignored" + suffix()
		}
		if m.Header.ID != id {
			return fmt.Sprintf("unexpected-frame type=%d id=%d", m.Header.Type, m.Header.ID) + suffix()
		}
		switch m.Header.Type {
		case qnet.Error:
			cl := auErrClass(m.Payload)
			if cl == "refused" {
				select {
				case <-c.eof:
					c.dead = true
					return "refused closed" + suffix()
				case <-time.After(3 * time.Second):
					return "refused open" + suffix()
				}
			}
			return cl + suffix()
		case qnet.Reply:
			if svc == 0 {
				cm, err := bus.ReadCapabilityMap(bytes.NewReader(m.Payload))
				if err != nil {
					return "auth-reply-unreadable" + suffix()
				}
				st := "none"
				if v, ok := cm[bus.KeyState]; ok {
					var b bytes.Buffer
					v.Write(&b)
					raw := b.Bytes()
					if len(raw) == 9 && raw[4] == 'I' {
						st = strconv.Itoa(int(binary.LittleEndian.Uint32(raw[5:])))
					}
				}
				return "auth " + st + suffix()
			}
			time.Sleep(200 * time.Microsecond)
			return fmt.Sprintf("probe %d", svc) + suffix()
		default:
			return fmt.Sprintf("unexpected-type %d", m.Header.Type) + suffix()
		}
	}
	for {
		select {
		case m := <-c.frames:
			return handle(m)
		case <-c.eof:
			// the answer may already be queued: the reader goroutine delivers before it signals the end
			select {
			case m := <-c.frames:
				return handle(m)
			default:
			}
			c.dead = true
			return "closed-without-answer" + suffix()
		case <-deadline:
			return "no-answer" + suffix()
		}
	}
}

// ---- payloads ---------------------------------------------------------------------------------

func auStr(s string) []byte {
	b := make([]byte, 4, 4+len(s))
	binary.LittleEndian.PutUint32(b, uint32(len(s)))
	return append(b, s...)
}
func auValStr(s string) []byte { return append(auStr("s"), auStr(s)...) }
func auValU32(v uint32) []byte {
	b := append(auStr("I"), 0, 0, 0, 0)
	binary.LittleEndian.PutUint32(b[len(b)-4:], v)
	return b
}
func auValI32(v uint32) []byte {
	b := append(auStr("i"), 0, 0, 0, 0)
	binary.LittleEndian.PutUint32(b[len(b)-4:], v)
	return b
}
func auValBool(v bool) []byte {
	if v {
		return append(auStr("b"), 1)
	}
	return append(auStr("b"), 0)
}

type auCounter struct{ o *Out }

func (c auCounter) Count(k string) {
	if c.o != nil {
		c.o.Count(k)
	}
}

type auEntry struct {
	k string
	v []byte
}

func auMap(es []auEntry) []byte {
	b := make([]byte, 4)
	binary.LittleEndian.PutUint32(b, uint32(len(es)))
	for _, e := range es {
		b = append(b, auStr(e.k)...)
		b = append(b, e.v...)
	}
	return b
}

// auPayload draws a capability-map payload; good says whether it is meant to carry accepted
// credentials for the dictionary authenticator (the model decides, this only steers the mix)
func auPayload(r *Rand, wantGood bool, out *Out) []byte {
	o := auCounter{out}
	extras := func() []auEntry {
		var es []auEntry
		if r.Chance(50) {
			es = append(es, auEntry{"ClientServerSocket", auValBool(true)})
		}
		if r.Chance(30) {
			es = append(es, auEntry{"MessageFlags", auValBool(true)})
		}
		return es
	}
	shuffle := func(es []auEntry) []auEntry {
		for i := len(es) - 1; i > 0; i-- {
			j := r.Intn(i + 1)
			es[i], es[j] = es[j], es[i]
		}
		return es
	}
	if wantGood {
		switch r.Intn(5) {
		case 0:
			o.Count("payload:good-alice")
			return auMap(shuffle(append(extras(), auEntry{"auth_user", auValStr("alice")}, auEntry{"auth_token", auValStr("secret")})))
		case 1:
			o.Count("payload:good-absent-token")
			return auMap(shuffle(append(extras(), auEntry{"auth_user", auValStr("bob")})))
		case 2:
			o.Count("payload:good-absent-user")
			return auMap(shuffle(append(extras(), auEntry{"auth_token", auValStr("anon")})))
		case 3:
			o.Count("payload:good-duplicate-last-wins")
			return auMap(append(extras(), auEntry{"auth_user", auValStr("mallory")}, auEntry{"auth_token", auValStr("secret")}, auEntry{"auth_user", auValStr("alice")}))
		default:
			o.Count("payload:good-trailing-bytes")
			return append(auMap([]auEntry{{"auth_user", auValStr("alice")}, {"auth_token", auValStr("secret")}}), r.Bytes(1+r.Intn(6))...)
		}
	}
	forged := auEntry{"__qi_auth_state", auValU32(3)}
	switch r.Intn(18) {
	case 16, 17:
		// a pair the authenticator refuses that differs from one it accepts by white space around the strings only
		o.Count("payload:accepted-pair-with-white-space")
		ws := []string{"\n", "\r\n", " ", "\t", "\u00a0", "\u0085", "  "}[r.Intn(7)]
		good := [][2]string{{"alice", "secret"}, {"bob", ""}, {"", "anon"}}[r.Intn(3)]
		u, tk := good[0], good[1]
		switch r.Intn(4) {
		case 0:
			tk += ws
		case 1:
			u = ws + u
		case 2:
			u += ws
			tk = ws + tk
		default:
			tk = ws + tk + ws
		}
		return auMap(shuffle(append(extras(), auEntry{"auth_user", auValStr(u)}, auEntry{"auth_token", auValStr(tk)})))
	case 14, 15:
		// a pair the authenticator refuses, whose user and token written one after the other read like a pair it
		// accepts (which another connection may just have presented)
		o.Count("payload:same-letters-split-elsewhere")
		pair := [][2]string{{"alic", "esecret"}, {"alicesecret", ""}, {"", "alicesecret"}, {"alices", "ecret"}, {"", "bob"}, {"b", "ob"}, {"anon", ""}, {"an", "on"}}[r.Intn(8)]
		var es []auEntry
		if pair[0] != "" || r.Bool() {
			es = append(es, auEntry{"auth_user", auValStr(pair[0])})
		}
		if pair[1] != "" || r.Bool() {
			es = append(es, auEntry{"auth_token", auValStr(pair[1])})
		}
		return auMap(shuffle(append(extras(), es...)))
	case 0:
		o.Count("payload:wrong-token")
		return auMap(shuffle(append(extras(), auEntry{"auth_user", auValStr("alice")}, auEntry{"auth_token", auValStr("Secret")})))
	case 1:
		o.Count("payload:unknown-user")
		return auMap(shuffle(append(extras(), auEntry{"auth_user", auValStr("mallory")}, auEntry{"auth_token", auValStr("secret")})))
	case 2:
		o.Count("payload:forged-state-bad-credentials")
		return auMap(shuffle(append(extras(), forged, auEntry{"auth_user", auValStr("mallory")}, auEntry{"auth_token", auValStr("x")})))
	case 3:
		o.Count("payload:forged-state-only")
		return auMap(shuffle(append(extras(), forged, auEntry{"__qi_auth_state", auValI32(3)})))
	case 4:
		o.Count("payload:user-wrong-type")
		return auMap(shuffle(append(extras(), auEntry{"auth_user", auValU32(7)}, auEntry{"auth_token", auValStr("secret")})))
	case 5:
		o.Count("payload:token-wrong-type")
		return auMap(shuffle(append(extras(), forged, auEntry{"auth_user", auValStr("alice")}, auEntry{"auth_token", auValBool(true)})))
	case 6:
		o.Count("payload:duplicate-last-loses")
		return auMap(append(extras(), auEntry{"auth_user", auValStr("alice")}, auEntry{"auth_token", auValStr("secret")}, auEntry{"auth_user", auValStr("mallory")}))
	case 7:
		o.Count("payload:oversized-count")
		b := auMap([]auEntry{{"auth_user", auValStr("alice")}, {"auth_token", auValStr("secret")}})
		binary.LittleEndian.PutUint32(b, uint32(4097+r.Intn(100000)))
		return b
	case 8:
		o.Count("payload:truncated")
		b := auMap(append(extras(), forged, auEntry{"auth_user", auValStr("alice")}, auEntry{"auth_token", auValStr("secret")}))
		return b[:r.Intn(len(b))]
	case 9:
		o.Count("payload:count-too-large")
		b := auMap([]auEntry{{"auth_user", auValStr("alice")}, {"auth_token", auValStr("secret")}})
		binary.LittleEndian.PutUint32(b, 3)
		return b
	case 10:
		o.Count("payload:random-bytes")
		return r.Bytes(r.Intn(40))
	case 11:
		o.Count("payload:empty-map")
		return auMap(extras())
	case 12:
		o.Count("payload:empty")
		return nil
	default:
		o.Count("payload:case-variants")
		return auMap(shuffle(append(extras(), auEntry{"Auth_user", auValStr("alice")}, auEntry{"auth_token ", auValStr("secret")}, forged)))
	}
}

func execAu(op string) func(a []string) string {
	return func(a []string) string {
		switch op {
		case "reset":
			return auReset(a[0])
		case "connect":
			auw.connect()
			return strconv.Itoa(len(auw.conns) - 1)
		case "frame":
			u := func(i int) uint32 { v, _ := strconv.ParseUint(a[i], 10, 32); return uint32(v) }
			return auw.frame(int(u(0)), uint8(u(1)), u(2), u(3), u(4), unhx(a[5]))
		case "burst":
			return auBurst(a)
		case "late":
			return auLate(a)
		}
		return "bad-op"
	}
}

var auGate chan struct{}

// au.late <milliseconds>: the authenticator needs that long for the credentials of connection A and accepts them;
// afterwards connection B presents refused credentials and addresses a service: B is refused, whatever became of A
func auLate(a []string) string {
	ms, _ := strconv.Atoi(a[0])
	auGate = make(chan struct{})
	if r := auReset("slow"); r != "ok" {
		return r
	}
	w := auw
	A := w.connect()
	B := w.connect()
	cred := func(u, t string) []byte {
		return auMap([]auEntry{{"auth_user", auValStr(u)}, {"auth_token", auValStr(t)}})
	}
	w.nextID++
	h := qnet.Header{Magic: 0x42dead42, ID: w.nextID, Type: qnet.Call, Service: 0, Object: 0, Action: 8}
	p := cred("slow", "good")
	h.Size = uint32(len(p))
	if !w.write(A, qnet.NewMessage(h, p)) {
		return "setup-error:write"
	}
	time.Sleep(time.Duration(ms) * time.Millisecond)
	close(auGate)
	time.Sleep(50 * time.Millisecond)
	r1 := w.frame(1, qnet.Call, 0, 0, 8, cred("mallory", "nope"))
	r2 := w.frame(1, qnet.Call, 1, 1, 100, nil)
	_ = B
	if atomic.LoadInt64(&w.probes) != 0 || strings.HasPrefix(r1, "auth 3") || strings.HasPrefix(r2, "probe") {
		lastFailDetail = "authenticate(mallory, nope) => " + r1 + "; call => " + r2
		return "fail:a-connection-with-refused-credentials-reached-a-service"
	}
	return "ok"
}

// au.burst <kind> <n> <seed>: a fresh server; on a fresh connection n frames without accepted
// credentials are written without waiting; no probe may be invoked
func auBurst(a []string) string {
	n, _ := strconv.Atoi(a[1])
	seed, _ := strconv.ParseUint(a[2], 10, 64)
	r := NewRand(seed)
	if s := auReset(a[0]); s != "ok" {
		return s
	}
	w := auw
	// a second connection authenticates properly: that must not help the first
	other := w.connect()
	if a[0] != "no" {
		good := auMap([]auEntry{{"auth_user", auValStr("alice")}, {"auth_token", auValStr("secret")}})
		w.frame(len(w.conns)-1, qnet.Call, 0, 0, 8, good)
	}
	_ = other
	c := w.connect()
	go func() {
		for i := 0; i < n; i++ {
			typ := uint8(r.Intn(10))
			svc := uint32(r.Pick(0, 0, 1, 2, 3))
			obj := uint32(r.Pick(0, 1, 2))
			act := uint32(r.Pick(8, 8, 2, 100))
			var p []byte
			if a[0] == "yes" {
				// every well-typed map is accepted by Yes: only send what cannot authenticate
				p = [][]byte{nil, r.Bytes(r.Intn(12)), auMap([]auEntry{{"auth_user", auValU32(1)}})}[r.Intn(3)]
				if svc == 0 && obj == 0 && act == 8 && len(p) >= 4 && binary.LittleEndian.Uint32(p) == 0 {
					p = nil
				}
			} else {
				p = auPayload(r, false, nil)
			}
			w.nextID++
			h := qnet.Header{Magic: 0x42dead42, ID: w.nextID, Size: uint32(len(p)), Type: typ, Service: svc, Object: obj, Action: act}
			m := qnet.NewMessage(h, p)
			c.c.SetWriteDeadline(time.Now().Add(time.Second))
			if m.Write(c.c) != nil {
				return
			}
		}
	}()
	// until the connection is closed or nothing has moved for a while
	quiet := time.NewTimer(400 * time.Millisecond)
loop:
	for {
		select {
		case <-c.frames:
			quiet.Reset(400 * time.Millisecond)
		case <-c.eof:
			break loop
		case <-quiet.C:
			break loop
		}
	}
	time.Sleep(5 * time.Millisecond)
	if got := atomic.LoadInt64(&w.probes); got != 0 {
		return fmt.Sprintf("fail:probe-invoked %d times by an unauthenticated connection", got)
	}
	return "ok"
}

func init() {
	for _, op := range []string{"reset", "connect", "frame", "burst", "late"} {
		executors["au."+op] = execAu(op)
	}
	runners["C06"] = runC06
}

func runC06(r *Rand, tier string, o *Out) {
	rounds := 80
	if tier == "thorough" {
		rounds = 800
	}
	kinds := []string{"dict", "dict", "dict", "yes", "no"}
	for s := 0; s < rounds; s++ {
		kind := kinds[r.Intn(len(kinds))]
		o.Do("P", "au.reset "+kind, false)
		nconn := 1 + r.Intn(3)
		for k := 0; k < nconn; k++ {
			o.Do("P", "au.connect", false)
		}
		steps := 6 + r.Intn(16)
		alive := make([]bool, nconn)
		authed := make([]bool, nconn)
		for k := range alive {
			alive[k] = true
		}
		for i := 0; i < steps; i++ {
			// mostly a live connection; sometimes a dead one (nothing may come back from it)
			var live []int
			for k, a := range alive {
				if a {
					live = append(live, k)
				}
			}
			if len(live) == 0 || (len(alive) < 6 && r.Chance(8)) {
				o.Do("P", "au.connect", false)
				alive = append(alive, true)
				authed = append(authed, false)
				live = append(live, len(alive)-1)
			}
			k := live[r.Intn(len(live))]
			if r.Chance(6) {
				k = r.Intn(len(alive))
			}
			typ := r.Pick(1, 1, 1, 1, 1, 4, 4, 6, 7, 2, 3, 5, 8)
			if r.Chance(4) {
				typ = r.Pick(0, 9, 200)
			}
			var svc, obj, act int
			var payload []byte
			c := r.Intn(100)
			if authed[k] && r.Chance(60) {
				c = 60 // an authenticated connection talks to the services
			}
			switch {
			case c < 45: // an authenticate request
				svc, obj, act = 0, 0, 8
				payload = auPayload(r, r.Chance(35), o)
				o.Count("frame:authenticate")
			case c < 55: // service 0, something else
				svc, obj, act = 0, r.Pick(0, 0, 1, 77), r.Pick(0, 2, 9, 8)
				payload = auPayload(r, r.Chance(50), o)
				o.Count("frame:service0-other")
			case c < 90: // another service
				svc, obj, act = r.Pick(1, 1, 2, 2, 3, 1000), r.Pick(1, 1, 1, 0, 5), r.Pick(0, 2, 100)
				payload = r.Bytes(r.Intn(8))
				o.Count("frame:other-service")
			default:
				svc, obj, act = r.Pick(1, 2), r.Pick(0, 1), 8
				payload = auPayload(r, true, o) // good credentials addressed to the wrong place
				o.Count("frame:credentials-elsewhere")
			}
			out := o.Do("P", fmt.Sprintf("au.frame %d %d %d %d %d %s", k, typ, svc, obj, act, hx(payload)), true)
			ans := strings.SplitN(out, " n=", 2)[0]
			o.Count("answer:" + ans)
			o.Count(fmt.Sprintf("type:%d", typ))
			switch ans {
			case "refused closed", "closed-without-answer", "dead":
				alive[k] = false
			case "auth 3":
				authed[k] = true
			}
		}
	}
	// one connection presents a pair the authenticator accepts; then another connection presents a pair it
	// refuses, made of the same letters split elsewhere, and addresses a service
	good := [][2]string{{"alice", "secret"}, {"bob", ""}, {"", "anon"}}
	bad := [][][2]string{{{"alic", "esecret"}, {"alicesecret", ""}, {"", "alicesecret"}}, {{"", "bob"}, {"b", "ob"}}, {{"anon", ""}, {"an", "on"}}}
	pairMap := func(p [2]string) []byte {
		var es []auEntry
		if p[0] != "" {
			es = append(es, auEntry{"auth_user", auValStr(p[0])})
		}
		if p[1] != "" {
			es = append(es, auEntry{"auth_token", auValStr(p[1])})
		}
		return auMap(es)
	}
	for gi, g := range good {
		for _, b := range bad[gi] {
			o.Do("P", "au.reset dict", false)
			o.Do("P", "au.connect", false)
			o.Do("P", "au.connect", false)
			o.Do("P", "au.frame 0 1 0 0 8 "+hx(pairMap(g)), true)
			o.Do("P", "au.frame 1 1 0 0 8 "+hx(pairMap(b)), true)
			o.Do("P", "au.frame 1 1 1 1 100 "+hx([]byte{1, 2}), true)
			o.Do("P", "au.frame 0 1 1 1 100 "+hx([]byte{3}), true)
			o.Count("scenario:same-letters-after-an-accepted-pair")
		}
	}
	bursts := 30
	if tier == "thorough" {
		bursts = 300
	}
	for i := 0; i < bursts; i++ {
		line := fmt.Sprintf("au.burst %s %d %d", kinds[i%len(kinds)], 20+r.Intn(60), r.U64()>>1)
		if out := o.Do("P", line, true); out != "ok" {
			o.Fail("unauthenticated connection reached a service", line+" => "+out)
		}
		o.Count("burst")
	}
	// an authenticator that answers late, for another connection
	lates := []int{2600}
	if tier == "thorough" {
		lates = []int{100, 1200, 2600, 5200}
	}
	for _, ms := range lates {
		line := fmt.Sprintf("au.late %d", ms)
		if out := o.Do("P", line, true); out != "ok" {
			o.Fail("a late verdict of the authenticator served another connection", line+" => "+out+" "+lastFailDetail)
		}
		o.Count("scenario:authenticator-answers-late")
	}
}
