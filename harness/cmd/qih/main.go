// Command qih runs the real qiloop code on generated inputs and writes, per
// property, the operation lines (ops.txt), the implementation's canonical
// answers (impl.txt) and run statistics (stats.json).  The Lean driver is
// fed ops.txt and its answers are compared with impl.txt by ./check.
package main

import (
	"flag"
	"fmt"
	"os"
)

type runner func(r *Rand, tier string, o *Out)

var runners = map[string]runner{}

func main() {
	prop := flag.String("prop", "", "property id (C01…)")
	seed := flag.Uint64("seed", 1, "seed")
	tier := flag.String("tier", "quick", "quick|thorough")
	out := flag.String("out", "", "output directory")
	replay := flag.String("replay", "", "replay: file of op lines to re-run against the implementation")
	consts := flag.String("consts", "", "write the linked constants as a Lean file and exit")
	flag.Parse()
	if *consts != "" {
		writeConsts(*consts)
		return
	}
	if handled := childMain(); handled {
		return
	}
	f, ok := runners[*prop]
	if !ok || *out == "" {
		fmt.Fprintln(os.Stderr, "usage: qih -prop Cxx -seed N -tier quick|thorough -out DIR")
		os.Exit(2)
	}
	o := NewOut(*out)
	if *replay != "" {
		replayOps(*prop, *replay, o)
	} else {
		f(NewRand(*seed), *tier, o)
	}
	o.Close()
}
