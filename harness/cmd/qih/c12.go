package main

// C12: one client cannot stop a service from serving others.  Each scenario runs in a child
// process (the server may be killed by what is sent to it): a directory server with a PingPong
// and a Bomb service on a unix socket; a hostile, authenticated client sends its sequence (through
// the client API or as raw frames); then a fresh client calls every object with a deadline.

import (
	"bytes"
	"encoding/binary"
	"fmt"
	"io/ioutil"
	"log"
	gonet "net"
	"strconv"
	"strings"
	"syscall"
	"time"

	"github.com/lugu/qiloop/bus"
	dir "github.com/lugu/qiloop/bus/directory"
	qnet "github.com/lugu/qiloop/bus/net"
	"github.com/lugu/qiloop/bus/session"
	"github.com/lugu/qiloop/bus/util"
	"github.com/lugu/qiloop/examples/pong"
	"github.com/lugu/qiloop/examples/space"
	"github.com/lugu/qiloop/type/value"
)

type c12World struct {
	addr string
	path string
	srv  bus.Server
	pp   bus.Service // the PingPong service: scenarios add objects that may be terminated
	impl *sgImpl     // its object: the harness can emit its signal
}

// an object that takes its time: requests queue up in front of it
type c12Slow struct{ sgImpl }

func (p *c12Slow) Ping(a string) error { time.Sleep(15 * time.Millisecond); return nil }

func c12Start() (*c12World, error) {
	log.SetOutput(ioutil.Discard)
	addr := util.NewUnixAddr()
	srv, err := dir.NewServer(addr, nil)
	if err != nil {
		return nil, err
	}
	impl := &sgImpl{}
	pp, err := srv.NewService("PingPong", pong.PingPongObject(impl))
	if err != nil {
		return nil, err
	}
	if _, err := srv.NewService("Bomb", space.BombObject(&prBomb{})); err != nil {
		return nil, err
	}
	return &c12World{addr: addr, path: strings.TrimPrefix(addr, "unix://"), srv: srv, pp: pp, impl: impl}, nil
}

// raw connection of the hostile client, authenticated
func (w *c12World) rawConn() (gonet.Conn, error) {
	c, err := gonet.Dial("unix", w.path)
	if err != nil {
		return nil, err
	}
	auth := qnet.NewMessage(qnet.NewHeader(qnet.Call, 0, 0, 8, 1), auMap(nil))
	if err := auth.Write(c); err != nil {
		return nil, err
	}
	var m qnet.Message
	c.SetReadDeadline(time.Now().Add(2 * time.Second))
	if err := m.Read(c); err != nil {
		return nil, err
	}
	c.SetReadDeadline(time.Time{})
	return c, nil
}

func c12Frame(c gonet.Conn, typ uint8, svc, obj, act, id uint32, payload []byte) error {
	h := qnet.Header{Magic: 0x42dead42, ID: id, Size: uint32(len(payload)), Type: typ, Service: svc, Object: obj, Action: act}
	c.SetWriteDeadline(time.Now().Add(2 * time.Second))
	_, err := c.Write(wireOf(h, payload))
	return err
}

// drain reads and discards whatever the server sends, until it is quiet
func c12Drain(c gonet.Conn, quiet time.Duration) {
	buf := make([]byte, 65536)
	for {
		c.SetReadDeadline(time.Now().Add(quiet))
		if _, err := c.Read(buf); err != nil {
			return
		}
	}
}

func le32(v uint32) []byte { b := make([]byte, 4); binary.LittleEndian.PutUint32(b, v); return b }
func le64(v uint64) []byte { b := make([]byte, 8); binary.LittleEndian.PutUint64(b, v); return b }

// the probe: a fresh client calls every object
func (w *c12World) probe() string {
	type res struct {
		what string
		err  error
	}
	done := make(chan res, 4)
	go func() {
		sess, err := session.NewSession(w.addr)
		if err != nil {
			done <- res{"session", err}
			return
		}
		defer sess.Terminate()
		p, err := sess.Proxy("ServiceDirectory", 1)
		if err != nil {
			done <- res{"directory", err}
			return
		}
		if _, err := dir.MakeServiceDirectory(sess, p).Services(); err != nil {
			done <- res{"directory", err}
			return
		}
		p, err = sess.Proxy("PingPong", 1)
		if err != nil {
			done <- res{"pingpong", err}
			return
		}
		if got, err := pong.MakePingPong(sess, p).Hello("probe"); err != nil || got != "probe" {
			done <- res{"pingpong", fmt.Errorf("%v %q", err, got)}
			return
		}
		p, err = sess.Proxy("Bomb", 1)
		if err != nil {
			done <- res{"bomb", err}
			return
		}
		if _, err := bus.MakeObject(p).Property(value.String("delay")); err != nil {
			done <- res{"bomb", err}
			return
		}
		done <- res{"", nil}
	}()
	select {
	case r := <-done:
		if r.err != nil {
			return "fail:probe-" + r.what + " " + r.err.Error()
		}
		return "ok"
	case <-time.After(4 * time.Second):
		return "fail:probe-timeout the server no longer answers a fresh client within 4 s"
	}
}

// c12.run <scenario> <seed>
func childC12(a []string) string {
	// an address-space ceiling, as a deployed server has one: a request must not be able to make
	// the server ask for more
	lim := uint64(4) << 30
	syscall.Setrlimit(syscall.RLIMIT_AS, &syscall.Rlimit{Cur: lim, Max: lim})
	seed, _ := strconv.ParseUint(a[1], 10, 64)
	r := NewRand(seed)
	w, err := c12Start()
	if err != nil {
		return "setup-error:" + err.Error()
	}
	defer w.srv.Terminate()
	switch a[0] {
	case "valid":
		sess, err := session.NewSession(w.addr)
		if err != nil {
			return "setup-error:" + err.Error()
		}
		p, _ := sess.Proxy("PingPong", 1)
		pp := pong.MakePingPong(sess, p)
		for i := 0; i < 50; i++ {
			switch r.Intn(4) {
			case 0:
				pp.Hello(fmt.Sprintf("h%d", i))
			case 1:
				pp.Ping("x")
			case 2:
				cancel, _, err := pp.SubscribePong()
				if err == nil && r.Bool() {
					cancel()
				}
			default:
				bus.MakeObject(p).MetaObject(1)
			}
		}
		if r.Bool() {
			sess.Terminate()
		}
	case "subscriptions":
		sess, err := session.NewSession(w.addr)
		if err != nil {
			return "setup-error:" + err.Error()
		}
		p, _ := sess.Proxy("PingPong", 1)
		// the client has a second connection: subscription ids registered on one, unregistered on the other
		sess2, err := session.NewSession(w.addr)
		if err != nil {
			return "setup-error:" + err.Error()
		}
		defer sess2.Terminate()
		p2, _ := sess2.Proxy("PingPong", 1)
		objs := []bus.ObjectProxy{bus.MakeObject(p), bus.MakeObject(p2)}
		ids := []uint64{4242, 4242, 1, 0, 1 << 63, 4242, 7}
		for i := 0; i < 40; i++ {
			uid := ids[r.Intn(len(ids))]
			obj := objs[r.Intn(2)]
			done := make(chan struct{})
			go func() {
				defer close(done)
				switch r.Intn(5) {
				case 0, 1:
					obj.RegisterEvent(1, uint32(r.Pick(102, 102, 0, 999)), uid)
				case 2:
					obj.UnregisterEvent(1, 102, uid)
				case 3:
					obj.RegisterEvent(uint32(r.Pick(0, 2, 77)), 102, uid) // wrong object id
				default:
					obj.UnregisterEvent(uint32(r.Pick(0, 1, 5)), uint32(r.Pick(102, 3)), uint64(r.Intn(5)))
				}
			}()
			select {
			case <-done:
			case <-time.After(1500 * time.Millisecond):
				// the hostile client does not care; the probe decides
			}
		}
	case "raw":
		c, err := w.rawConn()
		if err != nil {
			return "setup-error:" + err.Error()
		}
		go c12Drain(c, 3*time.Second)
		for i := 0; i < 200; i++ {
			typ := uint8(r.Pick(1, 1, 1, 4, 6, 7, 2, 3, 5, 8))
			svc := uint32(r.Pick(1, 2, 3, 3, 0, 9, 1000))
			obj := uint32(r.Pick(1, 1, 1, 0, 2, 1<<31))
			act := uint32(r.Pick(0, 1, 2, 3, 5, 6, 7, 8, 80, 81, 82, 83, 84, 85, 100, 101, 102, 103, 104, 105, 106, 107, 108, 7777))
			if act == 3 && svc != 9 { // terminate is a documented removal: not part of this scenario
				act = 2
			}
			if svc == 1 && act == 103 { // unregisterService: idem
				act = 100
			}
			p := r.Bytes(r.Intn(40))
			if r.Chance(40) {
				p = append(le32(1), r.Bytes(r.Intn(16))...)
			}
			if c12Frame(c, typ, svc, obj, act, uint32(100+i), p) != nil {
				break
			}
		}
		if r.Bool() {
			c.Close()
		}
	case "unsubscribe-and-leave":
		// many clients that subscribe, send their unsubscriptions without waiting for the answers and hang up at once:
		// the end of the connection meets the removals half-way
		n := 400
		for i := 0; i < n; i++ {
			c, err := w.rawConn()
			if err != nil {
				return w.probe()
			}
			id := uint32(100)
			for k := 0; k < 8; k++ {
				id++
				c12Frame(c, qnet.Call, 2, 1, 0, id, append(append(le32(1), le32(102)...), le64(uint64(7000+k))...))
			}
			// the subscriptions are made once their answers are there
			buf := make([]byte, 4096)
			got := 0
			c.SetReadDeadline(time.Now().Add(500 * time.Millisecond))
			for got < 8*36 {
				m, err := c.Read(buf)
				if err != nil {
					break
				}
				got += m
			}
			for k := 0; k < 8; k++ {
				id++
				c12Frame(c, qnet.Call, 2, 1, 1, id, append(append(le32(1), le32(102)...), le64(uint64(7000+k))...))
			}
			time.Sleep(time.Duration(r.Intn(400)) * time.Microsecond)
			c.Close()
		}
		time.Sleep(100 * time.Millisecond)
	case "tracing":
		// a client turns the tracing of the objects on and subscribes to their trace signal — more than once, while the
		// tracing is on — and goes on calling: every traced message makes events for the subscribers of the trace signal
		c, err := w.rawConn()
		if err != nil {
			return "setup-error:" + err.Error()
		}
		go c12Drain(c, 4*time.Second)
		id := uint32(100)
		for _, svc := range []uint32{2, 3, 1} {
			if r.Bool() {
				id++
				c12Frame(c, qnet.Call, svc, 1, 85, id, []byte{1}) // enableTrace(true)
			}
			for k := 0; k < 2+r.Intn(2); k++ {
				id++
				c12Frame(c, qnet.Call, svc, 1, 0, id, append(append(le32(1), le32(86)...), le64(uint64(9000+id))...))
			}
			for k := 0; k < 6; k++ {
				id++
				switch r.Intn(3) {
				case 0:
					c12Frame(c, qnet.Call, svc, 1, 2, id, le32(1)) // metaObject
				case 1:
					c12Frame(c, qnet.Call, 2, 1, 100, id, svString("traced")) // hello
				default:
					c12Frame(c, qnet.Post, 2, 1, 101, id, svString("ping"))
				}
			}
		}
		time.Sleep(300 * time.Millisecond)
		// the other clients are served while this one is still there, and after it has left
		if res := w.probe(); res != "ok" {
			return res
		}
		if r.Bool() {
			c.Close()
		}
	case "tracing-emit":
		// the tracing of an object is on when a client subscribes to its signal: what is sent to that subscriber is
		// traced too.  The object emits (from a goroutine of the process that owns it) while the client goes on calling.
		c, err := w.rawConn()
		if err != nil {
			return "setup-error:" + err.Error()
		}
		go c12Drain(c, 6*time.Second)
		c12Frame(c, qnet.Call, 2, 1, 85, 100, []byte{1}) // enableTrace(true)
		c12Frame(c, qnet.Call, 2, 1, 0, 101, append(append(le32(1), le32(102)...), le64(9101)...))
		time.Sleep(100 * time.Millisecond)
		emitted := make(chan struct{})
		go func() {
			defer close(emitted)
			for i := 0; i < 300; i++ {
				w.impl.h.SignalPong("e")
			}
		}()
		for i := uint32(0); i < 300; i++ {
			c12Frame(c, qnet.Call, 2, 1, 100, 200+i, svString("traced")) // hello
		}
		select {
		case <-emitted:
		case <-time.After(10 * time.Second):
			return "fail:stuck the object's own emissions do not return while a traced client calls"
		}
		time.Sleep(200 * time.Millisecond)
		if res := w.probe(); res != "ok" {
			return res
		}
	case "truncated":
		// the arguments of every action an object has of its own (subscriptions, meta-object, properties,
		// statistics, traces) and of the services' methods, cut at every length: as calls and as posts
		c, err := w.rawConn()
		if err != nil {
			return "setup-error:" + err.Error()
		}
		go c12Drain(c, 3*time.Second)
		val := func(sig string, body []byte) []byte { return append(svString(sig), body...) }
		reg := append(append(le32(1), le32(102)...), le64(uint64(5000+r.Intn(1000)))...)
		type req struct {
			svc, act uint32
			p        []byte
		}
		reqs := []req{
			{2, 0, reg}, {2, 1, reg}, {3, 0, reg}, {3, 1, reg}, {1, 0, reg}, {1, 1, reg},
			{2, 8, append(append([]byte{}, reg...), svString("(s)")...)},
			{2, 2, le32(1)}, {3, 2, le32(1)}, {1, 2, le32(1)},
			{3, 5, val("s", svString("delay"))}, {3, 6, append(val("s", svString("delay")), val("i", le32(7))...)},
			{2, 5, val("I", le32(0))}, {2, 6, append(val("I", le32(0)), val("s", svString("x"))...)},
			{2, 81, []byte{1}}, {2, 85, []byte{1}}, {2, 100, svString("hello")}, {2, 101, svString("ping")},
			{1, 100, svString("PingPong")},
		}
		id := uint32(100)
		for _, q := range reqs {
			for cut := 0; cut <= len(q.p); cut++ {
				for _, typ := range []uint8{qnet.Call, qnet.Post} {
					if q.act == 0 && cut == len(q.p) && typ == qnet.Post {
						continue
					}
					id++
					if c12Frame(c, typ, q.svc, 1, q.act, id, q.p[:cut]) != nil {
						return w.probe()
					}
				}
			}
			// the same with the other object identifier in front
			if len(q.p) >= 4 && q.act <= 2 {
				alt := append(le32(0), q.p[4:]...)
				for cut := 4; cut <= len(alt); cut++ {
					id++
					c12Frame(c, qnet.Call, q.svc, 1, q.act, id, alt[:cut])
				}
			}
		}
		time.Sleep(200 * time.Millisecond)
	case "lengths":
		// well-formed requests with one length field replaced by a hostile value — strings only:
		// the element counts of lists and maps are the subject of the scenario "counts"
		c, err := w.rawConn()
		if err != nil {
			return "setup-error:" + err.Error()
		}
		go c12Drain(c, 3*time.Second)
		hostile := []uint32{0xFFFFFFFF, 0x7FFFFFFF, 0x80000000, 0x01000000, 10485761, 4097}
		for i := 0; i < 60; i++ {
			h := hostile[r.Intn(len(hostile))]
			var p []byte
			svc, act := uint32(2), uint32(100) // pingpong.hello(string)
			switch r.Intn(3) {
			case 0:
				p = append(le32(h), []byte("abc")...)
			case 1: // setProperty(name value, value): the dynamic value's signature string
				svc, act = 3, 6
				p = append(append(le32(h), 's'), []byte("delay")...)
			default: // directory.service(name)
				svc, act = 1, 100
				p = le32(h)
			}
			if c12Frame(c, qnet.Call, svc, 1, act, uint32(100+i), p) != nil {
				break
			}
		}
	case "counts":
		// the element count of a list argument: directory.registerService(ServiceInfo{…, endpoints: [str], …})
		c, err := w.rawConn()
		if err != nil {
			return "setup-error:" + err.Error()
		}
		go c12Drain(c, 3*time.Second)
		var p bytes.Buffer
		p.Write(svString("evil"))      // name
		p.Write(le32(0))               // serviceId
		p.Write(svString("m"))         // machineId
		p.Write(le32(1))               // processId
		p.Write(le32(0x7FFFFFFF))      // endpoints: count
		c12Frame(c, qnet.Call, 1, 1, 102, 100, p.Bytes())
		time.Sleep(300 * time.Millisecond)
	case "flood-reading":
		c, err := w.rawConn()
		if err != nil {
			return "setup-error:" + err.Error()
		}
		go c12Drain(c, 3*time.Second)
		for i := 0; i < 3000; i++ {
			if c12Frame(c, qnet.Call, 2, 1, 2, uint32(100+i), le32(1)) != nil {
				break
			}
		}
	case "flood-posts":
		// one-way requests only: nothing is answered, nothing has to be read.  Posted subscriptions make the
		// object register handlers on the connection while the connection's reader is busy dispatching the flood.
		c, err := w.rawConn()
		if err != nil {
			return "setup-error:" + err.Error()
		}
		go c12Drain(c, 3*time.Second)
		n := 3000 + r.Intn(3000)
		for i := 0; i < n; i++ {
			var err error
			if i%3 == 0 {
				err = c12Frame(c, qnet.Post, 2, 1, 100, uint32(100+i), svString("x"))
			} else {
				err = c12Frame(c, qnet.Post, 2, 1, 0, uint32(100+i), append(append(le32(1), le32(102)...), le64(uint64(5000+i))...))
			}
			if err != nil {
				break
			}
		}
		c.Close()
	case "terminate-busy":
		// removal requests are legitimate; what surrounds them must not hurt anybody else: the object is
		// busy, its queue is full of the client's requests, a terminate sits among them, more follow
		c, err := w.rawConn()
		if err != nil {
			return "setup-error:" + err.Error()
		}
		go c12Drain(c, 3*time.Second)
		// somebody else uses the same objects meanwhile (its requests queue up behind the client's)
		other, err := w.rawConn()
		if err != nil {
			return "setup-error:" + err.Error()
		}
		go c12Drain(other, 3*time.Second)
		for round := 0; round < 12; round++ {
			id, err := w.pp.Add(pong.PingPongObject(&c12Slow{}))
			if err != nil {
				return "setup-error:" + err.Error()
			}
			n := uint32(1000 * round)
			// paced: a burst beyond the connection's queue would simply be dropped
			pace := func() { time.Sleep(time.Duration(50+r.Intn(150)) * time.Microsecond) }
			for i := 0; i < 2+r.Intn(2); i++ {
				c12Frame(c, qnet.Post, 2, id, 101, n+uint32(i), svString("slow"))
				pace()
			}
			for i := 0; i < r.Intn(4); i++ {
				c12Frame(c, qnet.Call, 2, id, 100, n+10+uint32(i), svString("x"))
				pace()
			}
			c12Frame(c, qnet.Call, 2, id, 3, n+50, le32(id))
			for i := 0; i < 8+r.Intn(14); i++ {
				pace()
				c12Frame(c, qnet.Call, 2, id, 100, n+100+uint32(i), svString("y"))
				c12Frame(other, qnet.Call, 2, id, 100, n+100+uint32(i), svString("z"))
			}
			time.Sleep(time.Duration(r.Intn(40)) * time.Millisecond)
		}
		time.Sleep(100 * time.Millisecond)
	case "terminate-other":
		// terminate requests that name another object than the one they are sent to: wrong object ids — all refused
		c, err := w.rawConn()
		if err != nil {
			return "setup-error:" + err.Error()
		}
		go c12Drain(c, 3*time.Second)
		for i := 0; i < 60; i++ {
			svc := uint32(r.Pick(1, 2, 3))
			named := uint32(r.Pick(2, 3, 7, 1000, 0x7FFFFFFF, 0x80000000, 0x80000001, 0xFFFFFFFF, 1<<30))
			typ := uint8(r.Pick(int(qnet.Call), int(qnet.Call), int(qnet.Post)))
			c12Frame(c, typ, svc, 1, 3, uint32(100+i), le32(named))
		}
		time.Sleep(200 * time.Millisecond)
	case "deep-signature":
		// a dynamic value whose signature is megabytes of brackets (a message may carry 10 MB): every object
		// reads the argument of `property` as a value
		c, err := w.rawConn()
		if err != nil {
			return "setup-error:" + err.Error()
		}
		go c12Drain(c, 3*time.Second)
		n := 1200000 + r.Intn(800000)
		sig := strings.Repeat([]string{"[", "{i"}[r.Intn(2)], n)
		if r.Bool() {
			sig += "i" + strings.Repeat(map[byte]string{'[': "]", '{': "}"}[sig[0]], n)
		}
		payload := append(svString(sig), 0, 0, 0, 0)
		c12Frame(c, qnet.Call, uint32(2+r.Intn(2)), 1, 5, 100, payload)
		time.Sleep(500 * time.Millisecond)
	case "flood-not-reading":
		// metaObject calls whose replies are never read
		c, err := w.rawConn()
		if err != nil {
			return "setup-error:" + err.Error()
		}
		for i := 0; i < 3000; i++ {
			if c12Frame(c, qnet.Call, 2, 1, 2, uint32(100+i), le32(1)) != nil {
				break
			}
		}
		defer c.Close()
	case "disconnects":
		for i := 0; i < 20; i++ {
			c, err := w.rawConn()
			if err != nil {
				return "setup-error:" + err.Error()
			}
			// subscribe, start a request, and vanish in the middle of a frame
			c12Frame(c, qnet.Call, 2, 1, 0, 50, append(append(le32(1), le32(102)...), le64(uint64(1000+i))...))
			frame := wireOf(qnet.Header{Magic: 0x42dead42, ID: 51, Size: 100, Type: qnet.Call, Service: 2, Object: 1, Action: 100}, make([]byte, 100))
			c.Write(frame[:r.Intn(len(frame))])
			c.Close()
		}
	default:
		return "bad-op"
	}
	return w.probe()
}

func init() {
	children["c12.run"] = childC12
	executors["c12.run"] = func(a []string) string {
		out := runChild("c12.run", strings.Join(a, " "), 90*time.Second, 0)
		if out.Result != "ok" {
			lastFailDetail = out.Stderr
		}
		res := out.Result
		if res == "crash-noresult" {
			res = "crash"
		}
		c12Last = res
		// the two scenarios whose outcome the code cannot guarantee (known findings) answer alike
		if a[0] == "counts" || a[0] == "flood-not-reading" {
			return "known-weakness"
		}
		return res
	}
	runners["C12"] = runC12
}

var c12Last string

func runC12(r *Rand, tier string, o *Out) {
	per := 2
	if tier == "thorough" {
		per = 12
	}
	for _, sc := range []string{"valid", "subscriptions", "raw", "truncated", "tracing", "tracing-emit", "unsubscribe-and-leave", "lengths", "flood-reading", "flood-posts", "terminate-busy", "terminate-other", "deep-signature", "disconnects"} {
		for i := 0; i < per; i++ {
			line := fmt.Sprintf("c12.run %s %d", sc, r.U64()>>1)
			if out := o.Do("P", line, true); out != "ok" {
				cls := strings.SplitN(strings.TrimPrefix(out, "fail:"), " ", 2)[0]
				o.Fail("a client stopped the server: "+sc+": "+cls, line+" => "+out+" "+tail(lastFailDetail, 400))
			}
			o.Count("scenario:" + sc)
		}
	}
	// known findings
	o.Do("P", fmt.Sprintf("c12.run counts %d", r.U64()>>1), true)
	if c12Last != "ok" {
		o.Fail("a hostile element count makes the server allocate it", "c12.run counts => "+c12Last+" "+tail(lastFailDetail, 300))
	}
	o.Count("scenario:counts")
	o.Do("P", fmt.Sprintf("c12.run flood-not-reading %d", r.U64()>>1), true)
	if c12Last != "ok" {
		o.Fail("a client that does not read its replies blocks the object", "c12.run flood-not-reading => "+c12Last)
	}
	o.Count("scenario:flood-not-reading")
}
