package main

// C18: MetaObject -> IDL -> MetaObject, and the totality of the IDL parser.
//  idl.type : a type text, wrapped into a small package with known struct declarations, goes
//             through idl.ParsePackage; the signature of the parsed parameter is compared with
//             the type parser of Model/Idl.lean.
//  idl.rt   : a generated meta-object is printed with idl.GenerateIDL and parsed back with
//             idl.ParseIDL; action ids, names and all signatures must be the same.
//  idl.fuzz : mutated and random IDL text in a child process: a package or an error, never a crash.

import (
	"bytes"
	"fmt"
	"sort"
	"strconv"
	"strings"
	"time"

	"github.com/lugu/qiloop/meta/idl"
	"github.com/lugu/qiloop/type/object"
)

const c18Prelude = "package p\nstruct Foo\n\ta: int32\nend\nstruct Map<K>\n\tb: str\nend\nstruct anything\n\tc: bool\nend\n"

// the declared structs, as the model resolves them
var c18Structs = map[string]string{"Foo": "(i)<Foo,a>", "Map<K>": "(s)<Map<K>,b>", "anything": "(b)<anything,c>"}

func execIdlType(a []string) string {
	text := string(unhx(a[0]))
	if strings.ContainsAny(text, "\n\r") {
		return "bad-op"
	}
	src := c18Prelude + "interface I\n\tfn f(a: " + text + ") //uid:100\nend\n"
	res := safely(func() string {
		metas, err := idl.ParseIDL(strings.NewReader(src))
		if err != nil || len(metas) != 1 {
			return "err"
		}
		m, ok := metas[0].Methods[100]
		if !ok {
			return "err"
		}
		sig := m.ParametersSignature
		if strings.Contains(sig, "not found") || strings.Contains(sig, "cannot") || strings.Contains(sig, " ") {
			return "unresolved"
		}
		return "ok " + sig
	})
	return res
}

// idl.actions <hex>: action lines, parsed inside an interface; answer: the actions of the interface as
// the meta-object has them (methods, signals, properties, each by uid)
func execIdlActions(a []string) string {
	text := string(unhx(a[0]))
	src := c18Prelude + "interface I\n" + text + "\nend\n"
	return safely(func() string {
		metas, err := idl.ParseIDL(strings.NewReader(src))
		if err != nil || len(metas) != 1 {
			return "err"
		}
		m := metas[0]
		bad := func(sig string) bool {
			return strings.Contains(sig, "not found") || strings.Contains(sig, "cannot") || strings.Contains(sig, " ")
		}
		var out []string
		var ids []int
		for id := range m.Methods {
			ids = append(ids, int(id))
		}
		sort.Ints(ids)
		for _, id := range ids {
			me := m.Methods[uint32(id)]
			if bad(me.ParametersSignature) || bad(me.ReturnSignature) {
				out = append(out, fmt.Sprintf("fn %d %s unresolved", id, me.Name))
				continue
			}
			var names []string
			for _, q := range me.Parameters {
				names = append(names, q.Name)
			}
			out = append(out, fmt.Sprintf("fn %d %s %s -> %s [%s]", id, me.Name, me.ParametersSignature, me.ReturnSignature, strings.Join(names, ",")))
		}
		ids = ids[:0]
		for id := range m.Signals {
			ids = append(ids, int(id))
		}
		sort.Ints(ids)
		for _, id := range ids {
			sg := m.Signals[uint32(id)]
			if bad(sg.Signature) {
				out = append(out, fmt.Sprintf("sig %d %s unresolved", id, sg.Name))
				continue
			}
			out = append(out, fmt.Sprintf("sig %d %s %s", id, sg.Name, sg.Signature))
		}
		ids = ids[:0]
		for id := range m.Properties {
			ids = append(ids, int(id))
		}
		sort.Ints(ids)
		for _, id := range ids {
			pr := m.Properties[uint32(id)]
			if bad(pr.Signature) {
				out = append(out, fmt.Sprintf("prop %d %s unresolved", id, pr.Name))
				continue
			}
			out = append(out, fmt.Sprintf("prop %d %s %s", id, pr.Name, pr.Signature))
		}
		if len(out) == 0 {
			return "ok"
		}
		return "ok " + strings.Join(out, "; ")
	})
}

// c18ActionLines: action lines as GenerateIDL writes them, and as a person might (other white space, no uid,
// other comments, repeated uids, uid 0, a trailing separator, broken lines)
func c18ActionLines(r *Rand, o *Out) string {
	names := []string{"get", "set", "value", "onEvent", "x1", "Name", "a_b", "registerEvent", "fn", "sig", "prop", "end", "fnord", "signal"}
	pnames := []string{"a", "b", "name", "P0", "x_y", "id2", "param", "fn", "end"}
	n := 1 + r.Intn(4)
	var lines []string
	for i := 0; i < n; i++ {
		kind := []string{"fn", "sig", "prop"}[r.Intn(3)]
		np := r.Intn(4)
		if kind == "prop" && r.Chance(70) {
			np = 1
		}
		var ps []string
		for j := 0; j < np; j++ {
			sp := ": "
			if r.Chance(15) {
				sp = []string{":", " : ", ":\t"}[r.Intn(3)]
			}
			ps = append(ps, pnames[r.Intn(len(pnames))]+sp+c18TypeText(r, 1, o))
		}
		sep := ","
		if kind != "fn" || r.Chance(30) {
			sep = ", "
		}
		line := "\t" + kind + " " + names[r.Intn(len(names))] + "(" + strings.Join(ps, sep)
		if r.Chance(5) {
			line += ","
			o.Count("action:trailing-separator")
		}
		line += ")"
		if kind == "fn" && r.Chance(60) {
			line += " -> " + c18TypeText(r, 1, o)
		}
		switch k := r.Intn(20); {
		case k < 13:
			line += fmt.Sprintf(" //uid:%d", []int{100, 101, 102, 103, 7, 0, 1, 4294967295, 2000}[r.Intn(9)])
		case k < 15:
			line += " // a comment"
			o.Count("action:other-comment")
		case k < 16:
			line += " //uid:x"
		case k < 17:
			line += " //uid:12 and more"
		default:
			o.Count("action:no-uid")
		}
		if r.Chance(4) {
			line = strings.Replace(line, "(", "", 1)
			o.Count("action:broken")
		}
		lines = append(lines, line)
	}
	return strings.Join(lines, "\n")
}

// ---- meta-object generator ---------------------------------------------------------------------

type c18Action struct {
	kind    string // fn sig prop
	uid     uint32
	name    string
	params  []*sigT
	pnames  []string
	ret     *sigT
}

type c18Meta struct {
	name    string
	actions []c18Action
}

var c18Names = []string{"get", "set", "value", "onEvent", "x1", "Name", "a_b", "do_it", "status", "m", "reset2"}
var c18Params = []string{"a", "b", "name", "value", "P0", "x_y", "id2"}

// the structs of a generated package: a name stands for one definition; members may use the
// structs declared before (acyclic)
type c18Struct struct {
	name string
	t    *sigT
}

func c18GenStructs(r *Rand) []c18Struct { return c18GenStructsFrom(r, false) }

// clash: names are drawn with repetition, the names of the interfaces among them
func c18GenStructsFrom(r *Rand, clash bool) []c18Struct {
	names := []string{"Point", "Foo", "T_1", "List<double>", "Map<K>", "Info2", "a", "i", "anything", "int8_t", "strange"}
	if r.Chance(35) {
		// names that are different names and the same Go identifier once cleaned (the case of the first letter)
		names = []string{"Point", "point", "foo", "Foo", "T_1", "t_1", "Info2", "info2", "a", "A", "strange"}
	}
	for i := len(names) - 1; i > 0; i-- {
		j := r.Intn(i + 1)
		names[i], names[j] = names[j], names[i]
	}
	if clash {
		pool := []string{"Point", "Point", "Foo", "Alpha", "Beta", "Foo_0"}
		for i := range names {
			names[i] = pool[r.Intn(len(pool))]
		}
	}
	n := r.Intn(4)
	if clash {
		n = 2 + r.Intn(3)
	}
	var out []c18Struct
	for i := 0; i < n; i++ {
		k := 1 + r.Intn(3)
		t := &sigT{kind: 'S', name: names[i]}
		for j := 0; j < k; j++ {
			t.elems = append(t.elems, c18GenType(r, 1, out))
			t.members = append(t.members, []string{"x", "y1", "name", "value", "uid", "P0", "a_b", "type", "range", "string", "map", "error"}[(j*3+r.Intn(6))%12])
		}
		// member names are distinct
		seen := map[string]bool{}
		for j, m := range t.members {
			for seen[m] {
				m += "_"
			}
			seen[m] = true
			t.members[j] = m
		}
		out = append(out, c18Struct{names[i], t})
	}
	return out
}

// a type of the class the statement speaks about: basic types (no void), Vec, Map, non-empty tuples, declared structs
func c18GenType(r *Rand, depth int, structs []c18Struct) *sigT {
	basics := "IisLlbfdmocCwWv"
	if depth <= 0 || r.Chance(40) {
		if r.Chance(4) {
			return &sigT{kind: '('} // the empty tuple
		}
		if len(structs) > 0 && r.Chance(35) {
			return structs[r.Intn(len(structs))].t
		}
		return &sigT{kind: basics[r.Intn(len(basics))]}
	}
	switch r.Intn(3) {
	case 0:
		return &sigT{kind: '[', elems: []*sigT{c18GenType(r, depth-1, structs)}}
	case 1:
		return &sigT{kind: '{', elems: []*sigT{c18GenType(r, depth-1, structs), c18GenType(r, depth-1, structs)}}
	default:
		n := 1 + r.Intn(3)
		t := &sigT{kind: '('}
		for i := 0; i < n; i++ {
			t.elems = append(t.elems, c18GenType(r, depth-1, structs))
		}
		return t
	}
}

func c18GenMeta(r *Rand, idx int, structs []c18Struct) c18Meta {
	m := c18Meta{name: []string{"Alpha", "Beta", "Gamma_1"}[idx%3]}
	n := 1 + r.Intn(6)
	uid := uint32(100 + r.Intn(5))
	used := map[string]bool{}
	for i := 0; i < n; i++ {
		a := c18Action{kind: []string{"fn", "fn", "fn", "sig", "prop"}[r.Intn(5)], uid: uid}
		uid += uint32(1 + r.Intn(3))
		a.name = c18Names[r.Intn(len(c18Names))]
		for used[a.name] {
			a.name += strconv.Itoa(i)
		}
		used[a.name] = true
		np := r.Intn(4)
		if a.kind == "prop" {
			np = 1
		}
		for j := 0; j < np; j++ {
			t := c18GenType(r, 2, structs)
			// a property's value that is a tuple of one member is written like the member itself
			// (`prop p(P0: T)`): the IDL cannot tell "(T)" from "T" — outside the statement's class
			for a.kind == "prop" && t.kind == '(' && len(t.elems) == 1 {
				t = c18GenType(r, 2, structs)
			}
			a.params = append(a.params, t)
			a.pnames = append(a.pnames, c18Params[(j+r.Intn(3))%len(c18Params)]+strconv.Itoa(j))
		}
		if a.kind == "fn" {
			if r.Chance(30) {
				a.ret = &sigT{kind: 'v'}
			} else {
				a.ret = c18GenType(r, 2, structs)
			}
		}
		m.actions = append(m.actions, a)
	}
	return m
}

func (m c18Meta) metaObject() object.MetaObject {
	mo := object.MetaObject{Methods: map[uint32]object.MetaMethod{}, Signals: map[uint32]object.MetaSignal{}, Properties: map[uint32]object.MetaProperty{}}
	for _, a := range m.actions {
		var ps []string
		for _, p := range a.params {
			ps = append(ps, p.String())
		}
		tuple := "(" + strings.Join(ps, "") + ")"
		switch a.kind {
		case "fn":
			mm := object.MetaMethod{Uid: a.uid, Name: a.name, ParametersSignature: tuple, ReturnSignature: a.ret.String()}
			// the documentation a service attaches to its methods (it is not part of what the round trip keeps): none, one
			// line, several lines, lines that read like IDL — a function of the action, so that a line replays
			switch (int(a.uid) + len(a.name)) % 5 {
			case 1:
				mm.Description = "returns the " + a.name + " // uid:7 end"
				mm.ReturnDescription = "a value"
			case 2:
				mm.Description = "first line about " + a.name + "\nsecond line\n\nlast paragraph"
			case 3:
				mm.Description = "see also\n\tfn stop() //uid:" + fmt.Sprint(a.uid+1000) + "\nend"
			case 4:
				mm.Description = " \r\n indented, with carriage returns\r\nand more\r\n"
			}
			for _, pn := range a.pnames {
				mm.Parameters = append(mm.Parameters, object.MetaMethodParameter{Name: pn, Description: "the " + pn + "\nof " + a.name})
			}
			mo.Methods[a.uid] = mm
		case "sig":
			mo.Signals[a.uid] = object.MetaSignal{Uid: a.uid, Name: a.name, Signature: tuple}
		default:
			mo.Properties[a.uid] = object.MetaProperty{Uid: a.uid, Name: a.name, Signature: a.params[0].String()}
		}
	}
	return mo
}

func c18Describe(mo object.MetaObject) string {
	var parts []string
	for id, m := range mo.Methods {
		parts = append(parts, fmt.Sprintf("%d:fn:%s:%s:%s", id, m.Name, m.ParametersSignature, m.ReturnSignature))
	}
	for id, s := range mo.Signals {
		parts = append(parts, fmt.Sprintf("%d:sig:%s:%s", id, s.Name, s.Signature))
	}
	for id, p := range mo.Properties {
		parts = append(parts, fmt.Sprintf("%d:prop:%s:%s", id, p.Name, p.Signature))
	}
	sort.Strings(parts)
	return strings.Join(parts, " ")
}

// c18Roundtrip prints and parses back; returns "same" or what differs
func c18Roundtrip(metas []c18Meta) (string, string) {
	objs := map[string]object.MetaObject{}
	want := map[string]string{}
	for _, m := range metas {
		mo := m.metaObject()
		objs[m.name] = mo
		want[c18Describe(mo)] = m.name
	}
	var buf bytes.Buffer
	res := safely(func() string {
		if err := idl.GenerateIDL(&buf, "pkg", objs); err != nil {
			return "generate-error:" + err.Error()
		}
		back, err := idl.ParseIDL(bytes.NewReader(buf.Bytes()))
		if err != nil {
			return "parse-error"
		}
		if len(back) != len(metas) {
			return fmt.Sprintf("interfaces:%d-instead-of-%d", len(back), len(metas))
		}
		for _, b := range back {
			d := c18Describe(b)
			if _, ok := want[d]; !ok {
				// the first action that differs
				best := ""
				for w := range want {
					wa, da := strings.Split(w, " "), strings.Split(d, " ")
					for i := 0; i < len(wa) && i < len(da); i++ {
						if wa[i] != da[i] {
							best = "printed " + wa[i] + " parsed back " + da[i]
							break
						}
					}
					if best == "" && len(wa) != len(da) {
						best = fmt.Sprintf("%d actions printed, %d parsed back", len(wa), len(da))
					}
				}
				c18LastDiff = best
				return "differs"
			}
		}
		return "same"
	})
	return res, buf.String()
}

var c18LastDiff string

// c18EraseNames drops the <Name,field,…> annotations of a signature: what is left is the layout
func c18EraseNames(sig string) string {
	var b strings.Builder
	depth := 0
	for i := 0; i < len(sig); i++ {
		switch c := sig[i]; {
		case c == '<':
			depth++
		case c == '>':
			depth--
		case depth == 0:
			b.WriteByte(c)
		}
	}
	return b.String()
}

// c18RoundtripLayout: like c18Roundtrip, the signatures compared without their names
func c18RoundtripLayout(metas []c18Meta) string {
	objs := map[string]object.MetaObject{}
	want := map[string]bool{}
	for _, m := range metas {
		mo := m.metaObject()
		objs[m.name] = mo
		want[c18EraseNames(c18Describe(mo))] = true
	}
	var buf bytes.Buffer
	return safely(func() string {
		if err := idl.GenerateIDL(&buf, "pkg", objs); err != nil {
			return "generate-error:" + err.Error()
		}
		back, err := idl.ParseIDL(bytes.NewReader(buf.Bytes()))
		if err != nil {
			return "parse-error"
		}
		for _, b := range back {
			d := c18EraseNames(c18Describe(b))
			if !want[d] {
				c18LastDiff = "parsed back " + d + " idl: " + strings.ReplaceAll(buf.String(), "\n", "\\n")
				return "differs"
			}
		}
		return "same"
	})
}

// canonical one-line description of generated meta-objects for the op line
func c18Line(metas []c18Meta) string {
	var parts []string
	for _, m := range metas {
		var as []string
		for _, a := range m.actions {
			var ps []string
			for i, p := range a.params {
				ps = append(ps, a.pnames[i]+"="+hx([]byte(p.String())))
			}
			ret := "-"
			if a.ret != nil {
				ret = hx([]byte(a.ret.String()))
			}
			as = append(as, fmt.Sprintf("%s,%d,%s,%s,%s", a.kind, a.uid, a.name, strings.Join(ps, "+"), ret))
		}
		parts = append(parts, m.name+"|"+strings.Join(as, ";"))
	}
	return strings.Join(parts, " ")
}

// ---- fuzz -----------------------------------------------------------------------------------------

func childIdlFuzz(a []string) string {
	seed, _ := strconv.ParseUint(a[0], 10, 64)
	n, _ := strconv.Atoi(a[1])
	r := NewRand(seed)
	base := []string{
		"package p\ninterface I\n\tfn f(a: int32, b: Vec<str>) -> Map<str,any> //uid:100\n\tsig s(x: Tuple<int8,bool>) //uid:101\n\tprop p(v: float32) //uid:102\nend\nstruct S\n\ta: int32\n\tb: Vec<S2>\nend\nstruct S2\n\tc: str\nend\n",
		"package q\nenum E\n\ta = 1\n\tb = 2\nend\ninterface J //doc\n\tfn g() //uid:7\nend\n",
	}
	alphabet := []byte("abcifnsgprotuvxyzAMTV<>(),:=-/ \t\n0123456789_.")
	for i := 0; i < n; i++ {
		var in []byte
		if r.Chance(70) {
			in = []byte(base[r.Intn(len(base))])
			for k := 0; k < 1+r.Intn(6) && len(in) > 0; k++ {
				p := r.Intn(len(in))
				switch r.Intn(4) {
				case 0:
					in = append(in[:p], in[p+1:]...)
				case 1:
					in = append(in[:p], append([]byte{alphabet[r.Intn(len(alphabet))]}, in[p:]...)...)
				case 2:
					in[p] = alphabet[r.Intn(len(alphabet))]
				default:
					q := r.Intn(len(in))
					if p < q {
						in = append(in[:p], in[q:]...)
					}
				}
			}
		} else {
			in = make([]byte, r.Intn(120))
			for k := range in {
				in[k] = alphabet[r.Intn(len(alphabet))]
			}
		}
		done := make(chan string, 1)
		go func() {
			done <- safely(func() string {
				pkg, err := idl.ParsePackage(in)
				if err == nil && pkg != nil {
					// what was accepted can be turned into meta-objects
					idl.ParseIDL(bytes.NewReader(in))
				}
				return "ok"
			})
		}()
		select {
		case res := <-done:
			if res != "ok" {
				return "fail:" + res + " on " + hx(in)
			}
		case <-time.After(10 * time.Second):
			return "fail:hang on " + hx(in)
		}
	}
	return "ok"
}

func init() {
	executors["idl.type"] = execIdlType
	executors["idl.actions"] = execIdlActions
	executors["idl.pkg"] = execIdlPkg
	executors["idl.gen"] = execIdlGen
	executors["idl.rt"] = func(a []string) string { return "replay-needs-the-generator" }
	children["idl.fuzz"] = childIdlFuzz
	executors["idl.fuzz"] = func(a []string) string {
		out := runChild("idl.fuzz", strings.Join(a, " "), 300*time.Second, 0)
		if out.Result != "ok" {
			lastFailDetail = out.Stderr
		}
		if out.Result == "crash-noresult" {
			return "crash"
		}
		return out.Result
	}
	runners["C18"] = runC18
}

// type texts for idl.type
func c18TypeText(r *Rand, depth int, o *Out) string {
	basics := []string{"int8", "uint8", "int16", "uint16", "int32", "uint32", "int64", "uint64", "float32", "float64", "bool", "str", "obj", "any", "unknown", "nothing"}
	if depth <= 0 || r.Chance(35) {
		switch k := r.Intn(100); {
		case k < 70:
			return basics[r.Intn(len(basics))]
		case k < 85:
			return []string{"Foo", "Map<K>", "Foo", "anything"}[r.Intn(4)]
		case k < 92:
			return []string{"Bar", "nothing", "Tuple<>", "MetaObject", "Vec<>", "int7", "strx", "float", "anything", "int8_t", "Tuple< >", "nothing2"}[r.Intn(12)]
		default:
			return []string{"", "<", ">", ",", "int32,", "Vec<", "Map<int32>"}[r.Intn(7)]
		}
	}
	ws := func() string {
		if r.Chance(15) {
			return []string{" ", "  ", "\t"}[r.Intn(3)]
		}
		return ""
	}
	switch r.Intn(3) {
	case 0:
		return "Vec<" + ws() + c18TypeText(r, depth-1, o) + ws() + ">"
	case 1:
		return "Map<" + ws() + c18TypeText(r, depth-1, o) + ws() + "," + ws() + c18TypeText(r, depth-1, o) + ">"
	default:
		n := 1 + r.Intn(3)
		parts := make([]string, n)
		for i := range parts {
			parts[i] = c18TypeText(r, depth-1, o)
		}
		return "Tuple<" + strings.Join(parts, ","+ws()) + ">"
	}
}

func runC18(r *Rand, tier string, o *Out) {
	n := 600
	if tier == "thorough" {
		n = 6000
	}
	for i := 0; i < n; i++ {
		t := c18TypeText(r, 3, o)
		out := o.Do("P", "idl.type "+hx([]byte(t)), true)
		o.Count("type-answer:" + strings.SplitN(out, " ", 2)[0])
	}
	// types nested a hundred levels and more: lists in lists, maps in the values of maps, tuples in tuples
	for _, depth := range []int{99, 100, 101, 102, 150, 400} {
		for _, t := range []string{
			strings.Repeat("Vec<", depth) + "int32" + strings.Repeat(">", depth),
			strings.Repeat("Map<str,", depth) + "int32" + strings.Repeat(">", depth),
			strings.Repeat("Tuple<", depth) + "int32" + strings.Repeat(">", depth),
		} {
			out := o.Do("P", "idl.type "+hx([]byte(t)), true)
			o.Count("deep-type-answer:" + strings.SplitN(out, " ", 2)[0])
		}
	}
	// printed by the code, parsed by the code and by the model: every signature the generator of C09 draws
	for i := 0; i < n/2; i++ {
		s := genSig(r, 3, "IisLlbfdmocCwW")
		res := execSigParse([]string{hx([]byte(s.String()))})
		if j := strings.Index(res, "idl="); j >= 0 {
			text := strings.SplitN(res[j+4:], " ", 2)[0]
			if !strings.ContainsAny(text, "<>") || !strings.Contains(s.String(), "<") { // struct names are references: only ref-free types here
				o.Do("P", "idl.type "+hx([]byte(text)), true)
				o.Count("printed-type")
			}
		}
	}
	// action lines
	for i := 0; i < n/2; i++ {
		out := o.Do("P", "idl.actions "+hx([]byte(c18ActionLines(r, o))), true)
		o.Count("actions-answer:" + strings.SplitN(out, " ", 2)[0])
	}
	// whole packages: blocks in any order, structs that refer to each other, to themselves, to nothing
	for i := 0; i < n/2; i++ {
		out := o.Do("P", "idl.pkg "+hx([]byte(c18PkgText(r, o))), true)
		o.Count("package-answer:" + strings.SplitN(out, " ", 2)[0])
		if strings.Contains(out, "recursive type definition") {
			o.Count("package:recursive-definition")
		}
		if strings.Contains(out, "not found in scope") {
			o.Count("package:unknown-reference")
		}
	}
	// the witness of the repaired defect: a struct that has itself as a member
	o.Do("P", "idl.pkg "+hx([]byte("package p\nstruct A\n\ta: A\nend\ninterface I\n\tfn f(x: A)\nend\n")), true)
	// whole meta-objects
	m := 150
	if tier == "thorough" {
		m = 1500
	}
	for i := 0; i < m; i++ {
		k := 1 + r.Intn(2)
		structs := c18GenStructs(r)
		var metas []c18Meta
		for j := 0; j < k; j++ {
			metas = append(metas, c18GenMeta(r, j, structs))
		}
		res, text := c18Roundtrip(metas)
		o.Op("P", "idl.rt "+c18Line(metas), res, true)
		o.Count("roundtrip:" + res)
		if res != "same" {
			o.Fail("meta-object does not survive IDL: "+res, c18Line(metas)+" => "+res+" "+c18LastDiff+" idl: "+strings.ReplaceAll(text, "\n", "\\n"))
		}
	}
	// from the meta-objects to the text, byte for byte — struct names that clash included (a third of the cases)
	for i := 0; i < m; i++ {
		clash := i%3 == 0
		structs := c18GenStructsFrom(r, clash)
		var metas []c18Meta
		for j, k := 0, 1+r.Intn(2); j < k; j++ {
			metas = append(metas, c18GenMeta(r, j, structs))
		}
		out := o.Do("P", "idl.gen "+c18Line(metas), true)
		if clash {
			o.Count("generate:clashing-struct-names")
		} else {
			o.Count("generate:distinct-struct-names")
		}
		if !clash && len(out) > 16 {
			// and what is written is read back: the layouts survive even where names had to change
			if res, text := c18Roundtrip(metas); res != "same" {
				o.Fail("meta-object does not survive IDL: "+res, c18Line(metas)+" => "+res+" "+c18LastDiff+" idl: "+strings.ReplaceAll(text, "\n", "\\n"))
			}
		}
		if clash {
			if res := c18RoundtripLayout(metas); res != "same" {
				o.Fail("a name clash changes the layout of a signature: "+res, c18Line(metas)+" => "+res+" "+c18LastDiff)
			} else if res, _ := c18Roundtrip(metas); res != "same" {
				// the layouts are the same, the names are not: the IDL has one name space (known finding)
				o.Fail("structs renamed on a name clash", c18Line(metas)+" => "+res+" "+c18LastDiff)
			}
		}
	}
	// outside the class: what the IDL cannot express (known findings, each with its witness)
	mk := func(kind string, uid uint32, name string, param *sigT) []c18Meta {
		a := c18Action{kind: kind, uid: uid, name: name, params: []*sigT{param}, pnames: []string{"a"}}
		if kind == "fn" {
			a.ret = &sigT{kind: 'v'}
		}
		return []c18Meta{{name: "Alpha", actions: []c18Action{a}}}
	}
	for _, w := range []struct {
		class string
		metas []c18Meta
	}{
		{"a signal with uid 0 is renumbered", mk("sig", 0, "s", &sigT{kind: 'i'})},
	} {
		res, text := c18Roundtrip(w.metas)
		o.Op("P", "idl.rt "+c18Line(w.metas), "known-weakness", true)
		if res != "same" {
			o.Fail(w.class, c18Line(w.metas)+" => "+res+" "+c18LastDiff+" idl: "+strings.ReplaceAll(text, "\n", "\\n"))
		}
		o.Count("outside-the-class")
	}
	rounds := 4
	if tier == "thorough" {
		rounds = 40
	}
	for i := 0; i < rounds; i++ {
		line := fmt.Sprintf("idl.fuzz %d 400", r.U64()>>1)
		if out := o.Do("P", line, true); out != "ok" {
			o.Fail("the IDL parser does not return: "+strings.SplitN(out, " ", 2)[0], line+" => "+out+" "+tail(lastFailDetail, 300))
		}
		o.Count("fuzz-round")
	}
}
