package main

import (
	"bytes"
	"fmt"
	"reflect"
	"strconv"
	"strings"
	"time"

	"github.com/lugu/qiloop/meta/signature"
	"github.com/lugu/qiloop/type/encoding"
	"github.com/lugu/qiloop/type/value"
)

// withTimeout runs f; "hang" if it does not return in time (the goroutine is abandoned).
func withTimeout(d time.Duration, f func() string) string {
	ch := make(chan string, 1)
	go func() { ch <- safely(f) }()
	select {
	case s := <-ch:
		return s
	case <-time.After(d):
		return "hang"
	}
}

// rd.read <sighex> <datahex>: signature.MakeReader(sig).Read
func execRdRead(a []string) string {
	sig, data := string(unhx(a[0])), unhx(a[1])
	return withTimeout(4*time.Second, func() string {
		rd, err := signature.MakeReader(sig)
		if err != nil {
			return "err"
		}
		r, left := newDataReader(data)
		out, err := rd.Read(r)
		if err != nil {
			return "err"
		}
		return fmt.Sprintf("ok %s rest=%d", hx(out), left())
	})
}

func renderValue(v value.Value) string {
	switch x := v.(type) {
	case value.BoolValue:
		if x.Value() {
			return "Sb:1"
		}
		return "Sb:0"
	case value.Int8Value:
		return "Sc:" + strconv.FormatUint(uint64(uint8(x.Value())), 10)
	case value.Uint8Value:
		return "SC:" + strconv.FormatUint(uint64(x.Value()), 10)
	case value.Int16Value:
		return "Sw:" + strconv.FormatUint(uint64(uint16(x.Value())), 10)
	case value.Uint16Value:
		return "SW:" + strconv.FormatUint(uint64(x.Value()), 10)
	case value.IntValue:
		return "Si:" + strconv.FormatUint(uint64(uint32(x.Value())), 10)
	case value.UintValue:
		return "SI:" + strconv.FormatUint(uint64(x.Value()), 10)
	case value.LongValue:
		return "Sl:" + strconv.FormatUint(uint64(x.Value()), 10)
	case value.UlongValue:
		return "SL:" + strconv.FormatUint(x.Value(), 10)
	case value.FloatValue:
		return "Sf:" + strconv.FormatUint(uint64(float32bits(x.Value())), 10)
	case value.StringValue:
		return "s:" + hx([]byte(x.Value()))
	case value.RawValue:
		return "r:" + hx(x.Value())
	case value.VoidValue:
		return "v"
	case value.ListValue:
		p := make([]string, len(x))
		for i, e := range x {
			p[i] = renderValue(e)
		}
		return "L[" + strings.Join(p, ",") + "]"
	case *value.OpaqueValue:
		return "O" + hx([]byte(x.Signature())) + ":" + hx(value.Bytes(x))
	}
	return "?" + reflect.TypeOf(v).String()
}

// val.read <hex>: value.NewValue, rendering, bytes left, re-encoding
func execValRead(a []string) string {
	data := unhx(a[0])
	return withTimeout(4*time.Second, func() string {
		r, left := newDataReader(data)
		v, err := value.NewValue(r)
		if err != nil {
			return "err"
		}
		var b bytes.Buffer
		if err := v.Write(&b); err != nil {
			return "err-write"
		}
		return fmt.Sprintf("ok %s rest=%d re=%s", renderValue(v), left(), hx(b.Bytes()))
	})
}

// enc.spec <sighex> <tokens…>: the harness' own encoder of the documented layout
func execEncSpec(a []string) string {
	t := parseSigT(string(unhx(a[0])))
	v, _ := parseTValTokens(a[1:])
	return "ok " + hx(encD(t, v))
}

// canonical bytes of an encoding of type t: map entries sorted by encoded key
func canonEncoding(t *sigT, data []byte) (string, bool) {
	v, rest, ok := decD(t, data)
	if !ok || len(rest) != 0 {
		return "", false
	}
	sortAllMaps(t, v)
	return hx(encD(t, v)), true
}

func sortAllMaps(t *sigT, v *tval) {
	switch t.kind {
	case '[':
		for _, e := range v.elems {
			sortAllMaps(t.elems[0], e)
		}
	case '{':
		for i := 0; i+1 < len(v.elems); i += 2 {
			sortAllMaps(t.elems[0], v.elems[i])
			sortAllMaps(t.elems[1], v.elems[i+1])
		}
		sortMapEntries(t, v)
	case '(', 'S':
		for i, e := range t.elems {
			sortAllMaps(e, v.elems[i])
		}
	case 'm':
		sortAllMaps(v.dynT, v.elems[0])
	}
}

// decD: independent typed decoder of the documented layout (harness-side)
func decD(t *sigT, b []byte) (*tval, []byte, bool) {
	u32 := func() (uint32, bool) {
		if len(b) < 4 {
			return 0, false
		}
		n := uint32(b[0]) | uint32(b[1])<<8 | uint32(b[2])<<16 | uint32(b[3])<<24
		b = b[4:]
		return n, true
	}
	switch t.kind {
	case '[':
		n, ok := u32()
		if !ok || int(n) > len(b)+1 && !zeroSizeSig(t.elems[0]) {
			return nil, nil, false
		}
		v := &tval{kind: '['}
		for i := 0; i < int(n); i++ {
			e, r, ok := decD(t.elems[0], b)
			if !ok {
				return nil, nil, false
			}
			b = r
			v.elems = append(v.elems, e)
		}
		return v, b, true
	case '{':
		n, ok := u32()
		if !ok || int(n) > len(b)+1 {
			return nil, nil, false
		}
		v := &tval{kind: '{'}
		for i := 0; i < int(n); i++ {
			k, r, ok := decD(t.elems[0], b)
			if !ok {
				return nil, nil, false
			}
			e, r, ok := decD(t.elems[1], r)
			if !ok {
				return nil, nil, false
			}
			b = r
			v.elems = append(v.elems, k, e)
		}
		return v, b, true
	case '(', 'S':
		v := &tval{kind: '('}
		for _, et := range t.elems {
			e, r, ok := decD(et, b)
			if !ok {
				return nil, nil, false
			}
			b = r
			v.elems = append(v.elems, e)
		}
		return v, b, true
	case 's':
		n, ok := u32()
		if !ok || int(n) > len(b) {
			return nil, nil, false
		}
		return &tval{kind: 's', s: append([]byte{}, b[:n]...)}, b[n:], true
	case 'v':
		return &tval{kind: 'v'}, b, true
	case 'm':
		n, ok := u32()
		if !ok || int(n) > len(b) || n == 0 {
			return nil, nil, false
		}
		var st *sigT
		func() {
			defer func() {
				if recover() != nil {
					st = nil
				}
			}()
			st = parseSigT(string(b[:n]))
		}()
		if st == nil {
			return nil, nil, false
		}
		e, r, ok := decD(st, b[n:])
		if !ok {
			return nil, nil, false
		}
		return &tval{kind: 'm', dynT: st, elems: []*tval{e}}, r, true
	}
	w := widthOf(t.kind)
	if w == 0 || len(b) < w {
		return nil, nil, false
	}
	var n uint64
	for i := w - 1; i >= 0; i-- {
		n = n<<8 | uint64(b[i])
	}
	return &tval{kind: 'n', n: n}, b[w:], true
}

func zeroSizeSig(t *sigT) bool {
	switch t.kind {
	case 'v':
		return true
	case '(', 'S':
		for _, e := range t.elems {
			if !zeroSizeSig(e) {
				return false
			}
		}
		return true
	}
	return false
}

// enc.reflect <sighex> <tokens…>: the repository's reflection encoder on the Go value
type failingWriter struct{}

func (failingWriter) Write(p []byte) (int, error) { return 0, fmt.Errorf("the writer fails") }

// enc.fail nil|writer: an Encode that does not succeed — a struct whose dynamic member is nil (refused after the
// members before it have been serialised), or a destination that fails.  What the next Encode writes must not depend on it.
func execEncFail(a []string) string {
	var err error
	switch a[0] {
	case "nil":
		var b bytes.Buffer
		err = encoding.NewEncoder(encoding.DefaultCap(), &b).Encode(struct {
			A uint32
			S string
			B value.Value
		}{0xdeadbeef, "left-over", nil})
	case "writer":
		err = encoding.NewEncoder(encoding.DefaultCap(), failingWriter{}).Encode(struct {
			A uint32
			S string
		}{0xcafebabe, "left-over"})
	default:
		return "bad-op"
	}
	if err != nil {
		return "err"
	}
	return "ok"
}

func execEncReflect(a []string) string {
	t := parseSigT(string(unhx(a[0])))
	v, _ := parseTValTokens(a[1:])
	gv := goValueOf(t, v)
	var b bytes.Buffer
	e := encoding.NewEncoder(encoding.DefaultCap(), &b)
	if err := e.Encode(gv.Interface()); err != nil {
		return "err"
	}
	if c, ok := canonEncoding(t, b.Bytes()); ok {
		return "ok " + c
	}
	return "ok " + hx(b.Bytes()) + " (not-a-valid-encoding)"
}

// dec.reflect <sighex> <datahex>: the repository's reflection decoder into the Go type
func execDecReflect(a []string) string {
	t := parseSigT(string(unhx(a[0])))
	data := unhx(a[1])
	return withTimeout(4*time.Second, func() string {
		p := reflect.New(goTypeOf(t))
		r, left := newDataReader(data)
		d := encoding.NewDecoder(encoding.DefaultCap(), r)
		if err := d.Decode(p.Interface()); err != nil {
			return "err"
		}
		return fmt.Sprintf("ok %s rest=%d", renderGoD(t, p.Elem()), left())
	})
}

// dec.reuse <sighex> <first datahex> <datahex>: the destination is decoded into twice; what the second decode leaves in
// it is the value of the second encoding, whatever the first one was (for lists: elements are built anew)
func execDecReuse(a []string) string {
	t := parseSigT(string(unhx(a[0])))
	first, data := unhx(a[1]), unhx(a[2])
	return withTimeout(4*time.Second, func() string {
		p := reflect.New(goTypeOf(t))
		if err := encoding.NewDecoder(encoding.DefaultCap(), bytes.NewReader(first)).Decode(p.Interface()); err != nil {
			return "first-err"
		}
		r, left := newDataReader(data)
		d := encoding.NewDecoder(encoding.DefaultCap(), r)
		if err := d.Decode(p.Interface()); err != nil {
			return "err"
		}
		return fmt.Sprintf("ok %s rest=%d", renderGoD(t, p.Elem()), left())
	})
}

func init() {
	// the same with Go's int and uint where the signature has l and L
	executors["enc.reflectp"] = func(a []string) string {
		platformInts = true
		defer func() { platformInts = false }()
		return execEncReflect(a)
	}
	executors["dec.reflectp"] = func(a []string) string {
		platformInts = true
		defer func() { platformInts = false }()
		return execDecReflect(a)
	}
	executors["dec.reuse"] = execDecReuse
	executors["rd.read"] = execRdRead
	executors["val.read"] = execValRead
	executors["enc.spec"] = execEncSpec
	executors["enc.reflect"] = execEncReflect
	executors["enc.fail"] = execEncFail
	executors["dec.reflect"] = execDecReflect
	runners["C02"] = runC02
	runners["C03"] = runC03
}

// ---- C02: dynamic values ------------------------------------------------------------

type gval struct {
	kind  string // scalar letter, "s", "r", "v", "L", "O"
	n     uint64
	b     []byte
	elems []*gval
	sig   *sigT
	tv    *tval
}

func genGVal(r *Rand, depth int) *gval {
	k := r.Intn(16)
	if depth <= 0 && k >= 12 {
		k = r.Intn(12)
	}
	switch {
	case k < 10:
		letters := "cCwWiIlLbf"
		c := letters[k]
		t := &sigT{kind: c}
		n := genTVal(r, t, 0).n
		if c == 'f' && r.Chance(30) {
			// the bit patterns a conversion to another width would not keep: signalling and quiet NaNs with payloads,
			// infinities, negative zero, denormals (a float value is its four bytes)
			n = []uint64{0x7fa00000, 0xffbfffff, 0x7f800001, 0xff800001, 0x7fc00000, 0x7fc12345, 0x7f800000, 0xff800000, 0x80000000, 1, 0x007fffff}[r.Intn(11)]
		}
		return &gval{kind: string(c), n: n}
	case k == 10:
		return &gval{kind: "s", b: genTVal(r, &sigT{kind: 's'}, 0).s}
	case k == 11:
		if r.Bool() {
			return &gval{kind: "v"}
		}
		return &gval{kind: "r", b: r.Bytes(r.Intn(8))}
	case k < 14:
		n := r.Intn(4)
		g := &gval{kind: "L"}
		for i := 0; i < n; i++ {
			g.elems = append(g.elems, genGVal(r, depth-1))
		}
		return g
	default:
		// an opaque value of a composite (or otherwise non-table) signature
		var t *sigT
		for {
			t = genCodecSig(r, 1+r.Intn(3), false)
			s := t.String()
			if len(s) > 1 && s != "[m]" || s == "d" {
				break
			}
		}
		return &gval{kind: "O", sig: t, tv: genTVal(r, t, 2)}
	}
}

func (g *gval) encode() []byte {
	str := func(s string) []byte { return append(leBytes(4, uint64(len(s))), s...) }
	switch g.kind {
	case "s":
		return append(str("s"), append(leBytes(4, uint64(len(g.b))), g.b...)...)
	case "r":
		return append(str("r"), append(leBytes(4, uint64(len(g.b))), g.b...)...)
	case "v":
		return str("v")
	case "L":
		out := append(str("[m]"), leBytes(4, uint64(len(g.elems)))...)
		for _, e := range g.elems {
			out = append(out, e.encode()...)
		}
		return out
	case "O":
		return append(str(g.sig.String()), encD(g.sig, g.tv)...)
	}
	return append(str(g.kind), leBytes(widthOf(g.kind[0]), g.n)...)
}

func (g *gval) render() string {
	switch g.kind {
	case "s":
		return "s:" + hx(g.b)
	case "r":
		return "r:" + hx(g.b)
	case "v":
		return "v"
	case "L":
		p := make([]string, len(g.elems))
		for i, e := range g.elems {
			p[i] = e.render()
		}
		return "L[" + strings.Join(p, ",") + "]"
	case "O":
		return "O" + hx([]byte(g.sig.String())) + ":" + hx(encD(g.sig, g.tv))
	}
	return "S" + g.kind + ":" + strconv.FormatUint(g.n, 10)
}

func runC02(r *Rand, tier string, o *Out) {
	n := 2500
	if tier == "thorough" {
		n = 30000
	}
	// long strings and raw buffers — around the sizes at which readers and transports cut (64 KiB and its multiples) —
	// alone with something behind them, and inside a list of values with elements behind them
	big := 8
	if tier == "thorough" {
		big = 60
	}
	for i := 0; i < big; i++ {
		size := r.Pick(65535, 65536, 65537, 70000, 100000, 131072, 131073, 200001)
		kind := []string{"r", "s"}[r.Intn(2)]
		b := make([]byte, size)
		for j := range b {
			b[j] = byte(97 + (j*7+i)%23)
		}
		g := &gval{kind: kind, b: b}
		if r.Bool() {
			g = &gval{kind: "L", elems: []*gval{genGVal(r, 0), g, genGVal(r, 0), {kind: "s", b: []byte("after")}}}
		}
		enc := g.encode()
		tail := r.Bytes(1 + r.Intn(4))
		res := o.Do("P", "val.read "+hx(append(append([]byte{}, enc...), tail...)), true)
		want := fmt.Sprintf("ok %s rest=%d re=%s", g.render(), len(tail), hx(enc))
		o.Count("val:long-" + kind)
		if res != want {
			o.Fail("dynamic value does not round-trip: long "+kind, fmt.Sprintf("val.read (%d bytes of %s) => %s…", size, kind, tail2(res, 80)))
		}
	}
	// every length up to 300 (and around the powers of two): a string value, a raw value, a string inside a list with
	// something behind it, an opaque value whose *signature* has that length (a helper that treats a window of lengths
	// differently shows here)
	{
		var lens []int
		for l := 0; l <= 300; l++ {
			lens = append(lens, l)
		}
		for k := 9; k <= 13; k++ {
			for d := -4; d <= 4; d++ {
				lens = append(lens, 1<<uint(k)+d)
			}
		}
		for idx, l := range lens {
			b := make([]byte, l)
			for j := range b {
				b[j] = byte('a' + (j*5+l)%26)
			}
			var g *gval
			switch shape := idx % 4; {
			case shape == 0:
				g = &gval{kind: "s", b: b}
			case shape == 1:
				g = &gval{kind: "r", b: b}
			case shape == 2:
				g = &gval{kind: "L", elems: []*gval{{kind: "s", b: b}, {kind: "s", b: []byte("after")}, {kind: "I", n: uint64(l)}}}
			default:
				// a struct signature of that length: (i…i)<Name,a0,a1,…> padded through the name
				if l < 12 || l > 2000 {
					g = &gval{kind: "s", b: b}
					break
				}
				name := strings.Repeat("N", l-11)
				st := parseSigT("(ii)<" + name + ",a,b>")
				if len(st.String()) != l {
					g = &gval{kind: "s", b: b}
					break
				}
				g = &gval{kind: "O", sig: st, tv: genTVal(r, st, 1)}
			}
			enc := g.encode()
			tail := r.Bytes(1 + r.Intn(3))
			res := o.Do("P", "val.read "+hx(append(append([]byte{}, enc...), tail...)), true)
			want := fmt.Sprintf("ok %s rest=%d re=%s", g.render(), len(tail), hx(enc))
			o.Count("val:length-sweep")
			if res != want {
				o.Fail("dynamic value does not round-trip: a string, a buffer or a signature of some length", fmt.Sprintf("val.read (length %d, shape %d) => %s…", l, idx%4, tail2(res, 120)))
			}
		}
	}
	// an opaque value whose member is a value that holds a thousand values (a list / a map of them)
	for _, n := range []int{999, 1001, 1300} {
		num := func(k uint64) *tval { return &tval{kind: 'n', n: k} }
		dyn := func(sig string, v *tval) *tval { return &tval{kind: 'm', dynT: parseSigT(sig), elems: []*tval{v}} }
		l := &tval{kind: '['}
		mp := &tval{kind: '{'}
		for j := 0; j < n; j++ {
			l.elems = append(l.elems, dyn("I", num(uint64(j))))
			mp.elems = append(mp.elems, num(uint64(j)), dyn("I", num(uint64(j*3))))
		}
		for _, g := range []*gval{
			{kind: "O", sig: parseSigT("(m)"), tv: &tval{kind: '(', elems: []*tval{dyn("[m]", l)}}},
			{kind: "O", sig: parseSigT("(m)<Box,content>"), tv: &tval{kind: '(', elems: []*tval{dyn("{Im}", mp)}}},
			{kind: "O", sig: parseSigT("{Im}"), tv: mp},
		} {
			enc := g.encode()
			tail := r.Bytes(1 + r.Intn(3))
			res := o.Do("P", "val.read "+hx(append(append([]byte{}, enc...), tail...)), true)
			want := fmt.Sprintf("ok %s rest=%d re=%s", g.render(), len(tail), hx(enc))
			o.Count("val:a-thousand-values-under-one-value")
			if res != want {
				o.Fail("dynamic value does not round-trip: many values under one nested value", fmt.Sprintf("val.read (%d values under %s) => %s…", n, g.sig.String(), tail2(res, 100)))
			}
		}
	}
	// an opaque value with a long list (or map) of elements of a fixed size — a few thousand bytes, on both sides of
	// every multiple of 4096 — followed by another member: what follows the list stays where it is
	for _, n := range []int{1023, 1024, 1025, 1500, 2048, 2600, 4000} {
		num := func(k uint64) *tval { return &tval{kind: 'n', n: k} }
		l := &tval{kind: '['}
		mp := &tval{kind: '{'}
		for j := 0; j < n; j++ {
			l.elems = append(l.elems, num(uint64(j*7+1)))
			if j < n/2+1 {
				mp.elems = append(mp.elems, num(uint64(j)), num(uint64(j*3+1)))
			}
		}
		for _, g := range []*gval{
			{kind: "O", sig: parseSigT("([I]I)"), tv: &tval{kind: '(', elems: []*tval{l, num(77)}}},
			{kind: "O", sig: parseSigT("([I]I)<Scan,ranges,seq>"), tv: &tval{kind: '(', elems: []*tval{l, num(78)}}},
			{kind: "O", sig: parseSigT("({II}I)"), tv: &tval{kind: '(', elems: []*tval{mp, num(79)}}},
		} {
			enc := g.encode()
			tail := r.Bytes(1 + r.Intn(3))
			res := o.Do("P", "val.read "+hx(append(append([]byte{}, enc...), tail...)), true)
			want := fmt.Sprintf("ok %s rest=%d re=%s", g.render(), len(tail), hx(enc))
			o.Count("val:long-list-of-fixed-size-elements-then-a-member")
			if res != want {
				o.Fail("dynamic value does not round-trip: a long list of fixed-size elements followed by a member", fmt.Sprintf("val.read (%d elements in %s) => %s…", n, g.sig.String(), tail2(res, 100)))
			}
		}
	}
	// several opaque values of one small signature whose only member is a dynamic value, side by side in one list:
	// each keeps its own content (the nested values often have the same signature and other contents)
	for i := 0; i < 60; i++ {
		st := parseSigT([]string{"(m)", "(m)<Box,v>", "((m))", "(m)<Opt<T>,value>"}[r.Intn(4)])
		g := &gval{kind: "L"}
		for j := 0; j < 2+r.Intn(3); j++ {
			tv := genTVal(r, st, 1)
			if r.Bool() {
				// the member is a value that holds a value (signature "m" inside the value)
				wrapFirstM(tv)
				o.Count("val:value-of-value-inside-an-opaque-value")
			}
			g.elems = append(g.elems, &gval{kind: "O", sig: st, tv: tv})
		}
		enc := g.encode()
		tail := r.Bytes(r.Intn(3))
		res := o.Do("P", "val.read "+hx(append(append([]byte{}, enc...), tail...)), true)
		want := fmt.Sprintf("ok %s rest=%d re=%s", g.render(), len(tail), hx(enc))
		o.Count("val:one-member-values-side-by-side")
		if res != want {
			o.Fail("dynamic value does not round-trip: values of one signature side by side", fmt.Sprintf("val.read %s => %s", hx(enc), tail2(res, 120)))
		}
	}
	for i := 0; i < n; i++ {
		switch k := r.Intn(100); {
		case k < 45: // dynamic value trees: decode = original, exact consumption, identical re-encoding
			g := genGVal(r, 3)
			enc := g.encode()
			tail := r.Bytes(r.Intn(4))
			res := o.Do("P", "val.read "+hx(append(append([]byte{}, enc...), tail...)), true)
			want := fmt.Sprintf("ok %s rest=%d re=%s", g.render(), len(tail), hx(enc))
			o.Count("val:" + g.kind)
			if res != want {
				o.Fail("dynamic value does not round-trip: "+g.kind+c02Why(g), fmt.Sprintf("val.read %s => %s (want %s)", hx(enc), res, want))
			}
		case k < 75: // typed data through the signature-driven reader
			t := genCodecSig(r, 1+r.Intn(4), false)
			v := genTVal(r, t, 2)
			enc := encD(t, v)
			tail := r.Bytes(r.Intn(4))
			sig := t.String()
			res := o.Do("P", "rd.read "+hx([]byte(sig))+" "+hx(append(append([]byte{}, enc...), tail...)), true)
			want := fmt.Sprintf("ok %s rest=%d", hx(enc), len(tail))
			o.Count("reader:" + sigShape(t))
			if res != want {
				o.Fail("signature-driven reader does not return the value's bytes: "+readerWhy(t), fmt.Sprintf("rd.read %s %s => %s", sig, hx(enc), res))
			}
			// the harness' encoder against the Lean statement of the documented layout
			o.Do("X", "enc.spec "+hx([]byte(sig))+" "+v.tokens(), true)
		default: // mutated encodings: correspondence only
			g := genGVal(r, 2)
			enc := g.encode()
			if len(enc) > 0 {
				switch r.Intn(3) {
				case 0:
					enc[r.Intn(len(enc))] ^= byte(1 << uint(r.Intn(8)))
				case 1:
					enc = enc[:r.Intn(len(enc))]
				case 2:
					p := r.Intn(len(enc))
					enc = append(enc[:p:p], append(r.Bytes(1), enc[p:]...)...)
				}
			}
			o.Do("X", "val.read "+hx(enc), true)
			o.Count("val:mutated")
		}
	}
}

// wrapFirstM turns the first dynamic value below v into a value that holds that value
func wrapFirstM(v *tval) bool {
	if v.kind == 'm' {
		inner := &tval{kind: 'm', dynT: v.dynT, elems: v.elems}
		v.dynT = &sigT{kind: 'm'}
		v.elems = []*tval{inner}
		return true
	}
	for _, e := range v.elems {
		if wrapFirstM(e) {
			return true
		}
	}
	return false
}

func tail2(s string, n int) string {
	if len(s) > n {
		return s[:n]
	}
	return s
}

func c02Why(g *gval) string {
	if g.kind == "O" && strings.Contains(g.sig.String(), "m") {
		return " (signature contains a dynamic value)"
	}
	if g.kind == "L" {
		for _, e := range g.elems {
			if w := c02Why(e); w != "" {
				return w
			}
		}
	}
	return ""
}

func readerWhy(t *sigT) string {
	s := t.String()
	switch {
	case strings.Contains(s, "m"):
		return "signature contains a dynamic value"
	}
	return sigShape(t)
}

// ---- C03: the reflection codec -----------------------------------------------------------

func runC03(r *Rand, tier string, o *Out) {
	n := 2000
	if tier == "thorough" {
		n = 25000
	}
	// corpus first
	for _, s := range []string{"(cCi)", "[c]", "{Cs}", "(mi)", "[m]", "m", "m", "m"} {
		t := parseSigT(s)
		c03Case(r, o, t)
		o.Count("case:corpus")
	}
	for i := 0; i < n; i++ {
		t := genCodecSig(r, 1+r.Intn(4), false)
		c03Case(r, o, t)
	}
	// every string length up to 300 and the lengths around the powers of two: alone, in front of another
	// member, between other strings (a helper that treats a window of lengths differently shows here)
	var lens []int
	for l := 0; l <= 300; l++ {
		lens = append(lens, l)
	}
	for k := 9; k <= 16; k++ {
		for d := -5; d <= 4; d++ {
			lens = append(lens, 1<<uint(k)+d)
		}
	}
	for idx, l := range lens {
		str := make([]byte, l)
		for j := range str {
			str[j] = byte('a' + (j*7+l)%26)
		}
		num := func(n uint64) *tval { return &tval{kind: 'n', n: n} }
		for shape := 0; shape < 3; shape++ {
			if tier != "thorough" && shape != idx%3 {
				continue
			}
			switch shape {
			case 0:
				c03CaseV(r, o, parseSigT("s"), &tval{kind: 's', s: str})
			case 1:
				c03CaseV(r, o, parseSigT("(sI)"), &tval{kind: '(', elems: []*tval{{kind: 's', s: str}, num(uint64(l))}})
			default:
				c03CaseV(r, o, parseSigT("[s]"), &tval{kind: '[', elems: []*tval{{kind: 's', s: []byte("x")}, {kind: 's', s: str}, {kind: 's', s: []byte("y")}}})
			}
			o.Count("case:string-length-sweep")
		}
	}
	// long lists of elements of a fixed size — a few thousand bytes, on both sides of the multiples of 4096 — followed by
	// another member, and inside a list of such records: through the three codecs (not maps: the reflection codec takes
	// a Go map, whose order is not the wire's)
	for _, n := range []int{1023, 1024, 1025, 1500, 2600, 4000} {
		if tier != "thorough" && (n == 1023 || n == 4000) {
			continue
		}
		num := func(k uint64) *tval { return &tval{kind: 'n', n: k} }
		l := &tval{kind: '['}
		bs := &tval{kind: '['}
		for j := 0; j < n; j++ {
			l.elems = append(l.elems, num(uint64(j*7+1)))
			bs.elems = append(bs.elems, num(uint64(j%251)))
		}
		rec := func(k uint64) *tval { return &tval{kind: '(', elems: []*tval{l, num(k)}} }
		c03CaseV(r, o, parseSigT("([I]I)"), rec(77))
		c03CaseV(r, o, parseSigT("([C]s)"), &tval{kind: '(', elems: []*tval{bs, {kind: 's', s: []byte("after")}}})
		c03CaseV(r, o, parseSigT("[([I]I)]"), &tval{kind: '[', elems: []*tval{rec(1), rec(2)}})
		o.Count("case:long-list-of-fixed-size-elements-then-a-member")
	}
	// one dynamic value that holds many dynamic values, side by side rather than inside one another: a list / a map
	// of them in a value, alone and next to another member; a few levels of short lists of values
	{
		num := func(n uint64) *tval { return &tval{kind: 'n', n: n} }
		dyn := func(sig string, v *tval) *tval { return &tval{kind: 'm', dynT: parseSigT(sig), elems: []*tval{v}} }
		for _, n := range []int{999, 1000, 1001, 1300} {
			if tier != "thorough" && n == 1300 {
				continue
			}
			l := &tval{kind: '['}
			mp := &tval{kind: '{'}
			for j := 0; j < n; j++ {
				l.elems = append(l.elems, dyn("I", num(uint64(j))))
				mp.elems = append(mp.elems, &tval{kind: 's', s: []byte(fmt.Sprintf("k%04d", j))}, dyn("I", num(uint64(j*3))))
			}
			c03CaseV(r, o, parseSigT("m"), dyn("[m]", l))
			c03CaseV(r, o, parseSigT("(mI)"), &tval{kind: '(', elems: []*tval{dyn("[m]", l), num(uint64(n))}})
			c03CaseV(r, o, parseSigT("m"), dyn("{sm}", mp))
			c03CaseV(r, o, parseSigT("[m]"), l)
			o.Count("case:many-values-in-one-value")
		}
		var nest func(depth int) *tval
		nest = func(depth int) *tval {
			l := &tval{kind: '['}
			for j := 0; j < 30; j++ {
				l.elems = append(l.elems, dyn("I", num(uint64(depth*100+j))))
			}
			if depth > 0 {
				l.elems = append(l.elems, nest(depth-1))
			}
			return dyn("[m]", l)
		}
		c03CaseV(r, o, parseSigT("m"), nest(35))
		o.Count("case:many-values-in-one-value")
	}
	// a destination that has been decoded into before: lists (of maps, of structs with maps, of lists) whose second
	// value is shorter and has other keys
	for i := 0; i < 60; i++ {
		elem := []string{"{si}", "(s{IC})<Entry,name,flags>", "[{sI}]", "{s[i]}", "({is}I)", "i", "s", "[i]"}[r.Intn(8)]
		t := parseSigT("[" + elem + "]")
		if r.Chance(30) {
			t = parseSigT("([" + elem + "]I)")
		}
		v1 := genTVal(r, t, 3)
		v2 := genTVal(r, t, 2)
		e1, e2 := encD(t, v1), encD(t, v2)
		res := o.Do("P", "dec.reuse "+hx([]byte(t.String()))+" "+hx(e1)+" "+hx(e2), true)
		want := fmt.Sprintf("ok %s rest=0", renderTValD(t, v2))
		if res != want {
			o.Fail("reflection decoder does not recover the value: into a destination that was used before", fmt.Sprintf("dec.reuse %s %s %s => %s (want %s)", t.String(), hx(e1), hx(e2), res, want))
		}
		o.Count("case:destination-used-before")
	}
	// long strings and long lists, around 64 KiB and its multiples, inside typed data
	long := 6
	if tier == "thorough" {
		long = 40
	}
	for i := 0; i < long; i++ {
		size := r.Pick(65535, 65536, 65537, 70000, 131073)
		str := make([]byte, size)
		for j := range str {
			str[j] = byte('a' + (j*5+i)%26)
		}
		num := func(n uint64) *tval { return &tval{kind: 'n', n: n} }
		switch i % 4 {
		case 0:
			c03CaseV(r, o, parseSigT("(sI)"), &tval{kind: '(', elems: []*tval{{kind: 's', s: str}, num(7)}})
		case 1:
			// the reflection decoder takes lists of up to listValueMaxSize (4096) elements: at the bound and just below
			l := &tval{kind: '['}
			for j := 0; j < 4095+i%2; j++ {
				l.elems = append(l.elems, num(uint64((j*3+i)%251)))
			}
			c03CaseV(r, o, parseSigT("([C]w)"), &tval{kind: '(', elems: []*tval{l, num(515)}})
		case 2:
			c03CaseV(r, o, parseSigT("{Is}"), &tval{kind: '{', elems: []*tval{num(1), {kind: 's', s: str[:size/2]}, num(2), {kind: 's', s: str}}})
		default:
			c03CaseV(r, o, parseSigT("[s]"), &tval{kind: '[', elems: []*tval{{kind: 's', s: []byte("x")}, {kind: 's', s: str}, {kind: 's', s: []byte("y")}}})
		}
		o.Count("case:long")
	}
}

func c03Case(r *Rand, o *Out, t *sigT) { c03CaseV(r, o, t, genTVal(r, t, 2)) }

func c03CaseV(r *Rand, o *Out, t *sigT, v *tval) {
	sig := t.String()
	if r.Chance(4) {
		// an Encode that fails, in front of this one
		o.Do("P", "enc.fail "+[]string{"nil", "writer"}[r.Intn(2)], true)
		o.Count("case:after-a-failed-encode")
	}
	enc := encD(t, v)
	o.Count("shape:" + sigShape(t))
	// 1. reflection encoder = documented layout
	res := o.Do("P", "enc.reflect "+hx([]byte(sig))+" "+v.tokens(), true)
	if res != "ok "+hx(enc) {
		o.Fail("reflection encoder differs from the documented layout: "+codecWhy(t), fmt.Sprintf("enc.reflect %s %s => %s (want %s)", sig, v.tokens(), res, hx(enc)))
	}
	// 2. signature-driven reader accepts exactly those bytes
	tail := r.Bytes(r.Intn(3))
	res = o.Do("P", "rd.read "+hx([]byte(sig))+" "+hx(append(append([]byte{}, enc...), tail...)), true)
	if res != fmt.Sprintf("ok %s rest=%d", hx(enc), len(tail)) {
		o.Fail("signature-driven reader does not return the value's bytes: "+readerWhy(t), fmt.Sprintf("rd.read %s %s => %s", sig, hx(enc), res))
	}
	// 2a. … and only those: the same bytes without the last one, or cut a few bytes earlier, are not accepted
	if len(enc) > 0 && r.Chance(30) {
		cut := len(enc) - 1
		if r.Bool() && len(enc) > 3 {
			cut = len(enc) - 1 - r.Intn(3)
		}
		res = o.Do("P", "rd.read "+hx([]byte(sig))+" "+hx(enc[:cut]), true)
		if strings.HasPrefix(res, "ok") {
			o.Fail("signature-driven reader accepts fewer bytes than the value has: "+readerWhy(t), fmt.Sprintf("rd.read %s %s (of %s) => %s", sig, hx(enc[:cut]), hx(enc), res))
		}
		o.Count("case:reader-given-less")
	}
	// 2b. a dynamic value directly inside a dynamic value: every level keeps its signature prefix in what
	//     the reader returns (NewValue normalises that nesting, the reader must not)
	if t.kind == 'm' {
		wrapped := append(append(leBytes(4, 1), 'm'), enc...)
		res = o.Do("P", "rd.read "+hx([]byte("m"))+" "+hx(append(append([]byte{}, wrapped...), tail...)), true)
		if res != fmt.Sprintf("ok %s rest=%d", hx(wrapped), len(tail)) {
			o.Fail("signature-driven reader does not return the value's bytes: dynamic value inside a dynamic value", fmt.Sprintf("rd.read m %s => %s", hx(wrapped), res))
		}
		o.Count("case:nested-dynamic")
	}
	// 3. reflection decoder recovers the value
	res = o.Do("P", "dec.reflect "+hx([]byte(sig))+" "+hx(append(append([]byte{}, enc...), tail...)), true)
	want := fmt.Sprintf("ok %s rest=%d", renderTValD(t, v), len(tail))
	if res != want {
		o.Fail("reflection decoder does not recover the value: "+codecWhy(t), fmt.Sprintf("dec.reflect %s %s => %s (want %s)", sig, hx(enc), res, want))
	}
	// 3a. … and the same with Go's own int and uint for the eight-byte integers
	if strings.ContainsAny(sig, "lL") && !strings.Contains(sig, "<") && r.Chance(60) {
		res = o.Do("P", "enc.reflectp "+hx([]byte(sig))+" "+v.tokens(), true)
		if res != "ok "+hx(enc) {
			o.Fail("reflection encoder differs from the documented layout: int / uint", fmt.Sprintf("enc.reflectp %s %s => %s (want %s)", sig, v.tokens(), res, hx(enc)))
		}
		res = o.Do("P", "dec.reflectp "+hx([]byte(sig))+" "+hx(append(append([]byte{}, enc...), tail...)), true)
		if res != want {
			o.Fail("reflection decoder does not recover the value: int / uint", fmt.Sprintf("dec.reflectp %s %s => %s (want %s)", sig, hx(enc), res, want))
		}
		o.Count("case:platform-int-and-uint")
	}
}

// the smallest feature of the signature that the reflection codec is known to mishandle
func codecWhy(t *sigT) string {
	s := t.String()
	inner := strings.ContainsAny(s, "[{(")
	switch {
	case strings.ContainsAny(s, "cC") && inner:
		return "8-bit integer inside a container"
	case strings.ContainsAny(s, "cC"):
		return "8-bit integer"
	case strings.Contains(s, "m") && strings.Contains(s, "("):
		return "dynamic value inside a struct or tuple"
	case strings.Contains(s, "m"):
		return "dynamic value"
	}
	return sigShape(t)
}
