package main

import (
	"github.com/lugu/qiloop/bus/util"
	"time"
	gonet "net"
	"bytes"
	"errors"
	"fmt"
	"io"
	"strconv"
	"strings"

	qnet "github.com/lugu/qiloop/bus/net"
)

// ---- scripted io.Reader -------------------------------------------------

type chunk struct {
	data    []byte
	eof     bool
	fail    bool
	withErr bool // the Read that hands out the last of data also reports an error (not EOF), once
}

type scriptReader struct {
	chunks   []chunk
	consumed int // bytes handed out so far
	calls    int
	mark     int // consumed at the start of the current message
	callsAt  int // Read calls made once 28 bytes of the current message were out
	faulted  bool // a Read of the current message reported an error together with bytes
}

var errScripted = errors.New("scripted failure")

func (r *scriptReader) Read(p []byte) (int, error) {
	r.calls++
	if r.consumed-r.mark >= 28 {
		r.callsAt++
	}
	if len(r.chunks) == 0 {
		return 0, io.EOF
	}
	c := &r.chunks[0]
	if c.fail {
		return 0, errScripted
	}
	if len(c.data) == 0 {
		eof, withErr := c.eof, c.withErr
		r.chunks = r.chunks[1:]
		if withErr {
			r.faulted = true
			return 0, errScripted
		}
		if eof {
			r.chunks = nil
			return 0, io.EOF
		}
		return 0, nil
	}
	n := copy(p, c.data)
	c.data = c.data[n:]
	r.consumed += n
	if len(c.data) == 0 {
		eof := c.eof
		withErr := c.withErr
		r.chunks = r.chunks[1:]
		if withErr {
			r.faulted = true
			return n, errScripted
		}
		if eof {
			r.chunks = nil
			return n, io.EOF
		}
	}
	return n, nil
}

// chunk syntax: d:<hex> data, e:<hex> data delivered together with EOF, f failure
func parseChunks(ws []string) []chunk {
	var cs []chunk
	for _, w := range ws {
		switch {
		case w == "f":
			cs = append(cs, chunk{fail: true})
		case strings.HasPrefix(w, "d:"):
			cs = append(cs, chunk{data: unhx(w[2:])})
		case strings.HasPrefix(w, "e:"):
			cs = append(cs, chunk{data: unhx(w[2:]), eof: true})
		case strings.HasPrefix(w, "x:"):
			cs = append(cs, chunk{data: unhx(w[2:]), withErr: true})
		default:
			panic("bad chunk " + w)
		}
	}
	return cs
}

func fmtHeader(h qnet.Header, payload []byte) string {
	return fmt.Sprintf("%d,%d,%d,%d,%d,%d,%d,%d,%d,%s", h.Magic, h.ID, h.Size, h.Version, h.Type, h.Flags,
		h.Service, h.Object, h.Action, hx(payload))
}

// msg.read <k> <chunks…> : read up to k messages with Message.Read.
func execMsgRead(a []string) string { return msgRead(a, false) }

// msg.reread <k> <chunks…> : the same with one Message value that every Read fills again (what a
// reader loop with a single variable does): what was read before must not show through
func execMsgReread(a []string) string { return msgRead(a, true) }

func msgRead(a []string, reuse bool) string {
	k, _ := strconv.Atoi(a[0])
	r := &scriptReader{chunks: parseChunks(a[1:])}
	var sb strings.Builder
	var shared qnet.Message
	for i := 0; i < k; i++ {
		var fresh qnet.Message
		m := &fresh
		if reuse {
			m = &shared
		}
		r.mark = r.consumed
		r.callsAt = 0
		r.faulted = false
		err := m.Read(r)
		c := r.consumed - r.mark
		if err == nil {
			fmt.Fprintf(&sb, "ok(%s)c=%d ", fmtHeader(m.Header, m.Payload), c)
			continue
		}
		switch {
		case err == io.EOF:
			sb.WriteString("eof")
		case c == 28 && r.callsAt == 0 && !r.faulted:
			sb.WriteString("refused")
		default:
			sb.WriteString("err")
		}
		break
	}
	return strings.TrimSpace(sb.String())
}

type recWriter struct{ writes [][]byte }

func (w *recWriter) Write(p []byte) (int, error) {
	w.writes = append(w.writes, append([]byte(nil), p...))
	return len(p), nil
}

func parseHeader(a []string) qnet.Header {
	u := func(s string) uint64 { v, _ := strconv.ParseUint(s, 10, 64); return v }
	return qnet.Header{Magic: uint32(u(a[0])), ID: uint32(u(a[1])), Size: uint32(u(a[2])), Version: uint16(u(a[3])),
		Type: uint8(u(a[4])), Flags: uint8(u(a[5])), Service: uint32(u(a[6])), Object: uint32(u(a[7])), Action: uint32(u(a[8]))}
}

// msg.write magic id size version type flags service object action payloadhex
func execMsgWrite(a []string) string {
	m := qnet.Message{Header: parseHeader(a), Payload: unhx(a[9])}
	w := &recWriter{}
	if err := m.Write(w); err != nil {
		return "err"
	}
	parts := make([]string, len(w.writes))
	for i, b := range w.writes {
		parts[i] = hx(b)
	}
	return "ok " + strings.Join(parts, " ")
}

// countConn: a real connection (deadlines and all) that counts what was read from it
type countConn struct {
	gonet.Conn
	n int
}

func (c *countConn) Read(p []byte) (int, error) {
	n, err := c.Conn.Read(p)
	c.n += n
	return n, err
}

var msgConnListener gonet.Listener
var msgConnPath string

// msg.conn <k> <hex>: a peer writes these bytes on a unix-domain connection and closes it; up to k messages are read
// from the other end of that connection
func execMsgConn(a []string) string {
	k, _ := strconv.Atoi(a[0])
	data := unhx(a[1])
	if msgConnListener == nil {
		msgConnPath = strings.TrimPrefix(util.NewUnixAddr(), "unix://")
		l, err := gonet.Listen("unix", msgConnPath)
		if err != nil {
			return "setup-error:" + err.Error()
		}
		msgConnListener = l
	}
	peer, err := gonet.Dial("unix", msgConnPath)
	if err != nil {
		return "setup-error:" + err.Error()
	}
	srv, err := msgConnListener.Accept()
	if err != nil {
		peer.Close()
		return "setup-error:" + err.Error()
	}
	defer srv.Close()
	go func() { peer.Write(data); peer.Close() }()
	r := &countConn{Conn: srv}
	var sb strings.Builder
	for i := 0; i < k; i++ {
		var m qnet.Message
		mark := r.n
		srv.SetReadDeadline(time.Now().Add(5 * time.Second))
		err := m.Read(r)
		if err == nil {
			fmt.Fprintf(&sb, "ok(%s)c=%d ", fmtHeader(m.Header, m.Payload), r.n-mark)
			continue
		}
		if err == io.EOF {
			sb.WriteString("eof")
		} else {
			sb.WriteString("err")
		}
		break
	}
	return strings.TrimSpace(sb.String())
}

// failWriter fails its first Write in the given way (and every later one)
type failWriter struct {
	mode string
	k    int
}

func (w *failWriter) Write(p []byte) (int, error) {
	k := w.k
	if k > len(p) {
		k = len(p)
	}
	switch w.mode {
	case "eof0":
		return 0, io.EOF
	case "err0":
		return 0, fmt.Errorf("broken pipe")
	case "eofk":
		return k, io.EOF
	case "short":
		return k, io.ErrShortWrite
	case "errk":
		return k, fmt.Errorf("connection reset")
	}
	return k, nil // "quiet": fewer bytes than asked for and no error
}

// msg.wfail <mode> <k> <message 1: 10 fields> <message 2: 10 fields>: message 1 is written to a writer that fails
// in the given way, then message 2 to a writer that works: what reaches the second writer is message 2, nothing else
func execMsgWriteAfterFailure(a []string) string {
	k, _ := strconv.Atoi(a[1])
	m1 := qnet.Message{Header: parseHeader(a[2:]), Payload: unhx(a[11])}
	res := "ok"
	if err := m1.Write(&failWriter{mode: a[0], k: k}); err != nil {
		res = "err"
	}
	return res + " | " + execMsgWrite(a[12:])
}

// pieceWriter takes the bytes in pieces and keeps them: the sizes of the first pieces, then at most k per call; after
// the scheduled pieces a call may report the end of the stream or an error together with its k bytes
type pieceWriter struct {
	k     int
	sched []int
	last  string
	got   []byte
}

func (w *pieceWriter) Write(p []byte) (int, error) {
	k := w.k
	var err error
	if len(w.sched) > 0 {
		k = w.sched[0]
		w.sched = w.sched[1:]
	} else if w.last == "eof" {
		err = io.EOF
	} else if w.last == "err" {
		err = fmt.Errorf("connection reset")
	}
	if k > len(p) {
		k = len(p)
	}
	w.got = append(w.got, p[:k]...)
	return k, err
}

// msg.pieces <k> <message: 10 fields> <sizes of the first pieces…> [eof|err]: the message is written to a writer that
// takes it in pieces without reporting anything: the outcome, and everything the writer has taken
func execMsgPieces(a []string) string {
	k, _ := strconv.Atoi(a[0])
	m := qnet.Message{Header: parseHeader(a[1:]), Payload: unhx(a[10])}
	w := &pieceWriter{k: k}
	for _, x := range a[11:] {
		if x == "eof" || x == "err" {
			w.last = x
		} else {
			n, _ := strconv.Atoi(x)
			w.sched = append(w.sched, n)
		}
	}
	res := "ok "
	if err := m.Write(w); err != nil {
		res = "err "
	}
	return res + hx(w.got)
}

// countingReader counts what has been taken from it
type countingReader struct {
	r io.Reader
	n int
}

func (c *countingReader) Read(p []byte) (int, error) {
	n, err := c.r.Read(p)
	c.n += n
	return n, err
}

// msg.limit <size>: (1) a valid header announcing <size> bytes followed by five bytes: refused after the
// header, or does the reader go on?  (2) a whole message with a payload of that size (when that is at most
// 12 MiB): written and read back.
func execMsgLimit(a []string) string {
	size, _ := strconv.ParseUint(a[0], 10, 32)
	h := qnet.Header{Magic: qnet.Magic, ID: 7, Size: uint32(size), Version: qnet.Version, Type: qnet.Call, Service: 1, Object: 1, Action: 100}
	var hb bytes.Buffer
	h.Write(&hb)
	cr := &countingReader{r: bytes.NewReader(append(hb.Bytes(), 1, 2, 3, 4, 5))}
	var m qnet.Message
	err := m.Read(cr)
	probe := "accepted"
	if err != nil && cr.n == 28 {
		probe = "refused"
	}
	rt := "roundtrip=skipped"
	if size <= 12<<20 {
		payload := make([]byte, size)
		for i := range payload {
			payload[i] = byte(i * 7)
		}
		msg := qnet.NewMessage(h, payload)
		var wire bytes.Buffer
		if err := msg.Write(&wire); err != nil {
			rt = "roundtrip=unwritable"
		} else {
			var back qnet.Message
			if err := back.Read(bytes.NewReader(wire.Bytes())); err != nil {
				rt = "roundtrip=refused"
			} else if !bytes.Equal(back.Payload, payload) || back.Header != msg.Header {
				rt = "roundtrip=differs"
			} else {
				rt = "roundtrip=ok"
			}
		}
	} else if probe == "refused" {
		rt = "roundtrip=refused"
	}
	return probe + " " + rt
}

func init() {
	// every operation runs under a time limit: a reader or a writer that spins answers "hang" (the goroutine is abandoned)
	limited := func(f func([]string) string) func([]string) string {
		return func(a []string) string { return withTimeout(30*time.Second, func() string { return f(a) }) }
	}
	executors["msg.limit"] = limited(execMsgLimit)
	executors["msg.read"] = limited(execMsgRead)
	executors["msg.reread"] = limited(execMsgReread)
	executors["msg.write"] = limited(execMsgWrite)
	executors["msg.wfail"] = limited(execMsgWriteAfterFailure)
	executors["msg.pieces"] = limited(execMsgPieces)
	executors["msg.conn"] = limited(execMsgConn)
	runners["C01"] = runC01
}

// ---- generators ----------------------------------------------------------

func genHeader(r *Rand, valid bool) (qnet.Header, string) {
	h := qnet.Header{Magic: qnet.Magic, ID: r.U32(), Version: qnet.Version, Type: uint8(1 + r.Intn(8)),
		Flags: uint8(r.U32()), Service: r.U32(), Object: r.U32(), Action: r.U32()}
	why := "valid"
	if !valid {
		switch r.Intn(5) {
		case 0:
			h.Magic = r.U32()
			if h.Magic == qnet.Magic {
				h.Magic = 0x42dead43
			}
			switch r.Intn(3) {
			case 0: // little-endian magic: the classic mistake
				h.Magic = 0x42adde42
			case 1: // right in three bytes out of four
				h.Magic = qnet.Magic ^ (uint32(1+r.Intn(255)) << (8 * uint(r.Intn(4))))
			}
			why = "magic"
		case 1:
			h.Version = uint16(1 + r.Intn(65535))
			if r.Bool() { // wrong in one byte only, or in one bit
				h.Version = uint16(r.Pick(0x0001, 0x0100, 0x0200, 0x8000, 0xff00, 0x00ff, 0xffff, 0x0101, 0x0080))
			}
			why = "version"
		case 2:
			h.Type = 0
			why = "type0"
		case 3:
			h.Type = uint8(9 + r.Intn(247))
			why = "type>8"
		case 4:
			why = "size"
		}
	}
	return h, why
}

func wireOf(h qnet.Header, payload []byte) []byte {
	// independent encoder (not the repository's): the documented layout
	b := make([]byte, 0, 28+len(payload))
	be := func(v uint32) { b = append(b, byte(v>>24), byte(v>>16), byte(v>>8), byte(v)) }
	le := func(v uint32) { b = append(b, byte(v), byte(v>>8), byte(v>>16), byte(v>>24)) }
	be(h.Magic)
	le(h.ID)
	le(h.Size)
	b = append(b, byte(h.Version), byte(h.Version>>8), h.Type, h.Flags)
	le(h.Service)
	le(h.Object)
	le(h.Action)
	return append(b, payload...)
}

// fragment cuts data into chunks according to a strategy.
func fragment(r *Rand, data []byte, headerLens []int, o *Out) []string {
	var cuts []int // cut positions
	strat := r.Intn(7)
	names := []string{"whole", "bytewise", "random", "inside-header", "header-boundary", "big-random", "two"}
	o.Count("frag:" + names[strat])
	switch strat {
	case 0:
	case 1:
		if len(data) <= 600 {
			for i := 1; i < len(data); i++ {
				cuts = append(cuts, i)
			}
		} else {
			for i := 1; i < len(data); i += 1 + r.Intn(40) {
				cuts = append(cuts, i)
			}
		}
	case 2:
		for i := 1 + r.Intn(9); i < len(data); i += 1 + r.Intn(9) {
			cuts = append(cuts, i)
		}
	case 3: // split inside each header
		pos := 0
		for _, l := range headerLens {
			cuts = append(cuts, pos+1+r.Intn(27))
			pos += l
		}
	case 4: // split exactly at header/payload boundaries and message boundaries
		pos := 0
		for _, l := range headerLens {
			cuts = append(cuts, pos+28)
			pos += l
			cuts = append(cuts, pos)
		}
	case 5:
		for i := 1 + r.Intn(100); i < len(data); i += 1 + r.Intn(100) {
			cuts = append(cuts, i)
		}
	case 6:
		if len(data) > 1 {
			cuts = append(cuts, 1+r.Intn(len(data)-1))
		}
	}
	var out []string
	prev := 0
	seen := map[int]bool{}
	for _, c := range cuts {
		if c <= prev || c >= len(data) || seen[c] {
			continue
		}
		seen[c] = true
		out = append(out, "d:"+hx(data[prev:c]))
		prev = c
	}
	if prev < len(data) {
		out = append(out, "d:"+hx(data[prev:]))
	}
	return out
}

func payloadLen(r *Rand, tier string) int {
	switch r.Intn(10) {
	case 0, 1:
		return 0
	case 2:
		return 1
	case 3, 4, 5:
		return r.Intn(40)
	case 6:
		return 200 + r.Intn(400)
	case 7:
		if tier == "thorough" {
			return 65530 + r.Intn(12)
		}
		return 4090 + r.Intn(12)
	default:
		return r.Intn(300)
	}
}

func runC01(r *Rand, tier string, o *Out) {
	n := 1500
	if tier == "thorough" {
		n = 12000
	}
	o.Extra["max_payload"] = qnet.MaxPayloadSize
	// the size limit itself: the largest payload that is accepted, the smallest that is refused
	for _, sz := range []uint64{0, 1, uint64(qnet.MaxPayloadSize) - 1, uint64(qnet.MaxPayloadSize), uint64(qnet.MaxPayloadSize) + 1,
		uint64(qnet.MaxPayloadSize) + 2, 12 << 20, 1 << 31, 1<<32 - 1} {
		o.Do("P", fmt.Sprintf("msg.limit %d", sz), true)
		o.Count("limit-boundary")
	}
	// payloads around 64 KiB and its multiples (where readers and transports cut), another message right behind
	for _, sz := range []int{65535, 65536, 65537, 70000, 131072, 131073, 196608} {
		h1, _ := genHeader(r, true)
		p1 := r.Bytes(sz)
		h1.Size = uint32(len(p1))
		h2, _ := genHeader(r, true)
		p2 := r.Bytes(1 + r.Intn(40))
		h2.Size = uint32(len(p2))
		w := append(wireOf(h1, p1), wireOf(h2, p2)...)
		if sz%2 == 1 {
			o.Do("P", "msg.read 2 d:"+hx(w), true) // everything is there at once
		} else {
			cut := 28 + r.Intn(sz)
			o.Do("P", "msg.read 2 d:"+hx(w[:cut])+" d:"+hx(w[cut:]), true)
		}
		o.Count("big:around-64KiB")
	}
	// … and a stream that ends inside such a payload — right behind the header, in the middle, one byte short: the
	// message is not read back (self-delimiting: exactly header + payload bytes, or an error)
	for _, sz := range []int{65537, 70000, 131073} {
		h, _ := genHeader(r, true)
		p := r.Bytes(sz)
		h.Size = uint32(len(p))
		w := wireOf(h, p)
		for _, k := range []int{28, 29, 28 + r.Intn(sz), 28 + 65536, len(w) - 1} {
			op := "msg.read 1 e:" + hx(w[:k])
			if k > 40 && r.Bool() {
				c := 1 + r.Intn(k-1)
				op = "msg.read 1 d:" + hx(w[:c]) + " e:" + hx(w[c:k])
			}
			res := o.Do("P", op, true)
			o.Count("big:stream-ends-inside-the-payload")
			if res != "err" && res != "eof" {
				o.Fail("a message whose payload is cut short is read back", fmt.Sprintf("msg.read, %d of %d bytes => %s", k, len(w), tail2(res, 60)))
			}
		}
	}
	// … written to a writer that takes them in pieces
	for _, sz := range []int{65535, 65536, 70000, 131072} {
		h, _ := genHeader(r, true)
		p := r.Bytes(sz)
		h.Size = uint32(len(p))
		k := r.Pick(1500, 4096, 16384, 65536)
		o.Do("P", fmt.Sprintf("msg.pieces %d %d %d %d %d %d %d %d %d %d %s %d %d", k, h.Magic, h.ID, h.Size, h.Version, h.Type, h.Flags,
			h.Service, h.Object, h.Action, hx(p), 1+r.Intn(27), 1+r.Intn(3000)), true)
		o.Count("big:written-in-pieces")
	}
	// messages that arrive on a real connection (a unix-domain socket) whose peer hangs up behind them, or inside the last one
	for i := 0; i < 40; i++ {
		var w []byte
		k := 1 + r.Intn(3)
		for j := 0; j < k; j++ {
			h, _ := genHeader(r, true)
			p := r.Bytes(r.Intn(200))
			h.Size = uint32(len(p))
			w = append(w, wireOf(h, p)...)
		}
		if r.Chance(40) {
			w = w[:r.Intn(len(w))]
			o.Count("connection:cut")
		} else {
			o.Count("connection:whole")
		}
		o.Do("P", fmt.Sprintf("msg.conn %d %s", k+1, hx(w)), true)
	}
	for i := 0; i < n; i++ {
		switch {
		case i%5 == 4:
			genWriteCase(r, tier, o)
		default:
			genReadCase(r, tier, o)
		}
	}
	if tier == "thorough" {
		exhaustiveFragmentations(o)
		// one message with a 1 MiB payload, two chunk sizes
		h, _ := genHeader(r, true)
		p := r.Bytes(1 << 20)
		h.Size = uint32(len(p))
		w := wireOf(h, p)
		o.Do("P", "msg.read 1 d:"+hx(w[:40000])+" e:"+hx(w[40000:]), true)
		o.Count("big:1MiB")
	}
}

func genReadCase(r *Rand, tier string, o *Out) {
	k := 1 + r.Intn(3)
	if r.Chance(10) {
		k = 1 + r.Intn(20)
	}
	var data []byte
	var lens []int
	class := "P"
	badAt := -1
	if r.Chance(30) {
		badAt = r.Intn(k)
	}
	for j := 0; j < k; j++ {
		h, why := genHeader(r, j != badAt)
		p := r.Bytes(payloadLen(r, tier))
		h.Size = uint32(len(p))
		if why == "size" {
			h.Size = qnet.MaxPayloadSize + 1 + uint32(r.Intn(3))
			if r.Bool() {
				h.Size = r.U32() | 0x01000000
				if h.Size <= qnet.MaxPayloadSize {
					h.Size = 0xFFFFFFFF
				}
			}
		}
		o.Count("hdr:" + why)
		if h.Type <= 8 {
			o.Count(fmt.Sprintf("type:%d", h.Type))
		}
		w := wireOf(h, p)
		data = append(data, w...)
		lens = append(lens, len(w))
	}
	// trailing bytes
	tail := 0
	switch r.Intn(4) {
	case 0:
		tail = 1 + r.Intn(27) // a partial header
		o.Count("tail:partial")
	case 1:
		tail = r.Intn(60)
		o.Count("tail:random")
	default:
		o.Count("tail:none")
	}
	data = append(data, r.Bytes(tail)...)
	chunks := fragment(r, data, lens, o)
	// last chunk may come with EOF
	if len(chunks) > 0 && r.Chance(40) {
		chunks[len(chunks)-1] = "e:" + chunks[len(chunks)-1][2:]
		o.Count("eof:with-data")
	}
	// malformed streams: only for the model/implementation correspondence
	if r.Chance(16) && len(chunks) > 0 {
		class = "X"
		pos := r.Intn(len(chunks) + 1)
		ins := "f"
		switch r.Intn(5) {
		case 3, 4:
			// a read error that comes once, together with bytes; the stream goes on behind it
			pos = r.Intn(len(chunks))
			if strings.HasPrefix(chunks[pos], "d:") {
				chunks[pos] = "x:" + chunks[pos][2:]
				o.Count("stream:error-once-with-bytes")
			}
			ins = ""
		case 0:
			ins = "d:-" // (0, nil)
			o.Count("stream:zero-read")
		case 1:
			o.Count("stream:fail")
		case 2:
			// truncate the stream here
			chunks = chunks[:pos]
			ins = ""
			o.Count("stream:truncated")
		}
		if ins != "" {
			chunks = append(chunks[:pos], append([]string{ins}, chunks[pos:]...)...)
			if ins == "f" {
				chunks = chunks[:pos+1]
			}
		}
	}
	reads := k
	if r.Chance(20) {
		reads = k + 1 // read past the last message: the tail decides
		if tail != 0 {
			class = "X"
		}
	}
	op := "msg.read"
	if r.Chance(40) {
		op = "msg.reread"
		o.Count("read:one-message-value-reused")
	}
	o.Do(class, fmt.Sprintf("%s %d %s", op, reads, strings.Join(chunks, " ")), true)
}

func genWriteCase(r *Rand, tier string, o *Out) {
	h, _ := genHeader(r, true)
	p := r.Bytes(payloadLen(r, tier))
	h.Size = uint32(len(p))
	class := "P"
	if r.Chance(25) {
		// the message before this one went to a writer that failed
		h1, _ := genHeader(r, true)
		p1 := r.Bytes(r.Intn(60))
		h1.Size = uint32(len(p1))
		mode := []string{"eof0", "err0", "eofk", "short", "errk"}[r.Intn(5)]
		o.Do(class, fmt.Sprintf("msg.wfail %s %d %d %d %d %d %d %d %d %d %d %s %d %d %d %d %d %d %d %d %d %s", mode, r.Intn(28+len(p1)),
			h1.Magic, h1.ID, h1.Size, h1.Version, h1.Type, h1.Flags, h1.Service, h1.Object, h1.Action, hx(p1),
			h.Magic, h.ID, h.Size, h.Version, h.Type, h.Flags, h.Service, h.Object, h.Action, hx(p)), true)
		o.Count("write:after-a-failed-write:" + mode)
		return
	}
	if r.Chance(30) {
		// the writer takes the message in pieces (short writes without an error); many small pieces of a long message
		// cost the model's driver a quadratic amount of copying: long messages are written in pieces by the scripted
		// cases of runC01, here the payload stays under 8 KiB
		if len(p) > 8192 {
			p = p[:8192]
			h.Size = uint32(len(p))
		}
		k := 1 + r.Intn(9)
		if r.Chance(30) {
			k = 1 + r.Intn(28+len(p))
		}
		var sched []string
		left := 28 + len(p)
		for n := r.Intn(5); n > 0 && left > 0; n-- {
			c := 1 + r.Intn(12)
			if r.Chance(10) {
				c = 0
				o.Count("write:in-pieces:a-call-that-takes-nothing")
			}
			sched = append(sched, strconv.Itoa(c))
			left -= c
		}
		switch c := r.Intn(10); {
		case c == 0:
			sched = append(sched, "eof")
			o.Count("write:in-pieces:end-of-stream-with-a-piece")
		case c == 1:
			sched = append(sched, "err")
			o.Count("write:in-pieces:error-with-a-piece")
		default:
			o.Count("write:in-pieces")
		}
		o.Do(class, strings.TrimSpace(fmt.Sprintf("msg.pieces %d %d %d %d %d %d %d %d %d %d %s %s", k, h.Magic, h.ID, h.Size, h.Version, h.Type, h.Flags,
			h.Service, h.Object, h.Action, hx(p), strings.Join(sched, " "))), true)
		return
	}
	if r.Chance(15) {
		h.Size += uint32(1 + r.Intn(3))
		o.Count("write:size-mismatch")
	} else {
		o.Count("write:ok")
	}
	o.Do(class, fmt.Sprintf("msg.write %d %d %d %d %d %d %d %d %d %s", h.Magic, h.ID, h.Size, h.Version, h.Type, h.Flags,
		h.Service, h.Object, h.Action, hx(p)), true)
}

// every fragmentation of a 2-message stream (3-byte payloads) into at most 4 chunks
func exhaustiveFragmentations(o *Out) {
	h1 := qnet.Header{Magic: qnet.Magic, ID: 1, Size: 3, Type: 1, Service: 2, Object: 3, Action: 4}
	h2 := qnet.Header{Magic: qnet.Magic, ID: 0xFFFFFFFF, Size: 3, Type: 8, Flags: 255, Service: 5, Object: 6, Action: 7}
	data := append(wireOf(h1, []byte{1, 2, 3}), wireOf(h2, []byte{4, 5, 6})...)
	n := len(data)
	count := 0
	emit := func(cuts []int) {
		var cs []string
		prev := 0
		for _, c := range cuts {
			cs = append(cs, "d:"+hx(data[prev:c]))
			prev = c
		}
		cs = append(cs, "e:"+hx(data[prev:]))
		o.Do("P", "msg.read 2 "+strings.Join(cs, " "), true)
		count++
	}
	emit(nil)
	for a := 1; a < n; a++ {
		emit([]int{a})
		for b := a + 1; b < n; b++ {
			emit([]int{a, b})
			for c := b + 1; c < n; c++ {
				emit([]int{a, b, c})
			}
		}
	}
	o.Counters["exhaustive:fragmentations"] = count
	o.Extra["exhaustive_fragmentations"] = true
}
