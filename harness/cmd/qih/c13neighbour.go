package main

// C13: two subscribers of one signal on one connection; one of them never reads (its queue fills, what is sent to it
// beyond that is dropped: its own loss).  The other receives every event once, in order, with the emitted payload —
// also when it reads a few events late.

import (
	"fmt"
	"time"
)

func execSgNeighbour(a []string) string {
	w, res := sgNewWorld()
	if res != "ok" {
		return res
	}
	defer w.close()
	c, err := w.connect()
	if err != nil {
		return "setup-error:" + err.Error()
	}
	pa, err := c.cache.Proxy("PingPong", 1)
	if err != nil {
		return "setup-error:" + err.Error()
	}
	_, chA, err := pa.SubscribeID(102)
	if err != nil {
		return "setup-error:" + err.Error()
	}
	pb, err := c.cache.Proxy("PingPong", 1)
	if err != nil {
		return "setup-error:" + err.Error()
	}
	if _, _, err := pb.SubscribeID(102); err != nil { // never read
		return "setup-error:" + err.Error()
	}
	next := func() string {
		select {
		case p, ok := <-chA:
			if !ok {
				return "closed"
			}
			return sgDecode(p)
		case <-time.After(3 * time.Second):
			return "none"
		}
	}
	emit := func(i int) {
		done := make(chan error, 1)
		go func() { done <- w.impl.h.SignalPong(fmt.Sprintf("e%d", i)) }()
		select {
		case <-done:
		case <-time.After(3 * time.Second):
		}
	}
	// in step: the neighbour's queue fills on the way
	for i := 1; i <= 130; i++ {
		emit(i)
		if got := next(); got != fmt.Sprintf("e%d", i) {
			return fmt.Sprintf("fail:in-step the reading subscriber got %s for event %d", got, i)
		}
	}
	// a few events late
	for round := 0; round < 3; round++ {
		base := 130 + round*6
		for i := 1; i <= 6; i++ {
			emit(base + i)
		}
		time.Sleep(100 * time.Millisecond)
		for i := 1; i <= 6; i++ {
			if got := next(); got != fmt.Sprintf("e%d", base+i) {
				return fmt.Sprintf("fail:late the subscriber that reads six events late got %s for event %d (its neighbour does not read)", got, base+i)
			}
		}
	}
	return "ok"
}

func init() {
	executors["sg.neighbour"] = func(a []string) string {
		r := execSgNeighbour(a)
		if r != "ok" {
			lastFailDetail = r
		}
		return r
	}
}
