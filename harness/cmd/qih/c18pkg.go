package main

// C18, package level: whole IDL texts — header, interface blocks, struct blocks (which may refer to
// each other, to themselves, to names nobody declares), enums, in any order — go through
// idl.ParsePackage; every declaration is described with what Signature() / MetaObject() say and
// compared with Model/IdlPackage.lean + Model/IdlScope.lean.

import (
	"fmt"
	"sort"
	"strings"

	"github.com/lugu/qiloop/meta/idl"
	"github.com/lugu/qiloop/meta/signature"
	"github.com/lugu/qiloop/type/object"
)

func c18DescribeMeta(m object.MetaObject) string {
	var out []string
	var ids []int
	for id := range m.Methods {
		ids = append(ids, int(id))
	}
	sort.Ints(ids)
	for _, id := range ids {
		me := m.Methods[uint32(id)]
		var names []string
		for _, q := range me.Parameters {
			names = append(names, q.Name)
		}
		out = append(out, fmt.Sprintf("fn %d %s %s -> %s [%s]", id, me.Name, me.ParametersSignature, me.ReturnSignature, strings.Join(names, ",")))
	}
	ids = ids[:0]
	for id := range m.Signals {
		ids = append(ids, int(id))
	}
	sort.Ints(ids)
	for _, id := range ids {
		sg := m.Signals[uint32(id)]
		out = append(out, fmt.Sprintf("sig %d %s %s", id, sg.Name, sg.Signature))
	}
	ids = ids[:0]
	for id := range m.Properties {
		ids = append(ids, int(id))
	}
	sort.Ints(ids)
	for _, id := range ids {
		pr := m.Properties[uint32(id)]
		out = append(out, fmt.Sprintf("prop %d %s %s", id, pr.Name, pr.Signature))
	}
	return strings.Join(out, "; ")
}

// idl.pkg <hex>: the text of a package
func execIdlPkg(a []string) string {
	text := unhx(a[0])
	return safely(func() string {
		pkg, err := idl.ParsePackage(text)
		if err != nil {
			return "err"
		}
		var parts []string
		for _, t := range pkg.Types {
			switch v := t.(type) {
			case *signature.StructType:
				parts = append(parts, "struct "+v.Name+" "+v.Signature())
			case *signature.EnumType:
				parts = append(parts, "enum "+v.Name)
			case *idl.InterfaceType:
				parts = append(parts, "itf "+v.Name+": "+c18DescribeMeta(v.MetaObject()))
			default:
				parts = append(parts, fmt.Sprintf("other %T", t))
			}
		}
		return "ok " + pkg.Name + " | " + strings.Join(parts, " | ")
	})
}

type c18PkgGen struct {
	r       *Rand
	o       *Out
	structs []string // names that may be referred to (declared or not)
}

func (g *c18PkgGen) typ(depth int) string {
	r := g.r
	if depth <= 0 || r.Chance(35) {
		if r.Chance(55) && len(g.structs) > 0 {
			return g.structs[r.Intn(len(g.structs))]
		}
		return []string{"int8", "uint8", "int16", "uint16", "int32", "uint32", "int64", "uint64", "float32", "float64", "bool", "str", "obj", "any"}[r.Intn(14)]
	}
	switch r.Intn(3) {
	case 0:
		return "Vec<" + g.typ(depth-1) + ">"
	case 1:
		return "Map<" + g.typ(depth-1) + "," + g.typ(depth-1) + ">"
	}
	n := 1 + r.Intn(3)
	var ts []string
	for i := 0; i < n; i++ {
		ts = append(ts, g.typ(depth-1))
	}
	return "Tuple<" + strings.Join(ts, ",") + ">"
}

func (g *c18PkgGen) comment() string {
	if g.r.Chance(85) {
		return ""
	}
	return []string{" //c", " // uid:3", " //", " //uid:x"}[g.r.Intn(4)]
}

func c18PkgText(r *Rand, o *Out) string {
	g := &c18PkgGen{r: r, o: o}
	pool := []string{"A", "B", "C", "Foo", "Pt<T>", "int8x", "_s1", "Zed"}
	ns := r.Intn(5)
	declared := []string{}
	for i := 0; i < ns; i++ {
		declared = append(declared, pool[r.Intn(len(pool)-1)]) // Zed is never declared; duplicates happen
	}
	itfNames := []string{"I", "Srv", "B"}[:1+r.Intn(2)]
	if r.Chance(15) {
		itfNames = append(itfNames, "B") // may collide with a struct
	}
	enums := []string{}
	if r.Chance(30) {
		enums = append(enums, "E")
	}
	g.structs = append(append(append([]string{}, declared...), "Zed"), itfNames[0])
	if len(enums) > 0 {
		g.structs = append(g.structs, "E")
	}
	var blocks []string
	recursive := false
	for _, s := range declared {
		var b strings.Builder
		b.WriteString("struct " + s + g.comment() + "\n")
		for j, n := 0, r.Intn(4); j < n; j++ {
			t := g.typ(2)
			for _, d := range declared {
				if strings.Contains(t, d) {
					recursive = true // possibly: the model decides
				}
			}
			fmt.Fprintf(&b, "\t%s: %s%s\n", []string{"x", "y", "next", "end_", "f1"}[r.Intn(5)], t, g.comment())
		}
		b.WriteString("end" + g.comment() + "\n")
		blocks = append(blocks, b.String())
	}
	if recursive {
		o.Count("package:struct-refers-to-struct")
	}
	for _, e := range enums {
		blocks = append(blocks, "enum "+e+"\n\ta = 1\n\tb = -2"+g.comment()+"\nend\n")
	}
	for _, it := range itfNames {
		var b strings.Builder
		b.WriteString("interface " + it + g.comment() + "\n")
		uid := 100
		for j, n := 0, r.Intn(5); j < n; j++ {
			kind := []string{"fn", "sig", "prop"}[r.Intn(3)]
			var ps []string
			np := r.Intn(3)
			if kind == "prop" && np == 0 {
				np = 1
			}
			for k := 0; k < np; k++ {
				ps = append(ps, fmt.Sprintf("p%d: %s", k, g.typ(2)))
			}
			line := fmt.Sprintf("\t%s a%d(%s)", kind, j, strings.Join(ps, []string{",", ", "}[r.Intn(2)]))
			if kind == "fn" && r.Chance(60) {
				line += " -> " + g.typ(2)
			}
			if r.Chance(80) {
				line += fmt.Sprintf(" //uid:%d", uid)
				uid += 1 + r.Intn(3)
			}
			b.WriteString(line + "\n")
		}
		b.WriteString("end\n")
		blocks = append(blocks, b.String())
	}
	// any order
	for i := len(blocks) - 1; i > 0; i-- {
		j := r.Intn(i + 1)
		blocks[i], blocks[j] = blocks[j], blocks[i]
	}
	header := "package " + []string{"p", "a.b-c", "_x1", "q9"}[r.Intn(4)] + g.comment() + "\n"
	if r.Chance(10) {
		header = ""
	}
	text := header + strings.Join(blocks, "")
	// something that is no package
	switch r.Intn(20) {
	case 0:
		text = strings.TrimSuffix(text, "end\n")
		o.Count("package:last-end-missing")
	case 1:
		text += "garbage\n"
		o.Count("package:trailing-garbage")
	case 2:
		text = strings.Replace(text, "\n", "\n\n  ", 2)
		o.Count("package:extra-white-space")
	}
	return text
}
