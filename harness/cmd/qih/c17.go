package main

import (
	"fmt"
	"io/ioutil"
	"log"
	gonet "net"
	"sort"
	"strconv"
	"strings"
	"sync"
	"sync/atomic"
	"time"

	qnet "github.com/lugu/qiloop/bus/net"
)

// ---- sequential, exact mode ----------------------------------------------------------------

type epHandler struct {
	uid     int
	mod     uint32
	res     uint32
	dropOn  uint32
	queue   chan *qnet.Message
	closer  int64
	recv    []uint32
	closed  bool
	slot    int
	lateOK  bool // a shutdown has completed since
	madeAfterClose bool
	early   int32 // the queue was found closed by the close callback: the callback has to come first
}

type epWorld struct {
	ep       qnet.EndPoint
	peer     gonet.Conn
	handlers []*epHandler
	errs     int64 // error replies seen by the peer
	peerDone chan struct{}
}

var epw *epWorld

// a stream whose Close does close, and reports an error (a TLS connection whose peer is gone does that)
type epCloseErrStream struct{ qnet.Stream }

func (s epCloseErrStream) Close() error {
	s.Stream.Close()
	return fmt.Errorf("close: the peer is gone")
}

var epCloseErr bool

func epReset() string {
	log.SetOutput(ioutil.Discard)
	if epw != nil {
		epw.ep.Close()
		epw.peer.Close()
	}
	a, b := gonet.Pipe()
	w := &epWorld{peer: b, peerDone: make(chan struct{})}
	var stream qnet.Stream = qnet.ConnStream(a)
	if epCloseErr {
		stream = epCloseErrStream{stream}
	}
	w.ep = qnet.NewEndPoint(stream)
	go func() { // the peer reads whatever the endpoint sends (error replies for blocked calls)
		defer close(w.peerDone)
		for {
			var m qnet.Message
			if err := m.Read(b); err != nil {
				return
			}
			if m.Header.Type == qnet.Error {
				atomic.AddInt64(&w.errs, 1)
			}
		}
	}()
	epw = w
	return "ok"
}

func (w *epWorld) makeHandler(mod, res, dropOn uint32, capacity int) *epHandler {
	h := &epHandler{uid: len(w.handlers), mod: mod, res: res, dropOn: dropOn, queue: make(chan *qnet.Message, capacity)}
	filter := func(hdr *qnet.Header) (bool, bool) {
		matched := h.mod != 0 && hdr.Action%h.mod == h.res
		keep := !(h.dropOn != 0 && hdr.ID == h.dropOn)
		return matched, keep
	}
	closer := func(err error) {
		// the callback comes before the close of the queue: with nothing queued (nobody else reads this queue),
		// a receive that returns at once has found the queue closed
		if len(h.queue) == 0 {
			select {
			case _, ok := <-h.queue:
				if !ok {
					atomic.StoreInt32(&h.early, 1)
				}
			default:
			}
		}
		atomic.AddInt64(&h.closer, 1)
	}
	w.handlers = append(w.handlers, h)
	h.slot = w.ep.MakeHandler(filter, h.queue, closer)
	return h
}

// take up to k messages out of the queue (non-blocking); notes whether the queue is closed
func (h *epHandler) take(k int) {
	for i := 0; i < k; i++ {
		select {
		case m, ok := <-h.queue:
			if !ok {
				h.closed = true
				return
			}
			h.recv = append(h.recv, m.Header.ID)
		default:
			return
		}
	}
}

func execEp(op string) func(a []string) string {
	return func(a []string) string {
		u := func(i int) uint32 { v, _ := strconv.ParseUint(a[i], 10, 32); return uint32(v) }
		w := epw
		switch op {
		case "reset":
			epCloseErr = len(a) > 0 && a[0] == "close-reports-an-error"
			return epReset()
		case "make":
			after := false
			for _, x := range w.handlers {
				if x.lateOK {
					after = true
				}
			}
			h := w.makeHandler(u(0), u(1), u(2), int(u(3)))
			h.madeAfterClose = after
			return strconv.Itoa(h.slot)
		case "remove":
			if err := w.ep.RemoveHandler(int(u(0))); err != nil {
				return "err"
			}
			return "ok"
		case "msg":
			typ := qnet.Event
			if a[2] == "1" {
				typ = qnet.Call
			}
			m := qnet.NewMessage(qnet.NewHeader(typ, 1, 1, u(0), u(1)), nil)
			done := make(chan error, 1)
			go func() { done <- m.Write(w.peer) }()
			select {
			case err := <-done:
				if err != nil {
					return "undeliverable"
				}
			case <-time.After(2 * time.Second):
				return "undeliverable"
			}
			return "sent"
		case "sync":
			// wait until the sentinel handler (uid 0) holds a message: everything written
			// before it has been dispatched
			h := w.handlers[0]
			select {
			case m, ok := <-h.queue:
				if !ok {
					h.closed = true
					return "closed"
				}
				h.recv = append(h.recv, m.Header.ID)
				return "synced"
			case <-time.After(2 * time.Second):
				return "timeout"
			}
		case "drain":
			slot, k := int(u(0)), int(u(1))
			for _, h := range w.handlers {
				if h.slot == slot && !h.closed && atomic.LoadInt64(&h.closer) == 0 {
					h.take(k)
				}
			}
			return "ok"
		case "close", "peerclose":
			before := 0
			for _, h := range w.handlers {
				if atomic.LoadInt64(&h.closer) == 0 {
					before++
				}
			}
			if op == "close" {
				w.ep.Close()
			} else {
				w.peer.Close()
			}
			// let the asynchronous closes run (bounded wait)
			deadline := time.Now().Add(2 * time.Second)
			for time.Now().Before(deadline) {
				n := 0
				for _, h := range w.handlers {
					if h.registeredBeforeClose() && atomic.LoadInt64(&h.closer) == 0 {
						n++
					}
				}
				if n == 0 {
					break
				}
				time.Sleep(200 * time.Microsecond)
			}
			time.Sleep(2 * time.Millisecond)
			for _, h := range w.handlers {
				h.lateOK = true
			}
			return "closed"
		case "final":
			time.Sleep(3 * time.Millisecond)
			parts := make([]string, len(w.handlers))
			for i, h := range w.handlers {
				h.take(1 << 20)
				ids := make([]string, len(h.recv))
				for j, id := range h.recv {
					ids[j] = strconv.FormatUint(uint64(id), 10)
				}
				cl := 0
				if h.closed {
					cl = 1
				}
				parts[i] = fmt.Sprintf("u%d:recv=[%s],closer=%d,closed=%d", h.uid, strings.Join(ids, " "), atomic.LoadInt64(&h.closer), cl)
				if atomic.LoadInt32(&h.early) != 0 {
					parts[i] += ",queue-closed-before-callback"
				}
			}
			return strings.Join(parts, ";") + fmt.Sprintf(";errs=%d", atomic.LoadInt64(&w.errs))
		}
		return "bad-op"
	}
}

func (h *epHandler) registeredBeforeClose() bool { return !h.lateOK }

// ep.closebusy <calls>: a peer that sends and does not read.  The handler's queue (capacity 1) is full, the
// next call is answered with an error reply, and that reply waits for the peer: the endpoint is in the
// middle of a dispatch when Close is called.  Close has to return, the callback run once, the queue close.
func epCloseBusy(a []string) string {
	log.SetOutput(ioutil.Discard)
	calls, _ := strconv.Atoi(a[0])
	x, y := gonet.Pipe()
	defer y.Close()
	ep := qnet.NewEndPoint(qnet.ConnStream(x))
	queue := make(chan *qnet.Message, 1)
	var closer int64
	ep.MakeHandler(func(*qnet.Header) (bool, bool) { return true, true }, queue, func(error) { atomic.AddInt64(&closer, 1) })
	for i := 0; i < calls; i++ {
		m := qnet.NewMessage(qnet.NewHeader(qnet.Call, 1, 1, 100, uint32(i+1)), nil)
		done := make(chan error, 1)
		go func() { done <- m.Write(y) }()
		select {
		case <-done:
		case <-time.After(300 * time.Millisecond):
			// the endpoint is busy with the reply to the call before: it reads no further
		}
	}
	time.Sleep(20 * time.Millisecond)
	closed := make(chan struct{})
	go func() { ep.Close(); close(closed) }()
	select {
	case <-closed:
	case <-time.After(3 * time.Second):
		return "fail:Close does not return while a reply waits for the peer"
	}
	deadline := time.Now().Add(2 * time.Second)
	for atomic.LoadInt64(&closer) == 0 && time.Now().Before(deadline) {
		time.Sleep(200 * time.Microsecond)
	}
	time.Sleep(2 * time.Millisecond)
	if n := atomic.LoadInt64(&closer); n != 1 {
		return fmt.Sprintf("fail:close callback ran %d times", n)
	}
	for i := 0; i < 2; i++ {
		select {
		case _, ok := <-queue:
			if !ok {
				return "ok"
			}
		case <-time.After(time.Second):
			return "fail:queue not closed"
		}
	}
	return "fail:queue not closed"
}

// ep.removebusy <one-shot 0|1> <what: remove|close|make>: a call for a handler whose queue has no room; the error
// reply of the endpoint waits for a peer that does not read yet.  In that moment the handler is removed (or the
// endpoint closed, or another handler registered); then the peer reads.  The close callback of the handler has run
// exactly once, its queue is closed once, a handler registered meanwhile is closed at shutdown.
func childEpRemoveBusy(a []string) string {
	log.SetOutput(ioutil.Discard)
	oneShot := a[0] == "1"
	x, y := gonet.Pipe()
	defer y.Close()
	ep := qnet.NewEndPoint(qnet.ConnStream(x))
	queue := make(chan *qnet.Message) // nobody reads: no room
	var closer, closer2 int64
	id := ep.MakeHandler(func(*qnet.Header) (bool, bool) { return true, !oneShot }, queue, func(error) { atomic.AddInt64(&closer, 1) })
	m := qnet.NewMessage(qnet.NewHeader(qnet.Call, 1, 1, 100, 7), nil)
	wrote := make(chan error, 1)
	go func() { wrote <- m.Write(y) }()
	select {
	case <-wrote:
	case <-time.After(2 * time.Second):
		return "fail:the endpoint does not read"
	}
	time.Sleep(20 * time.Millisecond) // the endpoint is now writing its error reply; the peer does not read
	acted := make(chan string, 1)
	queue2 := make(chan *qnet.Message, 4)
	go func() {
		switch a[1] {
		case "remove":
			if err := ep.RemoveHandler(id); err != nil {
				acted <- "err"
			} else {
				acted <- "ok"
			}
		case "close":
			ep.Close()
			acted <- "closed"
		default:
			ep.MakeHandler(func(*qnet.Header) (bool, bool) { return false, true }, queue2, func(error) { atomic.AddInt64(&closer2, 1) })
			acted <- "made"
		}
	}()
	time.Sleep(20 * time.Millisecond)
	go func() { // now the peer reads
		buf := make([]byte, 4096)
		for {
			if _, err := y.Read(buf); err != nil {
				return
			}
		}
	}()
	var act string
	select {
	case act = <-acted:
	case <-time.After(3 * time.Second):
		return "fail:" + a[1] + " does not return"
	}
	time.Sleep(10 * time.Millisecond)
	ep.Close()
	deadline := time.Now().Add(2 * time.Second)
	for atomic.LoadInt64(&closer) == 0 && time.Now().Before(deadline) {
		time.Sleep(200 * time.Microsecond)
	}
	time.Sleep(5 * time.Millisecond)
	if n := atomic.LoadInt64(&closer); n != 1 {
		return fmt.Sprintf("fail:close callback ran %d times", n)
	}
	select {
	case _, ok := <-queue:
		if ok {
			return "fail:message after the close"
		}
	case <-time.After(time.Second):
		return "fail:queue not closed"
	}
	if act == "made" {
		deadline = time.Now().Add(2 * time.Second)
		for atomic.LoadInt64(&closer2) == 0 && time.Now().Before(deadline) {
			time.Sleep(200 * time.Microsecond)
		}
		if n := atomic.LoadInt64(&closer2); n != 1 {
			return fmt.Sprintf("fail:the handler registered meanwhile was closed %d times", n)
		}
	}
	if a[1] == "remove" {
		// a one-shot handler was closed by the dispatch itself: its removal finds nothing; a permanent one is removed
		if want := map[bool]string{true: "err", false: "ok"}[oneShot]; act != want {
			return "fail:RemoveHandler answered " + act
		}
	}
	return "ok"
}

// ep.makelate <rounds>: a handler is registered while the shutdown of the connection waits for the table: the removal of
// another handler holds the table (its close callback takes its time), the peer hangs up, and then a new handler is
// asked for.  Whoever gets the table first afterwards, the new handler's close callback runs exactly once.
func childEpMakeLate(a []string) string {
	log.SetOutput(ioutil.Discard)
	rounds, _ := strconv.Atoi(a[0])
	for round := 0; round < rounds; round++ {
		st := &gateStream{in: make(chan []byte, 8), eof: make(chan struct{}), entered: make(chan struct{}), gate: make(chan struct{}), closed: make(chan struct{})}
		close(st.gate) // Close returns at once
		ep := qnet.NewEndPoint(st)
		hold := make(chan struct{})
		inCloser := make(chan struct{})
		qa := make(chan *qnet.Message, 1)
		idA := ep.MakeHandler(func(*qnet.Header) (bool, bool) { return false, true }, qa, func(error) { close(inCloser); <-hold })
		var cC int64
		qc := make(chan *qnet.Message, 1)
		ep.MakeHandler(func(*qnet.Header) (bool, bool) { return false, true }, qc, func(error) { atomic.AddInt64(&cC, 1) })
		removed := make(chan struct{})
		go func() { ep.RemoveHandler(idA); close(removed) }()
		select {
		case <-inCloser:
		case <-time.After(2 * time.Second):
			return "fail:the close callback of the removed handler did not run"
		}
		close(st.eof) // the peer hangs up: the shutdown has to wait for the table
		select {
		case <-st.entered:
		case <-time.After(2 * time.Second):
			return "fail:the stream is not closed after the peer hung up"
		}
		time.Sleep(2 * time.Millisecond)
		var cB int64
		qb := make(chan *qnet.Message, 1)
		made := make(chan struct{})
		go func() {
			ep.MakeHandler(func(*qnet.Header) (bool, bool) { return false, true }, qb, func(error) { atomic.AddInt64(&cB, 1) })
			close(made)
		}()
		time.Sleep(2 * time.Millisecond)
		close(hold)
		for _, ch := range []chan struct{}{removed, made} {
			select {
			case <-ch:
			case <-time.After(3 * time.Second):
				return "fail:an operation on the handler table did not return"
			}
		}
		deadline := time.Now().Add(2 * time.Second)
		for (atomic.LoadInt64(&cB) == 0 || atomic.LoadInt64(&cC) == 0) && time.Now().Before(deadline) {
			time.Sleep(200 * time.Microsecond)
		}
		time.Sleep(time.Millisecond)
		if n := atomic.LoadInt64(&cC); n != 1 {
			return fmt.Sprintf("fail:the close callback of a handler registered before the loss ran %d times", n)
		}
		if n := atomic.LoadInt64(&cB); n != 1 {
			return fmt.Sprintf("fail:the close callback of the handler registered during the shutdown ran %d times", n)
		}
		select {
		case _, ok := <-qb:
			if ok {
				return "fail:message after the close"
			}
		case <-time.After(time.Second):
			return "fail:the queue of the handler registered during the shutdown is not closed"
		}
	}
	return "ok"
}

func init() {
	children["ep.makelate"] = childEpMakeLate
	executors["ep.makelate"] = func(a []string) string {
		out := runChild("ep.makelate", strings.Join(a, " "), 60*time.Second, 0)
		if out.Result != "ok" {
			lastFailDetail = out.Stderr
		}
		if out.Result == "crash" || out.Result == "crash-noresult" {
			return "crash"
		}
		return out.Result
	}
	children["ep.removebusy"] = childEpRemoveBusy
	executors["ep.removebusy"] = func(a []string) string {
		out := runChild("ep.removebusy", strings.Join(a, " "), 30*time.Second, 0)
		if out.Result != "ok" {
			lastFailDetail = out.Stderr
		}
		if out.Result == "crash" || out.Result == "crash-noresult" {
			return "crash"
		}
		return out.Result
	}
	for _, op := range []string{"reset", "make", "remove", "msg", "sync", "drain", "close", "peerclose", "final"} {
		executors["ep."+op] = execEp(op)
	}
	executors["ep.race"] = func(a []string) string {
		out := runChild("ep.race", strings.Join(a, " "), 60*time.Second, 0)
		if out.Result != "ok" {
			lastFailDetail = out.Stderr
		}
		if out.Result == "crash" || out.Result == "crash-noresult" {
			return "crash"
		}
		return out.Result
	}
	children["ep.race"] = childEpRace
	executors["ep.closebusy"] = epCloseBusy
	runners["C17"] = runC17
}

const sentinelMod, sentinelRes = 1000003, 999999

func runC17(r *Rand, tier string, o *Out) {
	seqs := 60
	if tier == "thorough" {
		seqs = 600
	}
	msgID := uint32(100)
	// a removal by the owner while the shutdown is telling the handlers
	if out := o.Do("P", "ep.shutdownrace 20000 3", true); out != "ok" {
		o.Fail("a handler removed during the shutdown: "+strings.SplitN(strings.TrimPrefix(out, "fail:"), " ", 2)[0], "ep.shutdownrace 20000 3 => "+out)
	}
	o.Count("scenario:removal-during-the-shutdown")
	for s := 0; s < seqs; s++ {
		if r.Chance(30) {
			o.Do("P", "ep.reset close-reports-an-error", false)
			o.Count("stream:close-reports-an-error")
		} else {
			o.Do("P", "ep.reset", false)
		}
		o.Do("P", fmt.Sprintf("ep.make %d %d 0 64", sentinelMod, sentinelRes), false) // the sentinel: slot 0, uid 0
		type dropH struct{ mod, res, id uint32 }
		var drops []dropH // handlers that remove themselves on a message id
		var slots []int
		var removed []int
		closed := false
		n := 8 + r.Intn(30)
		sendMsg := func(action, id uint32, call bool) {
			c := 0
			if call {
				c = 1
			}
			if o.Do("P", fmt.Sprintf("ep.msg %d %d %d", action, id, c), true) != "sent" {
				return
			}
			// sentinel: when it arrives, the message before it has been dispatched
			msgID++
			if o.Do("P", fmt.Sprintf("ep.msg %d %d 0", sentinelRes, msgID, ), false) == "sent" {
				o.Do("P", "ep.sync", false)
			}
		}
		if r.Chance(25) {
			// a crowded table: more handlers than the ten slots it starts with, then most of the early ones leave:
			// the handlers that stay live in the slots that were appended
			m := 10 + r.Intn(6)
			for j := 0; j < m; j++ {
				mod := uint32(1 + r.Intn(3))
				out := o.Do("P", fmt.Sprintf("ep.make %d %d 0 %d", mod, r.Intn(int(mod)), 2+r.Intn(3)), true)
				if sl, err := strconv.Atoi(out); err == nil {
					slots = append(slots, sl)
				}
			}
			for j := 0; j < 9 && j < len(slots); j++ {
				if r.Chance(85) {
					o.Do("P", fmt.Sprintf("ep.remove %d", slots[j]), true)
					removed = append(removed, slots[j])
				}
			}
			o.Count("table:more-than-ten-handlers")
		}
		for i := 0; i < n; i++ {
			k := r.Intn(100)
			switch {
			case k < 22:
				mod := uint32(1 + r.Intn(3))
				res := uint32(r.Intn(int(mod)))
				drop := uint32(0)
				if r.Chance(35) {
					drop = 200 + uint32(r.Intn(6)) // the filter removes itself on the message with this id
				}
				capa := 1 + r.Intn(3)
				out := o.Do("P", fmt.Sprintf("ep.make %d %d %d %d", mod, res, drop, capa), true)
				if sl, err := strconv.Atoi(out); err == nil {
					slots = append(slots, sl)
				}
				if drop != 0 {
					drops = append(drops, dropH{mod, res, drop})
				}
				o.Count("op:make")
			case k < 34 && len(slots) > 0:
				sl := slots[r.Intn(len(slots))]
				o.Do("P", fmt.Sprintf("ep.remove %d", sl), true)
				removed = append(removed, sl)
				o.Count("op:remove")
			case k < 40:
				o.Do("P", fmt.Sprintf("ep.remove %d", []int{57, 1000, 9, 31, 10, 11, 12, 25, 10, 10}[r.Intn(10)]), true) // 10: the first id past a table that has not grown
				o.Count("op:remove-unknown")
			case k < 46 && len(removed) > 0:
				o.Do("P", fmt.Sprintf("ep.remove %d", removed[r.Intn(len(removed))]), true)
				o.Count("op:remove-again")
			case k < 80 && !closed:
				msgID++
				id := msgID
				action := uint32(r.Intn(7))
				if r.Chance(30) {
					id = 200 + uint32(r.Intn(6))
				}
				if len(drops) > 0 && r.Chance(35) {
					// the message a self-removing handler waits for, selected by that handler — and by whichever
					// other handlers select the same action
					d := drops[r.Intn(len(drops))]
					id = d.id
					action = d.res + d.mod*uint32(r.Intn(3))
					o.Count("op:message-for-a-one-shot-handler")
				}
				sendMsg(action, id, r.Chance(40))
				o.Count("op:message")
			case k < 90 && len(slots) > 0:
				o.Do("P", fmt.Sprintf("ep.drain %d %d", slots[r.Intn(len(slots))], 1+r.Intn(2)), true)
				o.Count("op:drain")
			case k < 94 && !closed:
				if r.Bool() {
					o.Do("P", "ep.close", true)
					o.Count("op:close")
				} else {
					o.Do("P", "ep.peerclose", true)
					o.Count("op:peer-close")
				}
				closed = true
			}
		}
		if !closed {
			o.Do("P", "ep.close", true)
		}
		fin := o.Do("P", "ep.final", true)
		// direct oracle: every handler registered before the shutdown: callback once, queue closed once
		for _, part := range strings.Split(fin, ";") {
			if strings.HasPrefix(part, "u") && !strings.HasSuffix(part, "closer=1,closed=1") && !strings.Contains(part, "late") {
				uid := strings.SplitN(part, ":", 2)[0]
				if epw != nil {
					id, _ := strconv.Atoi(uid[1:])
					if id < len(epw.handlers) && epw.handlers[id].lateOK && !epw.handlers[id].madeAfterClose {
						o.Fail("handler not closed exactly once", part)
					}
				}
			}
		}
	}
	// concurrent mode
	rounds := 150
	if tier == "thorough" {
		rounds = 3000
	}
	for _, g := range []int{4, 12} {
		op := fmt.Sprintf("ep.race %d %d %d", r.Intn(100000), g, rounds)
		res := o.Do("P", op, true)
		o.Count("op:race")
		if res != "ok" {
			o.Fail("endpoint handler race: "+res, op+" => "+res+" "+tail(lastFailDetail, 500))
		}
	}
	// Close in the middle of a dispatch whose error reply waits for a peer that does not read
	for _, calls := range []int{2, 3, 5} {
		op := fmt.Sprintf("ep.closebusy %d", calls)
		if res := o.Do("P", op, true); res != "ok" {
			o.Fail("Close while a reply waits for the peer: "+strings.TrimPrefix(res, "fail:"), op+" => "+res)
		}
		o.Count("op:close-while-a-reply-waits")
	}
	// removal, shutdown or a registration in the middle of a dispatch whose error reply waits for the peer
	for _, c := range [][2]string{{"1", "remove"}, {"0", "remove"}, {"1", "close"}, {"0", "close"}, {"1", "make"}, {"0", "make"}} {
		op := "ep.removebusy " + c[0] + " " + c[1]
		if res := o.Do("P", op, true); res != "ok" {
			o.Fail("handler table changed while a reply waits for the peer: "+strings.TrimPrefix(res, "fail:"), op+" => "+res+" "+tail(lastFailDetail, 400))
		}
		o.Count("op:" + c[1] + "-while-a-reply-waits")
	}
	// a handler asked for while the shutdown waits for the table
	if res := o.Do("P", "ep.makelate 12", true); res != "ok" {
		o.Fail("handler registered during the shutdown: "+strings.TrimPrefix(res, "fail:"), "ep.makelate 12 => "+res+" "+tail(lastFailDetail, 400))
	}
	o.Count("op:make-while-the-shutdown-waits")
	_ = sort.Ints
}

// ---- concurrent mode (child process: a double close or a send on a closed channel is fatal) ----

func childEpRace(a []string) string {
	log.SetOutput(ioutil.Discard)
	seed, _ := strconv.Atoi(a[0])
	g, _ := strconv.Atoi(a[1])
	rounds, _ := strconv.Atoi(a[2])
	rr := NewRand(uint64(seed))
	for round := 0; round < rounds; round++ {
		ca, cb := gonet.Pipe()
		ep := qnet.NewEndPoint(qnet.ConnStream(ca))
		go func() { // peer: drain replies
			var m qnet.Message
			for m.Read(cb) == nil {
			}
		}()
		type rec struct {
			closer   int64
			queue    chan *qnet.Message
			slot     int
			complete int32 // registration returned before Close was called
		}
		var mu sync.Mutex
		var all []*rec
		var closing int32
		var wg sync.WaitGroup
		seeds := make([]uint64, g)
		for i := range seeds {
			seeds[i] = rr.U64()
		}
		for w := 0; w < g; w++ {
			wg.Add(1)
			go func(w int) {
				defer wg.Done()
				lr := NewRand(seeds[w])
				var mine []*rec
				for i := 0; i < 12; i++ {
					switch lr.Intn(5) {
					case 0, 1:
						rc := &rec{queue: make(chan *qnet.Message, 2)}
						drop := uint32(0)
						if lr.Chance(40) {
							drop = uint32(1 + lr.Intn(5))
						}
						mod := uint32(1 + lr.Intn(2))
						wasClosing := atomic.LoadInt32(&closing)
						rc.slot = ep.MakeHandler(func(h *qnet.Header) (bool, bool) {
							return h.Action%mod == 0, !(drop != 0 && h.ID == drop)
						}, rc.queue, func(error) { atomic.AddInt64(&rc.closer, 1) })
						if wasClosing == 0 && atomic.LoadInt32(&closing) == 0 {
							atomic.StoreInt32(&rc.complete, 1)
						}
						mine = append(mine, rc)
						mu.Lock()
						all = append(all, rc)
						mu.Unlock()
					case 2:
						if len(mine) > 0 {
							ep.RemoveHandler(mine[lr.Intn(len(mine))].slot)
						}
					case 3:
						m := qnet.NewMessage(qnet.NewHeader(qnet.Event, 1, 1, uint32(lr.Intn(4)), uint32(lr.Intn(8))), nil)
						cb.SetWriteDeadline(time.Now().Add(50 * time.Millisecond))
						m.Write(cb)
					case 4:
						for _, rc := range mine {
							select {
							case <-rc.queue:
							default:
							}
						}
					}
				}
			}(w)
		}
		// shutdown somewhere in the middle, by either side
		time.Sleep(time.Duration(rr.Intn(300)) * time.Microsecond)
		atomic.StoreInt32(&closing, 1)
		if rr.Bool() {
			ep.Close()
		} else {
			cb.Close()
		}
		wg.Wait()
		ep.Close()
		cb.Close()
		// settle
		deadline := time.Now().Add(2 * time.Second)
		for {
			pending := 0
			mu.Lock()
			for _, rc := range all {
				if atomic.LoadInt32(&rc.complete) == 1 && atomic.LoadInt64(&rc.closer) == 0 {
					pending++
				}
			}
			mu.Unlock()
			if pending == 0 {
				break
			}
			if time.Now().After(deadline) {
				return fmt.Sprintf("fail:%d-handlers-never-closed", pending)
			}
			time.Sleep(100 * time.Microsecond)
		}
		time.Sleep(200 * time.Microsecond)
		for _, rc := range all {
			if c := atomic.LoadInt64(&rc.closer); c > 1 {
				return fmt.Sprintf("fail:closer-ran-%d-times", c)
			}
			if atomic.LoadInt32(&rc.complete) == 1 {
				// the queue must be closed: draining it ends with !ok
				closed := false
				for i := 0; i < 8; i++ {
					select {
					case _, ok := <-rc.queue:
						if !ok {
							closed = true
						}
					default:
					}
					if closed {
						break
					}
				}
				if !closed {
					time.Sleep(time.Millisecond)
					select {
					case _, ok := <-rc.queue:
						closed = !ok
					default:
					}
				}
				if !closed {
					return "fail:queue-not-closed"
				}
			}
		}
	}
	return "ok"
}
