package main

// C04: every call gets exactly one answer — its own — and runs its method exactly once.
//  (a) sv.*  : raw frames of every type to a real server hosting two probe services that count
//              their executions; one frame at a time to quiescence; responses and counters are
//              compared with the dispatcher model of the Lean driver.
//  (b) cl.*  : the real client on the scripted stream of C11, with several clients sharing the
//              endpoint, replies crossing, duplicated and for unknown ids.
//  (c) storm : N goroutines calling an echo method with unique arguments through one proxy,
//              several proxies of a session, Cache proxies sharing one endpoint, and separate
//              connections; every result must be the echo of its own argument and the server
//              must have executed every argument exactly once.

import (
	"bytes"
	"encoding/binary"
	"fmt"
	"io/ioutil"
	"log"
	gonet "net"
	"strconv"
	"strings"
	"sync"
	"sync/atomic"
	"time"

	"github.com/lugu/qiloop/bus"
	dir "github.com/lugu/qiloop/bus/directory"
	qnet "github.com/lugu/qiloop/bus/net"
	"github.com/lugu/qiloop/bus/session"
	"github.com/lugu/qiloop/bus/util"
	"github.com/lugu/qiloop/examples/pong"
	"github.com/lugu/qiloop/type/object"
)

// ---- (a) the server side, exact ---------------------------------------------------------------

// a hand-written object behind the generic object dispatcher: 100 echo, 101 tick (no argument)
type svRaw struct{ execs *int64 }

func (p svRaw) Receive(m *qnet.Message, from bus.Channel) error {
	switch m.Header.Action {
	case 100, 101:
		atomic.AddInt64(p.execs, 1)
		if m.Header.Type == qnet.Post {
			return nil
		}
		if m.Header.Action == 100 {
			return from.SendReply(m, m.Payload)
		}
		return from.SendReply(m, []byte{})
	}
	return from.SendError(m, bus.ErrActionNotFound)
}
func (p svRaw) Activate(bus.Activation) error { return nil }
func (p svRaw) OnTerminate()                  {}

type svWorld struct {
	l      *auListener
	srv    bus.Server
	execs  int64
	conn   *auConn
	nextID uint32
}

var svw *svWorld

func svReset() string {
	log.SetOutput(ioutil.Discard)
	if svw != nil {
		svw.conn.c.Close()
		svw.srv.Terminate()
	}
	w := &svWorld{l: &auListener{ch: make(chan qnet.Stream), closed: make(chan struct{})}, nextID: 1000}
	srv, err := bus.StandAloneServer(w.l, bus.Yes{}, bus.PrivateNamespace())
	if err != nil {
		return "setup-error:" + err.Error()
	}
	w.srv = srv
	var meta object.MetaObject
	meta.Methods = map[uint32]object.MetaMethod{
		100: {Uid: 100, Name: "echo", ReturnSignature: "s", ParametersSignature: "(s)"},
		101: {Uid: 101, Name: "tick", ReturnSignature: "v", ParametersSignature: "()"},
	}
	raw := bus.NewBasicObject(svRaw{&w.execs}, meta, func(string, []byte) error { return nil })
	if _, err := srv.NewService("raw", raw); err != nil {
		return "setup-error:" + err.Error()
	}
	impl := &probeImpl{}
	impl.log = func(string) { atomic.AddInt64(&w.execs, 1) }
	if _, err := srv.NewService("pingpong", pong.PingPongObject(impl)); err != nil {
		return "setup-error:" + err.Error()
	}
	a, b := gonet.Pipe()
	c := &auConn{c: a, frames: make(chan *qnet.Message, 256), eof: make(chan struct{})}
	w.l.ch <- qnet.ConnStream(b)
	go func() {
		defer close(c.eof)
		for {
			m := new(qnet.Message)
			if err := m.Read(a); err != nil {
				return
			}
			c.frames <- m
		}
	}()
	w.conn = c
	svw = w
	// authenticate (Yes accepts anything)
	out := w.frame(qnet.Call, 0, 0, 8, auMap(nil))
	if !strings.HasPrefix(out, "reply") {
		return "setup-error:authenticate:" + out
	}
	return "ok"
}

func (w *svWorld) send(h qnet.Header, p []byte) bool {
	done := make(chan error, 1)
	m := qnet.NewMessage(h, p)
	go func() { done <- m.Write(w.conn.c) }()
	select {
	case err := <-done:
		return err == nil
	case <-time.After(2 * time.Second):
		return false
	}
}

func svErrClass(payload []byte) string {
	if len(payload) < 9 {
		return "unreadable"
	}
	n := binary.LittleEndian.Uint32(payload[5:9])
	if int(n) > len(payload)-9 {
		return "unreadable"
	}
	t := string(payload[9 : 9+n])
	switch {
	case t == "Service not found":
		return "service"
	case t == "Object not found":
		return "object"
	case t == "Action not found":
		return "action"
	case strings.HasPrefix(t, "cannot read"):
		return "args"
	case t == "Not authenticated":
		return "noauth"
	case t == "Wrong object ID":
		return "wrongid"
	}
	return "other:" + t
}

// frame writes one frame, then a call of an unknown action to the same target (always answered,
// and after the frame, by the same goroutine), and reports what came back for the frame
func (w *svWorld) frame(typ uint8, svc, obj, act uint32, payload []byte) string {
	w.nextID += 2
	id, sid := w.nextID, w.nextID+1
	if !w.send(qnet.Header{Magic: 0x42dead42, ID: id, Size: uint32(len(payload)), Type: typ, Service: svc, Object: obj, Action: act}, payload) {
		return "write-failed"
	}
	if !w.send(qnet.Header{Magic: 0x42dead42, ID: sid, Type: qnet.Call, Service: svc, Object: obj, Action: 0xFFFFFF}, nil) {
		return "write-failed"
	}
	var got []string
	deadline := time.After(3 * time.Second)
	for {
		select {
		case m := <-w.conn.frames:
			if m.Header.ID == sid {
				res := "none"
				if len(got) > 0 {
					res = strings.Join(got, "+")
				}
				return fmt.Sprintf("%s execs=%d", res, atomic.LoadInt64(&w.execs))
			}
			if m.Header.ID != id {
				got = append(got, fmt.Sprintf("stray-id-%d", m.Header.ID))
				continue
			}
			switch m.Header.Type {
			case qnet.Reply:
				if act == 2 {
					got = append(got, "reply:meta")
				} else {
					got = append(got, "reply:"+hx(m.Payload))
				}
			case qnet.Error:
				got = append(got, "error:"+svErrClass(m.Payload))
			default:
				got = append(got, fmt.Sprintf("type-%d", m.Header.Type))
			}
			if m.Header.Service != svc || m.Header.Object != obj || m.Header.Action != act {
				got = append(got, "wrong-header")
			}
		case <-w.conn.eof:
			return "closed"
		case <-deadline:
			return "timeout"
		}
	}
}

// ---- (c) storms ------------------------------------------------------------------------------------

type stormImpl struct {
	mu   sync.Mutex
	seen map[string]int
	h    pong.PingPongSignalHelper
	slow time.Duration // every call takes this long: the queues in front of the object fill up
}

func (p *stormImpl) Activate(a bus.Activation, h pong.PingPongSignalHelper) error { p.h = h; return nil }
func (p *stormImpl) OnTerminate()                                              {}
func (p *stormImpl) Hello(a string) (string, error) {
	p.mu.Lock()
	p.seen[a]++
	p.mu.Unlock()
	if p.slow > 0 {
		time.Sleep(p.slow)
	}
	if len(a)%3 == 0 {
		time.Sleep(time.Duration(len(a)%5) * 100 * time.Microsecond) // let replies cross
	}
	return "echo:" + a, nil
}
func (p *stormImpl) Ping(a string) error { return nil }

// c04.storm <mode> <goroutines> <calls each> <seed>
func c04Storm(a []string) string {
	log.SetOutput(ioutil.Discard)
	if len(a) != 4 {
		return "bad-op"
	}
	mode := a[0]
	N, _ := strconv.Atoi(a[1])
	K, _ := strconv.Atoi(a[2])
	addr := util.NewUnixAddr()
	dsrv, err := dir.NewServer(addr, nil)
	if err != nil {
		return "setup-error:" + err.Error()
	}
	defer dsrv.Terminate()
	impl := &stormImpl{seen: map[string]int{}}
	if strings.HasSuffix(mode, "-slow") {
		// a busy object and many callers: more calls in flight than mailbox and handler queue hold; the
		// surplus is refused ("consumer blocked"), every call still gets exactly one outcome
		mode = strings.TrimSuffix(mode, "-slow")
		impl.slow = 2 * time.Millisecond
	}
	if _, err := dsrv.NewService("Storm", pong.PingPongObject(impl)); err != nil {
		return "setup-error:" + err.Error()
	}
	sess, err := session.NewSession(addr)
	if err != nil {
		return "setup-error:" + err.Error()
	}
	defer sess.Terminate()
	time.Sleep(10 * time.Millisecond)
	first, err := sess.Proxy("Storm", 1)
	if err != nil {
		return "setup-error:" + err.Error()
	}
	var cache *bus.Cache
	var serviceID uint32
	if mode == "cache" {
		cache, err = bus.NewCachedSession(addr)
		if err != nil {
			return "setup-error:" + err.Error()
		}
		defer cache.Terminate()
		serviceID = first.ServiceID()
		cache.AddService("Storm", serviceID, *first.MetaObject())
	}
	var extra []bus.Session
	defer func() {
		for _, s := range extra {
			s.Terminate()
		}
	}()
	proxyFor := func(g int) (pong.PingPongProxy, error) {
		switch mode {
		case "same":
			return pong.MakePingPong(sess, first), nil
		case "session":
			p, err := sess.Proxy("Storm", 1)
			if err != nil {
				return nil, err
			}
			return pong.MakePingPong(sess, p), nil
		case "cache":
			p, err := cache.Proxy("Storm", 1)
			if err != nil {
				return nil, err
			}
			return pong.MakePingPong(cache, p), nil
		default: // "conns": one connection per goroutine
			s, err := session.NewSession(addr)
			if err != nil {
				return nil, err
			}
			extra = append(extra, s)
			p, err := s.Proxy("Storm", 1)
			if err != nil {
				return nil, err
			}
			return pong.MakePingPong(s, p), nil
		}
	}
	proxies := make([]pong.PingPongProxy, N)
	for g := range proxies {
		p, err := proxyFor(g)
		if err != nil {
			return "setup-error:proxy:" + err.Error()
		}
		proxies[g] = p
	}
	var wg sync.WaitGroup
	fails := make(chan string, N*K)
	var emu sync.Mutex
	errored := map[string]string{} // argument -> error: a call may fail (the server sheds load), it must not run twice
	total := 0
	start := make(chan struct{})
	for g := 0; g < N; g++ {
		wg.Add(1)
		go func(g int) {
			defer wg.Done()
			<-start
			for k := 0; k < K; k++ {
				pad := (g + k) % 7
				if (g+k)%3 == 0 { // arguments and results of several kilobytes: frames that do not fit one small write
					pad = 4100 + (g*31+k*17)%26000
				}
				if (g+k)%11 == 5 { // and a few beyond 64 KiB
					pad = 66000 + (g*13+k*7)%9000
				}
				arg := fmt.Sprintf("g%d-k%d-%s", g, k, strings.Repeat("x", pad))
				got, err := proxies[g].Hello(arg)
				emu.Lock()
				total++
				emu.Unlock()
				if err != nil {
					emu.Lock()
					errored[arg] = err.Error()
					emu.Unlock()
					continue
				}
				if got != "echo:"+arg {
					fails <- fmt.Sprintf("caller of %q received %q", arg, got)
					return
				}
			}
		}(g)
	}
	close(start)
	done := make(chan struct{})
	go func() { wg.Wait(); close(done) }()
	select {
	case <-done:
	case <-time.After(60 * time.Second):
		return "fail:hang"
	}
	close(fails)
	for f := range fails {
		return "fail:" + f
	}
	time.Sleep(20 * time.Millisecond)
	impl.mu.Lock()
	defer impl.mu.Unlock()
	for arg, n := range impl.seen {
		if n != 1 {
			return fmt.Sprintf("fail:the method ran %d times for %q", n, arg)
		}
	}
	ok := total - len(errored)
	for arg, e := range errored {
		if !strings.Contains(e, "consumer blocked") {
			return "fail:unexpected error for " + arg + ": " + e
		}
		if impl.seen[arg] != 0 {
			return fmt.Sprintf("fail:the call of %q returned an error but its method ran", arg)
		}
	}
	if len(impl.seen) != ok {
		return fmt.Sprintf("fail:server executed %d distinct arguments, %d calls succeeded", len(impl.seen), ok)
	}
	lastStormShed = len(errored)
	return "ok"
}

var lastStormShed int

// ---- (d) a caller that leaves in the middle of its call ---------------------------------------------

type abandonImpl struct {
	mu      sync.Mutex
	seen    map[string]int
	entered chan struct{}
	gate    chan struct{}
}

func (p *abandonImpl) Activate(a bus.Activation, h pong.PingPongSignalHelper) error { return nil }
func (p *abandonImpl) OnTerminate()                                              {}
func (p *abandonImpl) Hello(a string) (string, error) {
	p.mu.Lock()
	p.seen[a]++
	p.mu.Unlock()
	if a == "slow" {
		close(p.entered)
		<-p.gate
	}
	return "echo:" + a, nil
}
func (p *abandonImpl) Ping(a string) error { return nil }

// sv.abandon <calls>: a client calls a method that takes its time and closes its connection before the
// method returns: the answer cannot be written.  The calls of another client, on another connection, to the
// same object still run once each and get their own answer.
func svAbandon(a []string) string {
	log.SetOutput(ioutil.Discard)
	calls, _ := strconv.Atoi(a[0])
	l := &auListener{ch: make(chan qnet.Stream), closed: make(chan struct{})}
	srv, err := bus.StandAloneServer(l, bus.Yes{}, bus.PrivateNamespace())
	if err != nil {
		return "setup-error:" + err.Error()
	}
	defer srv.Terminate()
	impl := &abandonImpl{seen: map[string]int{}, entered: make(chan struct{}), gate: make(chan struct{})}
	if _, err := srv.NewService("PingPong", pong.PingPongObject(impl)); err != nil {
		return "setup-error:" + err.Error()
	}
	connect := func() (qnet.EndPoint, bus.Client, error) {
		x, y := gonet.Pipe()
		l.ch <- qnet.ConnStream(y)
		ep := qnet.NewEndPoint(qnet.ConnStream(x))
		if err := bus.AuthenticateUser(ep, "", ""); err != nil {
			return nil, nil, err
		}
		return ep, bus.NewClient(bus.NewContext(ep)), nil
	}
	epA, clA, err := connect()
	if err != nil {
		return "setup-error:" + err.Error()
	}
	epB, clB, err := connect()
	if err != nil {
		return "setup-error:" + err.Error()
	}
	defer epB.Close()
	meta, err := bus.GetMetaObject(clB, 1, 1)
	if err != nil {
		return "setup-error:" + err.Error()
	}
	hello, _, err := meta.MethodID("hello", "(s)")
	if err != nil {
		return "setup-error:" + err.Error()
	}
	go clA.Call(nil, 1, 1, hello, svString("slow"))
	select {
	case <-impl.entered:
	case <-time.After(3 * time.Second):
		return "setup-error:the slow call did not start"
	}
	epA.Close()
	time.Sleep(5 * time.Millisecond)
	close(impl.gate) // the method returns; its answer has nowhere to go
	type res struct {
		arg, out string
		err      error
	}
	results := make(chan res, calls)
	for i := 0; i < calls; i++ {
		arg := fmt.Sprintf("b%d", i)
		go func() {
			p, err := clB.Call(nil, 1, 1, hello, svString(arg))
			out := ""
			if err == nil && len(p) >= 4 {
				out = string(p[4:])
			}
			results <- res{arg, out, err}
		}()
	}
	for i := 0; i < calls; i++ {
		select {
		case r := <-results:
			if r.err != nil {
				return "fail:call " + r.arg + ": " + r.err.Error()
			}
			if r.out != "echo:"+r.arg {
				return "fail:call " + r.arg + " answered " + r.out
			}
		case <-time.After(4 * time.Second):
			return fmt.Sprintf("fail:%d of %d calls made after another client left in the middle of its call have no outcome", calls-i, calls)
		}
	}
	impl.mu.Lock()
	defer impl.mu.Unlock()
	for i := 0; i < calls; i++ {
		if n := impl.seen[fmt.Sprintf("b%d", i)]; n != 1 {
			return fmt.Sprintf("fail:call b%d ran %d times", i, n)
		}
	}
	return "ok"
}

// sv.closepending <calls>: a client has several calls in flight (the first keeps the object busy, the others wait
// behind it) and closes its own end of the connection: every one of those calls returns, once, with an error.
func svClosePending(a []string) string {
	log.SetOutput(ioutil.Discard)
	calls, _ := strconv.Atoi(a[0])
	l := &auListener{ch: make(chan qnet.Stream), closed: make(chan struct{})}
	srv, err := bus.StandAloneServer(l, bus.Yes{}, bus.PrivateNamespace())
	if err != nil {
		return "setup-error:" + err.Error()
	}
	defer srv.Terminate()
	impl := &abandonImpl{seen: map[string]int{}, entered: make(chan struct{}), gate: make(chan struct{})}
	defer close(impl.gate)
	if _, err := srv.NewService("PingPong", pong.PingPongObject(impl)); err != nil {
		return "setup-error:" + err.Error()
	}
	x, y := gonet.Pipe()
	l.ch <- qnet.ConnStream(y)
	ep := qnet.NewEndPoint(qnet.ConnStream(x))
	if err := bus.AuthenticateUser(ep, "", ""); err != nil {
		return "setup-error:" + err.Error()
	}
	cl := bus.NewClient(bus.NewContext(ep))
	meta, err := bus.GetMetaObject(cl, 1, 1)
	if err != nil {
		return "setup-error:" + err.Error()
	}
	hello, _, err := meta.MethodID("hello", "(s)")
	if err != nil {
		return "setup-error:" + err.Error()
	}
	results := make(chan error, 2*calls+2)
	go func() { _, err := cl.Call(nil, 1, 1, hello, svString("slow")); results <- err }()
	select {
	case <-impl.entered:
	case <-time.After(3 * time.Second):
		return "setup-error:the slow call did not start"
	}
	for i := 1; i < calls; i++ {
		arg := fmt.Sprintf("w%d", i)
		go func() { _, err := cl.Call(nil, 1, 1, hello, svString(arg)); results <- err }()
	}
	time.Sleep(10 * time.Millisecond)
	ep.Close()
	for i := 0; i < calls; i++ {
		select {
		case err := <-results:
			if err == nil {
				return "fail:a call whose connection was closed before its answer returned no error"
			}
		case <-time.After(4 * time.Second):
			return fmt.Sprintf("fail:%d of %d calls in flight when their client closed the connection have no outcome", calls-i, calls)
		}
	}
	select {
	case <-results:
		return "fail:a call returned twice"
	case <-time.After(30 * time.Millisecond):
	}
	return "ok"
}

// sv.bigreply: a method whose result is a string of a legal size whose message is larger than a message may be (the
// four bytes of the length push it over): the method runs once and the call returns — with an error, the answer cannot be
// delivered — and the calls of another client to the same object are answered as ever.
func svBigReply(a []string) string {
	log.SetOutput(ioutil.Discard)
	l := &auListener{ch: make(chan qnet.Stream), closed: make(chan struct{})}
	srv, err := bus.StandAloneServer(l, bus.Yes{}, bus.PrivateNamespace())
	if err != nil {
		return "setup-error:" + err.Error()
	}
	defer func() {
		done := make(chan struct{})
		go func() { srv.Terminate(); close(done) }()
		select {
		case <-done:
		case <-time.After(3 * time.Second):
		}
	}()
	impl := &abandonImpl{seen: map[string]int{}, entered: make(chan struct{}), gate: make(chan struct{})}
	if _, err := srv.NewService("PingPong", pong.PingPongObject(impl)); err != nil {
		return "setup-error:" + err.Error()
	}
	connect := func() (qnet.EndPoint, bus.Client, error) {
		x, y := gonet.Pipe()
		l.ch <- qnet.ConnStream(y)
		ep := qnet.NewEndPoint(qnet.ConnStream(x))
		if err := bus.AuthenticateUser(ep, "", ""); err != nil {
			return nil, nil, err
		}
		return ep, bus.NewClient(bus.NewContext(ep)), nil
	}
	epA, clA, err := connect()
	if err != nil {
		return "setup-error:" + err.Error()
	}
	defer epA.Close()
	epB, clB, err := connect()
	if err != nil {
		return "setup-error:" + err.Error()
	}
	defer epB.Close()
	meta, err := bus.GetMetaObject(clB, 1, 1)
	if err != nil {
		return "setup-error:" + err.Error()
	}
	hello, _, err := meta.MethodID("hello", "(s)")
	if err != nil {
		return "setup-error:" + err.Error()
	}
	// "echo:" + arg is a string of MaxStringSize-3 bytes: legal; its message has MaxPayloadSize+1 bytes
	arg := strings.Repeat("x", int(qnet.MaxPayloadSize)-8)
	out := make(chan error, 1)
	go func() { _, err := clA.Call(nil, 1, 1, hello, svString(arg)); out <- err }()
	select {
	case err := <-out:
		if err == nil {
			return "fail:a result larger than a message may be is delivered"
		}
	case <-time.After(8 * time.Second):
		impl.mu.Lock()
		n := impl.seen[arg]
		impl.mu.Unlock()
		return fmt.Sprintf("fail:the method ran %d times and the call has no outcome", n)
	}
	impl.mu.Lock()
	n := impl.seen[arg]
	impl.mu.Unlock()
	if n != 1 {
		return fmt.Sprintf("fail:the method ran %d times", n)
	}
	p, err := clB.Call(nil, 1, 1, hello, svString("after"))
	if err != nil || len(p) < 4 || string(p[4:]) != "echo:after" {
		return fmt.Sprintf("fail:the call of another client after it: %v", err)
	}
	return "ok"
}

func init() {
	executors["sv.bigreply"] = func(a []string) string {
		r := svBigReply(a)
		if r != "ok" {
			lastFailDetail = r
		}
		return r
	}
	executors["sv.closepending"] = func(a []string) string {
		r := svClosePending(a)
		if r != "ok" {
			lastFailDetail = r
		}
		return r
	}
	executors["sv.abandon"] = func(a []string) string {
		r := svAbandon(a)
		if r != "ok" {
			lastFailDetail = r
		}
		return r
	}
	executors["sv.reset"] = func(a []string) string { return svReset() }
	executors["sv.frame"] = func(a []string) string {
		u := func(i int) uint32 { v, _ := strconv.ParseUint(a[i], 10, 32); return uint32(v) }
		return svw.frame(uint8(u(0)), u(1), u(2), u(3), unhx(a[4]))
	}
	executors["c04.storm"] = func(a []string) string {
		r := c04Storm(a)
		if r != "ok" {
			lastFailDetail = r
		}
		return r
	}
	runners["C04"] = runC04
}

func svString(s string) []byte {
	var b bytes.Buffer
	binary.Write(&b, binary.LittleEndian, uint32(len(s)))
	b.WriteString(s)
	return b.Bytes()
}

func runC04(r *Rand, tier string, o *Out) {
	// (a) server side
	rounds := 30
	if tier == "thorough" {
		rounds = 300
	}
	for s := 0; s < rounds; s++ {
		o.Do("P", "sv.reset", false)
		// an instrumented object answers through a wrapped channel: statistics or traces switched on
		switch r.Intn(4) {
		case 0:
			o.Do("P", "sv.frame 1 2 1 81 01", true)
			o.Count("round:statistics-enabled")
		case 1:
			o.Do("P", "sv.frame 1 2 1 85 01", true)
			o.Count("round:traces-enabled")
		}
		for i := 0; i < 25; i++ {
			typ := r.Pick(1, 1, 1, 4, 4, 6, 7, 7, 2, 3, 5, 8)
			svc := r.Pick(1, 1, 1, 2, 2, 2, 3, 9)
			obj := r.Pick(1, 1, 1, 1, 1, 0, 5)
			act := r.Pick(100, 100, 100, 101, 101, 2, 102, 7777)
			var p []byte
			switch r.Intn(6) {
			case 0:
				p = nil
			case 1, 2, 3:
				p = svString(fmt.Sprintf("a%d", r.Intn(1000)))
			case 4:
				p = svString("hello")[:r.Intn(9)] // truncated
			default:
				p = r.Bytes(r.Intn(12))
			}
			if act == 2 && r.Chance(60) {
				p = []byte{1, 0, 0, 0} // metaObject(objectID = 1)
			}
			if len(p) >= 4 && binary.LittleEndian.Uint32(p) > 1<<20 {
				p[3], p[2] = 0, 0 // keep length fields small: hostile sizes are C07's subject
			}
			out := o.Do("P", fmt.Sprintf("sv.frame %d %d %d %d %s", typ, svc, obj, act, hx(p)), true)
			o.Count(fmt.Sprintf("type:%d", typ))
			o.Count("answer:" + strings.SplitN(strings.SplitN(out, " ", 2)[0], ":", 2)[0])
		}
	}
	// the witness of the repaired defect: a zero-argument method, then cancel and capability frames for it
	for _, l := range []string{"sv.reset", "sv.frame 1 1 1 101 -", "sv.frame 7 1 1 101 -", "sv.frame 6 1 1 101 -", "sv.frame 4 1 1 101 -", "sv.frame 7 2 1 100 0100000061"} {
		o.Do("P", l, true)
	}
	// a caller that leaves in the middle of its call; then the calls of another client to the same object
	for _, n := range []int{1, 4, 12} {
		op := fmt.Sprintf("sv.abandon %d", n)
		if out := o.Do("P", op, true); out != "ok" {
			o.Fail("calls after another client left in the middle of its call: "+strings.SplitN(strings.TrimPrefix(out, "fail:"), ":", 2)[0], op+" => "+out)
		}
		o.Count("scenario:caller-leaves-in-the-middle")
	}
	// a saturated connection: a post and a cancel behind refused calls
	for i := 0; i < 2; i++ {
		if out := o.Do("P", "sv.saturate", true); out != "ok" {
			o.Fail("a saturated connection: "+strings.SplitN(strings.TrimPrefix(out, "fail:"), " ", 2)[0], "sv.saturate => "+out)
		}
		o.Count("scenario:saturated-connection")
	}
	// a result that does not fit into a message
	if out := o.Do("P", "sv.bigreply", true); out != "ok" {
		o.Fail("a call whose result does not fit into a message: "+strings.SplitN(strings.TrimPrefix(out, "fail:"), ":", 2)[0], "sv.bigreply => "+out)
	}
	o.Count("scenario:result-larger-than-a-message")
	// a caller that closes its own end while its calls are in flight: each of them returns once
	for _, n := range []int{1, 3, 9} {
		op := fmt.Sprintf("sv.closepending %d", n)
		if out := o.Do("P", op, true); out != "ok" {
			o.Fail("calls in flight when their client closes the connection: "+strings.SplitN(strings.TrimPrefix(out, "fail:"), ":", 2)[0], op+" => "+out)
		}
		o.Count("scenario:caller-closes-with-calls-in-flight")
	}
	// the handler slots of a shared client: a cancelled call whose answer crosses its cancel message, next to a call of
	// another caller; overlapping calls after a handler was removed twice
	for _, op := range []string{"c04.cancelcross", "c04.staleremove", "c04.cancelcross"} {
		if out := o.Do("P", op, true); out != "ok" {
			o.Fail("calls that share a client: "+strings.SplitN(strings.TrimPrefix(out, "fail:"), ":", 2)[0], op+" => "+out)
		}
		o.Count("scenario:handler-slots-of-a-shared-client")
	}
	// a full mailbox, two more connections waiting to queue, and the object adds a child to its service
	if out := o.Do("P", "sv.spawnfull", true); out != "ok" {
		o.Fail("a full mailbox while the object adds a child: "+strings.SplitN(strings.TrimPrefix(out, "fail:"), " ", 2)[0], "sv.spawnfull => "+out)
	}
	o.Count("scenario:full-mailbox-and-a-child-added")
	// calls the server forwards to an object hosted by a client, which answers late and in its own order
	lends := [][4]int{{1, 6, 1, 1}, {4, 6, 1, 4}, {8, 5, 2, 3}, {6, 8, 3, 16}}
	if tier == "thorough" {
		lends = append(lends, [][4]int{{16, 20, 2, 8}, {32, 10, 4, 5}, {8, 60, 1, 2}}...)
	}
	for _, c := range lends {
		op := fmt.Sprintf("c04.lend %d %d %d %d %d", c[0], c[1], c[2], c[3], r.U64()>>1)
		if out := o.Do("P", op, true); out != "ok" {
			o.Fail("calls forwarded to an object hosted by a client: "+strings.SplitN(strings.TrimPrefix(out, "fail:"), ":", 2)[0], op+" => "+out)
		}
		o.Count("scenario:forwarded-calls")
	}
	// (b) client side: several clients on one endpoint, crossing, duplicated and unknown replies
	scripts := 150
	if tier == "thorough" {
		scripts = 1500
	}
	for s := 0; s < scripts; s++ {
		o.Do("P", "cl.reset", false)
		nclients := 1 + r.Intn(3)
		for c := 1; c < nclients; c++ {
			o.Do("P", "cl.client", false)
		}
		var phase []string
		steps := 8 + r.Intn(20)
		for i := 0; i < steps; i++ {
			pick := func(ph string) int {
				var cs []int
				for c, p := range phase {
					if p == ph {
						cs = append(cs, c)
					}
				}
				if len(cs) == 0 {
					return -1
				}
				return cs[r.Intn(len(cs))]
			}
			switch k := r.Intn(100); {
			case k < 30 && len(phase) < 8:
				if o.Do("P", fmt.Sprintf("cl.call %d", r.Intn(nclients)), true) == "writing" {
					phase = append(phase, "writing")
				} else {
					phase = append(phase, "done")
				}
				o.Count("client:call")
			case k < 50:
				if c := pick("writing"); c >= 0 {
					o.Do("P", fmt.Sprintf("cl.wok %d", c), true)
					phase[c] = "waiting"
				}
			case k < 80:
				// a reply: to a waiting call (in any order), to a call still inside Send, or a duplicate
				c := pick("waiting")
				if r.Chance(20) {
					c = pick("writing")
				}
				if r.Chance(15) {
					c = pick("done")
					o.Count("client:duplicate-reply")
				}
				if c >= 0 {
					o.Do("P", fmt.Sprintf("cl.reply %d", c), true)
					if phase[c] == "waiting" {
						phase[c] = "done"
						o.Do("P", fmt.Sprintf("cl.out %d", c), true)
					}
					o.Count("client:reply")
				}
			case k < 86:
				o.Do("P", fmt.Sprintf("cl.replyid %d", 2*r.Intn(50)), true) // an id no call uses
				o.Count("client:reply-unknown-id")
			default:
				if c := pick("waiting"); c >= 0 {
					o.Do("P", fmt.Sprintf("cl.peek %d", c), true)
				}
			}
		}
		// answer everything that is still open, in random order
		for {
			c := -1
			for j, p := range phase {
				if p == "writing" {
					o.Do("P", fmt.Sprintf("cl.wok %d", j), true)
					phase[j] = "waiting"
				}
			}
			var open []int
			for j, p := range phase {
				if p == "waiting" {
					open = append(open, j)
				}
			}
			if len(open) == 0 {
				break
			}
			c = open[r.Intn(len(open))]
			o.Do("P", fmt.Sprintf("cl.reply %d", c), true)
			phase[c] = "done"
		}
		for j := range phase {
			o.Do("P", fmt.Sprintf("cl.out %d", j), true)
		}
		o.Do("P", "cl.close", false)
	}
	// (c) storms
	cases := [][3]interface{}{{"same", 8, 20}, {"session", 8, 20}, {"cache", 8, 20}, {"conns", 6, 10}, {"cache", 2, 50}, {"same", 16, 10},
		{"same-slow", 48, 4}, {"conns-slow", 24, 3}}
	if tier == "thorough" {
		cases = append(cases, [][3]interface{}{{"cache", 16, 40}, {"session", 16, 40}, {"same", 32, 20}, {"conns", 12, 20}, {"cache", 4, 200}, {"cache", 32, 10}}...)
	}
	for _, c := range cases {
		line := fmt.Sprintf("c04.storm %s %d %d %d", c[0], c[1], c[2], r.U64()>>1)
		if out := o.Do("P", line, true); out != "ok" {
			cls := strings.SplitN(strings.TrimPrefix(out, "fail:"), " ", 2)[0]
			o.Fail("concurrent calls: "+cls, line+" => "+out)
		}
		o.Count("storm:" + c[0].(string))
		o.Counters["storm-calls-refused-by-a-full-queue"] += lastStormShed
	}
}
