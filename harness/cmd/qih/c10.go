package main

// C10: concurrent senders on one endpoint.  N goroutines each Send K messages through the
// same sending endpoint; a receiving endpoint with four handlers decodes the stream.  The
// oracle checks every message intact, exactly once, per-sender order kept, every Write call
// of the sender a whole message; the observed arrival order and what each handler received
// go to the model (`c10.order`), which accepts it iff it is an interleaving and computes
// the handlers' sequences with the table machine of Model/Endpoint.lean.

import (
	"sync/atomic"
	"bytes"
	"fmt"
	"io/ioutil"
	"log"
	gonet "net"
	"os"
	"path/filepath"
	"strconv"
	"strings"
	"sync"
	"time"

	qnet "github.com/lugu/qiloop/bus/net"
)

// the handlers' filters: action % mod == res; the catch-all comes last, so that when it
// holds a message every other handler has been offered that message already
var c10Filters = [][2]uint32{{2, 0}, {3, 1}, {5, 4}, {1, 0}}

func c10Action(s, i int) uint32 { return uint32((s*7 + i*3) % 11) }

func c10Payload(id uint32, size int) []byte {
	b := make([]byte, size)
	for j := range b {
		b[j] = byte(int(id)*31 + j*7 + (j >> 8))
	}
	return b
}

// sizes: mostly small, some around the buffer sizes of the transports, a few large enough
// that one Write needs several system calls
func c10Size(r *Rand, big bool) int {
	switch k := r.Intn(100); {
	case k < 15:
		return 0
	case k < 60:
		return 1 + r.Intn(64)
	case k < 85:
		return 500 + r.Intn(4000)
	case k < 96 || !big:
		return 60000 + r.Intn(10000)
	default:
		return 250000 + r.Intn(100000)
	}
}

// recStream records every Write call of the sending endpoint
type recStream struct {
	qnet.Stream
	mu     sync.Mutex
	writes [][]byte
}

func (s *recStream) Write(p []byte) (int, error) {
	c := append([]byte(nil), p...)
	s.mu.Lock()
	s.writes = append(s.writes, c)
	s.mu.Unlock()
	return s.Stream.Write(p)
}

type c10Result struct {
	order []uint32
	recv  [][]uint32
	err   string
}

func c10Scenario(transport string, N, K int, seed uint64, record bool) (res c10Result) {
	log.SetOutput(ioutil.Discard)
	r := NewRand(seed)
	fail := func(f string, a ...interface{}) c10Result {
		res.err = "fail:" + fmt.Sprintf(f, a...)
		return res
	}
	total := N * K
	// the receiving side
	var recvEP qnet.EndPoint
	var sendStream qnet.Stream
	var sendEP qnet.EndPoint
	queues := make([]chan *qnet.Message, len(c10Filters))
	register := func(e qnet.EndPoint) {
		for i, f := range c10Filters {
			mod, rs := f[0], f[1]
			queues[i] = make(chan *qnet.Message, total+8)
			e.MakeHandler(func(h *qnet.Header) (bool, bool) { return h.Action%mod == rs, true }, queues[i], func(error) {})
		}
	}
	var cleanup []func()
	defer func() {
		for _, c := range cleanup {
			c()
		}
	}()
	switch transport {
	case "mem":
		a, b := gonet.Pipe()
		recvEP = qnet.EndPointFinalizer(qnet.ConnStream(a), register)
		sendStream = qnet.ConnStream(b)
	case "qpipe":
		// the package's own in-memory pair of end points (net.Pipe of bus/net)
		a, b := qnet.Pipe()
		register(a)
		recvEP, sendEP = a, b
		record = false
	default:
		var addr string
		switch transport {
		case "unix", "pipe":
			dir, err := ioutil.TempDir("", "c10")
			if err != nil {
				return fail("tempdir %v", err)
			}
			cleanup = append(cleanup, func() { os.RemoveAll(dir) })
			addr = transport + "://" + filepath.Join(dir, "s")
		case "tcp", "tcps":
			l, err := gonet.Listen("tcp", "127.0.0.1:0")
			if err != nil {
				return fail("listen %v", err)
			}
			port := l.Addr().(*gonet.TCPAddr).Port
			l.Close()
			addr = fmt.Sprintf("%s://127.0.0.1:%d", transport, port)
		default:
			return fail("unknown transport")
		}
		l, err := qnet.Listen(addr)
		if err != nil {
			return fail("listen %s: %v", addr, err)
		}
		cleanup = append(cleanup, func() { l.Close() })
		accepted := make(chan error, 1)
		go func() {
			s, err := l.Accept()
			if err == nil {
				recvEP = qnet.EndPointFinalizer(s, register)
			}
			accepted <- err
		}()
		if record && (transport == "unix" || transport == "tcp") {
			c, err := gonet.Dial(transport, strings.TrimPrefix(addr, transport+"://"))
			if err != nil {
				return fail("dial %v", err)
			}
			sendStream = qnet.ConnStream(c)
		} else {
			record = false
			sendEP, err = qnet.DialEndPoint(addr)
			if err != nil {
				return fail("dial %s: %v", addr, err)
			}
		}
		select {
		case err := <-accepted:
			if err != nil {
				return fail("accept %v", err)
			}
		case <-time.After(10 * time.Second):
			return fail("accept timeout")
		}
	}
	var rec *recStream
	if sendEP == nil {
		if record {
			rec = &recStream{Stream: sendStream}
			sendStream = rec
		}
		sendEP = qnet.NewEndPoint(sendStream)
	}
	cleanup = append(cleanup, func() { sendEP.Close(); recvEP.Close() })

	// the messages
	sizes := make([]int, total+1)
	for id := 1; id <= total; id++ {
		sizes[id] = c10Size(r, transport != "mem")
		if transport == "qpipe" && id%3 == 0 {
			sizes[id] = 20000 + r.Intn(60000) // several senders' frames add up to more than any buffer in between
		}
	}
	var wg sync.WaitGroup
	start := make(chan struct{})
	sendErr := make(chan error, N)
	for s := 0; s < N; s++ {
		wg.Add(1)
		go func(s int) {
			defer wg.Done()
			<-start
			for i := 0; i < K; i++ {
				id := uint32(s*K + i + 1)
				p := c10Payload(id, sizes[id])
				h := qnet.NewHeader(c10Type(id), uint32(s), uint32(i), c10Action(s, i), id)
				h.Flags = c10Flags(id)
				m := qnet.NewMessage(h, p)
				if err := sendEP.Send(m); err != nil {
					sendErr <- fmt.Errorf("sender %d message %d: %v", s, i, err)
					return
				}
			}
		}(s)
	}
	close(start)
	// the catch-all handler's queue gives the arrival order
	all := queues[len(queues)-1]
	seen := make([]bool, total+1)
	deadline := time.After(40 * time.Second)
	for len(res.order) < total {
		select {
		case m, ok := <-all:
			if !ok {
				return fail("stream broke after %d of %d messages (corrupt frame?)", len(res.order), total)
			}
			h := m.Header
			id := h.ID
			if id < 1 || int(id) > total {
				return fail("message with unknown id %d", id)
			}
			s, i := int(id-1)/K, int(id-1)%K
			if h.Type != c10Type(id) || h.Service != uint32(s) || h.Object != uint32(i) || h.Action != c10Action(s, i) || h.Flags != c10Flags(id) {
				return fail("header of message %d damaged: %v", id, h)
			}
			if !bytes.Equal(m.Payload, c10Payload(id, sizes[id])) {
				return fail("payload of message %d damaged (%d bytes, want %d)", id, len(m.Payload), sizes[id])
			}
			if seen[id] {
				return fail("message %d delivered twice", id)
			}
			seen[id] = true
			res.order = append(res.order, id)
		case err := <-sendErr:
			return fail("%v", err)
		case <-deadline:
			return fail("timeout: %d of %d messages arrived", len(res.order), total)
		}
	}
	wg.Wait()
	// per-sender order
	next := make([]int, N)
	for _, id := range res.order {
		s, i := int(id-1)/K, int(id-1)%K
		if next[s] != i {
			return fail("sender %d: message %d arrived before message %d", s, i, next[s])
		}
		next[s]++
	}
	// what the handlers received
	res.recv = make([][]uint32, len(queues))
	res.recv[len(queues)-1] = res.order
	for q := 0; q < len(queues)-1; q++ {
	drain:
		for {
			select {
			case m := <-queues[q]:
				res.recv[q] = append(res.recv[q], m.Header.ID)
			default:
				break drain
			}
		}
		var want []uint32
		for _, id := range res.order {
			s, i := int(id-1)/K, int(id-1)%K
			if c10Action(s, i)%c10Filters[q][0] == c10Filters[q][1] {
				want = append(want, id)
			}
		}
		if fmt.Sprint(want) != fmt.Sprint(res.recv[q]) {
			return fail("handler %d received %v, the arrival order selects %v", q, res.recv[q], want)
		}
	}
	select {
	case m := <-all:
		return fail("extra message %v", m.Header)
	case <-time.After(time.Millisecond):
	}
	// every Write call of the sender is one whole message
	if rec != nil {
		rec.mu.Lock()
		defer rec.mu.Unlock()
		if len(rec.writes) != total {
			return fail("%d messages sent with %d Write calls", total, len(rec.writes))
		}
		for _, w := range rec.writes {
			if len(w) < 28 {
				return fail("a Write call of %d bytes", len(w))
			}
			id := uint32(w[4]) | uint32(w[5])<<8 | uint32(w[6])<<16 | uint32(w[7])<<24
			if id < 1 || int(id) > total {
				return fail("a Write call that is not a message")
			}
			s, i := int(id-1)/K, int(id-1)%K
			p := c10Payload(id, sizes[id])
			h := qnet.Header{Magic: 0x42dead42, ID: id, Size: uint32(len(p)), Version: 0, Type: c10Type(id), Flags: c10Flags(id),
				Service: uint32(s), Object: uint32(i), Action: c10Action(s, i)}
			if !bytes.Equal(w, wireOf(h, p)) {
				return fail("the Write call of message %d is not its wire form", id)
			}
		}
	}
	res.err = "ok"
	return res
}

func fmtIDs(ids []uint32) string {
	p := make([]string, len(ids))
	for i, id := range ids {
		p[i] = strconv.FormatUint(uint64(id), 10)
	}
	return strings.Join(p, " ")
}

func c10OrderAnswer(recv [][]uint32) string {
	parts := make([]string, len(recv))
	for i, r := range recv {
		parts[i] = fmt.Sprintf("h%d=[%s]", i, fmtIDs(r))
	}
	return "valid " + strings.Join(parts, " ")
}

// replay of an order line: the same arrival order is produced by one writer on a real
// endpoint, and the handlers' queues are read back
func execC10Order(a []string) string {
	log.SetOutput(ioutil.Discard)
	if len(a) < 3 || a[2] != "|" {
		return "bad-op"
	}
	N, _ := strconv.Atoi(a[0])
	K, _ := strconv.Atoi(a[1])
	total := N * K
	var ids []uint32
	for _, w := range a[3:] {
		v, err := strconv.ParseUint(w, 10, 32)
		if err != nil || v < 1 || int(v) > total {
			return "invalid"
		}
		ids = append(ids, uint32(v))
	}
	next := make([]int, N)
	for _, id := range ids {
		s, i := int(id-1)/K, int(id-1)%K
		if next[s] != i {
			return "invalid"
		}
		next[s]++
	}
	for _, n := range next {
		if n != K {
			return "invalid"
		}
	}
	x, y := gonet.Pipe()
	queues := make([]chan *qnet.Message, len(c10Filters))
	ep := qnet.EndPointFinalizer(qnet.ConnStream(x), func(e qnet.EndPoint) {
		for i, f := range c10Filters {
			mod, rs := f[0], f[1]
			queues[i] = make(chan *qnet.Message, total+8)
			e.MakeHandler(func(h *qnet.Header) (bool, bool) { return h.Action%mod == rs, true }, queues[i], func(error) {})
		}
	})
	defer ep.Close()
	defer y.Close()
	go func() {
		for _, id := range ids {
			s, i := int(id-1)/K, int(id-1)%K
			m := qnet.NewMessage(qnet.NewHeader(qnet.Event, uint32(s), uint32(i), c10Action(s, i), id), nil)
			if m.Write(y) != nil {
				return
			}
		}
	}()
	recv := make([][]uint32, len(queues))
	for len(recv[len(queues)-1]) < len(ids) {
		select {
		case m := <-queues[len(queues)-1]:
			recv[len(queues)-1] = append(recv[len(queues)-1], m.Header.ID)
		case <-time.After(10 * time.Second):
			return "timeout"
		}
	}
	for q := 0; q < len(queues)-1; q++ {
		for len(queues[q]) > 0 {
			recv[q] = append(recv[q], (<-queues[q]).Header.ID)
		}
	}
	return c10OrderAnswer(recv)
}

// c10.full <n> <capB>: one writer sends ids 1..n; handler 0 selects everything and has room for all,
// handler 1 selects everything, has room for capB and is never drained, handler 2 selects the even
// actions.  A handler with room must get its subsequence, each message intact and once, whatever
// happens to the handler without room.
var c10FullDetail string

func execC10Full(a []string) string {
	log.SetOutput(ioutil.Discard)
	n, _ := strconv.Atoi(a[0])
	capB, _ := strconv.Atoi(a[1])
	x, y := gonet.Pipe()
	caps := []int{n + 8, capB, n + 8}
	sel := []func(h *qnet.Header) bool{
		func(h *qnet.Header) bool { return true },
		func(h *qnet.Header) bool { return true },
		func(h *qnet.Header) bool { return h.Action%2 == 0 },
	}
	queues := make([]chan *qnet.Message, 3)
	oneShot := make(chan *qnet.Message, n+8)
	ep := qnet.EndPointFinalizer(qnet.ConnStream(x), func(e qnet.EndPoint) {
		// in front: a handler that selects everything and removes itself on message 2
		e.MakeHandler(func(h *qnet.Header) (bool, bool) { return true, h.ID != 2 }, oneShot, func(error) {})
		for i := range queues {
			f := sel[i]
			queues[i] = make(chan *qnet.Message, caps[i])
			e.MakeHandler(func(h *qnet.Header) (bool, bool) { return f(h), true }, queues[i], func(error) {})
		}
	})
	defer ep.Close()
	defer y.Close()
	go func() {
		for id := 1; id <= n; id++ {
			m := qnet.NewMessage(qnet.NewHeader(qnet.Event, 1, 1, uint32(id%11), uint32(id)), c10Payload(uint32(id), 16+id%50))
			if m.Write(y) != nil {
				return
			}
		}
	}()
	c10FullDetail = ""
	recv := make([][]uint32, 3)
	seen := map[*qnet.Message]bool{}
	check := func(q int, m *qnet.Message) {
		recv[q] = append(recv[q], m.Header.ID)
		if !bytes.Equal(m.Payload, c10Payload(m.Header.ID, 16+int(m.Header.ID)%50)) && c10FullDetail == "" {
			c10FullDetail = fmt.Sprintf("handler %d: message %d does not carry its payload", q, m.Header.ID)
		}
		if q == 0 {
			if seen[m] && c10FullDetail == "" {
				c10FullDetail = fmt.Sprintf("handler 0 was given the same message object twice (id %d)", m.Header.ID)
			}
			seen[m] = true
		}
	}
	for len(recv[0]) < n {
		select {
		case m := <-queues[0]:
			check(0, m)
		case <-time.After(5 * time.Second):
			return "timeout " + fmt.Sprintf("h0=[%s]", fmtIDs(recv[0]))
		}
	}
	time.Sleep(20 * time.Millisecond)
	for q := 1; q < 3; q++ {
		for len(queues[q]) > 0 {
			check(q, <-queues[q])
		}
	}
	var first []uint32
	for len(oneShot) > 0 {
		if m, ok := <-oneShot; ok {
			first = append(first, m.Header.ID)
		} else {
			break
		}
	}
	ans := c10OrderAnswer(recv)
	if n >= 2 {
		ans = strings.Replace(ans, "valid ", fmt.Sprintf("valid one-shot=[%s] ", fmtIDs(first)), 1)
	}
	return ans
}

// c10.crowd <handlers> <leave> <messages>: more handlers than the table has slots at first, handler i selecting action
// i (modulo the number of handlers); the first <leave> of them are removed; then <messages> messages, their actions
// going round: every handler that is still registered gets the messages of its action, in order.
func execC10Crowd(a []string) string {
	log.SetOutput(ioutil.Discard)
	hn, _ := strconv.Atoi(a[0])
	leave, _ := strconv.Atoi(a[1])
	n, _ := strconv.Atoi(a[2])
	x, y := gonet.Pipe()
	queues := make([]chan *qnet.Message, hn)
	ids := make([]int, hn)
	ep := qnet.EndPointFinalizer(qnet.ConnStream(x), func(e qnet.EndPoint) {
		for i := range queues {
			i := i
			queues[i] = make(chan *qnet.Message, n+8)
			ids[i] = e.MakeHandler(func(h *qnet.Header) (bool, bool) { return int(h.Action)%hn == i, true }, queues[i], func(error) {})
		}
	})
	defer ep.Close()
	defer y.Close()
	for i := 0; i < leave && i < hn; i++ {
		if ep.RemoveHandler(ids[i]) != nil {
			return "remove-refused"
		}
	}
	done := make(chan struct{})
	go func() {
		defer close(done)
		for id := 1; id <= n; id++ {
			m := qnet.NewMessage(qnet.NewHeader(qnet.Event, 1, 1, uint32(id%hn), uint32(id)), c10Payload(uint32(id), 16))
			if m.Write(y) != nil {
				return
			}
		}
		// a last message for the last handler: when it is there, everything before it has been dispatched
		lastMsg := qnet.NewMessage(qnet.NewHeader(qnet.Event, 1, 1, uint32(hn-1), uint32(n+1)), nil)
		lastMsg.Write(y)
	}()
	last := queues[hn-1]
	var tail []uint32
	deadline := time.After(5 * time.Second)
wait:
	for {
		select {
		case m := <-last:
			tail = append(tail, m.Header.ID)
			if m.Header.ID == uint32(n+1) {
				break wait
			}
		case <-deadline:
			return fmt.Sprintf("timeout h%d=[%s]", hn-1, fmtIDs(tail))
		}
	}
	<-done
	var parts []string
	for i := leave; i < hn; i++ {
		var got []uint32
		if i == hn-1 {
			got = tail
		}
		for len(queues[i]) > 0 {
			got = append(got, (<-queues[i]).Header.ID)
		}
		parts = append(parts, fmt.Sprintf("h%d=[%s]", i, fmtIDs(got)))
	}
	return "valid " + strings.Join(parts, " ")
}

// every message type and every value of the flags byte travel: a message is intact when all of its header is
func c10Type(id uint32) uint8  { return uint8(1 + id%8) }
func c10Flags(id uint32) uint8 { return uint8((id * 37) % 256 * (id % 3)) }

func init() {
	executors["c10.crowd"] = execC10Crowd
	executors["c10.full"] = execC10Full
	executors["c10.run"] = func(a []string) string {
		if len(a) != 5 {
			return "bad-op"
		}
		N, _ := strconv.Atoi(a[1])
		K, _ := strconv.Atoi(a[2])
		seed, _ := strconv.ParseUint(a[3], 10, 64)
		r := c10Scenario(a[0], N, K, seed, a[4] == "1")
		if r.err != "ok" {
			lastFailDetail = r.err
		}
		lastC10 = r
		return r.err
	}
	executors["c10.order"] = execC10Order
	executors["c10.busy"] = execC10Busy
	runners["C10"] = runC10
}

var lastC10 c10Result

// c10.busy <rounds>: a consumer registered with AddHandler is held inside the first message of a round while three
// more arrive (four wait at most: the queue has room for ten); the fifth arrives while the consumer becomes free —
// a second handler that selects nothing frees it from its filter, which dispatch calls right after the first handler
// has been given the message.  The consumer is called with the five messages in the order of their arrival.
func execC10Busy(a []string) string {
	rounds, _ := strconv.Atoi(a[0])
	const per = 5
	x, y := qnet.Pipe()
	defer x.Close()
	defer y.Close()
	var mu sync.Mutex
	var gate chan struct{}
	var received []uint32
	entered := make(chan struct{}, 1)
	var seen int32
	y.AddHandler(func(h *qnet.Header) (bool, bool) { atomic.AddInt32(&seen, 1); return true, true },
		func(m *qnet.Message) error {
			mu.Lock()
			received = append(received, m.Header.ID)
			g := gate
			mu.Unlock()
			if m.Header.ID%per == 1 {
				entered <- struct{}{}
				<-g
			}
			return nil
		}, nil)
	y.MakeHandler(func(h *qnet.Header) (bool, bool) {
		if h.ID%per == 0 {
			mu.Lock()
			g := gate
			mu.Unlock()
			close(g)
		}
		return false, true
	}, make(chan *qnet.Message, 1), nil)
	send := func(id uint32) error {
		return x.Send(qnet.NewMessage(qnet.NewHeader(qnet.Post, 1, 1, 1, id), []byte{1, 2, 3, 4}))
	}
	wait := func(cond func() bool) bool {
		deadline := time.Now().Add(4 * time.Second)
		for !cond() {
			if time.Now().After(deadline) {
				return false
			}
			time.Sleep(100 * time.Microsecond)
		}
		return true
	}
	for r := 0; r < rounds; r++ {
		base := uint32(r * per)
		mu.Lock()
		gate = make(chan struct{})
		received = received[:0]
		mu.Unlock()
		atomic.StoreInt32(&seen, 0)
		if send(base+1) != nil {
			return "fail:send"
		}
		select {
		case <-entered:
		case <-time.After(4 * time.Second):
			return "fail:consumer-not-called"
		}
		for i := uint32(2); i < per; i++ {
			if send(base+i) != nil {
				return "fail:send"
			}
		}
		if !wait(func() bool { return atomic.LoadInt32(&seen) == per-1 }) {
			return "fail:not-dispatched"
		}
		time.Sleep(200 * time.Microsecond)
		if send(base+per) != nil {
			return "fail:send"
		}
		if !wait(func() bool { mu.Lock(); defer mu.Unlock(); return len(received) == per }) {
			mu.Lock()
			defer mu.Unlock()
			return fmt.Sprintf("fail:lost the consumer got %v of %d..%d", received, base+1, base+per)
		}
		mu.Lock()
		got := append([]uint32{}, received...)
		mu.Unlock()
		for i, id := range got {
			if id != base+uint32(i)+1 {
				return fmt.Sprintf("fail:order the consumer was called with %v (arrival order %d..%d)", got, base+1, base+per)
			}
		}
	}
	return "ok"
}

func runC10(r *Rand, tier string, o *Out) {
	// a table that has grown beyond its ten slots, the early handlers gone
	for _, c := range [][3]int{{12, 10, 48}, {11, 10, 30}, {16, 9, 64}, {14, 14, 0}, {10, 10, 0}, {13, 3, 39}} {
		if c[1] >= c[0] {
			continue // the last handler is the harness's own marker: it stays
		}
		o.Do("P", fmt.Sprintf("c10.crowd %d %d %d", c[0], c[1], c[2]), true)
		o.Count("crowded-table")
	}
	// a handler without room next to handlers with room
	nf := 6
	if tier == "thorough" {
		nf = 40
	}
	for i := 0; i < nf; i++ {
		n := 2 + r.Intn(60)
		capB := 1 + r.Intn(4)
		line := fmt.Sprintf("c10.full %d %d", n, capB)
		o.Do("P", line, true)
		o.Count("full-queue scenarios")
		if c10FullDetail != "" {
			o.Fail("a handler with room does not get each selected message intact and once", line+": "+c10FullDetail)
		}
	}
	// a consumer that is busy for a while and becomes free as another message arrives
	{
		line := "c10.busy 150"
		if tier == "thorough" {
			line = "c10.busy 2000"
		}
		if out := o.Do("P", line, true); out != "ok" {
			o.Fail("a busy consumer: "+strings.SplitN(strings.TrimPrefix(out, "fail:"), " ", 2)[0], line+" => "+out)
		}
		o.Count("busy-consumer")
	}
	// a handler registered while a message is being dispatched
	if out := o.Do("P", "c10.slotrace 4", true); out != "ok" {
		o.Fail("a handler registered during a dispatch: "+strings.SplitN(strings.TrimPrefix(out, "fail:"), " ", 2)[0], "c10.slotrace 4 => "+out)
	}
	o.Count("scenario:slot-changes-hands-during-a-dispatch")
	if out := o.Do("P", "c10.lateadd 5", true); out != "ok" {
		o.Fail("a handler registered during a dispatch: "+strings.SplitN(strings.TrimPrefix(out, "fail:"), " ", 2)[0], "c10.lateadd 5 => "+out)
	}
	o.Count("handler-registered-during-a-dispatch")
	// a peer that stops reading for eleven seconds in the middle of large frames
	if out := o.Do("P", "c10.stall", true); out != "ok" {
		o.Fail("a peer that stops reading for a while: "+strings.SplitN(strings.TrimPrefix(out, "fail:"), " ", 2)[0], "c10.stall => "+out)
	}
	o.Count("stalled-peer")
	transports := []string{"mem", "unix", "tcp", "tcps", "pipe", "qpipe"}
	rounds := 40
	if tier == "thorough" {
		rounds = 400
	}
	for i := 0; i < rounds; i++ {
		tr := transports[i%len(transports)]
		N := r.Pick(2, 3, 4, 8, 16)
		K := r.Pick(4, 16, 32, 64)
		if (tr == "mem" || tr == "qpipe") && K > 32 {
			K = 32
		}
		rec := 0
		if r.Chance(60) {
			rec = 1
		}
		line := fmt.Sprintf("c10.run %s %d %d %d %d", tr, N, K, r.U64()>>1, rec)
		out := o.Do("P", line, true)
		o.Count("transport:" + tr)
		o.Count(fmt.Sprintf("senders:%d", N))
		if out != "ok" {
			o.Fail("concurrent senders: "+strings.SplitN(strings.TrimPrefix(out, "fail:"), " ", 2)[0], line+" => "+out)
			continue
		}
		o.Count("runs-ok")
		o.Counters["messages-total"] += N * K
		// the observed history against the model
		o.Op("P", fmt.Sprintf("c10.order %d %d | %s", N, K, fmtIDs(lastC10.order)), c10OrderAnswer(lastC10.recv), true)
		// how interleaved was it: number of sender switches in the arrival order
		sw := 0
		for j := 1; j < len(lastC10.order); j++ {
			if (lastC10.order[j]-1)/uint32(K) != (lastC10.order[j-1]-1)/uint32(K) {
				sw++
			}
		}
		o.Counters["sender-switches"] += sw
	}
	// histories the acceptor must refuse (the model and the replay executor agree on them)
	for _, bad := range []string{
		"c10.order 2 2 | 1 2 3",     // one message lost
		"c10.order 2 2 | 1 2 3 3",   // duplicate
		"c10.order 2 2 | 2 1 3 4",   // a sender's order reversed
		"c10.order 2 2 | 1 3 2 4 5", // unknown message
		"c10.order 2 2 | 3 1 4 2",   // valid
	} {
		o.Do("P", bad, true)
	}
}
