package main

import (
	"context"
	"fmt"
	"github.com/lugu/qiloop/type/object"
	"io/ioutil"
	"log"
	"strconv"
	"strings"
	"sync"
	"sync/atomic"
	"time"

	"github.com/lugu/qiloop/bus"
	dir "github.com/lugu/qiloop/bus/directory"
	qnet "github.com/lugu/qiloop/bus/net"
	"github.com/lugu/qiloop/bus/services"
	"github.com/lugu/qiloop/bus/session"
	"github.com/lugu/qiloop/bus/util"
	"github.com/lugu/qiloop/examples/pong"
)

// ---- a probe service: PingPong with an execution counter ------------------------

type probeImpl struct {
	calls  int64
	helper pong.PingPongSignalHelper
	echo   bool
	log    func(string)
	name   string // when set, the answer names the service: a proxy to another service is noticed
}

func (p *probeImpl) Activate(a bus.Activation, h pong.PingPongSignalHelper) error {
	p.helper = h
	return nil
}
func (p *probeImpl) OnTerminate() {}
func (p *probeImpl) Hello(a string) (string, error) {
	atomic.AddInt64(&p.calls, 1)
	if p.log != nil {
		p.log(a)
	}
	if strings.HasPrefix(a, "sleep") {
		time.Sleep(700 * time.Millisecond)
	}
	return "echo:" + p.name + a, nil
}
func (p *probeImpl) Ping(a string) error {
	atomic.AddInt64(&p.calls, 1)
	if p.log != nil {
		p.log(a)
	}
	return p.helper.SignalPong(a)
}

// ---- counting listener ------------------------------------------------------------

type countingListener struct {
	qnet.Listener
	delay  time.Duration
	active int64
	total  int64
}

type countedStream struct {
	qnet.Stream
	l    *countingListener
	once sync.Once
}

func (s *countedStream) done() { s.once.Do(func() { atomic.AddInt64(&s.l.active, -1) }) }
func (s *countedStream) Close() error {
	s.done()
	return s.Stream.Close()
}
func (s *countedStream) Read(p []byte) (int, error) {
	n, err := s.Stream.Read(p)
	if err != nil {
		s.done()
	}
	return n, err
}

func (l *countingListener) Accept() (qnet.Stream, error) {
	st, err := l.Listener.Accept()
	if err != nil {
		return nil, err
	}
	time.Sleep(l.delay) // widen the window in which several goroutines are dialling
	atomic.AddInt64(&l.active, 1)
	atomic.AddInt64(&l.total, 1)
	return &countedStream{Stream: st, l: l}, nil
}

// session.stress <goroutines> <rounds> <seed>
// Child process: a fatal runtime error cannot be recovered.
func childSessionStress(a []string) string {
	log.SetOutput(ioutil.Discard)
	n, _ := strconv.Atoi(a[0])
	rounds, _ := strconv.Atoi(a[1])
	seed, _ := strconv.Atoi(a[2])
	r := NewRand(uint64(seed))

	addrA := util.NewUnixAddr()
	dsrv, err := dir.NewServer(addrA, nil)
	if err != nil {
		return "setup-error:" + err.Error()
	}
	defer dsrv.Terminate()
	hostSess, err := session.NewSession(addrA)
	if err != nil {
		return "setup-error:" + err.Error()
	}
	defer hostSess.Terminate()

	// two more servers behind their own endpoints
	type host struct {
		l     *countingListener
		srv   bus.Server
		names []string
	}
	// "wide": six endpoints with one service each; the first is advertised behind 1500 addresses nobody dials
	// (the range SelectEndPoint skips), so that finding its connection again takes a while; every goroutine repeats
	// its request
	wide := len(a) > 3 && a[3] == "wide"
	nhosts, perHost, iters := 2, 2, 1
	if wide {
		nhosts, perHost, iters = 6, 1, 25
	}
	// services registered before all the others (smaller identifiers, earlier in the session's list), one of which goes
	// away in every round while the requests of that round are being served
	var early []bus.Service
	if wide {
		addr := util.NewUnixAddr()
		l, err := qnet.Listen(addr)
		if err != nil {
			return "setup-error:" + err.Error()
		}
		ns, err := services.Namespace(hostSess, []string{addr})
		if err != nil {
			return "setup-error:" + err.Error()
		}
		esrv, err := bus.StandAloneServer(l, bus.Yes{}, ns)
		if err != nil {
			return "setup-error:" + err.Error()
		}
		defer esrv.Terminate()
		for k := 0; k < rounds; k++ {
			s, err := esrv.NewService(fmt.Sprintf("Early%d", k), pong.PingPongObject(&probeImpl{name: "early/"}))
			if err != nil {
				return "setup-error:" + err.Error()
			}
			early = append(early, s)
		}
	}
	var hosts []*host
	for i := 0; i < nhosts; i++ {
		addr := util.NewUnixAddr()
		l, err := qnet.Listen(addr)
		if err != nil {
			return "setup-error:" + err.Error()
		}
		cl := &countingListener{Listener: l, delay: time.Duration(1+r.Intn(4)) * time.Millisecond}
		addrs := []string{addr}
		if wide && i == 0 {
			addrs = nil
			for k := 0; k < 1500; k++ {
				addrs = append(addrs, fmt.Sprintf("tcp://198.18.0.1:%d", 10000+k))
			}
			addrs = append(addrs, addr)
		}
		ns, err := services.Namespace(hostSess, addrs)
		if err != nil {
			return "setup-error:" + err.Error()
		}
		srv, err := bus.StandAloneServer(cl, bus.Yes{}, ns)
		if err != nil {
			return "setup-error:" + err.Error()
		}
		defer srv.Terminate()
		h := &host{l: cl, srv: srv}
		for j := 0; j < perHost; j++ {
			name := fmt.Sprintf("Probe%d_%d", i, j)
			if _, err := srv.NewService(name, pong.PingPongObject(&probeImpl{name: name + "/"})); err != nil {
				return "setup-error:" + err.Error()
			}
			h.names = append(h.names, name)
		}
		hosts = append(hosts, h)
	}
	names := []string{"ServiceDirectory"}
	for _, h := range hosts {
		names = append(names, h.names...)
	}

	// object references to the main objects: what Session.Object is asked for
	// (learnt through a session of their own, closed again: the hosting session holds no connection to
	// the two endpoints, the count of connections below is that of the session under test)
	refs := map[string]object.ObjectReference{}
	{
		tmp, err := session.NewSession(addrA)
		if err != nil {
			return "setup-error:" + err.Error()
		}
		time.Sleep(20 * time.Millisecond)
		for _, name := range names[1:] {
			p, err := tmp.Proxy(name, 1)
			if err != nil {
				return "setup-error:" + err.Error()
			}
			refs[name] = object.ObjectReference{MetaObject: *p.MetaObject(), ServiceID: p.ServiceID(), ObjectID: 1}
		}
		tmp.Terminate()
		deadline := time.Now().Add(3 * time.Second)
		for time.Now().Before(deadline) {
			sum := int64(0)
			for _, h := range hosts {
				sum += atomic.LoadInt64(&h.l.active)
			}
			if sum == 0 {
				break
			}
			time.Sleep(5 * time.Millisecond)
		}
	}

	for round := 0; round < rounds; round++ {
		sess, err := session.NewSession(addrA)
		if err != nil {
			return "fail:new-session:" + err.Error()
		}
		time.Sleep(20 * time.Millisecond) // let the service list settle
		var wg sync.WaitGroup
		errs := make(chan string, n*(iters+1))
		start := make(chan struct{})
		for g := 0; g < n; g++ {
			name := names[1+r.Intn(len(names)-1)]
			if r.Chance(10) {
				name = names[0]
			}
			if len(a) > 3 && a[3] == "same" { // every goroutine asks for the same service
				name = names[1]
			}
			if wide && g%2 == 0 { // half of them for the service behind the long address list
				name = names[1]
			}
			// some requests name a service that is not registered (by name, or by identifier in an object
			// reference): they are refused, and the requests for registered services go on succeeding
			if n > 1 && g > 0 && r.Chance(20) {
				name = "?unknown"
			}
			wg.Add(1)
			go func(g int, name string) {
				defer wg.Done()
				<-start
				for it := 0; it < iters; it++ {
					var proxy bus.Proxy
					var err error
					if name == "?unknown" {
						if g%3 == 2 {
							// a registered service, an object it does not have: refused by the service itself, over a
							// connection that is fine and stays the one connection to that endpoint
							_, err = sess.Proxy(names[1+g%(len(names)-1)], 4242+uint32(g))
							if err == nil {
								errs <- "unknown-object: request accepted"
							}
							return
						}
						if g%2 == 1 {
							ref := refs[names[1]]
							ref.ServiceID = 4000 + uint32(g)
							_, err = sess.Object(ref)
						} else {
							_, err = sess.Proxy(fmt.Sprintf("NoSuchService%d", g), 1)
						}
						if err == nil {
							errs <- "unknown-service: request accepted"
						}
						return
					}
					if ref, ok := refs[name]; ok && g%2 == 1 {
						// an object request: the reference names the service by its id
						proxy, err = sess.Object(ref)
						if err == nil && proxy.ServiceID() != ref.ServiceID {
							errs <- fmt.Sprintf("object:%s: proxy of service %d for a reference to service %d", name, proxy.ServiceID(), ref.ServiceID)
							return
						}
					} else {
						proxy, err = sess.Proxy(name, 1)
					}
					if err != nil && wide && strings.Contains(err.Error(), "consumer blocked") {
						continue // the bounded queues of the server (session.flood, a listed finding): not the subject here
					}
					if err != nil {
						errs <- "proxy:" + name + ":" + err.Error()
						return
					}
					if name == "ServiceDirectory" {
						return
					}
					arg := fmt.Sprintf("g%d", g)
					got, err := pong.MakePingPong(sess, proxy).Hello(arg)
					if err != nil && wide && strings.Contains(err.Error(), "consumer blocked") {
						continue
					}
					if err != nil {
						errs <- "call:" + err.Error()
					} else if got != "echo:"+name+"/"+arg {
						errs <- "wrong-answer:" + got + " from " + name
						return
					}
				}
			}(g, name)
		}
		if wide {
			// goroutines that give up their calls (a context that is cancelled while the call is on its way): whatever
			// becomes of those calls, the requests of the others succeed
			for c := 0; c < 3; c++ {
				wg.Add(1)
				go func(c int) {
					defer wg.Done()
					<-start
					proxy, err := sess.Proxy(names[1], 1)
					for tries := 0; err != nil && strings.Contains(err.Error(), "consumer blocked") && tries < 50; tries++ {
						time.Sleep(time.Millisecond)
						proxy, err = sess.Proxy(names[1], 1)
					}
					if err != nil {
						errs <- "proxy:" + names[1] + ":" + err.Error()
						return
					}
					// how long a call takes here, so that the cancel requests fall around the arrival of the answers
					t0 := time.Now()
					for i := 0; i < 20; i++ {
						pong.MakePingPong(sess, proxy).Hello("m")
					}
					rtt := time.Since(t0) / 20
					for i := 0; i < 600; i++ {
						ctx, cancel := context.WithCancel(context.Background())
						p := pong.MakePingPong(sess, proxy).WithContext(ctx)
						go func(d time.Duration) { time.Sleep(d); cancel() }(rtt/2 + time.Duration(i%50)*rtt/50)
						p.Hello("c") // answered or given up
						time.Sleep(150 * time.Microsecond) // the server's queues are bounded (a listed finding): no flood here
					}
				}(c)
			}
		}
		close(start)
		if wide && round < len(early) {
			// an earlier service leaves while the first connections of this round are being made
			time.Sleep(time.Duration(500+r.Intn(1500)) * time.Microsecond)
			early[round].Terminate()
		}
		done := make(chan struct{})
		go func() { wg.Wait(); close(done) }()
		select {
		case <-done:
		case <-time.After(20 * time.Second):
			return "fail:hang"
		}
		close(errs)
		for e := range errs {
			return "fail:" + e
		}
		// settle, then: at most one live connection from this session per endpoint
		// (the hosting session itself holds none to these endpoints)
		deadline := time.Now().Add(3 * time.Second)
		for {
			worst := int64(0)
			for _, h := range hosts {
				if a := atomic.LoadInt64(&h.l.active); a > worst {
					worst = a
				}
			}
			if worst <= 1 {
				break
			}
			if time.Now().After(deadline) {
				return fmt.Sprintf("fail:connections-per-endpoint=%d", worst)
			}
			time.Sleep(10 * time.Millisecond)
		}
		sess.Terminate()
		// wait for this session's connections to go away before the next round
		deadline = time.Now().Add(3 * time.Second)
		for {
			sum := int64(0)
			for _, h := range hosts {
				sum += atomic.LoadInt64(&h.l.active)
			}
			if sum == 0 || time.Now().After(deadline) {
				break
			}
			time.Sleep(5 * time.Millisecond)
		}
	}
	return "ok"
}

// session.flood <goroutines>
// One object is busy with a slow call of another client; meanwhile <goroutines> goroutines
// request a proxy of that service through one shared session.  Every request must succeed.
func childSessionFlood(a []string) string {
	log.SetOutput(ioutil.Discard)
	n, _ := strconv.Atoi(a[0])
	addrA := util.NewUnixAddr()
	dsrv, err := dir.NewServer(addrA, nil)
	if err != nil {
		return "setup-error:" + err.Error()
	}
	defer dsrv.Terminate()
	if _, err := dsrv.NewService("Probe", pong.PingPongObject(&probeImpl{})); err != nil {
		return "setup-error:" + err.Error()
	}
	other, err := session.NewSession(addrA)
	if err != nil {
		return "setup-error:" + err.Error()
	}
	defer other.Terminate()
	sess, err := session.NewSession(addrA)
	if err != nil {
		return "setup-error:" + err.Error()
	}
	defer sess.Terminate()
	time.Sleep(20 * time.Millisecond)
	op, err := other.Proxy("Probe", 1)
	if err != nil {
		return "setup-error:" + err.Error()
	}
	busy := make(chan error, 1)
	go func() { _, err := pong.MakePingPong(other, op).Hello("sleep"); busy <- err }()
	time.Sleep(100 * time.Millisecond) // the object is now inside the slow method
	var wg sync.WaitGroup
	var dropped, otherErr int64
	var firstErr atomic.Value
	start := make(chan struct{})
	for g := 0; g < n; g++ {
		wg.Add(1)
		go func() {
			defer wg.Done()
			<-start
			if _, err := sess.Proxy("Probe", 1); err != nil {
				if strings.Contains(err.Error(), "consumer blocked") {
					atomic.AddInt64(&dropped, 1)
				} else {
					atomic.AddInt64(&otherErr, 1)
					firstErr.Store(err.Error())
				}
			}
		}()
	}
	close(start)
	done := make(chan struct{})
	go func() { wg.Wait(); close(done) }()
	select {
	case <-done:
	case <-time.After(30 * time.Second):
		return "fail:hang"
	}
	<-busy
	if otherErr > 0 {
		return "fail:" + firstErr.Load().(string)
	}
	if dropped > 0 {
		return "fail:dropped"
	}
	return "ok"
}

func execSessionStress(a []string) string {
	out := runChild("session.stress", strings.Join(a, " "), 120*time.Second, 0)
	if out.Result != "ok" {
		lastFailDetail = out.Stderr
	}
	switch out.Result {
	case "crash", "crash-noresult":
		return "crash"
	}
	return out.Result
}

var lastFailDetail string

// session.late <rounds> <burst> <seed>: services that register while the session is open — several in a row, so that
// the session refreshes its list several times in a row.  A registered service is requested until the session
// knows it (the announcement takes its time), which has to happen; then it goes again.
func childSessionLate(a []string) string {
	log.SetOutput(ioutil.Discard)
	rounds, _ := strconv.Atoi(a[0])
	burst, _ := strconv.Atoi(a[1])
	addrA := util.NewUnixAddr()
	dsrv, err := dir.NewServer(addrA, nil)
	if err != nil {
		return "setup-error:" + err.Error()
	}
	defer dsrv.Terminate()
	sess, err := session.NewSession(addrA)
	if err != nil {
		return "setup-error:" + err.Error()
	}
	defer sess.Terminate()
	time.Sleep(20 * time.Millisecond)
	for round := 0; round < rounds; round++ {
		var names []string
		var svcs []bus.Service
		for j := 0; j < burst; j++ {
			name := fmt.Sprintf("Late%d_%d", round, j)
			svc, err := dsrv.NewService(name, pong.PingPongObject(&probeImpl{name: name + "/"}))
			if err != nil {
				return "setup-error:" + err.Error()
			}
			names = append(names, name)
			svcs = append(svcs, svc)
		}
		for _, name := range names {
			deadline := time.Now().Add(3 * time.Second)
			for {
				proxy, err := sess.Proxy(name, 1)
				if err == nil {
					got, err := pong.MakePingPong(sess, proxy).Hello("x")
					if err != nil || got != "echo:"+name+"/x" {
						return fmt.Sprintf("fail:wrong-answer %v %q from %s", err, got, name)
					}
					break
				}
				if time.Now().After(deadline) {
					return "fail:registered-service-never-known:" + err.Error()
				}
				time.Sleep(300 * time.Microsecond)
			}
		}
		for _, svc := range svcs {
			svc.Terminate()
		}
	}
	return "ok"
}

func init() {
	children["session.late"] = childSessionLate
	executors["session.late"] = func(a []string) string {
		out := runChild("session.late", strings.Join(a, " "), 180*time.Second, 0)
		if out.Result != "ok" {
			lastFailDetail = out.Stderr
		}
		if out.Result == "crash-noresult" {
			return "crash"
		}
		return out.Result
	}
	children["session.flood"] = childSessionFlood
	executors["session.flood"] = func(a []string) string {
		out := runChild("session.flood", strings.Join(a, " "), 60*time.Second, 0)
		if out.Result == "crash" || out.Result == "crash-noresult" || out.Result == "timeout" {
			lastFailDetail = out.Stderr
		}
		return out.Result
	}
	children["session.stress"] = childSessionStress
	executors["session.stress"] = execSessionStress
	runners["C19"] = runC19
}

func runC19(r *Rand, tier string, o *Out) {
	// the bounded server queues: small floods are served, a flood larger than the buffering is not
	for _, n := range []int{4, 8, 40} {
		op := fmt.Sprintf("session.flood %d", n)
		res := o.Do("P", op, true)
		o.Count(fmt.Sprintf("flood:%d", n))
		if res == "fail:dropped" {
			o.Fail("shared session: requests dropped once more are in flight than the server buffers", op+" => "+res)
		} else if res != "ok" {
			o.Fail("shared session flood: "+res, op+" => "+res+" stderr: "+tail(lastFailDetail, 400))
		}
	}
	// services that register while the session is open
	late := [][2]int{{300, 6}, {300, 2}}
	if tier == "thorough" {
		late = [][2]int{{5000, 6}, {5000, 2}, {2000, 12}}
	}
	for _, l := range late {
		op := fmt.Sprintf("session.late %d %d %d", l[0], l[1], r.U64()%100000)
		res := o.Do("P", op, true)
		o.Count("late-registrations")
		if res != "ok" {
			cls := strings.SplitN(strings.TrimPrefix(res, "fail:"), ":", 2)[0]
			o.Fail("a service registered while the session is open: "+cls, op+" => "+res+" "+crashReason(lastFailDetail))
		}
	}
	cases := [][2]int{{2, 6}, {8, 6}, {32, 3}}
	if tier == "thorough" {
		cases = [][2]int{{2, 40}, {4, 30}, {8, 30}, {16, 20}, {32, 15}, {64, 6}}
	}
	// the client a session shares per endpoint: a caller that gives up its call while another caller's call is under way
	for i := 0; i < 3; i++ {
		if out := o.Do("P", "c04.cancelcross", true); out != "ok" {
			o.Fail("calls that share the session's client: "+strings.SplitN(strings.TrimPrefix(out, "fail:"), ":", 2)[0], "c04.cancelcross => "+out)
		}
		o.Count("shared-client:cancel-crosses-answer")
	}
	// requests repeated while connections to other endpoints are being made, one endpoint behind a long address list
	wides := [][2]int{{14, 5}}
	if tier == "thorough" {
		wides = [][2]int{{14, 6}, {28, 4}}
	}
	for _, c := range wides {
		op := fmt.Sprintf("session.stress %d %d %d wide", c[0], c[1], int(r.U64()%100000))
		res := o.Do("P", op, true)
		o.Count("repeated-requests-while-connections-are-made")
		if res != "ok" {
			class := "concurrent Session.Proxy: " + res
			if len(res) > 40 {
				class = "concurrent Session.Proxy: " + res[:40]
			}
			o.Fail(class, op+" => "+res+" stderr: "+tail(lastFailDetail, 600))
		}
	}
	for _, c := range cases {
		seed := int(r.U64() % 100000)
		op := fmt.Sprintf("session.stress %d %d %d", c[0], c[1], seed)
		res := o.Do("P", op, true)
		o.Count(fmt.Sprintf("goroutines:%d", c[0]))
		if res != "ok" {
			class := "concurrent Session.Proxy: " + res
			if len(res) > 40 {
				class = "concurrent Session.Proxy: " + res[:40]
			}
			o.Fail(class, op+" => "+res+" stderr: "+tail(lastFailDetail, 600))
		}
	}
}
