package main

// C04, a saturated connection: the object is kept inside a method while calls arrive on one connection until the
// connection's queues are full and a call is refused ("consumer blocked").  Then a post and a cancel of a call that is
// still waiting arrive on that connection.  A post produces no response, refused or not; every call gets exactly one
// answer; every accepted call runs once.

import (
	"fmt"
	"io/ioutil"
	"log"
	"time"

	"github.com/lugu/qiloop/bus"
	qnet "github.com/lugu/qiloop/bus/net"
	"github.com/lugu/qiloop/bus/util"
	"github.com/lugu/qiloop/examples/pong"
)

func svSaturate(a []string) string {
	log.SetOutput(ioutil.Discard)
	addr := util.NewUnixAddr()
	l, err := qnet.Listen(addr)
	if err != nil {
		return "setup-error:" + err.Error()
	}
	srv, err := bus.StandAloneServer(l, bus.Yes{}, bus.PrivateNamespace())
	if err != nil {
		return "setup-error:" + err.Error()
	}
	defer func() {
		done := make(chan struct{})
		go func() { srv.Terminate(); close(done) }()
		select {
		case <-done:
		case <-time.After(3 * time.Second):
		}
	}()
	impl := &abandonImpl{seen: map[string]int{}, entered: make(chan struct{}), gate: make(chan struct{})}
	if _, err := srv.NewService("PingPong", pong.PingPongObject(impl)); err != nil {
		return "setup-error:" + err.Error()
	}
	raw, err := lendDial(addr)
	if err != nil {
		return "setup-error:" + err.Error()
	}
	defer raw.conn.Close()
	const hello = 100
	answers := map[uint32][]uint8{}
	collect := func(d time.Duration) {
		deadline := time.After(d)
		for {
			select {
			case m, ok := <-raw.in:
				if !ok {
					return
				}
				answers[m.Header.ID] = append(answers[m.Header.ID], m.Header.Type)
			case <-deadline:
				return
			}
		}
	}
	raw.send(qnet.NewHeader(qnet.Call, 1, 1, hello, 1000), svString("slow"))
	select {
	case <-impl.entered:
	case <-time.After(3 * time.Second):
		return "setup-error:the slow call did not start"
	}
	// calls until one is refused
	refused := uint32(0)
	next := uint32(1001)
	for ; next < 1100 && refused == 0; next++ {
		raw.send(qnet.NewHeader(qnet.Call, 1, 1, hello, next), svString(fmt.Sprintf("w%d", next)))
		collect(15 * time.Millisecond)
		for id, ts := range answers {
			if len(ts) > 0 && ts[0] == qnet.Error && id >= 1001 {
				refused = id
			}
		}
	}
	if refused == 0 {
		return "setup-error:no call was refused"
	}
	sent := next - 1001
	// a post, a cancel of the first call that waits, a call as a barrier (refused as well: the connection is still full)
	raw.send(qnet.NewHeader(qnet.Post, 1, 1, hello, 5001), svString("posted"))
	raw.send(qnet.NewHeader(qnet.Cancel, 1, 1, hello, 1001), nil)
	raw.send(qnet.NewHeader(qnet.Call, 1, 1, hello, 6001), svString("barrier"))
	collect(300 * time.Millisecond)
	close(impl.gate)
	collect(1500 * time.Millisecond)
	if ts := answers[5001]; len(ts) != 0 {
		return fmt.Sprintf("fail:post-answered a post on a saturated connection produced %d responses", len(ts))
	}
	for id := uint32(1000); id < 1001+sent; id++ {
		if n := len(answers[id]); n != 1 {
			return fmt.Sprintf("fail:answers call %d (of %d sent on a saturated connection, one of them cancelled) has %d answers", id, sent+1, n)
		}
	}
	impl.mu.Lock()
	defer impl.mu.Unlock()
	for id := uint32(1001); id < 1001+sent; id++ {
		ran := impl.seen[fmt.Sprintf("w%d", id)]
		okAnswer := len(answers[id]) == 1 && answers[id][0] == qnet.Reply
		if okAnswer && ran != 1 || !okAnswer && ran > 1 {
			return fmt.Sprintf("fail:executions call %d ran %d times", id, ran)
		}
	}
	return "ok"
}

func init() {
	executors["sv.saturate"] = func(a []string) string {
		r := svSaturate(a)
		if r != "ok" {
			lastFailDetail = r
		}
		return r
	}
}
