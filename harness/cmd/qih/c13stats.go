package main

// C13: the statistics of an object are switched on (every message then goes through a tracing wrapper of the sender's
// channel) before a subscriber registers; other connections then call the object and subscribe too.  Every subscriber
// receives every event emitted while it is registered, once, in order — on its own connection.

import (
	"fmt"
	"time"

	"github.com/lugu/qiloop/bus"
)

func execSgStats(a []string) string {
	w, res := sgNewWorld()
	if res != "ok" {
		return res
	}
	defer w.close()
	ca, err := w.connect()
	if err != nil {
		return "setup-error:" + err.Error()
	}
	cb, err := w.connect()
	if err != nil {
		return "setup-error:" + err.Error()
	}
	pa, err := ca.cache.Proxy("PingPong", 1)
	if err != nil {
		return "setup-error:" + err.Error()
	}
	pb, err := cb.cache.Proxy("PingPong", 1)
	if err != nil {
		return "setup-error:" + err.Error()
	}
	if err := bus.MakeObject(pa).EnableStats(true); err != nil {
		return "setup-error:" + err.Error()
	}
	_, chA, err := pa.SubscribeID(102)
	if err != nil {
		return "setup-error:" + err.Error()
	}
	next := func(ch chan []byte, d time.Duration) string {
		select {
		case p, ok := <-ch:
			if !ok {
				return "closed"
			}
			return sgDecode(p)
		case <-time.After(d):
			return "none"
		}
	}
	emit := func(i int) {
		done := make(chan error, 1)
		go func() { done <- w.impl.h.SignalPong(fmt.Sprintf("e%d", i)) }()
		select {
		case <-done:
		case <-time.After(3 * time.Second):
		}
	}
	for i := 1; i <= 3; i++ {
		emit(i)
		if got := next(chA, 3*time.Second); got != fmt.Sprintf("e%d", i) {
			return fmt.Sprintf("fail:alone the only subscriber got %s for event %d", got, i)
		}
	}
	// another connection calls the object (its meta object, its statistics), then subscribes
	if _, err := bus.MakeObject(pb).MetaObject(1); err != nil {
		return "setup-error:" + err.Error()
	}
	if _, err := bus.MakeObject(pb).Stats(); err != nil {
		return "setup-error:" + err.Error()
	}
	for i := 4; i <= 6; i++ {
		emit(i)
		if got := next(chA, 3*time.Second); got != fmt.Sprintf("e%d", i) {
			return fmt.Sprintf("fail:other-caller after a call from another connection the subscriber got %s for event %d", got, i)
		}
	}
	_, chB, err := pb.SubscribeID(102)
	if err != nil {
		return "setup-error:" + err.Error()
	}
	if _, err := bus.MakeObject(pa).Stats(); err != nil {
		return "setup-error:" + err.Error()
	}
	for i := 7; i <= 9; i++ {
		emit(i)
		if got := next(chA, 3*time.Second); got != fmt.Sprintf("e%d", i) {
			return fmt.Sprintf("fail:two-subscribers the first subscriber got %s for event %d", got, i)
		}
		if got := next(chB, 3*time.Second); got != fmt.Sprintf("e%d", i) {
			return fmt.Sprintf("fail:two-subscribers the second subscriber got %s for event %d", got, i)
		}
	}
	if got := next(chA, 150*time.Millisecond); got != "none" {
		return "fail:extra the first subscriber got one event more: " + got
	}
	if got := next(chB, 50*time.Millisecond); got != "none" {
		return "fail:extra the second subscriber got one event more: " + got
	}
	return "ok"
}

func init() {
	executors["sg.stats"] = func(a []string) string {
		r := execSgStats(a)
		if r != "ok" {
			lastFailDetail = r
		}
		return r
	}
}
