package main

// C14: properties.  Two real objects on a real server: the generated Bomb stub of
// examples/space (property delay: int32, validator OnDelayChange) and a hand-written object
// behind the generic object dispatcher with three properties of different types and its own
// change callback.  Clients get / set (well typed, wrongly typed, by name, by id, with a value of
// another kind as name, unknown names and ids, values the validator refuses); the service
// updates its properties itself; a subscriber per property counts the change events.

import (
	"context"
	"bytes"
	"encoding/binary"
	"fmt"
	"io/ioutil"
	"log"
	"math"
	"strconv"
	"strings"
	"sync"
	"sync/atomic"
	"time"

	"github.com/lugu/qiloop/bus"
	dir "github.com/lugu/qiloop/bus/directory"
	qnet "github.com/lugu/qiloop/bus/net"
	"github.com/lugu/qiloop/bus/session"
	"github.com/lugu/qiloop/bus/util"
	"github.com/lugu/qiloop/examples/space"
	"github.com/lugu/qiloop/type/object"
	"github.com/lugu/qiloop/type/value"
)

func prRejected(data int64) bool { return data%7 == 5 }

type prBomb struct{ h space.BombSignalHelper }

func (b *prBomb) Activate(a bus.Activation, h space.BombSignalHelper) error {
	b.h = h
	return h.UpdateDelay(10)
}
func (b *prBomb) OnTerminate() {}
func (b *prBomb) OnDelayChange(d int32) error {
	if prRejected(int64(d)) {
		return fmt.Errorf("rejected")
	}
	return nil
}

type prNoop struct{}

func (prNoop) Receive(m *qnet.Message, from bus.Channel) error { return from.SendError(m, bus.ErrActionNotFound) }
func (prNoop) Activate(bus.Activation) error                   { return nil }
func (prNoop) OnTerminate()                                    {}

// data <-> bytes for a signature letter
func prEncode(sig string, data int64) (value.Value, []byte) {
	var b bytes.Buffer
	if len(sig) == 3 && sig[0] == '(' && sig[2] == ')' {
		// the one-member tuple of a type: the same bytes under another signature
		_, raw := prEncode(sig[1:2], data)
		return value.Opaque(sig, raw), raw
	}
	switch sig {
	case "i":
		binary.Write(&b, binary.LittleEndian, int32(data))
		return value.Int(int32(data)), b.Bytes()
	case "I":
		binary.Write(&b, binary.LittleEndian, uint32(data))
		return value.Uint(uint32(data)), b.Bytes()
	case "f":
		f := float32(data) + 0.5
		binary.Write(&b, binary.LittleEndian, math.Float32bits(f))
		return value.Float(f), b.Bytes()
	case "b":
		if data%2 == 1 {
			b.WriteByte(1)
		} else {
			b.WriteByte(0)
		}
		return value.Bool(data%2 == 1), b.Bytes()
	default: // "s"
		s := fmt.Sprintf("s%d", data)
		binary.Write(&b, binary.LittleEndian, uint32(len(s)))
		b.WriteString(s)
		return value.String(s), b.Bytes()
	}
}

func prDecodeBytes(sig string, p []byte) int64 {
	switch sig {
	case "i":
		if len(p) == 4 {
			return int64(int32(binary.LittleEndian.Uint32(p)))
		}
	case "I":
		if len(p) == 4 {
			return int64(binary.LittleEndian.Uint32(p))
		}
	case "f":
		if len(p) == 4 {
			return int64(math.Float32frombits(binary.LittleEndian.Uint32(p)) - 0.5)
		}
	case "b":
		if len(p) == 1 {
			return int64(p[0])
		}
	case "s":
		if len(p) >= 5 {
			v, err := strconv.ParseInt(string(p[5:]), 10, 64)
			if err == nil {
				return v
			}
		}
	}
	return -1
}

func prDecode(v value.Value) (string, int64) {
	var b bytes.Buffer
	v.Write(&b)
	raw := b.Bytes()
	if len(raw) < 4 {
		return "?", -1
	}
	n := int(binary.LittleEndian.Uint32(raw))
	if len(raw) < 4+n {
		return "?", -1
	}
	sig := string(raw[4 : 4+n])
	return sig, prDecodeBytes(sig, raw[4+n:])
}

type prTarget struct {
	obj    bus.ObjectProxy
	proxy  bus.Proxy
	update func(id uint32, data int64) error
	ids    []uint32
	sigs   map[uint32]string
	mu     sync.Mutex
	events map[uint32][]string
	others []map[uint32][]string // what the subscribers on the other connections have received
}

type prWorld struct {
	srv     bus.Server
	sess    bus.Session
	more    []bus.Session // two more clients, on connections of their own, subscribed to the same properties
	targets map[string]*prTarget
}

var prw *prWorld

func prClass(err error) string {
	if err == nil {
		return "ok"
	}
	m := err.Error()
	switch {
	case strings.Contains(m, "incorrect name type"):
		return "err:badName"
	case strings.Contains(m, "incorrect property id value"), strings.Contains(m, "missing property"):
		return "err:unknownId"
	case strings.Contains(m, "wrong type for property"):
		return "err:wrongType"
	case strings.Contains(m, "unknown property"):
		return "err:unknownProperty"
	case strings.Contains(m, "rejected"):
		return "err:rejected"
	}
	return "err:other:" + m
}

func prReset() string {
	log.SetOutput(ioutil.Discard)
	if prw != nil {
		prw.sess.Terminate()
		for _, m := range prw.more {
			m.Terminate()
		}
		prw.srv.Terminate()
	}
	addr := util.NewUnixAddr()
	srv, err := dir.NewServer(addr, nil)
	if err != nil {
		return "setup-error:" + err.Error()
	}
	w := &prWorld{srv: srv, targets: map[string]*prTarget{}}
	bomb := &prBomb{}
	if _, err := srv.NewService("Bomb", space.BombObject(bomb)); err != nil {
		return "setup-error:" + err.Error()
	}
	// the hand-written object: three properties, its own change callback
	var meta object.MetaObject
	meta.Properties = map[uint32]object.MetaProperty{
		200: {Uid: 200, Name: "level", Signature: "i"},
		201: {Uid: 201, Name: "label", Signature: "s"},
		202: {Uid: 202, Name: "ratio", Signature: "f"},
	}
	sigOf := map[string]string{"level": "i", "label": "s", "ratio": "f"}
	onChange := func(name string, data []byte) error {
		sig, ok := sigOf[name]
		if !ok {
			return fmt.Errorf("unknown property %s", name)
		}
		d := prDecodeBytes(sig, data)
		if d < 0 {
			return fmt.Errorf("cannot read %s", name)
		}
		if prRejected(d) {
			// a validator may take its time to refuse (concurrent histories only)
			if dl := atomic.LoadInt64(&prRejectDelay); dl > 0 {
				time.Sleep(time.Duration(dl))
			}
			return fmt.Errorf("rejected")
		}
		return nil
	}
	custom := bus.NewBasicObject(prNoop{}, meta, onChange)
	if _, err := srv.NewService("Custom", custom); err != nil {
		return "setup-error:" + err.Error()
	}
	sess, err := session.NewSession(addr)
	if err != nil {
		return "setup-error:" + err.Error()
	}
	w.sess = sess
	for i := 0; i < 2; i++ {
		m, err := session.NewSession(addr)
		if err != nil {
			return "setup-error:" + err.Error()
		}
		w.more = append(w.more, m)
	}
	time.Sleep(20 * time.Millisecond)
	mk := func(name string, ids []uint32, sigs map[uint32]string, update func(uint32, int64) error) string {
		proxy, err := sess.Proxy(name, 1)
		if err != nil {
			return "setup-error:" + err.Error()
		}
		t := &prTarget{obj: bus.MakeObject(proxy), proxy: proxy, update: update, ids: ids, sigs: sigs, events: map[uint32][]string{}}
		for _, id := range ids {
			_, ch, err := proxy.SubscribeID(id)
			if err != nil {
				return "setup-error:subscribe:" + err.Error()
			}
			go func(id uint32, ch chan []byte) {
				for p := range ch {
					t.mu.Lock()
					t.events[id] = append(t.events[id], fmt.Sprintf("%s:%d", sigs[id], prDecodeBytes(sigs[id], p)))
					t.mu.Unlock()
				}
			}(id, ch)
		}
		for mi, m := range w.more {
			mp, err := m.Proxy(name, 1)
			if err != nil {
				return "setup-error:" + err.Error()
			}
			got := map[uint32][]string{}
			t.others = append(t.others, got)
			for _, id := range ids {
				if mi == len(w.more)-1 {
					// the last session first asks with a context that is over: that subscription fails, and
					// nothing of it may remain when the session subscribes for good
					ctx, stop := context.WithCancel(context.Background())
					stop()
					if cancel, _, err := mp.WithContext(ctx).SubscribeID(id); err == nil {
						cancel()
					}
				}
				_, ch, err := mp.SubscribeID(id)
				if err != nil {
					return "setup-error:subscribe:" + err.Error()
				}
				go func(id uint32, ch chan []byte) {
					for p := range ch {
						t.mu.Lock()
						got[id] = append(got[id], fmt.Sprintf("%s:%d", sigs[id], prDecodeBytes(sigs[id], p)))
						t.mu.Unlock()
					}
				}(id, ch)
			}
		}
		w.targets[strings.ToLower(name)] = t
		return "ok"
	}
	if r := mk("Bomb", []uint32{101}, map[uint32]string{101: "i"}, func(id uint32, data int64) error {
		if id != 101 {
			return fmt.Errorf("missing property (%d)", id)
		}
		return bomb.h.UpdateDelay(int32(data))
	}); r != "ok" {
		return r
	}
	if r := mk("Custom", []uint32{200, 201, 202}, map[uint32]string{200: "i", 201: "s", 202: "f"}, func(id uint32, data int64) error {
		sig := map[uint32]string{200: "i", 201: "s", 202: "f"}[id]
		if sig == "" {
			sig = "i"
		}
		_, raw := prEncode(sig, data)
		return custom.UpdateProperty(id, sig, raw)
	}); r != "ok" {
		return r
	}
	prw = w
	return "ok"
}

func (t *prTarget) eventsStr() string {
	// let the events of the last operation arrive
	last := -1
	for i := 0; i < 200; i++ {
		t.mu.Lock()
		n := 0
		for _, e := range t.events {
			n += len(e)
		}
		for _, o := range t.others {
			for _, e := range o {
				n += len(e)
			}
		}
		t.mu.Unlock()
		if n == last && i > 3 {
			break
		}
		last = n
		time.Sleep(time.Millisecond)
	}
	t.mu.Lock()
	defer t.mu.Unlock()
	parts := make([]string, len(t.ids))
	for i, id := range t.ids {
		parts[i] = fmt.Sprintf("%d=[%s]", id, strings.Join(t.events[id], ","))
	}
	// every subscriber, whatever its connection, has received the same events
	for k, o := range t.others {
		for _, id := range t.ids {
			if strings.Join(o[id], ",") != strings.Join(t.events[id], ",") {
				parts = append(parts, fmt.Sprintf("subscriber-on-connection-%d:%d=[%s]", k+2, id, strings.Join(o[id], ",")))
			}
		}
	}
	return strings.Join(parts, " ")
}

func execPr(op string) func(a []string) string {
	return func(a []string) string {
		switch op {
		case "reset":
			return prReset()
		case "set":
			t := prw.targets[a[0]]
			data, _ := strconv.ParseInt(a[4], 10, 64)
			v, _ := prEncode(a[3], data)
			var name value.Value
			switch a[1] {
			case "name":
				name = value.String(a[2])
			case "id":
				id, _ := strconv.Atoi(a[2])
				name = value.Uint(uint32(id))
			default:
				name = value.Bool(true)
			}
			return prClass(t.obj.SetProperty(name, v))
		case "get":
			t := prw.targets[a[0]]
			v, err := t.obj.Property(value.String(a[1]))
			if err != nil {
				return "err"
			}
			sig, d := prDecode(v)
			return fmt.Sprintf("val %s %d", sig, d)
		case "update":
			t := prw.targets[a[0]]
			id, _ := strconv.Atoi(a[1])
			data, _ := strconv.ParseInt(a[2], 10, 64)
			return prClass(t.update(uint32(id), data))
		case "events":
			return prw.targets[a[0]].eventsStr()
		}
		return "bad-op"
	}
}

// prHistory runs clients and the service concurrently on property level of the hand-written object
// and returns the history: inv resp w|r name value ok …
var prRejectDelay int64

// set by prHistory when the events of a concurrent history are not one per accepted write
var prEventFail string

func prHistory(r *Rand, threads, opsEach int) (string, string) {
	if s := prReset(); s != "ok" {
		return "", s
	}
	atomic.StoreInt64(&prRejectDelay, int64(time.Duration(r.Intn(1500))*time.Microsecond))
	defer atomic.StoreInt64(&prRejectDelay, 0)
	t := prw.targets["custom"]
	if err := t.obj.SetProperty(value.String("level"), value.Int(1)); err != nil {
		return "", "setup-error:" + err.Error()
	}
	var clock int64
	type hop struct {
		inv, resp int64
		kind      string
		val       int64
		ok        bool
	}
	hist := make([][]hop, threads)
	var wg sync.WaitGroup
	next := int64(100)
	plans := make([][]int, threads)
	for i := range plans {
		for j := 0; j < opsEach; j++ {
			plans[i] = append(plans[i], r.Intn(100))
		}
	}
	for th := 0; th < threads; th++ {
		wg.Add(1)
		go func(th int) {
			defer wg.Done()
			for _, k := range plans[th] {
				var h hop
				switch {
				case k < 40: // read
					h.kind = "r"
					h.inv = atomic.AddInt64(&clock, 1)
					v, err := t.obj.Property(value.String("level"))
					h.resp = atomic.AddInt64(&clock, 1)
					if err == nil {
						_, h.val = prDecode(v)
						h.ok = true
					}
				case k < 80: // client write (unique value; some refused by the validator)
					h.kind = "w"
					h.val = atomic.AddInt64(&next, 1)
					if k < 55 {
						h.val = h.val*7 + 5 // one the validator refuses
					} else if prRejected(h.val) {
						h.val = atomic.AddInt64(&next, 1)
					}
					h.inv = atomic.AddInt64(&clock, 1)
					err := t.obj.SetProperty(value.String("level"), value.Int(int32(h.val)))
					h.resp = atomic.AddInt64(&clock, 1)
					h.ok = err == nil
				default: // the service writes
					h.kind = "w"
					h.val = atomic.AddInt64(&next, 1)
					h.inv = atomic.AddInt64(&clock, 1)
					err := t.update(200, h.val)
					h.resp = atomic.AddInt64(&clock, 1)
					h.ok = err == nil
				}
				hist[th] = append(hist[th], h)
			}
		}(th)
	}
	wg.Wait()
	// the subscriber of the property: every accepted write — whoever made it — has produced exactly one event
	// carrying its value; a refused one none
	t.eventsStr() // lets the last events arrive
	seen := map[string]int{}
	t.mu.Lock()
	for _, e := range t.events[200] {
		seen[e]++
	}
	t.mu.Unlock()
	seen["i:1"]-- // the write that set the register up
	for _, hs := range hist {
		for _, h := range hs {
			if h.kind != "w" {
				continue
			}
			key := fmt.Sprintf("i:%d", h.val)
			want := 0
			if h.ok {
				want = 1
			}
			if seen[key] != want {
				prEventFail = fmt.Sprintf("the write of %d (accepted: %v) produced %d events; events: %v", h.val, h.ok, seen[key], t.events[200])
			}
			delete(seen, key)
		}
	}
	for k, n := range seen {
		if n != 0 {
			prEventFail = fmt.Sprintf("%d events carrying %s, which nobody wrote; events: %v", n, k, t.events[200])
		}
	}
	var parts []string
	for _, hs := range hist {
		for _, h := range hs {
			ok := "0"
			if h.ok {
				ok = "1"
			}
			parts = append(parts, fmt.Sprintf("%d %d %s level %d %s", h.inv, h.resp, h.kind, h.val, ok))
		}
	}
	return strings.Join(parts, " "), "ok"
}

// pr.burst <rounds> <seed>: in every round several writers — clients and the service — write one value each at
// the same moment; every value is accepted.  The subscriber of the property gets, per round, every value exactly once.
func execPrBurst(a []string) string {
	rounds, _ := strconv.Atoi(a[0])
	seed, _ := strconv.ParseUint(a[1], 10, 64)
	r := NewRand(seed)
	if s := prReset(); s != "ok" {
		return s
	}
	t := prw.targets["custom"]
	next := int64(1000)
	for round := 0; round < rounds; round++ {
		n := 4 + r.Intn(6)
		vals := make([]int64, n)
		for i := range vals {
			next++
			for prRejected(next) {
				next++
			}
			vals[i] = next
		}
		t.mu.Lock()
		base := len(t.events[200])
		t.mu.Unlock()
		start := make(chan struct{})
		var wg sync.WaitGroup
		errs := make(chan string, n)
		for i, v := range vals {
			wg.Add(1)
			client := i == 0 || r.Chance(10)
			go func(v int64, client bool) {
				defer wg.Done()
				<-start
				var err error
				if client {
					err = t.obj.SetProperty(value.String("level"), value.Int(int32(v)))
				} else {
					err = t.update(200, v)
				}
				if err != nil {
					errs <- err.Error()
				}
			}(v, client)
		}
		close(start)
		wg.Wait()
		select {
		case e := <-errs:
			return "fail:write-refused:" + e
		default:
		}
		// the events of this round
		deadline := time.Now().Add(2 * time.Second)
		for {
			t.mu.Lock()
			got := len(t.events[200]) - base
			t.mu.Unlock()
			if got >= n || time.Now().After(deadline) {
				break
			}
			time.Sleep(200 * time.Microsecond)
		}
		time.Sleep(300 * time.Microsecond)
		t.mu.Lock()
		evs := append([]string{}, t.events[200][base:]...)
		t.mu.Unlock()
		seen := map[string]int{}
		for _, e := range evs {
			seen[e]++
		}
		for _, v := range vals {
			if seen[fmt.Sprintf("i:%d", v)] != 1 {
				lastFailDetail = fmt.Sprintf("round %d: values written %v, events %v", round, vals, evs)
				return fmt.Sprintf("fail:%d-events-for-one-write", seen[fmt.Sprintf("i:%d", v)])
			}
		}
		if len(evs) != n {
			lastFailDetail = fmt.Sprintf("round %d: values written %v, events %v", round, vals, evs)
			return "fail:events-nobody-wrote"
		}
	}
	return "ok"
}

// pr.cross <rounds> <seed>: the service keeps updating one property of the object while a client writes another
// one and reads it back, and while the service itself writes and reads a third one: every read returns what was
// just written to *that* property (no other writer touches it)
func execPrCross(a []string) string {
	rounds, _ := strconv.Atoi(a[0])
	if s := prReset(); s != "ok" {
		return s
	}
	t := prw.targets["custom"]
	stop := make(chan struct{})
	var bg sync.WaitGroup
	bg.Add(1)
	go func() {
		defer bg.Done()
		for v := int64(1); ; v++ {
			select {
			case <-stop:
				return
			default:
			}
			if !prRejected(v) {
				t.update(201, v) // label
			}
		}
	}()
	defer func() { close(stop); bg.Wait() }()
	v := int64(2000)
	for i := 0; i < rounds; i++ {
		v++
		for prRejected(v) {
			v++
		}
		if i%4 == 3 {
			// the service writes the third property and reads it through a client
			if err := t.update(202, v); err != nil {
				return "fail:update-refused:" + err.Error()
			}
			got, err := t.obj.Property(value.String("ratio"))
			if err != nil {
				return "fail:read-refused:" + err.Error()
			}
			if _, d := prDecode(got); d != v {
				lastFailDetail = fmt.Sprintf("round %d: ratio updated to %d, read %d", i, v, d)
				return "fail:a-write-to-another-property-undid-this-one"
			}
			continue
		}
		if err := t.obj.SetProperty(value.String("level"), value.Int(int32(v))); err != nil {
			return "fail:write-refused:" + err.Error()
		}
		got, err := t.obj.Property(value.String("level"))
		if err != nil {
			return "fail:read-refused:" + err.Error()
		}
		if _, d := prDecode(got); d != v {
			lastFailDetail = fmt.Sprintf("round %d: level set to %d, read %d", i, v, d)
			return "fail:a-write-to-another-property-undid-this-one"
		}
	}
	return "ok"
}

func init() {
	executors["pr.cross"] = execPrCross
	executors["pr.burst"] = execPrBurst
	for _, op := range []string{"reset", "set", "get", "update", "events"} {
		executors["pr."+op] = execPr(op)
	}
	// a recorded history is what it is: the replay hands it to the model again
	executors["pr.lin"] = func(a []string) string { return "lin" }
	runners["C14"] = runC14
}

func runC14(r *Rand, tier string, o *Out) {
	rounds := 25
	if tier == "thorough" {
		rounds = 250
	}
	names := map[string][]string{"bomb": {"delay"}, "custom": {"level", "label", "ratio"}}
	ids := map[string][]int{"bomb": {101}, "custom": {200, 201, 202}}
	declared := map[string]string{"delay": "i", "level": "i", "label": "s", "ratio": "f", "101": "i", "200": "i", "201": "s", "202": "f"}
	for s := 0; s < rounds; s++ {
		o.Do("P", "pr.reset", false)
		last := map[string]int{} // what was last sent to a target: writing the value a register already holds is an accepted write like any other
		for i := 0; i < 30; i++ {
			t := []string{"bomb", "custom", "custom"}[r.Intn(3)]
			data := r.Intn(60)
			if prev, ok := last[t]; ok && r.Chance(30) {
				data = prev
				o.Count("value:repeated")
			}
			last[t] = data
			switch k := r.Intn(100); {
			case k < 45: // a write
				kind, x := "name", names[t][r.Intn(len(names[t]))]
				switch r.Intn(10) {
				case 0:
					x = []string{"nothing", "Delay", "level "}[r.Intn(3)]
					o.Count("write:unknown-name")
				case 1, 2:
					kind, x = "id", strconv.Itoa(ids[t][r.Intn(len(ids[t]))])
					o.Count("write:by-id")
				case 3:
					kind, x = "id", strconv.Itoa(r.Pick(0, 1, 100, 999))
					o.Count("write:unknown-id")
				case 4:
					kind, x = "other", "x"
					o.Count("write:name-of-another-kind")
				}
				sig := declared[x]
				if sig == "" {
					sig = "i"
				}
				if r.Chance(25) {
					sig = []string{"i", "I", "f", "s", "b", "(i)", "(s)", "(f)"}[r.Intn(8)] // possibly the wrong type, possibly the declared one wrapped in a tuple
					o.Count("write:type-drawn-at-random")
				}
				out := o.Do("P", fmt.Sprintf("pr.set %s %s %s %s %d", t, kind, x, sig, data), true)
				o.Count("write-answer:" + out)
			case k < 65:
				x := names[t][r.Intn(len(names[t]))]
				if r.Chance(10) {
					x = "nothing"
				}
				o.Do("P", fmt.Sprintf("pr.get %s %s", t, x), true)
				o.Count("op:get")
			case k < 85:
				id := ids[t][r.Intn(len(ids[t]))]
				if r.Chance(10) {
					id = 7
				}
				out := o.Do("P", fmt.Sprintf("pr.update %s %d %d", t, id, data), true)
				o.Count("update-answer:" + out)
			default:
				o.Do("P", fmt.Sprintf("pr.events %s", t), true)
				o.Count("op:events")
			}
		}
		for _, t := range []string{"bomb", "custom"} {
			for _, n := range names[t] {
				o.Do("P", fmt.Sprintf("pr.get %s %s", t, n), true)
			}
			o.Do("P", "pr.events "+t, true)
		}
	}
	// the witness of the repaired defect
	for _, l := range []string{"pr.reset", "pr.set bomb name delay f 1", "pr.get bomb delay", "pr.set bomb name delay i 5", "pr.get bomb delay", "pr.events bomb"} {
		o.Do("P", l, true)
	}
	// simultaneous writers and the events they cause
	bursts := 3000
	if tier == "thorough" {
		bursts = 40000
	}
	for i := 0; i < 2; i++ {
		line := fmt.Sprintf("pr.burst %d %d", bursts/2, r.U64()>>1)
		if out := o.Do("P", line, true); out != "ok" {
			o.Fail("property events of simultaneous writes are not one per write: "+strings.TrimPrefix(out, "fail:"), line+" => "+out+" "+lastFailDetail)
		}
		o.Count("write-bursts")
	}
	// writes to different properties of one object at the same time
	for i := 0; i < 2; i++ {
		line := fmt.Sprintf("pr.cross %d %d", bursts/2, r.U64()>>1)
		if out := o.Do("P", line, true); out != "ok" {
			o.Fail("properties of one object written at the same time: "+strings.TrimPrefix(out, "fail:"), line+" => "+out+" "+lastFailDetail)
		}
		o.Count("writes-to-different-properties")
	}
	// a subscriber leaves while an announcement waits for another subscriber's connection
	for i := 0; i < 3; i++ {
		if out := o.Do("P", "pr.emitrace", true); out != "[42 43]" {
			o.Fail("change events while the subscribers change: a subscriber that stayed did not get one event per write", "pr.emitrace => "+out)
		}
		o.Count("scenario:subscriber-leaves-during-an-announcement")
	}
	// one client follows two properties and gives one up
	for _, v := range []string{"-1", "9", "-5", "12"} {
		if out := o.Do("P", "pr.tworoutes "+v, true); out != "ok" {
			o.Fail("two writers on two routes to the object: "+strings.SplitN(strings.TrimPrefix(out, "fail:"), " ", 2)[0], "pr.tworoutes "+v+" => "+out)
		}
		o.Count("scenario:two-routes")
	}
	if out := o.Do("P", "pr.twosubs", true); out != "level=1 gain=2 after-cancel level=3 level=4" {
		o.Fail("change events: a client that follows two properties and gives one up", "pr.twosubs => "+out)
	}
	o.Count("scenario:two-properties-one-given-up")
	// one user id for two properties of an object on one connection
	if out := o.Do("P", "pr.sameuid", true); out != "first=accepted second=refused event=42 unregister=answered" {
		o.Fail("change events: registrations of one connection under one user id", "pr.sameuid => "+out)
	}
	o.Count("scenario:one-user-id-for-two-properties")
	// a subscriber's connection is lost while an announcement waits in the write to it
	for i := 0; i < 2; i++ {
		if out := o.Do("P", "pr.hanguprace", true); out != "[42 43] [42 43]" {
			o.Fail("change events while the subscribers change: a subscriber that stayed did not get one event per write", "pr.hanguprace => "+out)
		}
		o.Count("scenario:subscriber-lost-during-an-announcement")
	}
	// concurrent histories on one register: clients and the service
	hists := 60
	if tier == "thorough" {
		hists = 600
	}
	for i := 0; i < hists; i++ {
		h, res := prHistory(r, 2+r.Intn(2), 2+r.Intn(2))
		if res != "ok" {
			o.Fail("property history: "+res, res)
			continue
		}
		o.Op("P", "pr.lin 1 "+h, "lin", true)
		o.Count("history")
		if prEventFail != "" {
			o.Fail("property events of a concurrent history are not one per accepted write", "pr.lin 1 "+h+" => "+prEventFail)
			prEventFail = ""
		}
	}
}
