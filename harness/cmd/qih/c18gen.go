package main

// C18, from meta-objects to text: idl.GenerateIDL on generated meta-objects — struct names that clash with
// each other or with the name of an interface included — is compared, byte for byte, with the text the model of
// the type set and of the printers writes (Props/C18TypeSet.lean: reg, genItfs, generateIDL).

import (
	"bytes"
	"strconv"
	"strings"

	"github.com/lugu/qiloop/meta/idl"
	"github.com/lugu/qiloop/type/object"
)

// c18ParseLine reads the metas back from an op line (see c18Line)
func c18ParseLine(parts []string) ([]c18Meta, bool) {
	var metas []c18Meta
	for _, p := range parts {
		f := strings.SplitN(p, "|", 2)
		if len(f) != 2 {
			return nil, false
		}
		m := c18Meta{name: f[0]}
		if f[1] != "" {
			for _, as := range strings.Split(f[1], ";") {
				g := strings.Split(as, ",")
				if len(g) != 5 {
					return nil, false
				}
				uid, err := strconv.Atoi(g[1])
				if err != nil {
					return nil, false
				}
				a := c18Action{kind: g[0], uid: uint32(uid), name: g[2]}
				if g[3] != "" {
					for _, ps := range strings.Split(g[3], "+") {
						h := strings.SplitN(ps, "=", 2)
						if len(h) != 2 {
							return nil, false
						}
						a.pnames = append(a.pnames, h[0])
						a.params = append(a.params, &sigT{kind: 'R', name: string(unhx(h[1]))})
					}
				}
				if g[4] != "-" {
					a.ret = &sigT{kind: 'R', name: string(unhx(g[4]))}
				}
				m.actions = append(m.actions, a)
			}
		}
		metas = append(metas, m)
	}
	return metas, true
}

// idl.gen <meta> …: the text GenerateIDL writes, the interfaces in the order of the line (the objects are a
// map: the call is repeated until that order comes up)
func execIdlGen(a []string) string {
	metas, ok := c18ParseLine(a)
	if !ok {
		return "bad-op"
	}
	objs := map[string]object.MetaObject{}
	for _, m := range metas {
		objs[m.name] = m.metaObject()
	}
	return safely(func() string {
		for try := 0; try < 400; try++ {
			var buf bytes.Buffer
			if err := idl.GenerateIDL(&buf, "pkg", objs); err != nil {
				return "generate-error"
			}
			k := 0
			inOrder := true
			for _, l := range strings.Split(buf.String(), "\n") {
				if strings.HasPrefix(l, "interface ") {
					if k >= len(metas) || !strings.HasPrefix(l, "interface "+metas[k].name) {
						inOrder = false
						break
					}
					k++
				}
			}
			if inOrder && k == len(metas) {
				return hx(buf.Bytes())
			}
		}
		return "order-not-reached"
	})
}
