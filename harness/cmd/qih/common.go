package main

import (
	"bufio"
	"bytes"
	"io"
	"encoding/hex"
	"encoding/json"
	"fmt"
	"os"
	"path/filepath"
	"sort"
	"strings"
)

// Rand is a splitmix64 generator: every random choice of a run derives from
// one seed so that a disagreement replays exactly.
type Rand struct{ s uint64 }

func NewRand(seed uint64) *Rand { return &Rand{s: seed*0x9E3779B97F4A7C15 + 0x1234567} }

func (r *Rand) U64() uint64 {
	r.s += 0x9E3779B97F4A7C15
	z := r.s
	z = (z ^ (z >> 30)) * 0xBF58476D1CE4E5B9
	z = (z ^ (z >> 27)) * 0x94D049BB133111EB
	return z ^ (z >> 31)
}
func (r *Rand) Intn(n int) int {
	if n <= 0 {
		return 0
	}
	return int(r.U64() % uint64(n))
}
func (r *Rand) Bool() bool       { return r.U64()&1 == 1 }
func (r *Rand) Chance(p int) bool { return r.Intn(100) < p }
func (r *Rand) Bytes(n int) []byte {
	b := make([]byte, n)
	for i := range b {
		b[i] = byte(r.U64())
	}
	return b
}
func (r *Rand) Pick(xs ...int) int { return xs[r.Intn(len(xs))] }

// U32 returns boundary-biased 32-bit values.
func (r *Rand) U32() uint32 {
	switch r.Intn(8) {
	case 0:
		return 0
	case 1:
		return 1
	case 2:
		return 0xFFFFFFFF
	case 3:
		return 0x7FFFFFFF
	case 4:
		return 0x80000000
	case 5:
		return uint32(r.Intn(300))
	default:
		return uint32(r.U64())
	}
}

func hx(b []byte) string {
	if len(b) == 0 {
		return "-"
	}
	return hex.EncodeToString(b)
}

func unhx(s string) []byte {
	if s == "-" || s == "" {
		return nil
	}
	b, err := hex.DecodeString(s)
	if err != nil {
		panic("bad hex " + s)
	}
	return b
}

// Out collects the operation lines, the implementation's answers and the
// statistics of one harness run.
type Out struct {
	dir      string
	ops      *bufio.Writer
	impl     *bufio.Writer
	fops     *os.File
	fimpl    *os.File
	n        int
	Counters map[string]int
	distinct map[string]struct{}
	Samples  []string
	Fails    []Fail
	Extra    map[string]interface{}
}

// Fail is a property failure observed directly on the implementation.
type Fail struct {
	Class  string `json:"class"`  // canonical, shrunk witness class (matched against known findings)
	Detail string `json:"detail"` // the concrete input / history
	Line   int    `json:"line"`   // op line number, -1 if none
}

func NewOut(dir string) *Out {
	if err := os.MkdirAll(dir, 0o755); err != nil {
		panic(err)
	}
	fo, err := os.Create(filepath.Join(dir, "ops.txt"))
	if err != nil {
		panic(err)
	}
	fi, err := os.Create(filepath.Join(dir, "impl.txt"))
	if err != nil {
		panic(err)
	}
	return &Out{dir: dir, fops: fo, fimpl: fi, ops: bufio.NewWriterSize(fo, 1<<20), impl: bufio.NewWriterSize(fi, 1<<20),
		Counters: map[string]int{}, distinct: map[string]struct{}{}, Extra: map[string]interface{}{}}
}

// Op records one operation line and the implementation's canonical answer.
// class is "P" when the property's theorem fixes the answer for this input
// and "X" when the line only serves the model/implementation correspondence.
func (o *Out) Op(class string, op string, impl string, nontrivial bool) int {
	if strings.ContainsAny(op, "\n\r") || strings.ContainsAny(impl, "\n\r") {
		panic("newline in op")
	}
	fmt.Fprintf(o.ops, "%s %s\n", class, op)
	fmt.Fprintf(o.impl, "%s\n", impl)
	o.n++
	if nontrivial {
		o.distinct[op] = struct{}{}
	}
	if len(o.Samples) < 6 && (o.n%97 == 1) {
		s := op + " => " + impl
		if len(s) > 400 {
			s = s[:400] + "…"
		}
		o.Samples = append(o.Samples, s)
	}
	return o.n
}

func (o *Out) Count(k string) { o.Counters[k]++ }

// executors run one operation line (already split into words, without the
// class tag) against the real implementation and return its canonical answer.
var executors = map[string]func(args []string) string{}

// Do executes an op line against the implementation and records it.  The op line is on disk
// before the implementation runs: if the process dies inside the operation (a fatal runtime
// error cannot be recovered), the last op line without an answer is the failing input.
func (o *Out) Do(class string, op string, nontrivial bool) string {
	w := strings.Fields(op)
	ex, ok := executors[w[0]]
	if !ok {
		panic("no executor for " + w[0])
	}
	if strings.ContainsAny(op, "\n\r") {
		panic("newline in op")
	}
	fmt.Fprintf(o.ops, "%s %s\n", class, op)
	o.ops.Flush()
	res := safely(func() string { return ex(w[1:]) })
	o.answer(op, res, nontrivial)
	return res
}

func (o *Out) answer(op, impl string, nontrivial bool) {
	if strings.ContainsAny(impl, "\n\r") {
		panic("newline in answer")
	}
	fmt.Fprintf(o.impl, "%s\n", impl)
	o.impl.Flush()
	o.n++
	if nontrivial {
		o.distinct[op] = struct{}{}
	}
	if len(o.Samples) < 6 && (o.n%97 == 1) {
		s := op + " => " + impl
		if len(s) > 400 {
			s = s[:400] + "…"
		}
		o.Samples = append(o.Samples, s)
	}
}

// replayOps re-runs the op lines of a file (with or without class tags).
func replayOps(prop, path string, o *Out) {
	f, err := os.Open(path)
	if err != nil {
		panic(err)
	}
	defer f.Close()
	sc := bufio.NewScanner(f)
	sc.Buffer(make([]byte, 1<<20), 1<<28)
	for sc.Scan() {
		line := strings.TrimSpace(sc.Text())
		if line == "" {
			continue
		}
		class := "P"
		if strings.HasPrefix(line, "P ") || strings.HasPrefix(line, "X ") {
			class = line[:1]
			line = line[2:]
		}
		o.Do(class, line, true)
	}
}

func (o *Out) Fail(class, detail string) {
	o.Fails = append(o.Fails, Fail{Class: class, Detail: detail, Line: o.n})
}

func (o *Out) Close() {
	o.ops.Flush()
	o.impl.Flush()
	o.fops.Close()
	o.fimpl.Close()
	keys := make([]string, 0, len(o.Counters))
	for k := range o.Counters {
		keys = append(keys, k)
	}
	sort.Strings(keys)
	st := map[string]interface{}{
		"evaluations":         o.n,
		"distinct_nontrivial": len(o.distinct),
		"distribution":        o.Counters,
		"samples":             o.Samples,
		"fails":               o.Fails,
		"extra":               o.Extra,
	}
	b, _ := json.MarshalIndent(st, "", " ")
	if err := os.WriteFile(filepath.Join(o.dir, "stats.json"), b, 0o644); err != nil {
		panic(err)
	}
}

// safely runs f, mapping a panic to the outcome "panic".
func safely(f func() string) (res string) {
	defer func() {
		if r := recover(); r != nil {
			res = "panic"
		}
	}()
	return f()
}

// newDataReader: the decoders are given the same bytes through different readers — a *bytes.Reader, a
// *bytes.Buffer (what the repository itself decodes payloads from), a reader that hands out one byte per
// call, readers that report the end together with the last bytes.  Which one follows from the data, so that a line replays the same way.  The second result tells
// how many bytes are left unread.
func newDataReader(data []byte) (io.Reader, func() int) {
	k := len(data)
	if len(data) > 0 {
		k += int(data[len(data)-1])
	}
	switch k % 5 {
	case 0:
		r := bytes.NewReader(data)
		return r, r.Len
	case 1:
		b := bytes.NewBuffer(append([]byte(nil), data...))
		return b, b.Len
	case 2:
		// the end of the stream is reported by the call that hands out the last bytes (a TLS connection whose
		// peer closes after the data, iotest.DataErrReader): `(n > 0, io.EOF)`
		r := bytes.NewReader(data)
		return eofWithDataReader{r, 1 << 30}, r.Len
	case 3:
		// the same, seven bytes at a time
		r := bytes.NewReader(data)
		return eofWithDataReader{r, 7}, r.Len
	}
	r := bytes.NewReader(data)
	return oneByteReader{r}, r.Len
}

type eofWithDataReader struct {
	r   *bytes.Reader
	max int
}

func (e eofWithDataReader) Read(p []byte) (int, error) {
	if len(p) > e.max {
		p = p[:e.max]
	}
	n, err := e.r.Read(p)
	if err == nil && e.r.Len() == 0 {
		err = io.EOF
	}
	return n, err
}

type oneByteReader struct{ r io.Reader }

func (o oneByteReader) Read(p []byte) (int, error) {
	if len(p) == 0 {
		return 0, nil
	}
	return o.r.Read(p[:1])
}
