package main

// C14: two writers of one property on two routes to the object — a client of the service, and the client made by
// bus.DirectClient for the process that owns the object (its own mailbox) — with the second write done while the first
// is inside the validator.  Every accepted write is announced once with its own value, a refused write is not
// announced, and the value read afterwards is the last one stored.

import (
	"fmt"
	"io/ioutil"
	"log"
	gonet "net"
	"strings"
	"time"

	"github.com/lugu/qiloop/bus"
	qnet "github.com/lugu/qiloop/bus/net"
	"github.com/lugu/qiloop/type/object"
	"github.com/lugu/qiloop/type/value"
)

// pr.tworoutes <second value>: 7 is written on the direct route and held in the validator; <second value> (negative:
// refused) is written through the service meanwhile; then 7 is let go.
func prTwoRoutes(a []string) string {
	log.SetOutput(ioutil.Discard)
	var second int
	fmt.Sscanf(a[0], "%d", &second)
	l := &auListener{ch: make(chan qnet.Stream), closed: make(chan struct{})}
	srv, err := bus.StandAloneServer(l, bus.Yes{}, bus.PrivateNamespace())
	if err != nil {
		return "setup-error:" + err.Error()
	}
	defer func() {
		done := make(chan struct{})
		go func() { srv.Terminate(); close(done) }()
		select {
		case <-done:
		case <-time.After(3 * time.Second):
		}
	}()
	var meta object.MetaObject
	meta.Properties = map[uint32]object.MetaProperty{200: {Uid: 200, Name: "level", Signature: "i"}}
	inside := make(chan struct{}, 1)
	release := make(chan struct{})
	custom := bus.NewBasicObject(prNoop{}, meta, func(name string, data []byte) error {
		v := prDecodeBytes("i", data)
		if v < 0 {
			return fmt.Errorf("negative")
		}
		if v == 7 {
			inside <- struct{}{}
			select {
			case <-release:
			case <-time.After(5 * time.Second):
			}
		}
		return nil
	})
	svc, err := srv.NewService("Custom", custom)
	if err != nil {
		return "setup-error:" + err.Error()
	}
	sid := svc.ServiceID()
	p, q := gonet.Pipe()
	l.ch <- qnet.ConnStream(q)
	ep := qnet.NewEndPoint(qnet.ConnStream(p))
	defer ep.Close()
	if err := bus.AuthenticateUser(ep, "", ""); err != nil {
		return "setup-error:" + err.Error()
	}
	cl := bus.NewClient(bus.NewContext(ep))
	m, err := bus.GetMetaObject(cl, sid, 1)
	if err != nil {
		return "setup-error:" + err.Error()
	}
	remote := bus.NewProxy(cl, m, sid, 1)
	direct := bus.NewProxy(bus.DirectClient(custom), m, sid, 1)
	_, level, err := remote.SubscribeID(200)
	if err != nil {
		return "setup-error:" + err.Error()
	}
	get := func(d time.Duration) string {
		select {
		case b, ok := <-level:
			if !ok {
				return "closed"
			}
			return fmt.Sprint(prDecodeBytes("i", b))
		case <-time.After(d):
			return "none"
		}
	}
	if err := bus.MakeObject(remote).SetProperty(value.String("level"), value.Int(3)); err != nil {
		return "setup-error:" + err.Error()
	}
	r0 := get(2 * time.Second)
	firstDone := make(chan error, 1)
	go func() { firstDone <- bus.MakeObject(direct).SetProperty(value.String("level"), value.Int(7)) }()
	select {
	case <-inside:
	case <-time.After(3 * time.Second):
		return "fail:the write on the direct route does not reach the validator"
	}
	secondErr := bus.MakeObject(remote).SetProperty(value.String("level"), value.Int(int32(second)))
	r1 := "none"
	if second >= 0 {
		r1 = get(2 * time.Second)
	}
	close(release)
	select {
	case err := <-firstDone:
		if err != nil {
			return "fail:the write on the direct route fails: " + err.Error()
		}
	case <-time.After(3 * time.Second):
		return "fail:the write on the direct route does not return"
	}
	r2 := get(2 * time.Second)
	r3 := get(100 * time.Millisecond)
	read, err := bus.MakeObject(remote).Property(value.String("level"))
	rv := "error"
	if err == nil {
		if iv, ok := read.(value.IntValue); ok {
			rv = fmt.Sprint(iv.Value())
		} else {
			rv = fmt.Sprintf("%T", read)
		}
	}
	return fmt.Sprintf("first=%s second-refused=%v during=%s after=%s extra=%s read=%s", r0, secondErr != nil, r1, r2, r3, rv)
}

func init() {
	executors["pr.tworoutes"] = func(a []string) string {
		r := prTwoRoutes(a)
		want := "first=3 second-refused=false during=" + a[0] + " after=7 extra=none read=7"
		if strings.HasPrefix(a[0], "-") {
			want = "first=3 second-refused=true during=none after=7 extra=none read=7"
		}
		if r == want {
			return "ok"
		}
		lastFailDetail = r
		if !strings.HasPrefix(r, "fail:") && !strings.HasPrefix(r, "setup-error:") {
			r = "fail:announcements " + r
		}
		return r
	}
}
