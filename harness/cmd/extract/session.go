package main

import (
	"go/ast"
	"strings"
)

func init() { extractors["Session"] = extractSession }

// Session.client as a token list: lock operations on pollMutex, look-ups and
// stores on the poll map, the dial, close/AddHandler on the own endpoint and
// returns, in source order with the if/for structure around the look-ups.
// Function literals (the closer) are extracted separately.
func extractSession(out string) {
	const file = "bus/session/session.go"
	f := load(file)
	l := &leanFile{ns: "Session"}
	fd := mustFunc(f, file, "*Session", "client")

	var toks []string
	var closer []string

	var exprToks func(e ast.Node, into *[]string)
	exprToks = func(e ast.Node, into *[]string) {
		ast.Inspect(e, func(n ast.Node) bool {
			switch v := n.(type) {
			case *ast.FuncLit:
				return false
			case *ast.CallExpr:
				s := src(v.Fun)
				switch {
				case strings.HasPrefix(s, "s.pollMutex."):
					*into = append(*into, strings.TrimPrefix(s, "s.pollMutex."))
				case s == "bus.SelectEndPoint":
					*into = append(*into, "dial")
				case s == "endpoint.Close":
					*into = append(*into, "closeOwn")
				case s == "endpoint.AddHandler" || s == "endpoint.MakeHandler":
					*into = append(*into, "addHandler")
				case s == "delete" && len(v.Args) > 0 && src(v.Args[0]) == "s.poll":
					*into = append(*into, "delete")
				}
			case *ast.IndexExpr:
				if src(v.X) == "s.poll" {
					*into = append(*into, "lookup")
				}
			}
			return true
		})
	}

	var walk func(st ast.Stmt)
	walkBlock := func(b *ast.BlockStmt) {
		for _, s := range b.List {
			walk(s)
		}
	}
	walk = func(st ast.Stmt) {
		switch v := st.(type) {
		case *ast.AssignStmt:
			// a store into the map?
			if len(v.Lhs) == 1 {
				if ix, ok := v.Lhs[0].(*ast.IndexExpr); ok && src(ix.X) == "s.poll" {
					toks = append(toks, "insert")
					return
				}
			}
			// the closer literal
			if len(v.Lhs) == 1 && src(v.Lhs[0]) == "closer" {
				if fl, ok := v.Rhs[0].(*ast.FuncLit); ok {
					for _, s := range fl.Body.List {
						exprToks(s, &closer)
					}
				}
				return
			}
			for _, r := range v.Rhs {
				exprToks(r, &toks)
			}
		case *ast.ExprStmt:
			exprToks(v.X, &toks)
		case *ast.IfStmt:
			cond := src(v.Cond)
			switch {
			case cond == "ok":
				toks = append(toks, "if-hit {")
				walkBlock(v.Body)
				toks = append(toks, "}")
			case cond == "err != nil" || strings.Contains(cond, "len(info.Endpoints)"):
				// error exits before/after the dial: not part of the lock protocol
				if strings.Contains(src(v.Body), "pollMutex") {
					toks = append(toks, "if-other {")
					walkBlock(v.Body)
					toks = append(toks, "}")
				}
			default:
				toks = append(toks, "if "+cond+" {")
				walkBlock(v.Body)
				toks = append(toks, "}")
			}
		case *ast.RangeStmt:
			toks = append(toks, "for {")
			walkBlock(v.Body)
			toks = append(toks, "}")
		case *ast.ForStmt:
			toks = append(toks, "for {")
			walkBlock(v.Body)
			toks = append(toks, "}")
		case *ast.ReturnStmt:
			if len(v.Results) == 2 && src(v.Results[1]) == "nil" {
				// which client is returned: the one found in the map or the new one
				toks = append(toks, "return-"+returnKind(fd, v))
			}
		case *ast.DeferStmt:
			toks = append(toks, "defer "+src(v.Call))
		case *ast.GoStmt:
			toks = append(toks, "go "+src(v.Call.Fun))
		case *ast.BlockStmt:
			walkBlock(v)
		}
	}
	walkBlock(fd.Body)
	l.strList("clientTokens", toks)
	l.strList("closerTokens", closer)
	// the refresh of the service list: one at a time, in the order of the directory's signals
	l.strList("updateLoopFlow", flowTokens(mustFunc(f, file, "*Session", "updateLoop"), "s", []string{"removed", "added"}, []string{"updateServiceList"}))
	l.strList("updateServiceListFlow", flowTokens(mustFunc(f, file, "*Session", "updateServiceList"), "s", []string{"serviceList"}, []string{"Services", "Terminate"}))
	l.write(out, "Session.lean")
}

// returnKind: inside an `if ok` body the variable c is the map's client ("hit");
// at top level after `c = bus.NewClient(channel)` it is the new one ("own").
func returnKind(fd *ast.FuncDecl, ret *ast.ReturnStmt) string {
	kind := "own"
	ast.Inspect(fd.Body, func(n ast.Node) bool {
		if is, ok := n.(*ast.IfStmt); ok && src(is.Cond) == "ok" {
			if is.Body.Pos() <= ret.Pos() && ret.End() <= is.Body.End() {
				kind = "hit"
			}
		}
		return true
	})
	return kind
}
