package main

import "go/ast"

func init() { extractors["Client"] = extractClient }

// bus/client.go: the order of operations in Call, Subscribe and OnDisconnect.
func extractClient(out string) {
	const file = "bus/client.go"
	f := load(file)
	l := &leanFile{ns: "Client"}
	fields := []string{"endpoint", "messageID"}
	calls := []string{"MakeHandler", "Send", "RemoveHandler", "close", "cancelMessage", "newMessage", "nextMessageID", "NewValue"}
	for _, fn := range []string{"Call", "Subscribe", "OnDisconnect", "nextMessageID"} {
		l.strList(lowerFirst(fn)+"Flow", flowTokens(mustFunc(f, file, "*client", fn), "c", fields, calls))
	}
	// the channels: buffer sizes decide who can block
	var chans []string
	for _, fn := range []string{"Call", "Subscribe", "OnDisconnect"} {
		ast.Inspect(mustFunc(f, file, "*client", fn).Body, func(n ast.Node) bool {
			if as, ok := n.(*ast.AssignStmt); ok && len(as.Lhs) == 1 && len(as.Rhs) == 1 {
				if ce, ok := as.Rhs[0].(*ast.CallExpr); ok && src(ce.Fun) == "make" && len(ce.Args) >= 1 {
					if _, ok := ce.Args[0].(*ast.ChanType); ok {
						chans = append(chans, fn+": "+src(as.Lhs[0])+" = "+src(ce))
					}
				}
			}
			return true
		})
	}
	l.strList("channels", chans)
	l.write(out, "Client.lean")
}
