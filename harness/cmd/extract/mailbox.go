package main

func init() { extractors["Mailbox"] = extractMailbox }

// bus/mailbox.go: one goroutine per object executes Receive for every mail, one after the other;
// bus/service.go: the connection's goroutine hands the mail over.
func extractMailbox(out string) {
	l := &leanFile{ns: "Mailbox"}
	f := load("bus/mailbox.go")
	l.strList("newMailBoxFlow", flowTokens(mustFunc(f, "bus/mailbox.go", "", "NewMailBox"), "", nil, []string{"Receive", "make"}))
	l.write(out, "Mailbox.lean")
}
