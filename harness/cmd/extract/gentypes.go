package main

import (
	"go/ast"
	"go/token"
	"strconv"
	"strings"
)

func init() { extractors["GenTypes"] = extractGenTypes }

// jenTokens linearises a generator function: the methods of the jennifer DSL it calls and the
// string literals it passes, in source order (pre-order of the syntax tree).  The string
// literals are the generated Go text; the method names are its structure.
func jenTokens(n ast.Node) []string {
	var toks []string
	ast.Inspect(n, func(n ast.Node) bool {
		switch v := n.(type) {
		case *ast.SelectorExpr:
			if jenStructure[v.Sel.Name] {
				toks = append(toks, "."+v.Sel.Name)
			}
		case *ast.BasicLit:
			if v.Kind == token.STRING {
				s, err := strconv.Unquote(v.Value)
				if err != nil {
					s = v.Value
				}
				toks = append(toks, "\""+strings.Join(strings.Fields(s), " ")+"\"")
			}
		case *ast.RangeStmt:
			toks = append(toks, "range "+src(v.X))
		case *ast.IfStmt:
			toks = append(toks, "if "+src(v.Cond))
		}
		return true
	})
	return toks
}

// the structural methods of the DSL; the others (Id, Qual, Lit, Params, Add, …) only wrap the literals
var jenStructure = map[string]bool{"For": true, "If": true, "Return": true, "Func": true, "Block": true, "Go": true, "Switch": true,
	"Case": true, "Default": true, "Var": true, "Call": true, "Op": true, "Index": true, "Map": true, "Dot": true}

func lastOf(xs []string) string {
	if len(xs) == 0 {
		return ""
	}
	return xs[len(xs)-1]
}

func stringLits(n ast.Node) []string {
	var out []string
	ast.Inspect(n, func(n ast.Node) bool {
		if v, ok := n.(*ast.BasicLit); ok && v.Kind == token.STRING {
			s, err := strconv.Unquote(v.Value)
			if err == nil {
				out = append(out, s)
			}
		}
		return true
	})
	return out
}

// The statement generators of the generated (un)marshalling code and of the glue around it.
func extractGenTypes(out string) {
	l := &leanFile{ns: "GenTypes"}
	{
		const file = "meta/signature/type.go"
		f := load(file)
		// the scalar constructors: signature letter, IDL name, what marshal / unmarshal render
		var rows [][]string
		for _, d := range f.Decls {
			fd, ok := d.(*ast.FuncDecl)
			if !ok || fd.Recv != nil || !strings.HasPrefix(fd.Name.Name, "New") || !strings.HasSuffix(fd.Name.Name, "Type") {
				continue
			}
			ast.Inspect(fd.Body, func(n ast.Node) bool {
				cl, ok := n.(*ast.CompositeLit)
				if !ok || src(cl.Type) != "typeConstructor" {
					return true
				}
				row := []string{fd.Name.Name, "", "", "", ""}
				for _, e := range cl.Elts {
					kv, ok := e.(*ast.KeyValueExpr)
					if !ok {
						continue
					}
					switch src(kv.Key) {
					case "signature":
						row[1] = strings.Join(stringLits(kv.Value), "|")
						if row[1] == "" {
							row[1] = src(kv.Value)
						}
					case "signatureIDL":
						row[2] = strings.Join(stringLits(kv.Value), "|")
					case "marshal":
						row[3] = lastOf(stringLits(kv.Value))
					case "unmarshal":
						row[4] = lastOf(stringLits(kv.Value))
					}
				}
				rows = append(rows, row)
				return false
			})
		}
		l.tupleList("scalars", 5, rows)
		for _, fn := range [][2]string{{"ListType", "Marshal"}, {"ListType", "Unmarshal"}, {"MapType", "Marshal"}, {"MapType", "Unmarshal"},
			{"TupleType", "Marshal"}, {"TupleType", "Unmarshal"}, {"StructType", "TypeDeclaration"}, {"StructType", "Marshal"},
			{"StructType", "Unmarshal"}, {"EnumType", "Marshal"}, {"EnumType", "Unmarshal"}} {
			l.strList(strings.ToLower(fn[0][:1])+fn[0][1:]+fn[1], jenTokens(mustFunc(f, file, fn[0], fn[1]).Body))
		}
	}
	{
		const file = "meta/stub/stub.go"
		f := load(file)
		for _, fn := range []string{"methodBodyBlock", "signalBodyBlock", "propertyBodyBlock", "generateStubPropertyCallback"} {
			l.strList("stub_"+fn, jenTokens(mustFunc(f, file, "", fn).Body))
		}
	}
	{
		const file = "meta/idl/proxy.go"
		f := load(file)
		for _, fn := range []string{"methodBodyBlock2", "generateSubscribe", "generatePropertyGet", "generatePropertySet"} {
			l.strList("proxy_"+fn, jenTokens(mustFunc(f, file, "", fn).Body))
		}
	}
	{
		const file = "meta/idl/interface.go"
		f := load(file)
		for _, fn := range [][2]string{{"Method", "Tuple"}, {"Method", "Type"}, {"Signal", "Tuple"}, {"Signal", "Type"}, {"Property", "Tuple"}, {"Property", "Type"}} {
			l.strList("idl_"+fn[0]+fn[1], flowTokens(mustFunc(f, file, fn[0], fn[1]), "_", nil,
				[]string{"CleanVarName", "NewStructType", "Tuple", "append"}))
		}
	}
	{
		const file = "meta/signature/name.go"
		f := load(file)
		for _, v := range []string{"reservedMethods", "keywords"} {
			found := false
			for _, d := range f.Decls {
				gd, ok := d.(*ast.GenDecl)
				if !ok {
					continue
				}
				for _, sp := range gd.Specs {
					vs, ok := sp.(*ast.ValueSpec)
					if !ok || len(vs.Names) != 1 || vs.Names[0].Name != v || len(vs.Values) != 1 {
						continue
					}
					l.strList("name_"+v, stringLits(vs.Values[0]))
					found = true
				}
			}
			if !found {
				fail("%s: %s not found", file, v)
			}
		}
		for _, fn := range []string{"ValidName", "CleanName", "CleanMethodName", "CleanVarName"} {
			l.strList("name_"+fn, jenTokens(mustFunc(f, file, "", fn).Body))
		}
	}
	{
		const file = "type/object/metaobject_decorator.go"
		f := load(file)
		l.strList("registerName", jenTokens(mustFunc(f, file, "", "registerName").Body))
		l.strList("forEach", flowTokens(mustFunc(f, file, "MetaObject", "ForEachMethodAndSignal"), "m", nil,
			[]string{"registerName", "Title", "Ints", "methodCall", "signalCall", "propertyCall"}))
	}
	{
		// the methods a specialized proxy has without any IDL method: those of bus.ObjectProxy
		// (with the embedded object.Object) and the two the generator declares itself
		ifaceMethods := func(file, name string) []string {
			f := load(file)
			var out []string
			for _, d := range f.Decls {
				gd, ok := d.(*ast.GenDecl)
				if !ok {
					continue
				}
				for _, sp := range gd.Specs {
					ts, ok := sp.(*ast.TypeSpec)
					if !ok || ts.Name.Name != name {
						continue
					}
					it, ok := ts.Type.(*ast.InterfaceType)
					if !ok {
						continue
					}
					for _, m := range it.Methods.List {
						if len(m.Names) == 1 {
							out = append(out, m.Names[0].Name)
						} else {
							out = append(out, "embed "+src(m.Type))
						}
					}
				}
			}
			if len(out) == 0 {
				fail("%s: interface %s not found", file, name)
			}
			return out
		}
		l.strList("objectProxyMethods", ifaceMethods("bus/object_stub_gen.go", "ObjectProxy"))
		l.strList("objectMethods", ifaceMethods("type/object/object.go", "Object"))
	}
	l.write(out, "GenTypes.lean")
}
