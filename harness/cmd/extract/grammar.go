package main

import (
	"fmt"
	"go/ast"
	"go/token"
	"sort"
	"strconv"
	"strings"
)

// Translation of goparsec combinator expressions into the Lean deep embedding
// `QiVerif.Peg.Peg` (lean/QiVerif/Model/Peg.lean).

var tokClass = map[string]string{
	`[A-Za-z][0-9a-zA-Z_]*`:                          ".ident",
	`[A-Za-z][0-9a-zA-Z_]*\<[A-Za-z][0-9a-zA-Z_]*>`: ".templateName",
	`-?[0-9]+`:                                       ".int",
}

type grammarTx struct {
	file   *ast.File
	fname  string
	rules  map[string]string // rule name -> Lean Peg term
	order  []string
	locals map[string]ast.Expr // local string-slice variables (OrdTokens arguments)
	stack  map[string]bool
}

func newGrammarTx(f *ast.File, fname string) *grammarTx {
	return &grammarTx{file: f, fname: fname, rules: map[string]string{}, locals: map[string]ast.Expr{}, stack: map[string]bool{}}
}

func bytesLit(s string) string {
	b := []byte(s)
	p := make([]string, len(b))
	for i, c := range b {
		p[i] = strconv.Itoa(int(c))
	}
	return "[" + strings.Join(p, ", ") + "]"
}

func strLit(e ast.Expr) (string, bool) {
	bl, ok := e.(*ast.BasicLit)
	if !ok || bl.Kind != token.STRING {
		return "", false
	}
	s, err := strconv.Unquote(bl.Value)
	if err != nil {
		return "", false
	}
	return s, true
}

func (g *grammarTx) class(pat string) string {
	if c, ok := tokClass[pat]; ok {
		return c
	}
	return "(.other " + lstr(pat) + ")"
}

func (g *grammarTx) callback(e ast.Expr) string {
	if id, ok := e.(*ast.Ident); ok {
		if id.Name == "nil" {
			return `""`
		}
		return lstr(id.Name)
	}
	return lstr(src(e))
}

func (g *grammarTx) list(es []ast.Expr) string {
	p := make([]string, len(es))
	for i, e := range es {
		p[i] = g.expr(e)
	}
	return "[" + strings.Join(p, ",\n      ") + "]"
}

func (g *grammarTx) stringSlice(e ast.Expr) []string {
	if id, ok := e.(*ast.Ident); ok {
		if l, ok := g.locals[id.Name]; ok {
			e = l
		}
	}
	cl, ok := e.(*ast.CompositeLit)
	if !ok {
		fail("%s: cannot resolve string slice %s", g.fname, src(e))
	}
	var out []string
	for _, el := range cl.Elts {
		s, ok := strLit(el)
		if !ok {
			fail("%s: non-literal in string slice %s", g.fname, src(e))
		}
		out = append(out, s)
	}
	return out
}

// collectLocals records `x := []string{...}` declarations of a function body.
func (g *grammarTx) collectLocals(body *ast.BlockStmt) {
	ast.Inspect(body, func(n ast.Node) bool {
		if as, ok := n.(*ast.AssignStmt); ok && len(as.Lhs) == 1 && len(as.Rhs) == 1 {
			if id, ok := as.Lhs[0].(*ast.Ident); ok {
				if _, ok := as.Rhs[0].(*ast.CompositeLit); ok {
					g.locals[id.Name] = as.Rhs[0]
				}
			}
		}
		return true
	})
}

func (g *grammarTx) optSep(args []ast.Expr) (string, string) {
	switch len(args) {
	case 1:
		return g.expr(args[0]), "none"
	case 2:
		return g.expr(args[0]), "(some " + g.expr(args[1]) + ")"
	}
	fail("%s: kleene/many with %d parsers", g.fname, len(args))
	return "", ""
}

func (g *grammarTx) expr(e ast.Expr) string {
	switch v := e.(type) {
	case *ast.UnaryExpr:
		if v.Op == token.AND {
			return "(.ref " + lstr(src(v.X)) + ")"
		}
	case *ast.Ident:
		return "(.ref " + lstr(v.Name) + ")"
	case *ast.SelectorExpr:
		return "(.ref " + lstr(src(v)) + ")"
	case *ast.ParenExpr:
		return g.expr(v.X)
	case *ast.CallExpr:
		fn := src(v.Fun)
		switch fn {
		case "parsec.And":
			return fmt.Sprintf("(.and %s %s)", g.list(v.Args[1:]), g.callback(v.Args[0]))
		case "parsec.OrdChoice":
			return fmt.Sprintf("(.ord %s %s)", g.list(v.Args[1:]), g.callback(v.Args[0]))
		case "parsec.Kleene":
			p, s := g.optSep(v.Args[1:])
			return fmt.Sprintf("(.kleene %s %s %s)", p, s, g.callback(v.Args[0]))
		case "parsec.Many":
			p, s := g.optSep(v.Args[1:])
			return fmt.Sprintf("(.many %s %s %s)", p, s, g.callback(v.Args[0]))
		case "parsec.Maybe":
			return fmt.Sprintf("(.maybe %s %s)", g.expr(v.Args[1]), g.callback(v.Args[0]))
		case "parsec.Atom":
			lit, ok1 := strLit(v.Args[0])
			name, ok2 := strLit(v.Args[1])
			if !ok1 || !ok2 {
				fail("%s: non-literal Atom %s", g.fname, src(v))
			}
			return fmt.Sprintf("(.atom %s %s)", bytesLit(lit), lstr(name))
		case "parsec.Token":
			pat, ok1 := strLit(v.Args[0])
			name, ok2 := strLit(v.Args[1])
			if !ok1 || !ok2 {
				fail("%s: non-literal Token %s", g.fname, src(v))
			}
			return fmt.Sprintf("(.tok %s %s)", g.class(pat), lstr(name))
		case "parsec.OrdTokens":
			pats := g.stringSlice(v.Args[0])
			names := g.stringSlice(v.Args[1])
			if len(pats) != len(names) {
				fail("%s: OrdTokens arity", g.fname)
			}
			alts := make([]string, len(pats))
			for i := range pats {
				alts[i] = fmt.Sprintf("(%s, %s)", g.class(pats[i]), lstr(names[i]))
			}
			return "(.ordTokens [" + strings.Join(alts, ", ") + "])"
		case "parsec.Ident":
			return `(.tok .ident "IDENT")`
		case "parsec.Int":
			return `(.tok .int "INT")`
		case "parsec.End":
			return ".end_"
		}
		// a call of a local function returning a parser: a rule of that name
		if id, ok := v.Fun.(*ast.Ident); ok {
			g.funcRule(id.Name)
			return "(.ref " + lstr(id.Name) + ")"
		}
	}
	fail("%s: cannot translate parser expression %s", g.fname, src(e))
	return ""
}

// funcRule makes the single return expression of function `name` a rule.
func (g *grammarTx) funcRule(name string) {
	if _, ok := g.rules[name]; ok || g.stack[name] {
		return
	}
	fd := findFunc(g.file, "", name)
	if fd == nil || fd.Body == nil {
		fail("%s: parser function %s not found", g.fname, name)
	}
	g.stack[name] = true
	g.collectLocals(fd.Body)
	var ret ast.Expr
	for _, st := range fd.Body.List {
		if r, ok := st.(*ast.ReturnStmt); ok && len(r.Results) == 1 {
			ret = r.Results[0]
		}
	}
	if ret == nil {
		fail("%s: function %s has no single return", g.fname, name)
	}
	g.add(name, g.expr(ret))
	delete(g.stack, name)
}

func (g *grammarTx) add(name, term string) {
	if _, ok := g.rules[name]; !ok {
		g.order = append(g.order, name)
	}
	g.rules[name] = term
}

func (g *grammarTx) emit(l *leanFile, defName string, sorted bool) {
	names := append([]string{}, g.order...)
	if sorted {
		sort.Strings(names)
	}
	var b strings.Builder
	fmt.Fprintf(&b, "open QiVerif.Peg in\ndef %s : List (String × QiVerif.Peg.Peg) :=\n  [", defName)
	for i, n := range names {
		if i > 0 {
			b.WriteString(",\n   ")
		}
		fmt.Fprintf(&b, "(%s,\n     %s)", lstr(n), strings.TrimPrefix(g.rules[n], " "))
	}
	b.WriteString("]")
	l.raw(b.String())
}
