package main

import (
	"go/ast"
	"go/token"
	"strconv"
	"strings"
)

func init() {
	extractors["Value"] = extractValue
	extractors["Reader"] = extractReader
	extractors["Encoding"] = extractEncoding
}

// evalConst evaluates integer constant expressions made of literals, +, *, <<.
func evalConst(e ast.Expr) (uint64, bool) {
	switch v := e.(type) {
	case *ast.BasicLit:
		if v.Kind == token.INT {
			n, err := strconv.ParseUint(v.Value, 0, 64)
			return n, err == nil
		}
	case *ast.ParenExpr:
		return evalConst(v.X)
	case *ast.CallExpr: // uint32(…)
		if len(v.Args) == 1 {
			return evalConst(v.Args[0])
		}
	case *ast.BinaryExpr:
		a, ok1 := evalConst(v.X)
		b, ok2 := evalConst(v.Y)
		if !ok1 || !ok2 {
			return 0, false
		}
		switch v.Op {
		case token.MUL:
			return a * b, true
		case token.ADD:
			return a + b, true
		case token.SHL:
			return a << b, true
		}
	}
	return 0, false
}

func constOf(f *ast.File, name string) (uint64, bool) {
	for _, d := range f.Decls {
		gd, ok := d.(*ast.GenDecl)
		if !ok || gd.Tok != token.CONST {
			continue
		}
		for _, sp := range gd.Specs {
			vs := sp.(*ast.ValueSpec)
			for i, n := range vs.Names {
				if n.Name == name && i < len(vs.Values) {
					return evalConst(vs.Values[i])
				}
			}
		}
	}
	return 0, false
}

// type/value/value.go: the dispatch table of NewValue, the limits, newOpaque.
func extractValue(out string) {
	const file = "type/value/value.go"
	f := load(file)
	l := &leanFile{ns: "Value"}
	var table [][]string
	ast.Inspect(mustFunc(f, file, "", "NewValue").Body, func(n ast.Node) bool {
		cl, ok := n.(*ast.CompositeLit)
		if !ok {
			return true
		}
		if _, ok := cl.Type.(*ast.MapType); !ok {
			return true
		}
		for _, el := range cl.Elts {
			kv := el.(*ast.KeyValueExpr)
			k, _ := strLit(kv.Key)
			table = append(table, []string{k, src(kv.Value)})
		}
		return false
	})
	l.tupleList("solveTable", 2, table)
	for _, c := range []string{"rawValueMaxSize", "listValueMaxSize"} {
		v, ok := constOf(f, c)
		if !ok {
			fail("%s: constant %s not found", file, c)
		}
		l.nat(c, v)
	}
	for _, fn := range []string{"newOpaque", "newList", "newRaw"} {
		l.strList(fn+"Flow", flowTokens(mustFunc(f, file, "", fn), "_", nil,
			[]string{"MakeReader", "Read", "ReadUint32", "ReadN", "NewValue", "make", "newOpaque"}))
	}
	// which basic.Read*/Write* each scalar constructor uses
	var rw [][]string
	for _, d := range f.Decls {
		fd, ok := d.(*ast.FuncDecl)
		if !ok || fd.Body == nil {
			continue
		}
		name := fd.Name.Name
		if fd.Recv != nil {
			name = strings.TrimPrefix(src(fd.Recv.List[0].Type), "*") + "." + name
		}
		var calls []string
		ast.Inspect(fd.Body, func(n ast.Node) bool {
			if c, ok := n.(*ast.CallExpr); ok {
				if x, sel := selParts(c.Fun); x == "basic" {
					calls = append(calls, sel)
				}
			}
			return true
		})
		if len(calls) > 0 && (strings.HasPrefix(fd.Name.Name, "new") || fd.Name.Name == "Write") {
			rw = append(rw, []string{name, strings.Join(calls, ",")})
		}
	}
	l.tupleList("basicCalls", 2, rw)
	l.write(out, "Value.lean")
}

// meta/signature/reader.go: every TypeReader.Read as an operation sequence.
func extractReader(out string) {
	const file = "meta/signature/reader.go"
	f := load(file)
	l := &leanFile{ns: "Reader"}
	calls := []string{"ReadN", "ReadString", "WriteString", "ReadUint32", "WriteUint32", "WriteN", "MakeReader",
		"Read", "append", "make", "Errorf"}
	for _, recv := range []string{"constReader", "stringReader", "UnknownReader", "valueReader", "varReader", "tupleReader"} {
		fd := mustFunc(f, file, recv, "Read")
		l.strList(recv+"Flow", flowTokens(fd, "v", nil, calls))
	}
	l.write(out, "Reader.lean")
}

// type/encoding/encoding.go: the case labels of the four switches and the guards of
// sliceValue / mapValue.
func extractEncoding(out string) {
	const file = "type/encoding/encoding.go"
	f := load(file)
	l := &leanFile{ns: "Encoding"}
	kindCases := func(recv, fn string) [][]string {
		var out [][]string
		fd := mustFunc(f, file, recv, fn)
		for _, st := range fd.Body.List {
			sw, ok := st.(*ast.SwitchStmt)
			if !ok || src(sw.Tag) != "v.Kind()" {
				continue
			}
			for _, c := range sw.Body.List {
				cc := c.(*ast.CaseClause)
				var labels []string
				for _, e := range cc.List {
					labels = append(labels, strings.TrimPrefix(src(e), "reflect."))
				}
				first := ""
				ast.Inspect(cc, func(n ast.Node) bool {
					if first != "" {
						return false
					}
					if ce, ok := n.(*ast.CallExpr); ok {
						if x, sel := selParts(ce.Fun); x == "basic" || x == "q" {
							first = x + "." + sel
						}
					}
					return true
				})
				for _, lab := range labels {
					out = append(out, []string{lab, first})
				}
			}
		}
		return out
	}
	typeCases := func(recv, fn string) []string {
		var out []string
		fd := mustFunc(f, file, recv, fn)
		for _, st := range fd.Body.List {
			if sw, ok := st.(*ast.TypeSwitchStmt); ok {
				for _, c := range sw.Body.List {
					cc := c.(*ast.CaseClause)
					for _, e := range cc.List {
						out = append(out, src(e))
					}
				}
			}
		}
		return out
	}
	l.tupleList("encoderKinds", 2, kindCases("qiEncoder", "value"))
	l.tupleList("decoderKinds", 2, kindCases("qiDecoder", "value"))
	l.strList("encodeTypes", typeCases("qiEncoder", "Encode"))
	l.strList("decodeTypes", typeCases("qiDecoder", "Decode"))
	conds := func(fn string) []string {
		var out []string
		ast.Inspect(mustFunc(f, file, "qiDecoder", fn).Body, func(n ast.Node) bool {
			if is, ok := n.(*ast.IfStmt); ok {
				out = append(out, src(is.Cond))
			}
			return true
		})
		return out
	}
	l.strList("sliceGuards", conds("sliceValue"))
	l.strList("mapGuards", conds("mapValue"))
	// the struct case of the decoder: is the field error propagated?
	var structCase []string
	ast.Inspect(mustFunc(f, file, "qiDecoder", "value").Body, func(n ast.Node) bool {
		cc, ok := n.(*ast.CaseClause)
		if !ok || len(cc.List) != 1 || src(cc.List[0]) != "reflect.Struct" {
			return true
		}
		ast.Inspect(cc, func(m ast.Node) bool {
			switch v := m.(type) {
			case *ast.IfStmt:
				structCase = append(structCase, "if "+src(v.Cond))
				if v.Init != nil {
					structCase = append(structCase, "init "+src(v.Init))
				}
			case *ast.ReturnStmt:
				structCase = append(structCase, src(v))
			}
			return true
		})
		return false
	})
	l.strList("decoderStructCase", structCase)
	l.write(out, "Encoding.lean")
}
