package main

import "go/ast"

func init() { extractors["Stream"] = extractStream }

// bus/net/stream.go: the stream wrappers hand each Read / Write to the underlying
// connection as one call (so a Write of the wrapper is as atomic as the connection's).
func extractStream(out string) {
	const file = "bus/net/stream.go"
	f := load(file)
	l := &leanFile{ns: "Stream"}
	// connStream: its fields (an embedded gonet.Conn promotes Read/Write/Close unchanged)
	var fields []string
	var methods []string
	for _, d := range f.Decls {
		switch d := d.(type) {
		case *ast.GenDecl:
			for _, sp := range d.Specs {
				ts, ok := sp.(*ast.TypeSpec)
				if !ok || ts.Name.Name != "connStream" {
					continue
				}
				st, ok := ts.Type.(*ast.StructType)
				if !ok {
					fail("%s: connStream is not a struct", file)
				}
				for _, fl := range st.Fields.List {
					if len(fl.Names) == 0 {
						fields = append(fields, "embedded "+src(fl.Type))
					}
					for _, n := range fl.Names {
						fields = append(fields, n.Name+" "+src(fl.Type))
					}
				}
			}
		case *ast.FuncDecl:
			if d.Recv != nil && len(d.Recv.List) > 0 {
				r := src(d.Recv.List[0].Type)
				if r == "connStream" || r == "*connStream" {
					methods = append(methods, d.Name.Name)
				}
			}
		}
	}
	if fields == nil {
		fail("%s: connStream not found", file)
	}
	l.strList("connStreamFields", fields)
	l.strList("connStreamMethods", methods)
	l.strList("pipeWrite", []string{src(mustFunc(f, file, "*pipeStream", "Write").Body)})
	l.strList("pipeRead", []string{src(mustFunc(f, file, "*pipeStream", "Read").Body)})
	l.write(out, "Stream.lean")
}
