package main

func init() { extractors["Service"] = extractService }

// serviceImpl.Add / Remove / Receive as operation sequences over the objects and
// boxes maps under the embedded RWMutex.
func extractService(out string) {
	const file = "bus/service.go"
	f := load(file)
	l := &leanFile{ns: "Service"}
	fields := []string{"objects", "boxes", "session"}
	calls := []string{"OnTerminate", "SendError", "Activate", "Add", "NewMailBox", "Uint32"}
	for _, fn := range []string{"Add", "Remove", "Receive"} {
		l.strList(lowerFirst(fn)+"Flow", flowTokens(mustFunc(f, file, "*serviceImpl", fn), "s", fields, calls))
	}
	// the objects on the client's side of a service: the counter, the table, the handler
	fr := load("bus/service_reference.go")
	cfields := []string{"nextID", "objectsHandlers"}
	ccalls := []string{"Activate", "MakeHandler", "RemoveHandler", "Remove", "OnTerminate", "Errorf"}
	for _, fn := range []string{"Add", "Remove", "Terminate"} {
		l.strList("client"+fn+"Flow", flowTokens(mustFunc(fr, "bus/service_reference.go", "*clientService", fn), "c", cfields, ccalls))
	}
	l.write(out, "Service.lean")
}

func lowerFirst(s string) string {
	if s == "" {
		return s
	}
	b := []byte(s)
	if b[0] >= 'A' && b[0] <= 'Z' {
		b[0] += 'a' - 'A'
	}
	return string(b)
}
