package main

import (
	"fmt"
	"go/ast"
	"go/parser"
	"os"
	"path/filepath"
	"regexp"
	"sort"
	"strings"
)

func init() { extractors["LockOrder"] = extractLockOrder }

// The lock order of bus/, across functions.  Every function and function literal under bus/ that takes a mutex, or that
// calls (through any chain of calls the translator can name) one that does, is translated into a term of
// QiVerif.Locks.Prog as locks.go does it, with two differences: a mutex has one number for the whole of bus/ (the type
// that owns it and the field; a read lock and a write lock of one RWMutex are one mutex), and a call is an `.act` that
// names the function called (1000 + its index; a call the translator cannot resolve to one function names every
// candidate; a call through a function value is `.act 999`).  Lean computes from these terms which mutex may be asked
// for while which is held, directly or through calls, and checks that the relation has no cycle
// (Model/LockOrder.lean, Props/LockOrder.lean, Tie/LockOrder.lean).
//
// Resolution is syntactic (go/ast only): the type of the receiver and of typed parameters is known, fields are looked
// up in the struct declarations of bus/; `x.M()` on a value of a known struct type names the methods M of that type and
// of what it embeds; on anything else (an interface, a local variable) it names every method M declared under bus/.
// Code outside bus/ is assumed not to take a mutex of bus/.

type ordFn struct {
	key  string // "bus/net/endpoint.go endPoint.dispatch"
	pkg  string // directory
	recv string // receiver type name, "" for a function
	name string
	decl *ast.FuncDecl
	lit  *ast.FuncLit
	term string
}

type ordCtx struct {
	structs map[string]map[string]ast.Expr // "pkg.Type" -> field -> type expr ("" key of an embedded field: its type name)
	embeds  map[string][]string            // "pkg.Type" -> embedded type names (same package or "pkg.Type")
	ifaces  map[string]bool                // "pkg.Type" is an interface
	named   map[string]bool                // every type declared under bus/
	funcs   map[string][]*ordFn            // method / function name -> declarations
	byKey   map[string]*ordFn
	all     []*ordFn
	mutexes map[string]int
	mnames  []string
	unknown []string
	pkgOf   map[string]string // import name -> directory (for bus/ packages)
}

// a deferred unlock the order translation accepts: the statement before it, in the same block, is its lock
func deferFollowsLock(list []ast.Stmt, i int) bool {
	d, ok := list[i].(*ast.DeferStmt)
	if !ok {
		return true
	}
	recv, op, isLock := lockCall(d.Call)
	if !isLock || (op != "Unlock" && op != "RUnlock") {
		return true
	}
	if i == 0 {
		return false
	}
	es, ok := list[i-1].(*ast.ExprStmt)
	if !ok {
		return false
	}
	r2, op2, ok := lockCall(es.X)
	return ok && r2 == recv && ((op == "Unlock" && op2 == "Lock") || (op == "RUnlock" && op2 == "RLock"))
}

func typeName(e ast.Expr) string {
	switch v := e.(type) {
	case *ast.StarExpr:
		return typeName(v.X)
	case *ast.ParenExpr:
		return typeName(v.X)
	case *ast.ArrayType:
		if n := typeName(v.Elt); n != "" {
			return "[]" + n
		}
	case *ast.MapType:
		if n := typeName(v.Value); n != "" {
			return "[]" + n
		}
	case *ast.Ellipsis:
		if n := typeName(v.Elt); n != "" {
			return "[]" + n
		}
	case *ast.Ident:
		return v.Name
	case *ast.SelectorExpr:
		if id, ok := v.X.(*ast.Ident); ok {
			return id.Name + "." + v.Sel.Name
		}
	}
	return ""
}

var builtinTypes = map[string]bool{"error": true, "string": true, "bool": true, "int": true, "int8": true, "int16": true,
	"int32": true, "int64": true, "uint": true, "uint8": true, "uint16": true, "uint32": true, "uint64": true, "byte": true,
	"float32": true, "float64": true, "rune": true, "uintptr": true}

// types of other modules that are not interfaces: nothing under bus/ runs when their methods are called
var externalConcrete = map[string]bool{"sync.WaitGroup": true, "sync.Once": true, "sync.Mutex": true, "sync.RWMutex": true,
	"bytes.Buffer": true, "strings.Builder": true, "time.Time": true, "time.Timer": true, "time.Duration": true,
	"regexp.Regexp": true, "bytes.Reader": true, "strings.Reader": true, "sync.Map": true, "time.Ticker": true}

func isMutexType(n string) bool { return n == "sync.Mutex" || n == "sync.RWMutex" }

// qualified name of a type name seen in package pkg
func (c *ordCtx) qual(pkg, n string) string {
	if n == "" {
		return ""
	}
	if strings.HasPrefix(n, "[]") {
		if q := c.qual(pkg, n[2:]); q != "" {
			return "[]" + q
		}
		return ""
	}
	if builtinTypes[n] {
		return "builtin." + n
	}
	if i := strings.Index(n, "."); i >= 0 {
		if dir, ok := c.pkgOf[n[:i]]; ok {
			return dir + "." + n[i+1:]
		}
		return n
	}
	return pkg + "." + n
}

func (c *ordCtx) mutexID(name string) int {
	if i, ok := c.mutexes[name]; ok {
		return i
	}
	i := len(c.mnames)
	c.mutexes[name] = i
	c.mnames = append(c.mnames, name)
	return i
}

// does the type hold a mutex of its own (embedded)?
func (c *ordCtx) embedsMutex(q string) bool {
	for _, e := range c.embeds[q] {
		if isMutexType(e) {
			return true
		}
	}
	return false
}

type ordEnv struct {
	c    *ordCtx
	fn   *ordFn
	vars map[string]string // variable -> qualified type
	depth int
}

// the qualified type of an expression, "" when the translator does not know it
func (e *ordEnv) typeOf(x ast.Expr) string {
	switch v := x.(type) {
	case *ast.ParenExpr:
		return e.typeOf(v.X)
	case *ast.StarExpr:
		return e.typeOf(v.X)
	case *ast.UnaryExpr:
		return e.typeOf(v.X)
	case *ast.Ident:
		return e.vars[v.Name]
	case *ast.SelectorExpr:
		t := e.typeOf(v.X)
		if t == "" {
			return ""
		}
		return e.c.fieldType(t, v.Sel.Name)
	case *ast.CompositeLit:
		if v.Type != nil {
			return e.c.qual(e.fn.pkg, typeName(v.Type))
		}
	case *ast.TypeAssertExpr:
		if v.Type != nil {
			return e.c.qual(e.fn.pkg, typeName(v.Type))
		}
	case *ast.IndexExpr:
		if t := e.typeOf(v.X); strings.HasPrefix(t, "[]") {
			return t[2:]
		}
	case *ast.CallExpr:
		if id, ok := v.Fun.(*ast.Ident); ok && (id.Name == "new" || id.Name == "make") && len(v.Args) > 0 {
			return e.c.qual(e.fn.pkg, typeName(v.Args[0]))
		}
		if e.depth > 3 {
			return ""
		}
		e.depth++
		fs, dyn := e.callees(v)
		e.depth--
		if dyn || len(fs) == 0 {
			return ""
		}
		res := ""
		for i, f := range fs {
			r := ""
			if f.decl != nil && f.decl.Type.Results != nil && len(f.decl.Type.Results.List) > 0 {
				r = e.c.qual(f.pkg, typeName(f.decl.Type.Results.List[0].Type))
			}
			if i > 0 && r != res {
				return ""
			}
			res = r
		}
		return res
	}
	return ""
}

// the types of the local variables the translator can tell: declarations with a type, short declarations and range
// clauses whose right-hand side it can type; a name that gets two types is not known
func (e *ordEnv) inferLocals(body *ast.BlockStmt) {
	conflict := map[string]bool{}
	params := map[string]bool{}
	for k := range e.vars {
		params[k] = true
	}
	set := func(name, t string) {
		if name == "_" || t == "" || conflict[name] || params[name] {
			return
		}
		if old, ok := e.vars[name]; ok && old != t {
			conflict[name] = true
			e.vars[name] = ""
			return
		}
		e.vars[name] = t
	}
	for round := 0; round < 3; round++ {
		ast.Inspect(body, func(n ast.Node) bool {
			switch v := n.(type) {
			case *ast.FuncLit:
				return false
			case *ast.DeclStmt:
				if gd, ok := v.Decl.(*ast.GenDecl); ok {
					for _, sp := range gd.Specs {
						if vs, ok := sp.(*ast.ValueSpec); ok {
							for i, nm := range vs.Names {
								if vs.Type != nil {
									set(nm.Name, e.c.qual(e.fn.pkg, typeName(vs.Type)))
								} else if i < len(vs.Values) {
									set(nm.Name, e.typeOf(vs.Values[i]))
								}
							}
						}
					}
				}
			case *ast.AssignStmt:
				if v.Tok.String() == ":=" {
					for i, lh := range v.Lhs {
						id, ok := lh.(*ast.Ident)
						if !ok {
							continue
						}
						if len(v.Lhs) == len(v.Rhs) {
							set(id.Name, e.typeOf(v.Rhs[i]))
						} else if i == 0 && len(v.Rhs) == 1 {
							set(id.Name, e.typeOf(v.Rhs[0]))
						}
					}
				}
			case *ast.RangeStmt:
				if v.Tok.String() == ":=" {
					if t := e.typeOf(v.X); strings.HasPrefix(t, "[]") {
						if id, ok := v.Value.(*ast.Ident); ok {
							set(id.Name, t[2:])
						}
					}
				}
			}
			return true
		})
	}
}

func (c *ordCtx) fieldType(q, field string) string {
	pkg := q[:strings.LastIndex(q, ".")]
	if fs, ok := c.structs[q]; ok {
		if ft, ok := fs[field]; ok {
			n := typeName(ft)
			if isMutexType(n) {
				return n
			}
			return c.qual(pkg, n)
		}
	}
	for _, em := range c.embeds[q] {
		if isMutexType(em) {
			continue
		}
		// an embedded field is also a field of its type's name
		if em == field || strings.HasSuffix(em, "."+field) {
			return c.qual(pkg, em)
		}
		if t := c.fieldType(c.qual(pkg, em), field); t != "" {
			return t
		}
	}
	return ""
}

// the mutex a lock operation is about
func (e *ordEnv) mutexOf(x ast.Expr) int {
	c := e.c
	if sel, ok := x.(*ast.SelectorExpr); ok {
		owner := e.typeOf(sel.X)
		if owner != "" {
			ft := c.fieldType(owner, sel.Sel.Name)
			if isMutexType(ft) {
				return c.mutexID(owner + "." + sel.Sel.Name)
			}
			if ft != "" && c.embedsMutex(ft) {
				return c.mutexID(ft + ".self")
			}
		}
	}
	if t := e.typeOf(x); t != "" && c.embedsMutex(t) {
		return c.mutexID(t + ".self")
	}
	if id, ok := x.(*ast.Ident); ok {
		// a mutex in a local variable or a package variable: one node per package and name
		return c.mutexID(e.fn.pkg + " var " + id.Name)
	}
	n := e.fn.pkg + " expr " + src(x)
	c.unknown = append(c.unknown, e.fn.key+": "+src(x))
	return c.mutexID(n)
}

func (c *ordCtx) methodsOf(q, name string, seen map[string]bool) []*ordFn {
	if seen[q] {
		return nil
	}
	seen[q] = true
	var out []*ordFn
	pkg := q[:strings.LastIndex(q, ".")]
	short := q[strings.LastIndex(q, ".")+1:]
	for _, f := range c.funcs[name] {
		if f.pkg == pkg && f.recv == short {
			out = append(out, f)
		}
	}
	if len(out) > 0 {
		return out
	}
	for _, em := range c.embeds[q] {
		if !isMutexType(em) {
			out = append(out, c.methodsOf(c.qual(pkg, em), name, seen)...)
		}
	}
	return out
}

// the functions a call may run: nil, false for a call the translator does not follow into bus/ (a builtin, a
// conversion, a function of another module); nil, true for a call through a function value
func (e *ordEnv) callees(call *ast.CallExpr) (fs []*ordFn, dynamic bool) {
	c := e.c
	switch fun := call.Fun.(type) {
	case *ast.Ident:
		if fun.Obj != nil && fun.Obj.Kind == ast.Var {
			return nil, true
		}
		for _, f := range c.funcs[fun.Name] {
			if f.recv == "" && f.pkg == e.fn.pkg {
				fs = append(fs, f)
			}
		}
		return fs, false
	case *ast.SelectorExpr:
		name := fun.Sel.Name
		if id, ok := fun.X.(*ast.Ident); ok && (id.Obj == nil) {
			if _, isVar := e.vars[id.Name]; !isVar {
				// a package: its function of that name, when the package is under bus/
				if dir, ok := c.pkgOf[id.Name]; ok {
					for _, f := range c.funcs[name] {
						if f.recv == "" && f.pkg == dir {
							fs = append(fs, f)
						}
					}
				}
				if _, known := c.pkgOf[id.Name]; known || isImportedName(e.fn, id.Name) {
					return fs, false
				}
			}
		}
		t := e.typeOf(fun.X)
		if t != "" && !c.ifaces[t] {
			if c.named[t] {
				ms := c.methodsOf(t, name, map[string]bool{})
				if len(ms) > 0 {
					return ms, false
				}
				// a field of function type
				if ft := c.fieldType(t, name); ft != "" || c.hasField(t, name) {
					return nil, true
				}
				return nil, false
			}
		}
		if externalConcrete[t] {
			return nil, false
		}
		// an interface, or a value whose type the translator does not know: every method of that name under bus/
		// that takes as many arguments
		for _, f := range c.funcs[name] {
			if f.recv != "" && arityFits(f.decl, len(call.Args)) {
				fs = append(fs, f)
			}
		}
		if len(fs) == 0 && t != "" && c.hasField(t, name) {
			return nil, true
		}
		return fs, false
	case *ast.FuncLit:
		return nil, false // applied on the spot: handled where the literal is met
	case *ast.ParenExpr, *ast.ArrayType, *ast.MapType, *ast.InterfaceType, *ast.StarExpr, *ast.ChanType, *ast.FuncType:
		return nil, false // a conversion
	}
	return nil, true
}

func arityFits(d *ast.FuncDecl, n int) bool {
	if d == nil || d.Type.Params == nil {
		return n == 0
	}
	k, variadic := 0, false
	for _, p := range d.Type.Params.List {
		if _, ok := p.Type.(*ast.Ellipsis); ok {
			variadic = true
		}
		if len(p.Names) == 0 {
			k++
		} else {
			k += len(p.Names)
		}
	}
	if variadic {
		return n >= k-1
	}
	// f(g()) with a function of several results is not told apart: one argument fits any count
	return n == k || n == 1
}

func (c *ordCtx) hasField(q, field string) bool {
	if fs, ok := c.structs[q]; ok {
		if _, ok := fs[field]; ok {
			return true
		}
	}
	return false
}

var importsOf = map[string]map[string]bool{} // file -> imported names

func isImportedName(f *ordFn, name string) bool {
	file := strings.SplitN(f.key, " ", 2)[0]
	return importsOf[file][name]
}

// ---- translation (the control skeleton of locks.go, with global mutexes and calls) ----

type ordTr struct {
	env  *ordEnv
	lits []*ast.FuncLit
	goed map[*ast.FuncLit]bool
}

// Something that may wait for another party (the kinds of locks.go: 0 a channel send, 1 a channel receive, 2 a message
// sent to a peer, 3 a call to a peer, 4 a Wait) is a mutex of its own, taken and given back on the spot: the relation
// "asked for while held" then also says which mutexes are held, directly or through calls, while something waits.
const waitBase = 900

func waitAct(k int) string {
	return fmt.Sprintf("(.seq (.lock %d) (.unlock %d))", waitBase+k, waitBase+k)
}

func (t *ordTr) simple(n ast.Node) string {
	if n == nil {
		return ".skip"
	}
	var acts []string
	unknown, panics := false, false
	ast.Inspect(n, func(x ast.Node) bool {
		switch v := x.(type) {
		case *ast.CallExpr:
			if id, ok := v.Fun.(*ast.Ident); ok && id.Name == "panic" {
				panics = true
			}
			if _, _, ok := lockCall(v); ok {
				unknown = true
				return true
			}
			if sel, ok := v.Fun.(*ast.SelectorExpr); ok {
				if k, ok := waitingCalls[sel.Sel.Name]; ok && !externalConcrete[t.env.typeOf(sel.X)] {
					acts = append(acts, waitAct(k))
				}
			}
			fs, dyn := t.env.callees(v)
			if dyn {
				acts = append(acts, "(.act 999)")
			}
			if len(fs) > 0 {
				var alts []string
				for _, f := range fs {
					alts = append(alts, "(.act @"+f.key+"@)")
				}
				acts = append(acts, altOf(alts))
			}
		case *ast.UnaryExpr:
			if v.Op.String() == "<-" {
				acts = append(acts, waitAct(1))
			}
		case *ast.FuncLit:
			// a literal that is not started with `go`: whoever it is handed to may run it at once (sort.Slice,
			// once.Do, an immediately applied literal); later calls go through a function value
			t.lits = append(t.lits, v)
			if !t.goed[v] {
				acts = append(acts, "(.ite (.act @"+t.litKey(v)+"@) .skip)")
			}
			return false
		}
		return true
	})
	if unknown {
		return ".unknown"
	}
	if panics {
		acts = append(acts, ".ret")
	}
	return seqOf(acts)
}

func (t *ordTr) litKey(v *ast.FuncLit) string {
	p := fset.Position(v.Pos())
	return fmt.Sprintf("%s func#L%dC%d", t.env.fn.key, p.Line, p.Column)
}

func (t *ordTr) block(list []ast.Stmt) string {
	parts := make([]string, 0, len(list))
	for i, s := range list {
		if !deferFollowsLock(list, i) {
			parts = append(parts, ".unknown")
			continue
		}
		parts = append(parts, t.stmt(s))
	}
	return seqOf(parts)
}

func lockRecvExpr(e ast.Expr) ast.Expr {
	return e.(*ast.CallExpr).Fun.(*ast.SelectorExpr).X
}

func (t *ordTr) stmt(s ast.Stmt) string {
	switch v := s.(type) {
	case nil:
		return ".skip"
	case *ast.ExprStmt:
		if _, op, ok := lockCall(v.X); ok {
			m := t.env.mutexOf(lockRecvExpr(v.X))
			if op == "Lock" || op == "RLock" {
				return fmt.Sprintf("(.lock %d)", m)
			}
			return fmt.Sprintf("(.unlock %d)", m)
		}
		return t.simple(v)
	case *ast.DeferStmt:
		if _, op, ok := lockCall(v.Call); ok {
			if op == "Unlock" || op == "RUnlock" {
				return fmt.Sprintf("(.dunlock %d)", t.env.mutexOf(lockRecvExpr(v.Call)))
			}
			return ".unknown"
		}
		return t.simple(v)
	case *ast.ReturnStmt:
		return seqOf([]string{t.simple(v), ".ret"})
	case *ast.SendStmt:
		return seqOf([]string{t.simple(v.Value), t.simple(v.Chan), waitAct(0)})
	case *ast.BlockStmt:
		return t.block(v.List)
	case *ast.LabeledStmt:
		return t.stmt(v.Stmt)
	case *ast.IfStmt:
		parts := []string{t.stmt(v.Init), t.simple(v.Cond)}
		els := ".skip"
		if v.Else != nil {
			els = t.stmt(v.Else)
		}
		parts = append(parts, "(.ite "+t.block(v.Body.List)+" "+els+")")
		return seqOf(parts)
	case *ast.ForStmt:
		init := t.stmt(v.Init)
		cond := t.simple(v.Cond)
		body := seqOf([]string{cond, t.block(v.Body.List), t.stmt(v.Post)})
		return seqOf([]string{init, "(.loop " + body + ")"})
	case *ast.RangeStmt:
		return seqOf([]string{t.simple(v.X), "(.loop " + t.block(v.Body.List) + ")"})
	case *ast.SwitchStmt:
		pre := []string{t.stmt(v.Init)}
		if v.Tag != nil {
			pre = append(pre, t.simple(v.Tag))
		}
		return seqOf(append(pre, t.cases(v.Body.List, true)))
	case *ast.TypeSwitchStmt:
		return seqOf([]string{t.stmt(v.Init), t.stmt(v.Assign), t.cases(v.Body.List, true)})
	case *ast.SelectStmt:
		return t.cases(v.Body.List, false)
	case *ast.BranchStmt:
		if v.Label != nil {
			return ".unknown"
		}
		switch v.Tok.String() {
		case "break":
			return ".brk"
		case "continue":
			return ".cont"
		}
		return ".unknown"
	case *ast.GoStmt:
		parts := []string{}
		if fl, ok := v.Call.Fun.(*ast.FuncLit); ok {
			t.goed[fl] = true
			t.lits = append(t.lits, fl)
		} else {
			parts = append(parts, t.simple(v.Call.Fun))
		}
		for _, a := range v.Call.Args {
			parts = append(parts, t.simple(a))
		}
		return seqOf(parts)
	default:
		return t.simple(v)
	}
}

func (t *ordTr) cases(list []ast.Stmt, mayTakeNone bool) string {
	var alts []string
	hasDefault := false
	for _, c := range list {
		switch cc := c.(type) {
		case *ast.CaseClause:
			if cc.List == nil {
				hasDefault = true
			}
			var pre []string
			for _, e := range cc.List {
				pre = append(pre, t.simple(e))
			}
			alts = append(alts, seqOf(append(pre, t.block(cc.Body))))
		case *ast.CommClause:
			if cc.Comm == nil {
				hasDefault = true
			}
			comm := t.stmt(cc.Comm)
			if selectHasDefault(list) && comm != ".unknown" {
				comm = ".skip" // a select with a default never waits: its sends and receives are attempts
			}
			alts = append(alts, seqOf([]string{comm, t.block(cc.Body)}))
		}
	}
	if (mayTakeNone && !hasDefault) || len(alts) == 0 {
		alts = append(alts, ".skip")
	}
	return "(.catch " + altOf(alts) + ")"
}

func (c *ordCtx) envFor(fn *ordFn, outer map[string]string) *ordEnv {
	e := &ordEnv{c: c, fn: fn, vars: map[string]string{}}
	for k, v := range outer {
		e.vars[k] = v
	}
	add := func(fl *ast.FieldList) {
		if fl == nil {
			return
		}
		for _, p := range fl.List {
			q := c.qual(fn.pkg, typeName(p.Type))
			for _, n := range p.Names {
				e.vars[n.Name] = q
			}
		}
	}
	if fn.decl != nil {
		add(fn.decl.Recv)
		add(fn.decl.Type.Params)
	} else {
		add(fn.lit.Type.Params)
	}
	return e
}

func (c *ordCtx) translate(fn *ordFn, outer map[string]string) {
	env := c.envFor(fn, outer)
	t := &ordTr{env: env, goed: map[*ast.FuncLit]bool{}}
	var body *ast.BlockStmt
	if fn.decl != nil {
		body = fn.decl.Body
	} else {
		body = fn.lit.Body
	}
	env.inferLocals(body)
	fn.term = t.block(body.List)
	for _, fl := range t.lits {
		lf := &ordFn{key: t.litKey(fl), pkg: fn.pkg, lit: fl}
		// the literal keeps the name of the function it stands in for its own literals
		if _, dup := c.byKey[lf.key]; dup {
			continue
		}
		c.byKey[lf.key] = lf
		c.all = append(c.all, lf)
		sub := &ordFn{key: fn.key, pkg: fn.pkg, lit: fl}
		subEnv := c.envFor(sub, env.vars)
		subEnv.inferLocals(fl.Body)
		st := &ordTr{env: subEnv, goed: map[*ast.FuncLit]bool{}}
		lf.term = st.block(fl.Body.List)
		// literals inside the literal
		pending := st.lits
		for len(pending) > 0 {
			in := pending[0]
			pending = pending[1:]
			k := st.litKey(in)
			if _, dup := c.byKey[k]; dup {
				continue
			}
			inf := &ordFn{key: k, pkg: fn.pkg, lit: in}
			c.byKey[k] = inf
			c.all = append(c.all, inf)
			ie := c.envFor(&ordFn{key: fn.key, pkg: fn.pkg, lit: in}, subEnv.vars)
			ie.inferLocals(in.Body)
			it := &ordTr{env: ie, goed: map[*ast.FuncLit]bool{}}
			inf.term = it.block(in.Body.List)
			pending = append(pending, it.lits...)
		}
	}
}

var callTok = regexp.MustCompile(`\(\.act @([^@]+)@\)`)

func buildOrder(files map[string]*ast.File, order []string) *ordCtx {
	c := &ordCtx{structs: map[string]map[string]ast.Expr{}, embeds: map[string][]string{}, ifaces: map[string]bool{}, named: map[string]bool{},
		funcs: map[string][]*ordFn{}, byKey: map[string]*ordFn{}, mutexes: map[string]int{}, pkgOf: map[string]string{}}
	// packages under bus/ by their import name
	for _, rel := range order {
		dir := filepath.Dir(rel)
		c.pkgOf[files[rel].Name.Name] = dir
	}
	for _, rel := range order {
		f := files[rel]
		pkg := filepath.Dir(rel)
		importsOf[rel] = map[string]bool{}
		for _, im := range f.Imports {
			p := strings.Trim(im.Path.Value, `"`)
			n := p[strings.LastIndex(p, "/")+1:]
			if im.Name != nil {
				n = im.Name.Name
			}
			importsOf[rel][n] = true
		}
		for _, d := range f.Decls {
			switch v := d.(type) {
			case *ast.GenDecl:
				for _, sp := range v.Specs {
					ts, ok := sp.(*ast.TypeSpec)
					if !ok {
						continue
					}
					q := pkg + "." + ts.Name.Name
					c.named[q] = true
					switch tt := ts.Type.(type) {
					case *ast.StructType:
						c.structs[q] = map[string]ast.Expr{}
						for _, fld := range tt.Fields.List {
							if len(fld.Names) == 0 {
								c.embeds[q] = append(c.embeds[q], typeName(fld.Type))
								continue
							}
							for _, n := range fld.Names {
								c.structs[q][n.Name] = fld.Type
							}
						}
					case *ast.InterfaceType:
						c.ifaces[q] = true
					}
				}
			case *ast.FuncDecl:
				if v.Body == nil {
					continue
				}
				fn := &ordFn{pkg: pkg, name: v.Name.Name, decl: v}
				name := v.Name.Name
				if v.Recv != nil && len(v.Recv.List) > 0 {
					fn.recv = typeName(v.Recv.List[0].Type)
					name = fn.recv + "." + name
				}
				fn.key = rel + " " + name
				c.funcs[v.Name.Name] = append(c.funcs[v.Name.Name], fn)
				c.byKey[fn.key] = fn
				c.all = append(c.all, fn)
			}
		}
	}
	decls := append([]*ordFn{}, c.all...)
	for _, fn := range decls {
		c.translate(fn, nil)
	}
	return c
}

// the functions that take a mutex or may reach one that does, in a fixed order, their calls numbered
func (c *ordCtx) emit() (names []string, terms []string) {
	relevant := map[string]bool{}
	for _, f := range c.all {
		if strings.Contains(f.term, "(.lock ") || strings.Contains(f.term, ".unknown") {
			relevant[f.key] = true
		}
	}
	for changed := true; changed; {
		changed = false
		for _, f := range c.all {
			if relevant[f.key] {
				continue
			}
			for _, m := range callTok.FindAllStringSubmatch(f.term, -1) {
				if relevant[m[1]] {
					relevant[f.key] = true
					changed = true
					break
				}
			}
		}
	}
	// of those, the ones that take a mutex themselves and what can be reached from them: a mutex is only ever held,
	// when another is asked for, by a function that took it and is still on the stack
	reach := map[string]bool{}
	var work []string
	for _, f := range c.all {
		if strings.Contains(f.term, "(.lock ") || strings.Contains(f.term, ".unknown") {
			reach[f.key] = true
			work = append(work, f.key)
		}
	}
	for len(work) > 0 {
		k := work[0]
		work = work[1:]
		for _, m := range callTok.FindAllStringSubmatch(c.byKey[k].term, -1) {
			if relevant[m[1]] && !reach[m[1]] {
				reach[m[1]] = true
				work = append(work, m[1])
			}
		}
	}
	var keys []string
	for _, f := range c.all {
		if relevant[f.key] && reach[f.key] {
			keys = append(keys, f.key)
		}
	}
	sort.Strings(keys)
	idx := map[string]int{}
	for i, k := range keys {
		idx[k] = i
	}
	for _, k := range keys {
		term := callTok.ReplaceAllStringFunc(c.byKey[k].term, func(s string) string {
			m := callTok.FindStringSubmatch(s)
			if i, ok := idx[m[1]]; ok {
				return fmt.Sprintf("(.act %d)", 1000+i)
			}
			return ".skip"
		})
		names = append(names, k)
		terms = append(terms, term)
	}
	return
}

func extractLockOrder(out string) {
	l := &leanFile{ns: "LockOrder"}
	files := map[string]*ast.File{}
	var order []string
	filepath.Walk(filepath.Join(repo, "bus"), func(p string, info os.FileInfo, err error) error {
		if err != nil || info.IsDir() {
			return nil
		}
		if strings.HasSuffix(p, ".go") && !strings.HasSuffix(p, "_test.go") {
			rel, _ := filepath.Rel(repo, p)
			order = append(order, rel)
		}
		return nil
	})
	sort.Strings(order)
	for _, rel := range order {
		files[rel] = load(rel)
	}
	c := buildOrder(files, order)
	names, terms := c.emit()
	var entries []string
	for i := range names {
		entries = append(entries, fmt.Sprintf("(%s, %s)", lstr(names[i]), terms[i]))
	}
	l.strList("mutexes", c.mnames)
	sort.Strings(c.unknown)
	l.strList("unresolvedMutexes", c.unknown)
	l.raw("def fns : List (String × QiVerif.Locks.Prog) :=\n  [" + strings.Join(entries, ",\n   ") + "]")
	// a hint, which Lean checks (Tie/LockOrder.lean `acq_is_closed`): what each function may take, itself or through
	// the functions its skeleton names, read off the skeletons
	l.raw("def acq : List (List Nat) :=\n  [" + strings.Join(acqHint(terms), ",\n   ") + "]")
	// the translator applied to a text of its own, whose skeletons Tie/LockOrder.lean knows by heart
	st, err := parser.ParseFile(fset, "p/selftest.go", lockOrderSelfTest, 0)
	if err != nil {
		fail("lock order self test: %v", err)
	}
	sc := buildOrder(map[string]*ast.File{"p/selftest.go": st}, []string{"p/selftest.go"})
	snames, sterms := sc.emit()
	var sentries []string
	for i := range snames {
		sentries = append(sentries, fmt.Sprintf("(%s, %s)", lstr(snames[i]), sterms[i]))
	}
	l.strList("selfTestMutexes", sc.mnames)
	l.raw("def selfTest : List (String × QiVerif.Locks.Prog) :=\n  [" + strings.Join(sentries, ",\n   ") + "]")
	l.raw("def selfTestAcq : List (List Nat) :=\n  [" + strings.Join(acqHint(sterms), ", ") + "]")
	l.writeWithImports(out, "LockOrder.lean", []string{"QiVerif.Model.Locks"})
}

var lockTok = regexp.MustCompile(`\(\.lock (\d+)\)`)
var actTok = regexp.MustCompile(`\(\.act (\d+)\)`)

func acqHint(terms []string) []string {
	n := len(terms)
	sets := make([]map[int]bool, n)
	calls := make([][]int, n)
	for i, t := range terms {
		sets[i] = map[int]bool{}
		for _, m := range lockTok.FindAllStringSubmatch(t, -1) {
			var k int
			fmt.Sscanf(m[1], "%d", &k)
			sets[i][k] = true
		}
		for _, m := range actTok.FindAllStringSubmatch(t, -1) {
			var k int
			fmt.Sscanf(m[1], "%d", &k)
			if k >= 1000 && k-1000 < n {
				calls[i] = append(calls[i], k-1000)
			}
		}
	}
	for changed := true; changed; {
		changed = false
		for i := range terms {
			for _, c := range calls[i] {
				for k := range sets[c] {
					if !sets[i][k] {
						sets[i][k] = true
						changed = true
					}
				}
			}
		}
	}
	out := make([]string, n)
	for i := range terms {
		var ks []int
		for k := range sets[i] {
			ks = append(ks, k)
		}
		sort.Ints(ks)
		ss := make([]string, len(ks))
		for j, k := range ks {
			ss[j] = fmt.Sprint(k)
		}
		out[i] = "[" + strings.Join(ss, ", ") + "]"
	}
	return out
}

const lockOrderSelfTest = `package p

import (
	"sort"
	"sync"
)

type A struct {
	mu sync.Mutex
	b  *B
	i  I
	fn func()
}
type B struct{ sync.RWMutex }
type I interface{ Do() }
type C struct{ b *B }
type D struct{ a *A }

func (a *A) f(xs []*B) {
	a.mu.Lock()
	defer a.mu.Unlock()
	a.g()
	a.b.h()
	a.i.Do()
	a.fn()
	sort.Slice(xs, func(i, j int) bool { a.g(); return true })
	go a.g()
	var wg sync.WaitGroup
	wg.Add(1)
	for _, x := range xs {
		x.h()
	}
	c := &C{}
	c.Do()
}
func (a *A) g()  { a.b.RLock(); a.b.RUnlock() }
func (b *B) h()  { b.Lock(); b.Unlock() }
func (c *C) Do() { c.b.h() }
func (d *D) Do() { d.a.g() }
func (c *C) Add(n int) { c.b.h() }
func (d *D) k(ch chan int) {
	d.a.mu.Lock()
	d.send(ch)
	d.a.mu.Unlock()
}
func (d *D) send(ch chan int) {
	select {
	case ch <- 1:
	default:
	}
	ch <- 2
}
`
