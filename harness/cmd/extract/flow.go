package main

import (
	"go/ast"
	"go/token"
	"strings"
)

// flowTokens linearises a function body (source order) into the operations that
// matter for the state-machine models: mutex operations, reads/writes/deletes of
// the receiver's map or slice fields, channel sends, selected calls and returns.
// recv is the receiver identifier ("s", "o", …); calls lists selector suffixes to keep.
func flowTokens(fd *ast.FuncDecl, recv string, fields []string, calls []string) []string {
	var toks []string
	isField := func(e ast.Expr) (string, bool) {
		s := src(e)
		for _, f := range fields {
			if s == recv+"."+f {
				return f, true
			}
		}
		return "", false
	}
	lockOps := map[string]bool{"Lock": true, "Unlock": true, "RLock": true, "RUnlock": true}
	var visit func(n ast.Node) bool
	written := map[ast.Expr]bool{}
	visit = func(n ast.Node) bool {
		switch v := n.(type) {
		case *ast.FuncLit:
			toks = append(toks, "func{")
			ast.Inspect(v.Body, visit)
			toks = append(toks, "}")
			return false
		case *ast.DeferStmt:
			toks = append(toks, "defer "+src(v.Call))
			return false
		case *ast.GoStmt:
			toks = append(toks, "go{")
			ast.Inspect(v.Call, visit)
			toks = append(toks, "}")
			return false
		case *ast.AssignStmt:
			for _, l := range v.Lhs {
				if ix, ok := l.(*ast.IndexExpr); ok {
					if f, ok := isField(ix.X); ok {
						written[ix] = true
						defer func(f string) { toks = append(toks, "write "+f) }(f)
					}
				} else if f, ok := isField(l); ok {
					written[l] = true
					defer func(f string) { toks = append(toks, "assign "+f) }(f)
				}
			}
			for _, r := range v.Rhs {
				ast.Inspect(r, visit)
			}
			for _, l := range v.Lhs {
				if ix, ok := l.(*ast.IndexExpr); ok && written[ix] {
					ast.Inspect(ix.Index, visit)
					continue
				}
				if written[l] {
					continue
				}
				ast.Inspect(l, visit)
			}
			return false
		case *ast.IncDecStmt:
			if f, ok := isField(v.X); ok {
				toks = append(toks, "assign "+f)
				return false
			}
		case *ast.SendStmt:
			ast.Inspect(v.Value, visit)
			toks = append(toks, "send "+src(v.Chan))
			return false
		case *ast.CallExpr:
			s := src(v.Fun)
			if s == "delete" && len(v.Args) == 2 {
				if f, ok := isField(v.Args[0]); ok {
					ast.Inspect(v.Args[1], visit)
					toks = append(toks, "delete "+f)
					return false
				}
			}
			if sel, ok := v.Fun.(*ast.SelectorExpr); ok && lockOps[sel.Sel.Name] {
				x := src(sel.X)
				if x == recv {
					toks = append(toks, sel.Sel.Name)
				} else {
					toks = append(toks, strings.TrimPrefix(x, recv+".")+"."+sel.Sel.Name)
				}
				return false
			}
			for _, a := range v.Args {
				ast.Inspect(a, visit)
			}
			if sel, ok := v.Fun.(*ast.SelectorExpr); ok {
				ast.Inspect(sel.X, visit)
			}
			if fl, ok := v.Fun.(*ast.FuncLit); ok { // an immediately applied function literal
				ast.Inspect(fl, visit)
			}
			for _, c := range calls {
				if s == c || strings.HasSuffix(s, "."+c) {
					toks = append(toks, "call "+s)
					break
				}
			}
			return false
		case *ast.IndexExpr:
			if f, ok := isField(v.X); ok {
				ast.Inspect(v.Index, visit)
				toks = append(toks, "read "+f)
				return false
			}
		case *ast.RangeStmt:
			if f, ok := isField(v.X); ok {
				toks = append(toks, "range "+f+" {")
			} else {
				ast.Inspect(v.X, visit)
				toks = append(toks, "range {")
			}
			ast.Inspect(v.Body, visit)
			toks = append(toks, "}")
			return false
		case *ast.IfStmt:
			if v.Init != nil {
				ast.Inspect(v.Init, visit)
			}
			ast.Inspect(v.Cond, visit)
			toks = append(toks, "if "+src(v.Cond)+" {")
			ast.Inspect(v.Body, visit)
			toks = append(toks, "}")
			if v.Else != nil {
				toks = append(toks, "else {")
				ast.Inspect(v.Else, visit)
				toks = append(toks, "}")
			}
			return false
		case *ast.ReturnStmt:
			for _, r := range v.Results {
				ast.Inspect(r, visit)
			}
			rs := make([]string, len(v.Results))
			for i, r := range v.Results {
				rs[i] = src(r)
				if len(rs[i]) > 40 {
					rs[i] = rs[i][:40] + "…"
				}
			}
			toks = append(toks, "return "+strings.Join(rs, ", "))
			return false
		case *ast.SelectorExpr:
			if f, ok := isField(v); ok {
				toks = append(toks, "use "+f)
				return false
			}
		case *ast.UnaryExpr:
			if v.Op == token.ARROW {
				toks = append(toks, "recv "+src(v.X))
			}
		}
		return true
	}
	ast.Inspect(fd.Body, visit)
	return toks
}
