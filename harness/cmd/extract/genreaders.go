package main

func init() { extractors["GenReaders"] = extractGenReaders }

// Where sizes read from the wire meet allocations: the generated readers of
// type/object/metaobject_gen.go (no check between the count and make) and
// bus.ReadCapabilityMap (the count is checked first).
func extractGenReaders(out string) {
	l := &leanFile{ns: "GenReaders"}
	calls := []string{"ReadUint32", "ReadString", "make", "NewValue", "readMetaMethodParameter", "readMetaMethod",
		"readMetaSignal", "readMetaProperty", "readMetaObject"}
	{
		const file = "type/object/metaobject_gen.go"
		f := load(file)
		for _, fn := range []string{"readMetaMethod", "readMetaObject", "readObjectReference"} {
			l.strList(fn+"Flow", flowTokens(mustFunc(f, file, "", fn), "_", nil, calls))
		}
	}
	{
		const file = "bus/authenticate.go"
		f := load(file)
		l.strList("readCapabilityMapFlow", flowTokens(mustFunc(f, file, "", "ReadCapabilityMap"), "_", nil, calls))
		if v, ok := constOf(f, "capabilityMapSizeMax"); ok {
			l.nat("capabilityMapSizeMax", v)
		} else {
			fail("%s: capabilityMapSizeMax not found", file)
		}
	}
	{
		const file = "type/encoding/encoding.go"
		f := load(file)
		if v, ok := constOf(f, "listValueMaxSize"); ok {
			l.nat("reflectListMax", v)
		} else {
			fail("%s: listValueMaxSize not found", file)
		}
	}
	l.write(out, "GenReaders.lean")
}
