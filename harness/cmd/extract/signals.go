package main

func init() { extractors["Signals"] = extractSignals }

// bus/proxy.go SubscribeID (and its cancel function), bus/signal.go: the order of operations.
func extractSignals(out string) {
	l := &leanFile{ns: "Signals"}
	fp := load("bus/proxy.go")
	calls := []string{"Subscribe", "State", "RegisterEvent", "UnregisterEvent", "cancel", "subscriptionLock", "Lock", "Unlock", "Int",
		"MakeHandler", "RemoveHandler", "removeSignalUser", "addSignalUser", "replyEvent", "append", "Send", "SendReply", "SendError", "sendTerminate"}
	l.strList("subscribeIDFlow", flowTokens(mustFunc(fp, "bus/proxy.go", "proxy", "SubscribeID"), "p", []string{"client"}, calls))
	fs := load("bus/signal.go")
	for _, fn := range []string{"addSignalUser", "removeSignalUser", "UpdateSignal", "replyEvent", "OnTerminate"} {
		l.strList(fn+"Flow", flowTokens(mustFunc(fs, "bus/signal.go", "*signalHandler", fn), "o", []string{"signals"}, calls))
	}
	fc := load("bus/cache.go")
	l.strList("cacheProxyFlow", flowTokens(mustFunc(fc, "bus/cache.go", "*Cache", "Proxy"), "s", []string{"client", "Endpoint"}, []string{"sharedClient", "NewClient", "NewProxy", "NewChannel"}))
	l.strList("cacheSharedClientFlow", flowTokens(mustFunc(fc, "bus/cache.go", "*Cache", "sharedClient"), "s", []string{"client", "Endpoint"}, []string{"NewClient", "NewChannel"}))
	l.write(out, "Signals.lean")
}
