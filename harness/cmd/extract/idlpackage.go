package main

import (
	"go/ast"
	"strings"
)

func init() { extractors["IdlPackage"] = extractIdlPackage }

// meta/idl/parser.go: the parsers above the type layer (action lines, blocks, package);
// meta/idl/idl.go: what GenerateIDL writes; meta/idl/scope.go and ref.go: scope and references;
// meta/signature/type.go: StructType.Signature; meta/idl/interface.go: InterfaceType.Signature.
func extractIdlPackage(out string) {
	const file = "meta/idl/parser.go"
	f := load(file)
	l := &leanFile{ns: "IdlPackage"}
	var describe func(e ast.Expr) string
	describe = func(e ast.Expr) string {
		ce, ok := e.(*ast.CallExpr)
		if !ok {
			return src(e)
		}
		fn := src(ce.Fun)
		switch fn {
		case "parsec.Atom", "parsec.Token":
			s, _ := strLit(ce.Args[0])
			return strings.TrimPrefix(fn, "parsec.") + " " + s
		case "parsec.And", "parsec.OrdChoice", "parsec.Maybe", "parsec.Many", "parsec.Kleene":
			var parts []string
			for _, a := range ce.Args[1:] { // the first argument is the nodify callback
				parts = append(parts, describe(a))
			}
			return strings.TrimPrefix(fn, "parsec.") + "(" + strings.Join(parts, "; ") + ")"
		}
		return src(e)
	}
	for _, fn := range []string{"comments", "returns", "parameter", "parameters", "ident", "method", "signal", "property", "action",
		"interfaceParser", "referenceType", "member", "constValue", "enumConst", "enum", "structure", "declaration", "declarationsList",
		"packageName", "packageParser"} {
		fd := mustFunc(f, file, "", fn)
		rs := fd.Body.List[len(fd.Body.List)-1].(*ast.ReturnStmt)
		l.strList(fn+"Shape", []string{describe(rs.Results[0])})
	}
	// the literals of these parsers as bytes, in the order of the functions listed
	var atoms []string
	for _, fn := range []string{"structure", "enum", "interfaceParser", "packageName", "method", "signal", "property", "returns", "comments",
		"parameter", "member", "enumConst", "parameters"} {
		ast.Inspect(mustFunc(f, file, "", fn).Body, func(n ast.Node) bool {
			if ce, ok := n.(*ast.CallExpr); ok && src(ce.Fun) == "parsec.Atom" {
				if s, ok := strLit(ce.Args[0]); ok {
					atoms = append(atoms, bytesLit(s))
				}
			}
			return true
		})
	}
	l.raw("def atomBytes : List (List UInt8) :=\n  [" + strings.Join(atoms, ",\n   ") + "]")
	// ParsePackage: what is left must be white space
	l.strList("parsePackageFlow", flowTokens(mustFunc(f, file, "", "ParsePackage"), "", nil, []string{"SkipWS", "Endof", "parser"}))
	// how the uid is read from a comment
	l.strList("commentContentFlow", flowTokens(mustFunc(f, file, "", "nodifyCommentContent"), "", nil, []string{"Sscanf"}))
	// the blocks enter the scope when they are complete
	for _, fn := range []string{"makeNodifyStructure", "makeNodifyInterface", "makeNodifyTypeReference"} {
		l.strList(fn+"Flow", flowTokens(mustFunc(f, file, "", fn), "", nil, []string{"Add", "NewRefType"}))
	}
	l.strList("actionListFlow", flowTokens(mustFunc(f, file, "", "nodifyActionList"), "", nil, nil))

	// the printers
	fi := load("meta/idl/idl.go")
	for _, fn := range []string{"generateMethod", "generateProperty", "generateSignal", "generateStructure", "GenerateIDL"} {
		var formats []string
		ast.Inspect(mustFunc(fi, "meta/idl/idl.go", "", fn).Body, func(n ast.Node) bool {
			if ce, ok := n.(*ast.CallExpr); ok && src(ce.Fun) == "fmt.Fprintf" {
				if s, ok := strLit(ce.Args[1]); ok {
					formats = append(formats, s)
				}
			}
			return true
		})
		l.strList(lowerFirst(fn)+"Formats", formats)
	}

	// the scope
	fs := load("meta/idl/scope.go")
	for _, fn := range []string{"Add", "searchLocal", "Search"} {
		l.strList("scope"+fn+"Flow", flowTokens(mustFunc(fs, "meta/idl/scope.go", "*scopeImpl", fn), "s", []string{"local", "global"}, []string{"SplitN", "searchGlobal", "searchLocal", "Errorf"}))
	}
	// references
	fr := load("meta/idl/ref.go")
	for _, fn := range []string{"visit", "leave", "Signature", "Type"} {
		l.strList("ref"+fn+"Flow", flowTokens(mustFunc(fr, "meta/idl/ref.go", "*RefType", fn), "r", []string{"resolving", "Scope", "Name"},
			[]string{"Search", "visit", "leave", "Signature", "Type", "Errorf", "NewStructType"}))
	}
	// the messages of the error names
	var msgs []string
	for _, fd := range []*ast.FuncDecl{mustFunc(fr, "meta/idl/ref.go", "*RefType", "visit"), mustFunc(fs, "meta/idl/scope.go", "*scopeImpl", "searchLocal")} {
		ast.Inspect(fd.Body, func(n ast.Node) bool {
			if ce, ok := n.(*ast.CallExpr); ok && src(ce.Fun) == "fmt.Errorf" {
				if s, ok := strLit(ce.Args[0]); ok {
					msgs = append(msgs, s)
				}
			}
			return true
		})
	}
	l.strList("errorMessages", msgs)
	var mb []string
	for _, m := range msgs {
		mb = append(mb, bytesLit(strings.TrimSuffix(m, "%s")))
	}
	l.raw("def errorMessageBytes : List (List UInt8) :=\n  [" + strings.Join(mb, ",\n   ") + "]")
	// signatures of structs and interfaces
	ft := load("meta/signature/type.go")
	var sformats []string
	ast.Inspect(mustFunc(ft, "meta/signature/type.go", "*StructType", "Signature").Body, func(n ast.Node) bool {
		if ce, ok := n.(*ast.CallExpr); ok && src(ce.Fun) == "fmt.Sprintf" {
			if s, ok := strLit(ce.Args[0]); ok {
				sformats = append(sformats, s)
			}
		}
		return true
	})
	l.strList("structSignatureFormats", sformats)
	l.strList("structSignatureFlow", flowTokens(mustFunc(ft, "meta/signature/type.go", "*StructType", "Signature"), "s", []string{"Members", "Name"}, []string{"Signature", "Join"}))
	fif := load("meta/idl/interface.go")
	l.strList("interfaceSignatureFlow", flowTokens(mustFunc(fif, "meta/idl/interface.go", "*InterfaceType", "Signature"), "s", nil, nil))
	// the type set: how the structs of the meta-objects get to their blocks
	calls := []string{"RegisterTo", "ResolveCollision", "Search", "Signature", "Sprintf", "Fprintf", "Parse", "ParamIDL", "SignatureIDL",
		"CleanVarName", "NewTupleType", "NewRefType", "NewTypeSet", "NewScope", "ForEachMethodAndSignal", "generateMethod", "generateSignal",
		"generateProperty", "generateStructure", "generateStructures", "ValidName"}
	l.strList("resolveCollisionFlow", flowTokens(mustFunc(ft, "meta/signature/type.go", "*TypeSet", "ResolveCollision"), "s", []string{"Names", "Types"}, calls))
	var loops []string
	ast.Inspect(mustFunc(ft, "meta/signature/type.go", "*TypeSet", "ResolveCollision").Body, func(n ast.Node) bool {
		if fs, ok := n.(*ast.ForStmt); ok {
			loops = append(loops, "for "+src(fs.Init)+"; "+src(fs.Cond)+"; "+src(fs.Post))
		}
		if as, ok := n.(*ast.AssignStmt); ok && len(as.Lhs) == 1 && src(as.Lhs[0]) == "name" {
			loops = append(loops, src(as))
		}
		return true
	})
	l.strList("resolveCollisionLoop", loops)
	l.strList("typeSetSearchFlow", flowTokens(mustFunc(ft, "meta/signature/type.go", "*TypeSet", "Search"), "s", []string{"Names", "Types"}, calls))
	for _, rc := range [][2]string{{"*ListType", "l"}, {"*MapType", "m"}, {"*TupleType", "t"}, {"*StructType", "s"}} {
		l.strList("registerTo"+strings.TrimPrefix(rc[0], "*")+"Flow",
			flowTokens(mustFunc(ft, "meta/signature/type.go", rc[0], "RegisterTo"), rc[1], []string{"Members", "Name", "value", "key"}, calls))
	}
	for _, fn := range []string{"generateMethod", "generateProperty", "generateSignal", "generateStructure", "generateStructures", "GenerateIDL"} {
		l.strList(lowerFirst(fn)+"Flow", flowTokens(mustFunc(fi, "meta/idl/idl.go", "", fn), "set", []string{"Types", "Names"}, calls))
	}
	fnm := load("meta/signature/name.go")
	l.strList("cleanVarNameFlow", flowTokens(mustFunc(fnm, "meta/signature/name.go", "", "CleanVarName"), "", nil, calls))
	var kws []string
	for _, d := range fnm.Decls {
		gd, ok := d.(*ast.GenDecl)
		if !ok {
			continue
		}
		for _, sp := range gd.Specs {
			vs, ok := sp.(*ast.ValueSpec)
			if !ok || len(vs.Names) != 1 || vs.Names[0].Name != "keywords" || len(vs.Values) != 1 {
				continue
			}
			if cl, ok := vs.Values[0].(*ast.CompositeLit); ok {
				for _, e := range cl.Elts {
					if s, ok := strLit(e); ok {
						kws = append(kws, bytesLit(s))
					}
				}
			}
		}
	}
	l.raw("def goKeywordBytes : List (List UInt8) :=\n  [" + strings.Join(kws, ",\n   ") + "]")
	var vn []string
	ast.Inspect(mustFunc(fnm, "meta/signature/name.go", "", "ValidName").Body, func(n ast.Node) bool {
		if ce, ok := n.(*ast.CallExpr); ok {
			for _, a := range ce.Args {
				if s, ok := strLit(a); ok {
					vn = append(vn, s)
				}
			}
		}
		return true
	})
	l.strList("validNameLiterals", vn)
	var tsf []string
	for _, fd := range []*ast.FuncDecl{mustFunc(ft, "meta/signature/type.go", "*TypeSet", "ResolveCollision"), mustFunc(ft, "meta/signature/type.go", "", "NewTupleType"),
		mustFunc(fi, "meta/idl/idl.go", "", "generateProperty"), mustFunc(fnm, "meta/signature/name.go", "", "CleanVarName")} {
		ast.Inspect(fd.Body, func(n ast.Node) bool {
			if bl, ok := n.(*ast.BasicLit); ok {
				if s, ok := strLit(bl); ok {
					tsf = append(tsf, fd.Name.Name+": "+s)
				}
			}
			return true
		})
	}
	l.strList("typeSetLiterals", tsf)
	l.write(out, "IdlPackage.lean")
}
