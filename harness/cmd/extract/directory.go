package main

func init() { extractors["Directory"] = extractDirectory }

// bus/directory/directory.go: every method of the directory is one critical section of its mutex;
// the order of checks and writes inside each.
func extractDirectory(out string) {
	const file = "bus/directory/directory.go"
	f := load(file)
	l := &leanFile{ns: "Directory"}
	fields := []string{"staging", "services", "lastID", "signal"}
	calls := []string{"checkServiceInfo", "SignalServiceAdded", "SignalServiceRemoved", "Sort"}
	for _, fn := range []string{"RegisterService", "UnregisterService", "ServiceReady", "UpdateServiceInfo", "Service", "Services", "info"} {
		l.strList(lowerFirst(fn)+"Flow", flowTokens(mustFunc(f, file, "*serviceDirectory", fn), "s", fields, calls))
	}
	for _, fn := range []string{"Reserve", "Remove", "Enable", "Resolve"} {
		l.strList("ns"+fn+"Flow", flowTokens(mustFunc(f, file, "*directoryNamespace", fn), "ns", []string{"directory"}, []string{"RegisterService", "UnregisterService", "ServiceReady", "Service"}))
	}
	l.write(out, "Directory.lean")
}
