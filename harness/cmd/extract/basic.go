package main

import (
	"go/ast"
	"strings"
)

func init() { extractors["Basic"] = extractBasic }

// The retry loops of ReadN/WriteN (their branch conditions in order) and, for
// every fixed-width reader/writer, the buffer width and byte order it uses.
func extractBasic(out string) {
	const file = "type/basic/basic.go"
	f := load(file)
	l := &leanFile{ns: "Basic"}
	conds := func(name string) []string {
		var cs []string
		ast.Inspect(mustFunc(f, file, "", name).Body, func(n ast.Node) bool {
			switch v := n.(type) {
			case *ast.ForStmt:
				cs = append(cs, "for "+src(v.Cond))
			case *ast.IfStmt:
				cs = append(cs, "if "+src(v.Cond))
			case *ast.BranchStmt:
				cs = append(cs, v.Tok.String())
			case *ast.ReturnStmt:
				if len(v.Results) == 1 {
					if id, ok := v.Results[0].(*ast.Ident); ok {
						cs = append(cs, "return "+id.Name)
					} else if s, ok := v.Results[0].(*ast.SelectorExpr); ok {
						cs = append(cs, "return "+src(s))
					} else {
						cs = append(cs, "return error")
					}
				}
			case *ast.CallExpr:
				if _, sel := selParts(v.Fun); sel == "Read" || sel == "Write" {
					cs = append(cs, "call "+src(v))
				}
			}
			return true
		})
		return cs
	}
	l.strList("readN", conds("ReadN"))
	l.strList("writeN", conds("WriteN"))

	var widths [][]string
	for _, d := range f.Decls {
		fd, ok := d.(*ast.FuncDecl)
		if !ok || fd.Recv != nil || fd.Body == nil {
			continue
		}
		n := fd.Name.Name
		if !(strings.HasPrefix(n, "Read") || strings.HasPrefix(n, "Write")) || n == "ReadN" || n == "WriteN" {
			continue
		}
		width, order, via := "", "", ""
		ast.Inspect(fd.Body, func(x ast.Node) bool {
			switch v := x.(type) {
			case *ast.CompositeLit:
				if src(v.Type) == "[]byte" {
					width = itoa(len(v.Elts))
				}
			case *ast.SelectorExpr:
				if s := src(v); s == "binary.LittleEndian" || s == "binary.BigEndian" {
					order = strings.TrimPrefix(s, "binary.")
				}
			case *ast.CallExpr:
				if id, ok := v.Fun.(*ast.Ident); ok && (strings.HasPrefix(id.Name, "Read") || strings.HasPrefix(id.Name, "Write")) &&
					id.Name != "ReadN" && id.Name != "WriteN" && via == "" {
					via = id.Name
				}
			}
			return true
		})
		widths = append(widths, []string{n, width, order, via})
	}
	l.tupleList("fixedWidth", 4, widths)

	// ReadString: the guards between the size read and the allocation
	var rs []string
	ast.Inspect(mustFunc(f, file, "", "ReadString").Body, func(n ast.Node) bool {
		switch v := n.(type) {
		case *ast.IfStmt:
			rs = append(rs, "if "+src(v.Cond))
		case *ast.CallExpr:
			if id, ok := v.Fun.(*ast.Ident); ok && (id.Name == "make" || id.Name == "ReadN" || id.Name == "ReadUint32") {
				rs = append(rs, "call "+src(v))
			}
		}
		return true
	})
	l.strList("readString", rs)
	l.write(out, "Basic.lean")
}

func itoa(n int) string {
	if n == 0 {
		return "0"
	}
	s := ""
	for n > 0 {
		s = string(rune('0'+n%10)) + s
		n /= 10
	}
	return s
}
