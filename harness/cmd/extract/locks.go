package main

import (
	"fmt"
	"go/ast"
	"go/token"
	"os"
	"path/filepath"
	"sort"
	"strings"
)

func init() { extractors["Locks"] = extractLocks }

// The control skeleton of every function (and function literal) under bus/ that touches a mutex, as a term of
// QiVerif.Locks.Prog: locks, unlocks, deferred unlocks, returns, branches, loops, switch / select, break / continue.
// What the translator does not follow becomes `.unknown`, which the checker refuses.
type lockTr struct {
	mutexes map[string]int
	lits    []*ast.FuncLit
}

var lockOpNames = map[string]bool{"Lock": true, "Unlock": true, "RLock": true, "RUnlock": true}

func lockCall(e ast.Expr) (recv string, op string, ok bool) {
	c, isCall := e.(*ast.CallExpr)
	if !isCall || len(c.Args) != 0 {
		return "", "", false
	}
	sel, isSel := c.Fun.(*ast.SelectorExpr)
	if !isSel || !lockOpNames[sel.Sel.Name] {
		return "", "", false
	}
	return src(sel.X), sel.Sel.Name, true
}

// touches: a lock operation in n, outside of nested function literals (unless deep)
func touchesLocks(n ast.Node, deep bool) bool {
	found := false
	ast.Inspect(n, func(x ast.Node) bool {
		if found {
			return false
		}
		if fl, ok := x.(*ast.FuncLit); ok && !deep && ast.Node(fl) != n {
			return false
		}
		if e, ok := x.(ast.Expr); ok {
			if _, _, is := lockCall(e); is {
				found = true
			}
		}
		return true
	})
	return found
}

func (t *lockTr) mutex(recv, op string) int {
	key := recv
	if op == "RLock" || op == "RUnlock" {
		key = "r:" + recv
	}
	if i, ok := t.mutexes[key]; ok {
		return i
	}
	i := len(t.mutexes)
	t.mutexes[key] = i
	return i
}

func seqOf(parts []string) string {
	var keep []string
	for _, p := range parts {
		if p != ".skip" {
			keep = append(keep, p)
		}
	}
	if len(keep) == 0 {
		return ".skip"
	}
	out := keep[len(keep)-1]
	for i := len(keep) - 2; i >= 0; i-- {
		out = "(.seq " + keep[i] + " " + out + ")"
	}
	return out
}

func altOf(parts []string) string {
	if len(parts) == 0 {
		return ".skip"
	}
	out := parts[len(parts)-1]
	for i := len(parts) - 2; i >= 0; i-- {
		out = "(.ite " + parts[i] + " " + out + ")"
	}
	return out
}

// a statement without control flow of its own: its function literals are translated apart; one that is applied on the
// spot and touches a mutex is not followed
func (t *lockTr) simple(n ast.Node) string {
	res := ".skip"
	ast.Inspect(n, func(x ast.Node) bool {
		switch v := x.(type) {
		case *ast.CallExpr:
			if fl, ok := v.Fun.(*ast.FuncLit); ok && touchesLocks(fl, true) {
				res = ".unknown"
			}
			if id, ok := v.Fun.(*ast.Ident); ok && id.Name == "panic" {
				res = ".ret"
			}
			if _, _, ok := lockCall(v); ok {
				// a lock operation inside an expression (never seen): not followed
				res = ".unknown"
			}
		case *ast.FuncLit:
			t.lits = append(t.lits, v)
			return false
		}
		return true
	})
	return res
}

func (t *lockTr) block(list []ast.Stmt) string {
	parts := make([]string, 0, len(list))
	for _, s := range list {
		parts = append(parts, t.stmt(s))
	}
	return seqOf(parts)
}

func (t *lockTr) stmt(s ast.Stmt) string {
	switch v := s.(type) {
	case nil:
		return ".skip"
	case *ast.ExprStmt:
		if recv, op, ok := lockCall(v.X); ok {
			if op == "Lock" || op == "RLock" {
				return fmt.Sprintf("(.lock %d)", t.mutex(recv, op))
			}
			return fmt.Sprintf("(.unlock %d)", t.mutex(recv, op))
		}
		return t.simple(v)
	case *ast.DeferStmt:
		if recv, op, ok := lockCall(v.Call); ok {
			if op == "Unlock" || op == "RUnlock" {
				return fmt.Sprintf("(.dunlock %d)", t.mutex(recv, op))
			}
			return ".unknown"
		}
		if fl, ok := v.Call.Fun.(*ast.FuncLit); ok && touchesLocks(fl, true) {
			return ".unknown"
		}
		return t.simple(v)
	case *ast.ReturnStmt:
		if r := t.simple(v); r == ".unknown" {
			return r
		}
		return ".ret"
	case *ast.BlockStmt:
		return t.block(v.List)
	case *ast.LabeledStmt:
		return t.stmt(v.Stmt)
	case *ast.IfStmt:
		parts := []string{t.stmt(v.Init), t.simple(v.Cond)}
		els := ".skip"
		if v.Else != nil {
			els = t.stmt(v.Else)
		}
		parts = append(parts, "(.ite "+t.block(v.Body.List)+" "+els+")")
		return seqOf(parts)
	case *ast.ForStmt:
		init := t.stmt(v.Init)
		if v.Cond != nil {
			if r := t.simple(v.Cond); r != ".skip" {
				return r
			}
		}
		body := seqOf([]string{t.block(v.Body.List), t.stmt(v.Post)})
		return seqOf([]string{init, "(.loop " + body + ")"})
	case *ast.RangeStmt:
		return seqOf([]string{t.simple(v.X), "(.loop " + t.block(v.Body.List) + ")"})
	case *ast.SwitchStmt:
		pre := []string{t.stmt(v.Init)}
		if v.Tag != nil {
			pre = append(pre, t.simple(v.Tag))
		}
		return seqOf(append(pre, t.cases(v.Body.List, true)))
	case *ast.TypeSwitchStmt:
		return seqOf([]string{t.stmt(v.Init), t.stmt(v.Assign), t.cases(v.Body.List, true)})
	case *ast.SelectStmt:
		return t.cases(v.Body.List, false)
	case *ast.BranchStmt:
		if v.Label != nil {
			return ".unknown"
		}
		switch v.Tok {
		case token.BREAK:
			return ".brk"
		case token.CONTINUE:
			return ".cont"
		}
		return ".unknown"
	case *ast.GoStmt:
		return t.simple(v)
	default:
		return t.simple(v)
	}
}

// switch / select: any one case; a switch without a default may take none
func (t *lockTr) cases(list []ast.Stmt, mayTakeNone bool) string {
	var alts []string
	hasDefault := false
	for _, c := range list {
		switch cc := c.(type) {
		case *ast.CaseClause:
			if cc.List == nil {
				hasDefault = true
			}
			pre := ".skip"
			for _, e := range cc.List {
				if r := t.simple(e); r != ".skip" {
					pre = r
				}
			}
			alts = append(alts, seqOf([]string{pre, t.block(cc.Body)}))
		case *ast.CommClause:
			if cc.Comm == nil {
				hasDefault = true
			}
			alts = append(alts, seqOf([]string{t.stmt(cc.Comm), t.block(cc.Body)}))
		}
	}
	if (mayTakeNone && !hasDefault) || len(alts) == 0 {
		alts = append(alts, ".skip")
	}
	return "(.catch " + altOf(alts) + ")"
}

func extractLocks(out string) {
	l := &leanFile{ns: "Locks"}
	var files []string
	filepath.Walk(filepath.Join(repo, "bus"), func(p string, info os.FileInfo, err error) error {
		if err != nil || info.IsDir() {
			return nil
		}
		if strings.HasSuffix(p, ".go") && !strings.HasSuffix(p, "_test.go") {
			rel, _ := filepath.Rel(repo, p)
			files = append(files, rel)
		}
		return nil
	})
	sort.Strings(files)
	var entries []string
	for _, rel := range files {
		f := load(rel)
		for _, d := range f.Decls {
			fd, ok := d.(*ast.FuncDecl)
			if !ok || fd.Body == nil || !touchesLocks(fd.Body, true) {
				continue
			}
			name := fd.Name.Name
			if fd.Recv != nil && len(fd.Recv.List) > 0 {
				name = strings.TrimPrefix(src(fd.Recv.List[0].Type), "*") + "." + name
			}
			t := &lockTr{mutexes: map[string]int{}}
			term := t.block(fd.Body.List)
			if touchesLocks(fd.Body, false) {
				entries = append(entries, fmt.Sprintf("(%s, %s)", lstr(rel+" "+name), term))
			}
			// the function literals, each a function of its own (those inside them too)
			for k := 0; k < len(t.lits); k++ {
				fl := t.lits[k]
				if !touchesLocks(fl.Body, true) {
					continue
				}
				tl := &lockTr{mutexes: map[string]int{}}
				lterm := tl.block(fl.Body.List)
				t.lits = append(t.lits, tl.lits...)
				if touchesLocks(fl.Body, false) {
					entries = append(entries, fmt.Sprintf("(%s, %s)", lstr(fmt.Sprintf("%s %s func#%d", rel, name, k)), lterm))
				}
			}
		}
	}
	l.raw("def fns : List (String × QiVerif.Locks.Prog) :=\n  [" + strings.Join(entries, ",\n   ") + "]")
	l.writeWithImports(out, "Locks.lean", []string{"QiVerif.Model.Locks"})
}
