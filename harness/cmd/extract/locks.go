package main

import (
	"fmt"
	"go/ast"
	"go/parser"
	"go/token"
	"os"
	"path/filepath"
	"sort"
	"strings"
)

func init() { extractors["Locks"] = extractLocks }

// The control skeleton of every function (and function literal) under bus/ that touches a mutex, as a term of
// QiVerif.Locks.Prog: locks, unlocks, deferred unlocks, returns, branches, loops, switch / select, break / continue.
// What the translator does not follow becomes `.unknown`, which the checker refuses.
type lockTr struct {
	mutexes map[string]int
	lits    []*ast.FuncLit
}

var lockOpNames = map[string]bool{"Lock": true, "Unlock": true, "RLock": true, "RUnlock": true}

func lockCall(e ast.Expr) (recv string, op string, ok bool) {
	c, isCall := e.(*ast.CallExpr)
	if !isCall || len(c.Args) != 0 {
		return "", "", false
	}
	sel, isSel := c.Fun.(*ast.SelectorExpr)
	if !isSel || !lockOpNames[sel.Sel.Name] {
		return "", "", false
	}
	return src(sel.X), sel.Sel.Name, true
}

// touches: a lock operation in n, outside of nested function literals (unless deep)
func touchesLocks(n ast.Node, deep bool) bool {
	found := false
	ast.Inspect(n, func(x ast.Node) bool {
		if found {
			return false
		}
		if fl, ok := x.(*ast.FuncLit); ok && !deep && ast.Node(fl) != n {
			return false
		}
		if e, ok := x.(ast.Expr); ok {
			if _, _, is := lockCall(e); is {
				found = true
			}
		}
		return true
	})
	return found
}

func (t *lockTr) mutex(recv, op string) int {
	key := recv
	if op == "RLock" || op == "RUnlock" {
		key = "r:" + recv
	}
	if i, ok := t.mutexes[key]; ok {
		return i
	}
	i := len(t.mutexes)
	t.mutexes[key] = i
	return i
}

func seqOf(parts []string) string {
	var keep []string
	for _, p := range parts {
		if p != ".skip" {
			keep = append(keep, p)
		}
	}
	if len(keep) == 0 {
		return ".skip"
	}
	out := keep[len(keep)-1]
	for i := len(keep) - 2; i >= 0; i-- {
		out = "(.seq " + keep[i] + " " + out + ")"
	}
	return out
}

func altOf(parts []string) string {
	if len(parts) == 0 {
		return ".skip"
	}
	out := parts[len(parts)-1]
	for i := len(parts) - 2; i >= 0; i-- {
		out = "(.ite " + parts[i] + " " + out + ")"
	}
	return out
}

// what may wait for another party: a message sent to a peer, a call to a peer, a Wait
var waitingCalls = map[string]int{"Send": 2, "SendReply": 2, "SendError": 2, "Call": 3, "Wait": 4}

// a statement without control flow of its own: what in it may wait for another party (channel receives, messages and
// calls to a peer), in source order; its function literals are translated apart; one that is applied on the spot and
// touches a mutex is not followed
func (t *lockTr) simple(n ast.Node) string {
	if n == nil {
		return ".skip"
	}
	var acts []string
	unknown, panics := false, false
	ast.Inspect(n, func(x ast.Node) bool {
		switch v := x.(type) {
		case *ast.CallExpr:
			if fl, ok := v.Fun.(*ast.FuncLit); ok && touchesLocks(fl, true) {
				unknown = true
			}
			if id, ok := v.Fun.(*ast.Ident); ok && id.Name == "panic" {
				panics = true
			}
			if _, _, ok := lockCall(v); ok {
				// a lock operation inside an expression (never seen): not followed
				unknown = true
			}
			if sel, ok := v.Fun.(*ast.SelectorExpr); ok {
				if k, ok := waitingCalls[sel.Sel.Name]; ok {
					acts = append(acts, fmt.Sprintf("(.act %d)", k))
				}
			}
		case *ast.UnaryExpr:
			if v.Op == token.ARROW {
				acts = append(acts, "(.act 1)")
			}
		case *ast.FuncLit:
			t.lits = append(t.lits, v)
			return false
		}
		return true
	})
	if unknown {
		return ".unknown"
	}
	if panics {
		acts = append(acts, ".ret")
	}
	return seqOf(acts)
}

func (t *lockTr) block(list []ast.Stmt) string {
	parts := make([]string, 0, len(list))
	for _, s := range list {
		parts = append(parts, t.stmt(s))
	}
	return seqOf(parts)
}

func (t *lockTr) stmt(s ast.Stmt) string {
	switch v := s.(type) {
	case nil:
		return ".skip"
	case *ast.ExprStmt:
		if recv, op, ok := lockCall(v.X); ok {
			if op == "Lock" || op == "RLock" {
				return fmt.Sprintf("(.lock %d)", t.mutex(recv, op))
			}
			return fmt.Sprintf("(.unlock %d)", t.mutex(recv, op))
		}
		return t.simple(v)
	case *ast.DeferStmt:
		if recv, op, ok := lockCall(v.Call); ok {
			if op == "Unlock" || op == "RUnlock" {
				return fmt.Sprintf("(.dunlock %d)", t.mutex(recv, op))
			}
			return ".unknown"
		}
		if fl, ok := v.Call.Fun.(*ast.FuncLit); ok && touchesLocks(fl, true) {
			return ".unknown"
		}
		return t.simple(v)
	case *ast.ReturnStmt:
		return seqOf([]string{t.simple(v), ".ret"})
	case *ast.SendStmt:
		return seqOf([]string{t.simple(v.Value), t.simple(v.Chan), "(.act 0)"})
	case *ast.BlockStmt:
		return t.block(v.List)
	case *ast.LabeledStmt:
		return t.stmt(v.Stmt)
	case *ast.IfStmt:
		parts := []string{t.stmt(v.Init), t.simple(v.Cond)}
		els := ".skip"
		if v.Else != nil {
			els = t.stmt(v.Else)
		}
		parts = append(parts, "(.ite "+t.block(v.Body.List)+" "+els+")")
		return seqOf(parts)
	case *ast.ForStmt:
		init := t.stmt(v.Init)
		cond := t.simple(v.Cond)
		body := seqOf([]string{cond, t.block(v.Body.List), t.stmt(v.Post)})
		return seqOf([]string{init, "(.loop " + body + ")"})
	case *ast.RangeStmt:
		return seqOf([]string{t.simple(v.X), "(.loop " + t.block(v.Body.List) + ")"})
	case *ast.SwitchStmt:
		pre := []string{t.stmt(v.Init)}
		if v.Tag != nil {
			pre = append(pre, t.simple(v.Tag))
		}
		return seqOf(append(pre, t.cases(v.Body.List, true)))
	case *ast.TypeSwitchStmt:
		return seqOf([]string{t.stmt(v.Init), t.stmt(v.Assign), t.cases(v.Body.List, true)})
	case *ast.SelectStmt:
		return t.cases(v.Body.List, false)
	case *ast.BranchStmt:
		if v.Label != nil {
			return ".unknown"
		}
		switch v.Tok {
		case token.BREAK:
			return ".brk"
		case token.CONTINUE:
			return ".cont"
		}
		return ".unknown"
	case *ast.GoStmt:
		// another goroutine runs the call: a function literal is translated apart, the arguments are evaluated here
		parts := []string{}
		if fl, ok := v.Call.Fun.(*ast.FuncLit); ok {
			t.lits = append(t.lits, fl)
		} else {
			parts = append(parts, t.simple(v.Call.Fun))
		}
		for _, a := range v.Call.Args {
			parts = append(parts, t.simple(a))
		}
		return seqOf(parts)
	default:
		return t.simple(v)
	}
}

// switch / select: any one case; a switch without a default may take none
func (t *lockTr) cases(list []ast.Stmt, mayTakeNone bool) string {
	var alts []string
	hasDefault := false
	for _, c := range list {
		switch cc := c.(type) {
		case *ast.CaseClause:
			if cc.List == nil {
				hasDefault = true
			}
			var pre []string
			for _, e := range cc.List {
				pre = append(pre, t.simple(e))
			}
			alts = append(alts, seqOf(append(pre, t.block(cc.Body))))
		case *ast.CommClause:
			if cc.Comm == nil {
				hasDefault = true
			}
			comm := t.stmt(cc.Comm)
			if selectHasDefault(list) && comm != ".unknown" {
				// a select with a default never waits: its sends and receives are attempts
				comm = ".skip"
			}
			alts = append(alts, seqOf([]string{comm, t.block(cc.Body)}))
		}
	}
	if (mayTakeNone && !hasDefault) || len(alts) == 0 {
		alts = append(alts, ".skip")
	}
	return "(.catch " + altOf(alts) + ")"
}

func selectHasDefault(list []ast.Stmt) bool {
	for _, c := range list {
		if cc, ok := c.(*ast.CommClause); ok && cc.Comm == nil {
			return true
		}
	}
	return false
}

// loop variables of a `for` / `range` statement that a function literal started with `go` inside the loop refers to
// (the module says go 1.13: one variable for all the rounds of the loop)
func capturedLoopVars(rel string, f *ast.File) []string {
	var found []string
	for _, d := range f.Decls {
		fd, ok := d.(*ast.FuncDecl)
		if !ok || fd.Body == nil {
			continue
		}
		ast.Inspect(fd.Body, func(n ast.Node) bool {
			var vars []string
			var body *ast.BlockStmt
			switch v := n.(type) {
			case *ast.RangeStmt:
				if v.Tok == token.DEFINE {
					for _, e := range []ast.Expr{v.Key, v.Value} {
						if id, ok := e.(*ast.Ident); ok && id.Name != "_" {
							vars = append(vars, id.Name)
						}
					}
				}
				body = v.Body
			case *ast.ForStmt:
				if as, ok := v.Init.(*ast.AssignStmt); ok && as.Tok == token.DEFINE {
					for _, e := range as.Lhs {
						if id, ok := e.(*ast.Ident); ok && id.Name != "_" {
							vars = append(vars, id.Name)
						}
					}
				}
				body = v.Body
			}
			if body == nil || len(vars) == 0 {
				return true
			}
			// function literals bound to a name inside the loop: `go name()` starts them
			named := map[string]*ast.FuncLit{}
			ast.Inspect(body, func(m ast.Node) bool {
				if as, ok := m.(*ast.AssignStmt); ok && len(as.Lhs) == len(as.Rhs) {
					for i, e := range as.Lhs {
						if id, ok := e.(*ast.Ident); ok {
							if fl, ok := as.Rhs[i].(*ast.FuncLit); ok {
								named[id.Name] = fl
							}
						}
					}
				}
				return true
			})
			ast.Inspect(body, func(m ast.Node) bool {
				g, ok := m.(*ast.GoStmt)
				if !ok {
					return true
				}
				fl, ok := g.Call.Fun.(*ast.FuncLit)
				if !ok {
					if id, isID := g.Call.Fun.(*ast.Ident); isID && named[id.Name] != nil {
						fl, ok = named[id.Name], true
					}
				}
				if !ok {
					return true
				}
				// parameters of the literal (and what it declares itself) hide the loop's variables
				hidden := map[string]bool{}
				if fl.Type.Params != nil {
					for _, p := range fl.Type.Params.List {
						for _, nm := range p.Names {
							hidden[nm.Name] = true
						}
					}
				}
				ast.Inspect(fl.Body, func(x ast.Node) bool {
					if as, ok := x.(*ast.AssignStmt); ok && as.Tok == token.DEFINE {
						for _, e := range as.Lhs {
							if id, ok := e.(*ast.Ident); ok {
								hidden[id.Name] = true
							}
						}
					}
					return true
				})
				seen := map[string]bool{}
				ast.Inspect(fl.Body, func(x ast.Node) bool {
					if id, ok := x.(*ast.Ident); ok {
						for _, v := range vars {
							if id.Name == v && !hidden[v] && !seen[v] {
								seen[v] = true
								name := fd.Name.Name
								if fd.Recv != nil && len(fd.Recv.List) > 0 {
									name = strings.TrimPrefix(src(fd.Recv.List[0].Type), "*") + "." + name
								}
								found = append(found, rel+" "+name+" "+v)
							}
						}
					}
					return true
				})
				return true
			})
			return true
		})
	}
	return found
}

func extractLocks(out string) {
	l := &leanFile{ns: "Locks"}
	var files []string
	filepath.Walk(filepath.Join(repo, "bus"), func(p string, info os.FileInfo, err error) error {
		if err != nil || info.IsDir() {
			return nil
		}
		if strings.HasSuffix(p, ".go") && !strings.HasSuffix(p, "_test.go") {
			rel, _ := filepath.Rel(repo, p)
			files = append(files, rel)
		}
		return nil
	})
	sort.Strings(files)
	var entries []string
	var captured []string
	for _, rel := range files {
		f := load(rel)
		captured = append(captured, capturedLoopVars(rel, f)...)
		entries = append(entries, translateFile(rel, f)...)
	}
	// the translator applied to a text of its own, whose skeletons Tie/Locks.lean knows by heart
	st, err := parser.ParseFile(fset, "selftest.go", lockSelfTest, 0)
	if err != nil {
		fail("locks self test: %v", err)
	}
	l.raw("def selfTest : List (String × QiVerif.Locks.Prog) :=\n  [" + strings.Join(translateFile("selftest.go", st), ",\n   ") + "]")
	l.strList("selfTestCaptured", capturedLoopVars("selftest.go", st))
	l.strList("capturedLoopVars", captured)
	l.raw("def fns : List (String × QiVerif.Locks.Prog) :=\n  [" + strings.Join(entries, ",\n   ") + "]")
	l.writeWithImports(out, "Locks.lean", []string{"QiVerif.Model.Locks"})
}

const lockSelfTest = `package p

func (t *T) a(c bool) int {
	t.mu.Lock()
	defer t.mu.Unlock()
	if c {
		return 1
	}
	for i := 0; i < 3; i++ {
		if c {
			continue
		}
		break
	}
	return 0
}

func (t *T) b(ch chan int) {
	t.mu.RLock()
	for _, x := range t.xs {
		switch x {
		case 1:
			break
		case 2:
			t.mu.RUnlock()
			return
		}
		select {
		case ch <- x:
		default:
		}
		select {
		case ch <- x:
		case <-t.done:
		}
	}
	t.mu.RUnlock()
	t.peer.Send(nil)
	go func() {
		t.other.Lock()
		ch <- 1
		t.other.Unlock()
	}()
}

func (t *T) c() {
	t.mu.Lock()
outer:
	for {
		for {
			break outer
		}
	}
	t.mu.Unlock()
}

func (t *T) d(ms []int) {
	for _, m := range ms {
		go func() { t.use(m) }()
		go func(m int) { t.use(m) }(m)
	}
}
`

func translateFile(rel string, f *ast.File) []string {
	var entries []string
	{
		for _, d := range f.Decls {
			fd, ok := d.(*ast.FuncDecl)
			if !ok || fd.Body == nil || !touchesLocks(fd.Body, true) {
				continue
			}
			name := fd.Name.Name
			if fd.Recv != nil && len(fd.Recv.List) > 0 {
				name = strings.TrimPrefix(src(fd.Recv.List[0].Type), "*") + "." + name
			}
			t := &lockTr{mutexes: map[string]int{}}
			term := t.block(fd.Body.List)
			if touchesLocks(fd.Body, false) {
				entries = append(entries, fmt.Sprintf("(%s, %s)", lstr(rel+" "+name), term))
			}
			// the function literals, each a function of its own (those inside them too)
			for k := 0; k < len(t.lits); k++ {
				fl := t.lits[k]
				if !touchesLocks(fl.Body, true) {
					continue
				}
				tl := &lockTr{mutexes: map[string]int{}}
				lterm := tl.block(fl.Body.List)
				t.lits = append(t.lits, tl.lits...)
				if touchesLocks(fl.Body, false) {
					entries = append(entries, fmt.Sprintf("(%s, %s)", lstr(fmt.Sprintf("%s %s func#%d", rel, name, k)), lterm))
				}
			}
		}
	}
	return entries
}
