package main

import "go/ast"

func init() { extractors["Auth"] = extractAuth }

// bus/server.go, bus/authenticate.go, bus/auth.go, bus/channel.go: the authentication gate.
func extractAuth(out string) {
	l := &leanFile{ns: "Auth"}
	// firewall
	f := load("bus/server.go")
	fw := mustFunc(f, "bus/server.go", "", "firewall")
	var conds []string
	ast.Inspect(fw.Body, func(n ast.Node) bool {
		if is, ok := n.(*ast.IfStmt); ok {
			conds = append(conds, src(is.Cond))
		}
		return true
	})
	l.strList("firewallCond", conds)
	calls := []string{"firewall", "SendError", "SendReply", "Close", "Receive", "DefaultCap", "SetAuthenticated", "MakeHandler",
		"Authenticate", "Authenticated", "Cap", "capError", "wrapAuthenticate", "ReadCapabilityMap", "WriteCapabilityMap",
		"ReadUint32", "ReadString", "NewValue", "make", "EndPointFinalizer"}
	l.strList("handleFlow", flowTokens(mustFunc(f, "bus/server.go", "*server", "handle"), "s", []string{"contexts", "Router"}, calls))
	l.strList("routerReceiveFlow", flowTokens(mustFunc(load("bus/router.go"), "bus/router.go", "*Router", "Receive"), "r", []string{"services"}, append(calls, "Receive")))
	l.strList("serviceReceiveFlow", flowTokens(mustFunc(load("bus/service.go"), "bus/service.go", "*serviceImpl", "Receive"), "s", []string{"boxes"}, append(calls, "NewMail")))
	fa := load("bus/authenticate.go")
	l.strList("authReceiveFlow", flowTokens(mustFunc(fa, "bus/authenticate.go", "*serviceAuthenticate", "Receive"), "s", []string{"auth"}, calls))
	l.strList("wrapAuthenticateFlow", flowTokens(mustFunc(fa, "bus/authenticate.go", "*serviceAuthenticate", "wrapAuthenticate"), "s", []string{"auth"}, calls))
	l.strList("authenticateFlow", flowTokens(mustFunc(fa, "bus/authenticate.go", "*serviceAuthenticate", "Authenticate"), "s", []string{"auth"}, calls))
	var ifs []string
	ast.Inspect(mustFunc(fa, "bus/authenticate.go", "*serviceAuthenticate", "Authenticate").Body, func(n ast.Node) bool {
		if is, ok := n.(*ast.IfStmt); ok {
			t := src(is.Cond)
			if is.Init != nil {
				t = src(is.Init) + "; " + t
			}
			ifs = append(ifs, t)
		}
		return true
	})
	l.strList("authenticateIfs", ifs)
	l.strList("readCapabilityMapFlow", flowTokens(mustFunc(fa, "bus/authenticate.go", "", "ReadCapabilityMap"), "", nil, calls))
	fc := load("bus/auth.go")
	l.strList("authenticatedFlow", flowTokens(mustFunc(fc, "bus/auth.go", "CapabilityMap", "Authenticated"), "c", nil, calls))
	l.strList("setAuthenticatedFlow", []string{src(mustFunc(fc, "bus/auth.go", "CapabilityMap", "SetAuthenticated").Body)})
	// DefaultCap returns a fresh map literal on every call
	dc := mustFunc(fc, "bus/auth.go", "", "DefaultCap")
	fresh := "no"
	if len(dc.Body.List) == 1 {
		if rs, ok := dc.Body.List[0].(*ast.ReturnStmt); ok && len(rs.Results) == 1 {
			if cl, ok := rs.Results[0].(*ast.CompositeLit); ok {
				fresh = "return " + src(cl.Type) + "{…}"
			}
		}
	}
	l.strList("defaultCap", []string{fresh})
	// constants
	var consts []string
	for _, file := range []*ast.File{fa, fc} {
		for _, d := range file.Decls {
			if gd, ok := d.(*ast.GenDecl); ok {
				for _, sp := range gd.Specs {
					if vs, ok := sp.(*ast.ValueSpec); ok {
						for i, n := range vs.Names {
							switch n.Name {
							case "capabilityMapSizeMax", "KeyState", "KeyUser", "KeyToken", "StateDone", "StateError":
								if i < len(vs.Values) {
									consts = append(consts, n.Name+" = "+src(vs.Values[i]))
								}
							}
						}
					}
				}
			}
		}
	}
	l.strList("consts", consts)
	// the channel's methods consult its own map
	fch := load("bus/channel.go")
	l.strList("channelAuthenticated", []string{src(mustFunc(fch, "bus/channel.go", "*channel", "Authenticated").Body), src(mustFunc(fch, "bus/channel.go", "*channel", "SetAuthenticated").Body)})
	l.write(out, "Auth.lean")
}
