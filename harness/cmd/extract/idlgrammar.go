package main

import (
	"go/ast"
	"strings"
)

func init() { extractors["IdlGrammar"] = extractIdlGrammar }

// meta/idl/parser.go: the type sub-grammar; meta/signature/type.go: what the SignatureIDL printers write.
func extractIdlGrammar(out string) {
	const file = "meta/idl/parser.go"
	f := load(file)
	l := &leanFile{ns: "IdlGrammar"}
	argsOf := func(fn string) []ast.Expr {
		fd := mustFunc(f, file, "", fn)
		rs := fd.Body.List[len(fd.Body.List)-1].(*ast.ReturnStmt)
		return rs.Results[0].(*ast.CallExpr).Args
	}
	describe := func(e ast.Expr) string {
		if ce, ok := e.(*ast.CallExpr); ok {
			fn := src(ce.Fun)
			switch fn {
			case "parsec.Atom":
				s, _ := strLit(ce.Args[0])
				return "Atom " + s
			case "parsec.Many", "parsec.Kleene":
				sep := ""
				if len(ce.Args) > 2 {
					if a, ok := ce.Args[2].(*ast.CallExpr); ok {
						s, _ := strLit(a.Args[0])
						sep = " sep Atom " + s
					}
				}
				return strings.TrimPrefix(fn, "parsec.") + "(" + src(ce.Args[1]) + sep + ")"
			}
		}
		return src(e)
	}
	// the keywords: tokens `<keyword>\b` (a keyword ends at a word boundary)
	var atoms []string
	for _, a := range argsOf("basicType")[1:] {
		ce := a.(*ast.CallExpr)
		s, _ := strLit(ce.Args[0])
		if src(ce.Fun) != "parsec.Token" || !strings.HasSuffix(s, `\b`) {
			fail("%s: basicType: %s is not a keyword token ending at a word boundary", file, src(a))
		}
		atoms = append(atoms, strings.TrimSuffix(s, `\b`))
	}
	l.strList("basicAtoms", atoms)
	var bl []string
	for _, a := range atoms {
		bl = append(bl, bytesLit(a))
	}
	l.raw("def basicAtomBytes : List (List UInt8) :=\n  [" + strings.Join(bl, ",\n   ") + "]")
	var alts []string
	for _, a := range argsOf("typeParser")[1:] {
		alts = append(alts, src(a))
	}
	l.strList("typeAlternatives", alts)
	for _, sh := range [][2]string{{"mapType", "mapShape"}, {"tupleType", "tupleShape"}, {"vecType", "vecShape"}} {
		var parts []string
		for _, a := range argsOf(sh[0])[1:] {
			parts = append(parts, describe(a))
		}
		l.strList(sh[1], parts)
	}
	// typeIdent: the regular expressions
	var pats []string
	ast.Inspect(mustFunc(f, file, "", "typeIdent").Body, func(n ast.Node) bool {
		if cl, ok := n.(*ast.CompositeLit); ok && len(pats) == 0 {
			for _, e := range cl.Elts {
				if s, ok := strLit(e); ok {
					pats = append(pats, s)
				}
			}
		}
		return true
	})
	l.strList("typeIdentPatterns", pats)
	// printers
	ft := load("meta/signature/type.go")
	var formats, names []string
	for _, d := range ft.Decls {
		fd, ok := d.(*ast.FuncDecl)
		if !ok || fd.Body == nil {
			continue
		}
		if fd.Name.Name == "SignatureIDL" {
			ast.Inspect(fd.Body, func(n ast.Node) bool {
				if ce, ok := n.(*ast.CallExpr); ok && src(ce.Fun) == "fmt.Sprintf" {
					if s, ok := strLit(ce.Args[0]); ok {
						formats = append(formats, s)
					}
				}
				return true
			})
		}
		if strings.HasPrefix(fd.Name.Name, "New") && strings.HasSuffix(fd.Name.Name, "Type") {
			ast.Inspect(fd.Body, func(n ast.Node) bool {
				if kv, ok := n.(*ast.KeyValueExpr); ok && src(kv.Key) == "signatureIDL" {
					if s, ok := strLit(kv.Value); ok {
						names = append(names, s)
					}
				}
				return true
			})
		}
	}
	l.strList("printerFormats", formats)
	l.strList("basicIDLNames", names)
	l.write(out, "IdlGrammar.lean")
}
