package main

import "go/ast"

func init() { extractors["Queues"] = extractQueues }

// the buffered channels between a connection and an object: bus/server.go (per-connection
// consumer queue), bus/mailbox.go (per-object mailbox), and the non-blocking send of
// bus/net/endpoint.go dispatch.
func extractQueues(out string) {
	l := &leanFile{ns: "Queues"}
	var chans []string
	for _, spec := range [][3]string{{"bus/server.go", "*server", "handle"}, {"bus/mailbox.go", "", "NewMailBox"}} {
		f := load(spec[0])
		ast.Inspect(mustFunc(f, spec[0], spec[1], spec[2]).Body, func(n ast.Node) bool {
			if ce, ok := n.(*ast.CallExpr); ok && src(ce.Fun) == "make" && len(ce.Args) >= 1 {
				if _, ok := ce.Args[0].(*ast.ChanType); ok {
					chans = append(chans, spec[2]+": "+src(ce))
				}
			}
			return true
		})
	}
	l.strList("channels", chans)
	// dispatch: the send is inside a select with a default branch
	f := load("bus/net/endpoint.go")
	var sel []string
	ast.Inspect(mustFunc(f, "bus/net/endpoint.go", "*endPoint", "dispatch").Body, func(n ast.Node) bool {
		if s, ok := n.(*ast.SelectStmt); ok {
			for _, c := range s.Body.List {
				cc := c.(*ast.CommClause)
				if cc.Comm == nil {
					sel = append(sel, "default")
				} else {
					sel = append(sel, src(cc.Comm))
				}
			}
		}
		return true
	})
	l.strList("dispatchSelect", sel)
	l.write(out, "Queues.lean")
}
