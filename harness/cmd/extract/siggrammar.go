package main

import (
	"strings"
	"go/ast"
	"go/token"
)

func init() { extractors["SigGrammar"] = extractSigGrammar }

// The signature grammar built in meta/signature/signature.go init(), the
// post-checks of Parse and the type-assertion structure of the nodify callbacks.
func extractSigGrammar(out string) {
	const file = "meta/signature/signature.go"
	f := load(file)
	l := &leanFile{ns: "SigGrammar"}
	l.raw("-- (this file is generated; it imports the hand-written Peg embedding)")
	g := newGrammarTx(f, file)
	initFn := mustFunc(f, file, "", "init")
	g.collectLocals(initFn.Body)
	entry := ""
	for _, st := range initFn.Body.List {
		switch v := st.(type) {
		case *ast.DeclStmt:
			gd := v.Decl.(*ast.GenDecl)
			if gd.Tok != token.VAR {
				continue
			}
			for _, sp := range gd.Specs {
				vs := sp.(*ast.ValueSpec)
				for i, n := range vs.Names {
					if i < len(vs.Values) {
						g.add(n.Name, g.expr(vs.Values[i]))
					}
				}
			}
		case *ast.AssignStmt:
			if len(v.Lhs) == 1 && len(v.Rhs) == 1 {
				name := src(v.Lhs[0])
				if name == "typeSignature" {
					entry = src(v.Rhs[0])
					continue
				}
				g.add(name, g.expr(v.Rhs[0]))
			}
		}
	}
	g.emit(l, "rules", true)
	l.strList("entry", []string{entry})

	// Parse: the checks after the parser returned
	var post []string
	ast.Inspect(mustFunc(f, file, "", "Parse").Body, func(n ast.Node) bool {
		switch v := n.(type) {
		case *ast.IfStmt:
			post = append(post, "if "+src(v.Cond))
		case *ast.AssignStmt:
			if len(v.Rhs) == 1 {
				if _, ok := v.Rhs[0].(*ast.TypeAssertExpr); ok {
					post = append(post, src(v))
				}
				if c, ok := v.Rhs[0].(*ast.CallExpr); ok && src(c.Fun) == "typeSignature" {
					post = append(post, src(v))
				}
			}
		}
		return true
	})
	l.strList("parseSteps", post)
	// the bound on the nesting and how it is measured
	if v, ok := constOf(f, "MaxDepth"); ok {
		l.nat("maxDepth", v)
	} else {
		fail("%s: constant MaxDepth not found", file)
	}
	nf := mustFunc(f, file, "", "nesting")
	var nest []string
	ast.Inspect(nf.Body, func(n ast.Node) bool {
		switch v := n.(type) {
		case *ast.ForStmt:
			nest = append(nest, "for "+src(v.Init)+"; "+src(v.Cond)+"; "+src(v.Post))
		case *ast.SwitchStmt:
			nest = append(nest, "switch "+src(v.Tag))
		case *ast.CaseClause:
			var cs []string
			for _, e := range v.List {
				cs = append(cs, src(e))
			}
			nest = append(nest, "case "+strings.Join(cs, ", "))
		case *ast.IfStmt:
			nest = append(nest, "if "+src(v.Cond))
		case *ast.IncDecStmt:
			nest = append(nest, src(v))
		case *ast.AssignStmt:
			nest = append(nest, src(v))
		case *ast.ReturnStmt:
			nest = append(nest, src(v))
		}
		return true
	})
	l.strList("nestingSteps", nest)

	// the callbacks: index expressions and type assertions they perform (the places that
	// can panic or turn into error nodes)
	var cbs [][]string
	for _, d := range f.Decls {
		fd, ok := d.(*ast.FuncDecl)
		if !ok || fd.Body == nil || fd.Recv != nil {
			continue
		}
		n := fd.Name.Name
		if len(n) < 6 || (n[:6] != "nodify" && n[:7] != "extract") {
			continue
		}
		var ops []string
		ast.Inspect(fd.Body, func(x ast.Node) bool {
			switch v := x.(type) {
			case *ast.TypeAssertExpr:
				ops = append(ops, "assert "+src(v))
			case *ast.IndexExpr:
				ops = append(ops, "index "+src(v))
			case *ast.CallExpr:
				s := src(v.Fun)
				if len(s) > 3 && s[:3] == "New" || s == "extractValue" || s == "extractMembers" ||
					s == "extractMembersTypes" || s == "extractMembersName" {
					ops = append(ops, "call "+src(v))
				}
			case *ast.IfStmt:
				ops = append(ops, "if "+src(v.Cond))
			}
			return true
		})
		cbs = append(cbs, []string{n, joinOps(ops)})
	}
	l.tupleList("callbacks", 2, cbs)
	l.writeWithImports(out, "SigGrammar.lean", []string{"QiVerif.Model.Peg"})
}

func joinOps(ops []string) string {
	s := ""
	for i, o := range ops {
		if i > 0 {
			s += "; "
		}
		s += o
	}
	return s
}
