package main

import (
	"go/ast"
	"strings"
)

func init() { extractors["Message"] = extractMessage }

var basicEnc = map[string]string{
	"WriteUint32": "le32", "WriteUint16": "le16", "WriteUint8": "u8",
	"ReadUint32": "le32", "ReadUint16": "le16", "ReadUint8": "u8",
	"WriteInt32": "le32", "ReadInt32": "le32",
}

// selName returns "X.Sel" parts of a selector expression.
func selParts(e ast.Expr) (string, string) {
	if s, ok := e.(*ast.SelectorExpr); ok {
		return src(s.X), s.Sel.Name
	}
	return "", ""
}

func extractMessage(out string) {
	const file = "bus/net/message.go"
	f := load(file)
	l := &leanFile{ns: "Message"}

	// how writeMagic / readMagic put the magic on the wire
	magicEnc := func(fn string) string {
		fd := mustFunc(f, file, "*Header", fn)
		s := src(fd.Body)
		switch {
		case strings.Contains(s, "binary.BigEndian") && !strings.Contains(s, "LittleEndian") && strings.Contains(s, ", 4)"):
			return "be32"
		case strings.Contains(s, "binary.LittleEndian") && !strings.Contains(s, "BigEndian") && strings.Contains(s, ", 4)"):
			return "le32"
		}
		return "unknown:" + s
	}

	// Header.Write: ordered (field, encoding)
	var wl [][]string
	ast.Inspect(mustFunc(f, file, "*Header", "Write").Body, func(n ast.Node) bool {
		c, ok := n.(*ast.CallExpr)
		if !ok {
			return true
		}
		x, sel := selParts(c.Fun)
		switch {
		case x == "h" && sel == "writeMagic":
			wl = append(wl, []string{"Magic", magicEnc("writeMagic")})
		case x == "basic" && strings.HasPrefix(sel, "Write") && len(c.Args) == 2:
			hx, field := selParts(c.Args[0])
			enc, ok := basicEnc[sel]
			if !ok {
				enc = "unknown:" + sel
			}
			if hx != "h" {
				field = src(c.Args[0])
			}
			wl = append(wl, []string{field, enc})
		}
		return true
	})
	l.tupleList("writeLayout", 2, wl)

	// Header.Read: ordered (field, encoding, check applied right after the read)
	var rl [][]string
	var walkIf func(s *ast.IfStmt)
	walkIf = func(s *ast.IfStmt) {
		as, ok := s.Init.(*ast.AssignStmt)
		if !ok || len(as.Rhs) != 1 {
			return
		}
		c, ok := as.Rhs[0].(*ast.CallExpr)
		if !ok {
			return
		}
		x, sel := selParts(c.Fun)
		field, enc := "", ""
		switch {
		case x == "h" && sel == "readMagic":
			field, enc = "Magic", magicEnc("readMagic")
		case x == "basic" && strings.HasPrefix(sel, "Read"):
			_, field = selParts(as.Lhs[0])
			var ok bool
			if enc, ok = basicEnc[sel]; !ok {
				enc = "unknown:" + sel
			}
		default:
			return
		}
		check := ""
		if e, ok := s.Else.(*ast.IfStmt); ok {
			check = src(e.Cond)
		}
		rl = append(rl, []string{field, enc, check})
	}
	for _, st := range mustFunc(f, file, "*Header", "Read").Body.List {
		if s, ok := st.(*ast.IfStmt); ok {
			walkIf(s)
		}
	}
	l.tupleList("readLayout", 3, rl)

	// Message.Write: the calls that touch the external writer w, and the size guard
	var ww []string
	wfd := mustFunc(f, file, "*Message", "Write")
	ast.Inspect(wfd.Body, func(n ast.Node) bool {
		switch v := n.(type) {
		case *ast.CallExpr:
			for _, a := range v.Args {
				if id, ok := a.(*ast.Ident); ok && id.Name == "w" {
					ww = append(ww, src(v))
				}
			}
		}
		return true
	})
	l.strList("writeExternal", ww)
	if len(wfd.Body.List) > 0 {
		if is, ok := wfd.Body.List[0].(*ast.IfStmt); ok {
			l.strList("writeGuard", []string{src(is.Cond)})
		} else {
			l.strList("writeGuard", nil)
		}
	}

	// Message.Read: calls that touch the external reader r and conditions on the size, in order
	var rr []string
	ast.Inspect(mustFunc(f, file, "*Message", "Read").Body, func(n ast.Node) bool {
		switch v := n.(type) {
		case *ast.CallExpr:
			for _, a := range v.Args {
				if id, ok := a.(*ast.Ident); ok && id.Name == "r" {
					rr = append(rr, "call "+src(v))
				}
			}
			if x, sel := selParts(v.Fun); x == "m.Header" && sel == "Read" {
				rr = append(rr, "call "+src(v))
			}
		case *ast.IfStmt:
			if strings.Contains(src(v.Cond), "Size") {
				rr = append(rr, "if "+src(v.Cond))
			}
		}
		return true
	})
	l.strList("readSteps", rr)
	l.write(out, "Message.lean")
}
