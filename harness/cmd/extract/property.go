package main

import (
	"go/ast"
	"strings"
)

func init() { extractors["Property"] = extractProperty }

// bus/object.go: SetProperty, Property, saveProperty, stubObject.UpdateProperty; the generator's
// onPropertyChange (decode with the declared type, then the implementor's callback).
func extractProperty(out string) {
	l := &leanFile{ns: "Property"}
	f := load("bus/object.go")
	calls := []string{"onPropertyChange", "saveProperty", "PropertyID", "UpdateProperty", "Write", "ReadString", "Opaque", "Lock", "Unlock", "RLock", "RUnlock"}
	l.strList("setPropertyFlow", flowTokens(mustFunc(f, "bus/object.go", "*objectImpl", "SetProperty"), "o", []string{"properties", "meta"}, calls))
	l.strList("propertyFlow", flowTokens(mustFunc(f, "bus/object.go", "*objectImpl", "Property"), "o", []string{"properties"}, calls))
	l.strList("savePropertyFlow", flowTokens(mustFunc(f, "bus/object.go", "*objectImpl", "saveProperty"), "o", []string{"properties"}, calls))
	l.strList("updatePropertyFlow", flowTokens(mustFunc(f, "bus/object.go", "*stubObject", "UpdateProperty"), "s", []string{"signal", "impl"}, calls))
	// the generated callback of the Bomb stub: decode with the declared type, then the validator
	fs := load("examples/space/space_stub_gen.go")
	var body []string
	ast.Inspect(mustFunc(fs, "examples/space/space_stub_gen.go", "*stubBomb", "onPropertyChange").Body, func(n ast.Node) bool {
		if cc, ok := n.(*ast.CaseClause); ok {
			head := "default"
			if cc.List != nil {
				head = "case " + src(cc.List[0])
			}
			var stmts []string
			for _, st := range cc.Body {
				stmts = append(stmts, src(st))
			}
			body = append(body, head+": "+strings.Join(stmts, " ; "))
		}
		return true
	})
	l.strList("bombOnPropertyChange", body)
	l.write(out, "Property.lean")
}
