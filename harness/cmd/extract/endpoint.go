package main

func init() { extractors["Endpoint"] = extractEndpoint }

// bus/net/endpoint.go: the critical sections of the handler table.
func extractEndpoint(out string) {
	const file = "bus/net/endpoint.go"
	f := load(file)
	l := &leanFile{ns: "Endpoint"}
	fields := []string{"handlers", "stream", "closed"}
	calls := []string{"closeWith", "closer", "close", "filter", "Send", "Close", "NewHandler", "Read", "dispatch", "append"}
	for _, fn := range []string{"MakeHandler", "AddHandler", "RemoveHandler", "dispatch", "closeWith", "process", "Send", "Close"} {
		l.strList(lowerFirst(fn)+"Flow", flowTokens(mustFunc(f, file, "*endPoint", fn), "e", fields, calls))
	}
	l.strList("handlerCloseFlow", flowTokens(mustFunc(f, file, "*Handler", "closeWith"), "h", []string{"closer", "consumer"}, calls))
	l.write(out, "Endpoint.lean")
}
