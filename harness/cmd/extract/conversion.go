package main

import (
	"go/ast"
	"strings"
)

func init() { extractors["Conversion"] = extractConversion }

// The kind switch of convertFrom (case labels, guard, action) and the
// convertFrom / Set* calls of convertSlice, convertMap and convertStruct.
func extractConversion(out string) {
	const file = "type/conversion/conversion.go"
	f := load(file)
	l := &leanFile{ns: "Conversion"}

	var cases [][]string
	fd := mustFunc(f, file, "", "convertFrom")
	for _, st := range fd.Body.List {
		sw, ok := st.(*ast.SwitchStmt)
		if !ok || src(sw.Tag) != "v.Kind()" {
			continue
		}
		for _, c := range sw.Body.List {
			cc := c.(*ast.CaseClause)
			var labels []string
			for _, e := range cc.List {
				labels = append(labels, strings.TrimPrefix(src(e), "reflect."))
			}
			guard, action := "", ""
			for _, b := range cc.Body {
				switch v := b.(type) {
				case *ast.IfStmt:
					guard = src(v.Cond)
					if v.Init != nil {
						guard = src(v.Init) + "; " + guard
					}
					var acts []string
					for _, s := range v.Body.List {
						acts = append(acts, src(s))
					}
					action = strings.Join(acts, "; ")
				case *ast.ReturnStmt:
					action = src(v)
				case *ast.SwitchStmt:
					var inner []string
					for _, ic := range v.Body.List {
						icc := ic.(*ast.CaseClause)
						lab := "default"
						if len(icc.List) > 0 {
							lab = strings.TrimPrefix(src(icc.List[0]), "reflect.")
						}
						for _, s := range icc.Body {
							inner = append(inner, lab+": "+src(s))
						}
					}
					action = "switch " + src(v.Tag) + " {" + strings.Join(inner, "; ") + "}"
				case *ast.AssignStmt:
					guard = src(v)
				}
			}
			cases = append(cases, []string{strings.Join(labels, ","), guard, action})
		}
	}
	l.tupleList("convertFromCases", 3, cases)

	calls := func(name string) []string {
		var cs []string
		ast.Inspect(mustFunc(f, file, "", name).Body, func(n ast.Node) bool {
			if c, ok := n.(*ast.CallExpr); ok {
				s := src(c.Fun)
				if s == "convertFrom" || strings.HasSuffix(s, ".SetMapIndex") || strings.HasSuffix(s, ".SetLen") ||
					s == "strings.ToLower" {
					cs = append(cs, src(c))
				}
			}
			return true
		})
		return cs
	}
	l.strList("convertSliceCalls", calls("convertSlice"))
	l.strList("convertMapCalls", calls("convertMap"))
	l.strList("convertStructCalls", calls("convertStruct"))

	var as []string
	ast.Inspect(mustFunc(f, file, "", "AsInt64").Body, func(n ast.Node) bool {
		if cc, ok := n.(*ast.CaseClause); ok {
			var labels []string
			for _, e := range cc.List {
				labels = append(labels, strings.TrimPrefix(src(e), "reflect."))
			}
			ret := ""
			for _, b := range cc.Body {
				ret += src(b)
			}
			as = append(as, strings.Join(labels, ",")+" => "+ret)
		}
		return true
	})
	l.strList("asInt64", as)
	l.write(out, "Conversion.lean")
}
