package main

import (
	"go/ast"
	"strings"
)

func init() { extractors["Calls"] = extractCalls }

// the path of a call: bus/client.go (id, handler, send), bus/net/endpoint.go (dispatch to every
// matching handler), bus/server.go (type filter), generated stubs (dispatch on the action id,
// reply suppressed for post), bus/channel.go (responses copy the request header).
func extractCalls(out string) {
	l := &leanFile{ns: "Calls"}
	fc := load("bus/client.go")
	l.strList("nextMessageID", []string{src(mustFunc(fc, "bus/client.go", "*client", "nextMessageID").Body)})
	l.strList("newMessage", flowTokens(mustFunc(fc, "bus/client.go", "*client", "newMessage"), "c", nil, []string{"NewHeader", "nextMessageID", "NewMessage"}))
	// the package-level counter
	var globals []string
	for _, d := range fc.Decls {
		if gd, ok := d.(*ast.GenDecl); ok {
			for _, sp := range gd.Specs {
				if vs, ok := sp.(*ast.ValueSpec); ok {
					for i, n := range vs.Names {
						if n.Name == "messageID" && i < len(vs.Values) {
							globals = append(globals, "var messageID "+src(vs.Type)+" = "+src(vs.Values[i]))
						}
					}
				}
			}
		}
	}
	l.strList("messageIDVar", globals)
	// the stand-in of an object hosted by a client: calls get a goroutine, posts and cancels are sent on as they are
	fob := load("bus/object.go")
	l.strList("clientObjectReceiveFlow", flowTokens(mustFunc(fob, "bus/object.go", "*clientObject", "Receive"), "c", nil,
		[]string{"handleRegister", "handleCall", "Send", "SendError", "SendReply"}))
	l.strList("clientObjectHandleCallFlow", flowTokens(mustFunc(fob, "bus/object.go", "*clientObject", "handleCall"), "c", nil,
		[]string{"Call", "Send", "SendError", "SendReply"}))
	// the generic object dispatcher and one generated stub
	fo := load("bus/object_stub_gen.go")
	recv := mustFunc(fo, "bus/object_stub_gen.go", "*stubObject", "Receive")
	var head []string
	for i, st := range recv.Body.List {
		if i >= 2 {
			break
		}
		head = append(head, src(st))
	}
	l.strList("objectReceiveHead", head)
	var sw []string
	ast.Inspect(recv.Body, func(n ast.Node) bool {
		if s, ok := n.(*ast.SwitchStmt); ok {
			sw = append(sw, "switch "+src(s.Tag))
			for _, c := range s.Body.List {
				cc := c.(*ast.CaseClause)
				if cc.List == nil {
					sw = append(sw, "default: "+src(cc.Body[0]))
				}
			}
			return false
		}
		return true
	})
	l.strList("objectReceiveSwitch", sw)
	// every generated Receive in the repository switches on the action id only
	var tags []string
	for _, file := range []string{"bus/object_stub_gen.go", "bus/directory/directory_stub_gen.go", "bus/logger/logger_stub_gen.go", "examples/pong/ping_stub_gen.go"} {
		f := load(file)
		for _, d := range f.Decls {
			fd, ok := d.(*ast.FuncDecl)
			if !ok || fd.Name.Name != "Receive" || fd.Recv == nil {
				continue
			}
			ast.Inspect(fd.Body, func(n ast.Node) bool {
				if s, ok := n.(*ast.SwitchStmt); ok {
					tags = append(tags, strings.TrimPrefix(src(fd.Recv.List[0].Type), "*")+": "+src(s.Tag))
					return false
				}
				return true
			})
		}
	}
	l.strList("receiveSwitchTags", tags)
	// the generator: reply suppressed for post, after the method ran
	fs := load("meta/stub/stub.go")
	var lits []string
	ast.Inspect(fs, func(n ast.Node) bool {
		if bl, ok := n.(*ast.BasicLit); ok && strings.Contains(bl.Value, "net.Post") {
			lits = append(lits, strings.Join(strings.Fields(strings.Trim(bl.Value, "`")), " "))
		}
		return true
	})
	l.strList("generatorPostRule", lits)
	// responses copy the request's header
	fch := load("bus/channel.go")
	l.strList("sendReply", []string{src(mustFunc(fch, "bus/channel.go", "*channel", "SendReply").Body)})
	l.strList("sendError", []string{src(mustFunc(fch, "bus/channel.go", "*channel", "SendError").Body)})
	l.write(out, "Calls.lean")
}
