module qiverif/harness

go 1.13

require github.com/lugu/qiloop v0.0.0

replace github.com/lugu/qiloop => /repo
