// Package c05drv is the run-time half of the C05 harness.  A generated IDL
// package is compiled together with a generated implementor (which records what
// it receives and returns what it is told to) and a three-line main that calls
// Run.  Run serves every interface on a real server, reaches it through a real
// session, and executes the operations it reads from stdin through the
// generated proxies, helpers and stubs.  Values cross the process boundary as
// bytes in the documented layout; the codec below is written from the
// documentation and shares no code with the repository's encoders.
package c05drv

import (
	"strconv"
	"bufio"
	"bytes"
	"encoding/binary"
	"encoding/hex"
	"fmt"
	"math"
	"os"
	"reflect"
	"sort"
	"strings"
	"sync"
	"time"

	"github.com/lugu/qiloop/bus"
	dir "github.com/lugu/qiloop/bus/directory"
	"github.com/lugu/qiloop/bus/session"
	"github.com/lugu/qiloop/bus/util"
	"github.com/lugu/qiloop/type/value"
)

// Entry describes one generated interface.
type Entry struct {
	Name   string
	Object func(rec *Rec) bus.Actor
	Make   func(s bus.Session, p bus.Proxy) interface{}
}

// Rec is shared by the generated implementors and the driver.
type Rec struct {
	mu      sync.Mutex
	got     map[string][]interface{}
	planned map[string]interface{}
	helpers map[string]interface{}
	refuse  map[string]bool
}

func newRec() *Rec {
	return &Rec{got: map[string][]interface{}{}, planned: map[string]interface{}{}, helpers: map[string]interface{}{},
		refuse: map[string]bool{}}
}

// Got records the arguments an implementor method received.
func (r *Rec) Got(key string, args ...interface{}) {
	r.mu.Lock()
	r.got[key] = args
	r.mu.Unlock()
}

// Ret is the value the implementor method returns.
func (r *Rec) Ret(key string) interface{} {
	r.mu.Lock()
	defer r.mu.Unlock()
	return r.planned[key]
}

// Err is the error the implementor method returns.
func (r *Rec) Err(key string) error {
	r.mu.Lock()
	defer r.mu.Unlock()
	if r.refuse[key] {
		return fmt.Errorf("refused")
	}
	return nil
}

// SetHelper keeps the signal helper given to Activate.
func (r *Rec) SetHelper(name string, h interface{}) {
	r.mu.Lock()
	r.helpers[name] = h
	r.mu.Unlock()
}

func (r *Rec) take(key string) ([]interface{}, bool) {
	r.mu.Lock()
	defer r.mu.Unlock()
	a, ok := r.got[key]
	delete(r.got, key)
	return a, ok
}

// ---- signatures ----

type node struct {
	kind  byte
	elems []*node
}

const objRefSig = "(({I(Issss[(ss)]s)}{I(Iss)}{I(Iss)}s)II)"

func parseSig(s string) (*node, string) {
	if s == "" {
		panic("empty signature")
	}
	c := s[0]
	switch c {
	case '[':
		e, r := parseSig(s[1:])
		return &node{kind: '[', elems: []*node{e}}, r[1:]
	case '{':
		k, r := parseSig(s[1:])
		v, r2 := parseSig(r)
		return &node{kind: '{', elems: []*node{k, v}}, r2[1:]
	case '(':
		n := &node{kind: '('}
		r := s[1:]
		for r[0] != ')' {
			var e *node
			e, r = parseSig(r)
			n.elems = append(n.elems, e)
		}
		r = r[1:]
		if len(r) > 0 && r[0] == '<' { // annotation: skip to the matching '>'
			depth := 0
			for i := 0; i < len(r); i++ {
				if r[i] == '<' {
					depth++
				} else if r[i] == '>' {
					depth--
					if depth == 0 {
						r = r[i+1:]
						break
					}
				}
			}
		}
		return n, r
	case 'o':
		n, _ := parseSig(objRefSig)
		return n, s[1:]
	}
	return &node{kind: c}, s[1:]
}

func mustSig(s string) *node {
	n, rest := parseSig(s)
	if rest != "" {
		panic("trailing signature: " + rest)
	}
	return n
}

func width(c byte) int {
	switch c {
	case 'c', 'C', 'b':
		return 1
	case 'w', 'W':
		return 2
	case 'i', 'I', 'f':
		return 4
	case 'l', 'L', 'd':
		return 8
	}
	return -1
}

// extent is the number of bytes one value of the type occupies at the head of b.
func extent(n *node, b []byte) int {
	switch n.kind {
	case '[', '{':
		cnt := int(binary.LittleEndian.Uint32(b))
		off := 4
		for i := 0; i < cnt; i++ {
			for _, e := range n.elems {
				off += extent(e, b[off:])
			}
		}
		return off
	case '(':
		off := 0
		for _, e := range n.elems {
			off += extent(e, b[off:])
		}
		return off
	case 's':
		return 4 + int(binary.LittleEndian.Uint32(b))
	case 'm':
		l := int(binary.LittleEndian.Uint32(b))
		inner := mustSig(string(b[4 : 4+l]))
		return 4 + l + extent(inner, b[4+l:])
	case 'v':
		return 0
	}
	return width(n.kind)
}

var valueIface = reflect.TypeOf((*value.Value)(nil)).Elem()

// decodeInto fills dst (settable) from the documented layout; returns the rest.
func decodeInto(dst reflect.Value, n *node, b []byte) []byte {
	switch n.kind {
	case '[':
		cnt := int(binary.LittleEndian.Uint32(b))
		b = b[4:]
		s := reflect.MakeSlice(dst.Type(), cnt, cnt)
		for i := 0; i < cnt; i++ {
			b = decodeInto(s.Index(i), n.elems[0], b)
		}
		dst.Set(s)
		return b
	case '{':
		cnt := int(binary.LittleEndian.Uint32(b))
		b = b[4:]
		m := reflect.MakeMapWithSize(dst.Type(), cnt)
		for i := 0; i < cnt; i++ {
			k := reflect.New(dst.Type().Key()).Elem()
			v := reflect.New(dst.Type().Elem()).Elem()
			b = decodeInto(k, n.elems[0], b)
			b = decodeInto(v, n.elems[1], b)
			m.SetMapIndex(k, v)
		}
		dst.Set(m)
		return b
	case '(':
		if dst.Kind() != reflect.Struct || dst.NumField() != len(n.elems) {
			panic(fmt.Sprintf("tuple of %d into %s", len(n.elems), dst.Type()))
		}
		for i, e := range n.elems {
			b = decodeInto(dst.Field(i), e, b)
		}
		return b
	case 's':
		l := int(binary.LittleEndian.Uint32(b))
		dst.SetString(string(b[4 : 4+l]))
		return b[4+l:]
	case 'm':
		l := int(binary.LittleEndian.Uint32(b))
		sig := string(b[4 : 4+l])
		ext := extent(mustSig(sig), b[4+l:])
		data := append([]byte{}, b[4+l:4+l+ext]...)
		dst.Set(reflect.ValueOf(value.Opaque(sig, data)))
		return b[4+l+ext:]
	case 'v':
		return b
	}
	w := width(n.kind)
	var u uint64
	for i := w - 1; i >= 0; i-- {
		u = u<<8 | uint64(b[i])
	}
	switch dst.Kind() {
	case reflect.Bool:
		dst.SetBool(u != 0)
	case reflect.Int8, reflect.Int16, reflect.Int32, reflect.Int64, reflect.Int:
		sh := uint(64 - 8*w)
		dst.SetInt(int64(u<<sh) >> sh)
	case reflect.Uint8, reflect.Uint16, reflect.Uint32, reflect.Uint64, reflect.Uint:
		dst.SetUint(u)
	case reflect.Float32:
		dst.SetFloat(float64(math.Float32frombits(uint32(u))))
	case reflect.Float64:
		dst.SetFloat(math.Float64frombits(u))
	default:
		panic(fmt.Sprintf("scalar %c into %s", n.kind, dst.Type()))
	}
	return b[w:]
}

func le(w int, u uint64) []byte {
	out := make([]byte, w)
	for i := 0; i < w; i++ {
		out[i] = byte(u >> (8 * uint(i)))
	}
	return out
}

// encodeFrom writes v in the documented layout (map entries in the order of their encoded keys).
func encodeFrom(v reflect.Value, n *node) []byte {
	switch n.kind {
	case '[':
		out := le(4, uint64(v.Len()))
		for i := 0; i < v.Len(); i++ {
			out = append(out, encodeFrom(v.Index(i), n.elems[0])...)
		}
		return out
	case '{':
		type kv struct{ k, v []byte }
		var es []kv
		for _, k := range v.MapKeys() {
			es = append(es, kv{encodeFrom(k, n.elems[0]), encodeFrom(v.MapIndex(k), n.elems[1])})
		}
		sort.Slice(es, func(i, j int) bool { return bytes.Compare(es[i].k, es[j].k) < 0 })
		out := le(4, uint64(len(es)))
		for _, e := range es {
			out = append(out, e.k...)
			out = append(out, e.v...)
		}
		return out
	case '(':
		if v.Kind() != reflect.Struct || v.NumField() != len(n.elems) {
			panic(fmt.Sprintf("tuple of %d from %s", len(n.elems), v.Type()))
		}
		var out []byte
		for i, e := range n.elems {
			out = append(out, encodeFrom(v.Field(i), e)...)
		}
		return out
	case 's':
		s := v.String()
		return append(le(4, uint64(len(s))), s...)
	case 'm':
		if !v.IsValid() || ((v.Kind() == reflect.Interface || v.Kind() == reflect.Ptr) && v.IsNil()) {
			return []byte("<nil value>")
		}
		var buf bytes.Buffer
		v.Interface().(value.Value).Write(&buf)
		return buf.Bytes()
	case 'v':
		return nil
	}
	w := width(n.kind)
	switch v.Kind() {
	case reflect.Bool:
		if v.Bool() {
			return []byte{1}
		}
		return []byte{0}
	case reflect.Int8, reflect.Int16, reflect.Int32, reflect.Int64, reflect.Int:
		return le(w, uint64(v.Int()))
	case reflect.Uint8, reflect.Uint16, reflect.Uint32, reflect.Uint64, reflect.Uint:
		return le(w, v.Uint())
	case reflect.Float32:
		return le(4, uint64(math.Float32bits(float32(v.Float()))))
	case reflect.Float64:
		return le(8, math.Float64bits(v.Float()))
	}
	panic(fmt.Sprintf("scalar %c from %s", n.kind, v.Type()))
}

// ---- the driver ----

type site struct {
	entry Entry
	proxy reflect.Value
	subs  map[string]reflect.Value // subscribe method -> channel
	held  reflect.Value            // a second proxy of the interface, over a client that lets another caller in
	hold  *holdClient
	mk    func() (reflect.Value, error)
}

// holdClient is a bus.Client that runs `between` — once — after a call has been handed to it (its arguments are
// encoded) and before it hands the call on.
type holdClient struct {
	bus.Client
	between func()
}

func (h *holdClient) Call(cancel <-chan struct{}, serviceID, objectID, methodID uint32, payload []byte) ([]byte, error) {
	if f := h.between; f != nil {
		h.between = nil
		f()
	}
	return h.Client.Call(cancel, serviceID, objectID, methodID, payload)
}

func unhex(s string) []byte {
	if s == "-" {
		return nil
	}
	b, err := hex.DecodeString(s)
	if err != nil {
		panic(err)
	}
	return b
}

func hx(b []byte) string {
	if len(b) == 0 {
		return "-"
	}
	return hex.EncodeToString(b)
}

func errClass(err error) string {
	s := err.Error()
	s = strings.Replace(s, "\n", " ", -1)
	if len(s) > 160 {
		s = s[:160]
	}
	return "err " + s
}

// Run serves the interfaces and executes the operations read from stdin.
func Run(entries []Entry) {
	rec := newRec()
	addr := util.NewUnixAddr()
	srv, err := dir.NewServer(addr, nil)
	if err != nil {
		fmt.Println("FATAL server:", err)
		os.Exit(3)
	}
	for _, e := range entries {
		if _, err := srv.NewService(e.Name, e.Object(rec)); err != nil {
			fmt.Println("FATAL service", e.Name, err)
			os.Exit(3)
		}
	}
	sess, err := session.NewSession(addr)
	if err != nil {
		fmt.Println("FATAL session:", err)
		os.Exit(3)
	}
	sites := map[string]*site{}
	for _, e := range entries {
		p, err := sess.Proxy(e.Name, 1)
		if err != nil {
			fmt.Println("FATAL proxy", e.Name, err)
			os.Exit(3)
		}
		st := &site{entry: e, proxy: reflect.ValueOf(e.Make(sess, p)), subs: map[string]reflect.Value{}, hold: &holdClient{}}
		e, p := e, p
		st.mk = func() (reflect.Value, error) {
			_, ch, err := bus.SelectEndPoint([]string{addr}, "", "")
			if err != nil {
				return reflect.Value{}, err
			}
			st.hold.Client = bus.NewClient(ch)
			hp := bus.NewProxy(st.hold, *p.MetaObject(), p.ServiceID(), p.ObjectID())
			return reflect.ValueOf(e.Make(sess, hp)), nil
		}
		sites[e.Name] = st
	}
	fmt.Println("READY")
	out := bufio.NewWriter(os.Stdout)
	in := bufio.NewScanner(os.Stdin)
	in.Buffer(make([]byte, 1<<20), 1<<26)
	for in.Scan() {
		f := strings.Fields(in.Text())
		if len(f) == 0 {
			continue
		}
		res := func() (res string) {
			defer func() {
				if e := recover(); e != nil {
					res = fmt.Sprintf("panic %v", e)
				}
			}()
			return exec(rec, sites, f)
		}()
		fmt.Fprintln(out, res)
		out.Flush()
	}
	sess.Terminate()
	srv.Terminate()
}

// pairs decodes "sig hex sig hex …" into values of the given types.
func buildArgs(m reflect.Type, first int, f []string) ([]reflect.Value, []*node) {
	var args []reflect.Value
	var sigs []*node
	for i := 0; i+1 < len(f); i += 2 {
		n := mustSig(f[i])
		v := reflect.New(m.In(first + i/2)).Elem()
		rest := decodeInto(v, n, unhex(f[i+1]))
		if len(rest) != 0 {
			panic("argument bytes left over")
		}
		args = append(args, v)
		sigs = append(sigs, n)
	}
	return args, sigs
}

func renderGot(got []interface{}, sigs []*node) string {
	if len(got) != len(sigs) {
		return fmt.Sprintf("arity-%d", len(got))
	}
	p := make([]string, len(got))
	for i := range got {
		p[i] = hx(encodeFrom(reflect.ValueOf(got[i]), sigs[i]))
	}
	if len(p) == 0 {
		return "none"
	}
	return strings.Join(p, ",")
}

func lastErr(outs []reflect.Value) error {
	e := outs[len(outs)-1]
	if e.IsNil() {
		return nil
	}
	return e.Interface().(error)
}

func exec(rec *Rec, sites map[string]*site, f []string) string {
	st, ok := sites[f[1]]
	if !ok {
		return "bad-interface"
	}
	switch f[0] {
	case "call", "callheld":
		// call <itf> <goMethod> <implKey> <retsig|-> <rethex> (<sig> <hex>)*
		m := st.proxy.MethodByName(f[2])
		if !m.IsValid() {
			return "no-method"
		}
		if f[0] == "callheld" {
			// the same method of a second proxy of the interface, whose client lets another caller in: between the
			// encoding of the arguments and the message, a whole call of the method with zero values through the
			// ordinary proxy (the interleaving "A has encoded, B calls, A sends")
			if !st.held.IsValid() {
				if st.mk == nil {
					return "no-held-proxy"
				}
				hp, err := st.mk()
				if err != nil {
					return "no-held-proxy " + errClass(err)
				}
				st.held = hp
			}
			other := m
			m = st.held.MethodByName(f[2])
			zero := make([]reflect.Value, other.Type().NumIn())
			for i := range zero {
				zero[i] = reflect.Zero(other.Type().In(i))
			}
			st.hold.between = func() { other.Call(zero) }
		}
		key := f[3]
		var retN *node
		if f[4] != "-" {
			retN = mustSig(f[4])
			rv := reflect.New(m.Type().Out(0)).Elem()
			decodeInto(rv, retN, unhex(f[5]))
			rec.mu.Lock()
			rec.planned[key] = rv.Interface()
			rec.mu.Unlock()
		}
		args, sigs := buildArgs(m.Type(), 0, f[6:])
		outs := m.Call(args)
		if err := lastErr(outs); err != nil {
			return errClass(err)
		}
		got, ok := rec.take(key)
		if !ok {
			return "not-reached"
		}
		res := "got " + renderGot(got, sigs)
		if retN != nil {
			res += " ret " + hx(encodeFrom(outs[0], retN))
		}
		return res
	case "signal":
		// signal <itf> <helperGo> <subscribeGo> <eventsig> (<sig> <hex>)*
		ch, ok := st.subs[f[3]]
		if !ok {
			sm := st.proxy.MethodByName(f[3])
			if !sm.IsValid() {
				return "no-subscribe"
			}
			outs := sm.Call(nil)
			if err := lastErr(outs); err != nil {
				return errClass(err)
			}
			ch = outs[1]
			st.subs[f[3]] = ch
		}
		rec.mu.Lock()
		h := rec.helpers[f[1]]
		rec.mu.Unlock()
		if h == nil {
			return "no-helper"
		}
		hm := reflect.ValueOf(h).MethodByName(f[2])
		if !hm.IsValid() {
			return "no-helper-method"
		}
		args, _ := buildArgs(hm.Type(), 0, f[5:])
		outs := hm.Call(args)
		if err := lastErr(outs); err != nil {
			return errClass(err)
		}
		evN := mustSig(f[4])
		chosen, v, ok := reflect.Select([]reflect.SelectCase{
			{Dir: reflect.SelectRecv, Chan: ch},
			{Dir: reflect.SelectRecv, Chan: reflect.ValueOf(time.After(3 * time.Second))},
		})
		if chosen == 1 {
			return "no-event"
		}
		if !ok {
			return "closed"
		}
		return "event " + hx(encodeFrom(v, evN))
	case "signalburst":
		// signalburst <itf> <helperGo> <subscribeGo> <eventsig> <n> (<sig> <hex>)*: n emissions while the subscriber
		// does not read, then it reads: how many arrive, and are they the emitted value
		ch, ok := st.subs[f[3]]
		if !ok {
			sm := st.proxy.MethodByName(f[3])
			if !sm.IsValid() {
				return "no-subscribe"
			}
			outs := sm.Call(nil)
			if err := lastErr(outs); err != nil {
				return errClass(err)
			}
			ch = outs[1]
			st.subs[f[3]] = ch
		}
		rec.mu.Lock()
		h := rec.helpers[f[1]]
		rec.mu.Unlock()
		if h == nil {
			return "no-helper"
		}
		hm := reflect.ValueOf(h).MethodByName(f[2])
		if !hm.IsValid() {
			return "no-helper-method"
		}
		n, _ := strconv.Atoi(f[5])
		args, _ := buildArgs(hm.Type(), 0, f[6:])
		for i := 0; i < n; i++ {
			if err := lastErr(hm.Call(args)); err != nil {
				return errClass(err)
			}
		}
		time.Sleep(300 * time.Millisecond)
		evN := mustSig(f[4])
		got, first, same := 0, "", true
		deadline := time.After(3 * time.Second)
		for got < n {
			chosen, v, ok := reflect.Select([]reflect.SelectCase{
				{Dir: reflect.SelectRecv, Chan: ch},
				{Dir: reflect.SelectRecv, Chan: reflect.ValueOf(deadline)},
			})
			if chosen == 1 || !ok {
				break
			}
			e := hx(encodeFrom(v, evN))
			if got == 0 {
				first = e
			} else if e != first {
				same = false
			}
			got++
		}
		if !same {
			return fmt.Sprintf("events %d differing", got)
		}
		return fmt.Sprintf("events %d %s", got, first)
	case "prop":
		// prop <itf> <setGo> <getGo> <onChangeGo> <valuesig> <hex> <paramsig>*
		sm := st.proxy.MethodByName(f[2])
		gm := st.proxy.MethodByName(f[3])
		if !sm.IsValid() || !gm.IsValid() {
			return "no-accessor"
		}
		n := mustSig(f[5])
		args, _ := buildArgs(sm.Type(), 0, f[5:7])
		outs := sm.Call(args)
		if err := lastErr(outs); err != nil {
			return errClass(err)
		}
		res := ""
		if got, ok := rec.take(f[1] + "." + f[4]); ok {
			var ps []*node
			for _, x := range f[7:] {
				ps = append(ps, mustSig(x))
			}
			res = "onchange " + renderGot(got, ps)
		} else {
			res = "onchange not-reached"
		}
		outs = gm.Call(nil)
		if err := lastErr(outs); err != nil {
			return res + " get " + errClass(err)
		}
		return res + " get " + hx(encodeFrom(outs[0], n))
	case "update":
		// update <itf> <updateGo> <getGo> <valuesig> (<sig> <hex>)*
		rec.mu.Lock()
		h := rec.helpers[f[1]]
		rec.mu.Unlock()
		if h == nil {
			return "no-helper"
		}
		um := reflect.ValueOf(h).MethodByName(f[2])
		gm := st.proxy.MethodByName(f[3])
		if !um.IsValid() || !gm.IsValid() {
			return "no-accessor"
		}
		n := mustSig(f[4])
		args, _ := buildArgs(um.Type(), 0, f[5:])
		outs := um.Call(args)
		if err := lastErr(outs); err != nil {
			return errClass(err)
		}
		outs = gm.Call(nil)
		if err := lastErr(outs); err != nil {
			return "get " + errClass(err)
		}
		return "get " + hx(encodeFrom(outs[0], n))
	}
	return "bad-op"
}
