#!/bin/sh
# Runs every claimed check (quick tier unless $1=thorough) on /repo as it is and validates the evidence files.
cd "$(dirname "$0")"
tier=${1:-quick}
rc=0
for id in $(python3 -c "import json;print(' '.join(c['property_id'] for c in json.load(open('MANIFEST.json'))['checks']))"); do
  ./check $id --tier $tier || rc=1
done
python3-vt - <<'PY'
import json, jsonschema, glob
sch = json.load(open('/root/.vp/EVIDENCE.schema.json'))
m = json.load(open('MANIFEST.json'))
jsonschema.validate(m, json.load(open('/root/.vp/MANIFEST.schema.json')))
for c in m['checks']:
    e = json.load(open(c['evidence_file']))
    jsonschema.validate(e, sch)
    cov = e['coverage']
    assert cov['obligations'] == cov['discharged'], (c['property_id'], cov['obligations'], cov['discharged'])
    assert e.get('violations', 0) == 0, c['property_id']
print('evidence valid for', len(m['checks']), 'checks')
PY
exit $rc
