#!/bin/sh
# Builds the framework from files on disk only (offline).
set -e
cd "$(dirname "$0")"
export GOFLAGS=-mod=mod GOPROXY=off GOSUMDB=off GOTOOLCHAIN=local
mkdir -p .work/bin evidence replays
(cd lean && lake build 2>&1 | tail -5)
(cd harness && go build -tags verif -o ../.work/bin/qih ./cmd/qih && go build -tags verif -o ../.work/bin/extract ./cmd/extract)
echo setup done
