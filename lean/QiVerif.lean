import QiVerif.Bytes
import QiVerif.Model.Message
import QiVerif.Props.C01
import QiVerif.Driver.Util
import QiVerif.Driver.C01
