import QiVerif.Driver.Util
import QiVerif.Driver.C01
import QiVerif.Driver.C20
import QiVerif.Driver.C19
import QiVerif.Driver.C16
import QiVerif.Driver.C09
import QiVerif.Driver.Codec
import QiVerif.Driver.C07
import QiVerif.Driver.C17
import QiVerif.Driver.C10
import QiVerif.Driver.C11
import QiVerif.Driver.C06
import QiVerif.Driver.C04
import QiVerif.Driver.C13
import QiVerif.Driver.C14
import QiVerif.Driver.C15
import QiVerif.Driver.C12
import QiVerif.Driver.C18
import QiVerif.Driver.C18Pkg
import QiVerif.Driver.C18Gen
import QiVerif.Driver.C05
open QiVerif.Driver

/-- parameters handed over by ./check from the regenerated constants -/
structure Params where
  maxPayload : Nat := 10485760

/-- state of the stateful op streams (each has an explicit reset op) -/
structure DState where
  svc : QiVerif.ServiceAdd.SvcW := {}
  ep : C17.St := {}
  cl : QiVerif.Client.W := {}
  au : C06.St := {}
  sv : C04.St := {}
  sg : C13.St := {}
  pr : C14.St := {}
  sd : C15.St := {}

def dispatch (p : Params) (st : DState) (line : String) : DState × String :=
  let ws := words line
  -- drop the class tag
  let ws := match ws with
    | "P" :: r => r
    | "X" :: r => r
    | r => r
  match ws with
  | [] => (st, "bad-op")
  | op :: _ =>
    if op.startsWith "msg." then (st, C01.run p.maxPayload ws)
    else if op.startsWith "conv" then (st, C20.run ws)
    else if op.startsWith "session." then (st, C19.run ws)
    else if op == "c07" || op == "c07.deep" then (st, C07.run p.maxPayload ws)
    else if op == "c07.idl" then (st, "ok-or-err")
    else if op == "c07.idlx" then (st, "known-weakness")
    else if op.startsWith "sig." then (st, C09.run ws)
    else if op.startsWith "rd." || op.startsWith "val." || op.startsWith "enc." || op.startsWith "dec." then
      (st, Codec.run ws)
    else if op.startsWith "c10." then (st, C10.run ws)
    else if op.startsWith "sv." || op.startsWith "c04." then
      let (s', out) := C04.run st.sv ws
      ({ st with sv := s' }, out)
    else if op.startsWith "c12." then (st, C12.run ws)
    else if op == "idl.pkg" then (st, C18Pkg.run ws)
    else if op == "idl.gen" then (st, C18Gen.run ws)
    else if op.startsWith "idl." then (st, C18.run ws)
    else if op.startsWith "gen." then (st, C05.run ws)
    else if op.startsWith "sd." then
      let (s', out) := C15.run st.sd ws
      ({ st with sd := s' }, out)
    else if op.startsWith "pr." then
      let (s', out) := C14.run st.pr ws
      ({ st with pr := s' }, out)
    else if op.startsWith "sg." then
      let (s', out) := C13.run st.sg ws
      ({ st with sg := s' }, out)
    else if op.startsWith "au." then
      let (s', out) := C06.run st.au ws
      ({ st with au := s' }, out)
    else if op.startsWith "cl." then
      let (s', out) := C11.run st.cl ws
      ({ st with cl := s' }, out)
    else if op.startsWith "ep." then
      let (s', out) := C17.run st.ep ws
      ({ st with ep := s' }, out)
    else if op.startsWith "svc." then
      let (s', out) := C16.run st.svc ws
      ({ st with svc := s' }, out)
    else (st, "bad-op")

partial def loop (p : Params) (st : DState) (h : IO.FS.Stream) (out : IO.FS.Stream) : IO Unit := do
  let line ← h.getLine
  if line.isEmpty then return ()
  let (st', res) := dispatch p st (line.dropEndWhile (· == '\n')).toString
  out.putStrLn res
  loop p st' h out

def main (args : List String) : IO Unit := do
  let p : Params := match args with
    | [m] => { maxPayload := m.toNat! }
    | _ => {}
  loop p {} (← IO.getStdin) (← IO.getStdout)
