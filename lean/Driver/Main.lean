import QiVerif.Driver.Util
import QiVerif.Driver.C01
import QiVerif.Driver.C20
import QiVerif.Driver.C19
open QiVerif.Driver

/-- parameters handed over by ./check from the regenerated constants -/
structure Params where
  maxPayload : Nat := 10485760

def dispatch (p : Params) (line : String) : String :=
  let ws := words line
  -- drop the class tag
  let ws := match ws with
    | "P" :: r => r
    | "X" :: r => r
    | r => r
  match ws with
  | [] => "bad-op"
  | op :: _ =>
    if op.startsWith "msg." then C01.run p.maxPayload ws
    else if op.startsWith "conv" then C20.run ws
    else if op.startsWith "session." then C19.run ws
    else "bad-op"

partial def loop (p : Params) (h : IO.FS.Stream) (out : IO.FS.Stream) : IO Unit := do
  let line ← h.getLine
  if line.isEmpty then return ()
  out.putStrLn (dispatch p (line.dropEndWhile (· == '\n')).toString)
  loop p h out

def main (args : List String) : IO Unit := do
  let p : Params := match args with
    | [m] => { maxPayload := m.toNat! }
    | _ => {}
  loop p (← IO.getStdin) (← IO.getStdout)
