/-
  Run by ./check when Tie/LockOrder.lean no longer builds: what the model says of the table as regenerated — the
  functions the checker refuses, whether the hint is closed, the edges that stand in a cycle with the first step of a
  chain of calls for each (function, then the function it calls or LOCK), and the calls through function values under
  a mutex.  It goes into the replay file; it is a search of the model, not a proof.
-/
import QiVerif.Model.LockOrder
import QiVerif.Generated.LockOrder
open QiVerif.LockOrder QiVerif

def T := Gen.LockOrder.fns
def A := Gen.LockOrder.acq
def nameOf (i : Nat) : String := (T[i]?.map (·.1)).getD "?"
def mutexName (m : Nat) : String :=
  if 900 ≤ m then s!"wait:{m - 900}" else (Gen.LockOrder.mutexes[m]?).getD (toString m)

def hops (h m : Nat) : List (String × String) :=
  ((List.range T.length).flatMap (fun f => (fnEvs T f).filterMap (fun e => match e with
    | .lock m' H => if m' == m && H.contains h then some (nameOf f, "LOCK") else none
    | .call k H =>
      if 1000 ≤ k && H.contains h && (A.getD (k - 1000) []).contains m then some (nameOf f, nameOf (k - 1000))
      else none))).eraseDups

def main : IO Unit := do
  IO.println s!"refused: {(T.filter (fun np => !Locks.safe np.2)).map (·.1)}"
  IO.println s!"closed: {closed T A}"
  IO.println s!"unresolved: {Gen.LockOrder.unresolvedMutexes}"
  let es := (edges T A).eraseDups
  let rt := rankTable es
  let stuck := es.filter (fun e => !(rt.any (fun p => p.1 == e.1)) && !(rt.any (fun p => p.1 == e.2)))
  IO.println s!"ranked: {ranked es rt}"
  for e in stuck do
    IO.println s!"cycle-edge: {mutexName e.1} -> {mutexName e.2} via {hops e.1 e.2}"
  IO.println s!"dynamic: {((dynamicUnderLock T).map (·.1)).eraseDups}"
  IO.println s!"hint-exact: {norm ((edges T A).map (fun e => e.1 * 1000 + e.2)) == norm ((edges T (acquires T)).map (fun e => e.1 * 1000 + e.2))}"
  IO.println s!"functions: {T.length}"
  IO.println s!"mutexes: {Gen.LockOrder.mutexes.length}"
  IO.println s!"requests: {((List.range T.length).map (fun f => (fnEvs T f).length)).foldl (· + ·) 0}"
  IO.println s!"edges: {es.map (fun e => mutexName e.1 ++ " -> " ++ mutexName e.2)}"
  IO.println s!"ranks: {rt.map (fun p => (mutexName p.1, p.2))}"
