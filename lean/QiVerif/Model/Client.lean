/-
  Model of bus/client.go on top of the handler-table machine (Model/Endpoint.lean):
  `Call` = register a single-shot reply handler, `Send`, wait for error / reply / cancel;
  `Subscribe` = a keep-handler plus a forwarding goroutine; `OnDisconnect` = a handler that
  never matches, whose close callback is the user's.  The stream can fail: a `Write` in
  progress fails, the reading goroutine (`process`) gets an error or end of file (at any byte
  of a frame), either side closes.  Faults are persistent (a failed stream stays failed).
-/
import QiVerif.Model.Endpoint
namespace QiVerif.Client
open QiVerif.Endpoint

/-- larger than every message id and action id used: a reply to call `k` is the message with
    action `k` and id `k`; its handler matches the residue `k` and drops itself on id `k` -/
def M : Nat := 1000003

def replyMsg (k : Nat) : Msg := { action := k, id := k, isCall := false }
def callSpec (k : Nat) : Spec := { modulus := M, residue := k, dropOn := k, cap := 1, dropNeedsMatch := true }
/-- a subscription to signal `a`: keeps itself, except on the error message (id `errId`) -/
def errId : Nat := 999
def subSpec (a : Nat) : Spec := { modulus := M, residue := 900000 + a, dropOn := errId, cap := 100, dropNeedsMatch := true }
def eventMsg (a n : Nat) : Msg := { action := 900000 + a, id := n, isCall := false }
/-- `OnDisconnect`: the filter never matches -/
def discSpec : Spec := { modulus := 0, residue := 0, dropOn := 0, cap := 0 }

inductive Outcome where
  | reply (k : Nat)     -- the payload of the reply to call `k`
  | failed              -- `Send` returned an error
  | closedErr           -- the error pushed by the closer, or "Remote connection closed"
  | cancelled
  deriving Repr, DecidableEq

inductive Phase where
  | writing (uid slot : Nat)      -- handler registered, `Send` has not returned yet
  | waiting (uid : Nat)           -- in the `select`
  | cancelling (uid : Nat)        -- cancel requested, the `Send` of the cancel frame has not returned
  | finished (o : Outcome)
  deriving Repr, DecidableEq

structure Call where
  msgId : Nat
  phase : Phase
  deriving Repr

structure Sub where
  uid : Nat
  forwarded : List Nat := []   -- what the goroutine pushed to `events`
  eventsClosed : Bool := false
  deriving Repr

structure W where
  ep : EP := {}
  closed : Bool := false       -- `stream.Close()` has been called
  readDead : Bool := false     -- `process` has exited
  writeDead : Bool := false    -- a `Write` has failed
  calls : List Call := []
  subs : List Sub := []
  cbs : List Nat := []         -- registration numbers of the `OnDisconnect` handlers
  nextId : Nat := 3            -- `messageID` starts at 1 and grows by 2 before each call
  deriving Repr

def W.canWrite (w : W) : Bool := !w.closed && !w.writeDead

/-- `Call` up to the point where `Send` calls the stream's `Write`; when the stream is known to be
    dead the `Write` fails at once, and the handler is removed again -/
def startCall (w : W) : W :=
  let k := w.nextId
  let uid := w.ep.next
  let (ep1, slot) := make w.ep (callSpec k)
  if w.canWrite then
    { w with ep := ep1, nextId := k + 2, calls := w.calls ++ [⟨k, .writing uid slot⟩] }
  else
    { w with ep := (remove ep1 slot).1, nextId := k + 2, calls := w.calls ++ [⟨k, .finished .failed⟩] }

/-- the `Write` of call `c` (or of its cancel frame) returns without error -/
def writeOk (w : W) (c : Nat) : W :=
  match w.calls[c]? with
  | some ⟨k, .writing uid _⟩ => { w with calls := w.calls.set c ⟨k, .waiting uid⟩ }
  | some ⟨k, .cancelling _⟩ => { w with calls := w.calls.set c ⟨k, .finished .cancelled⟩ }
  | _ => w

/-- the `Write` of call `c` fails: the call removes its handler *by slot number* and returns the
    error; the stream stays dead for writing -/
def writeFail (w : W) (c : Nat) : W :=
  match w.calls[c]? with
  | some ⟨k, .writing _ slot⟩ =>
    { w with ep := (remove w.ep slot).1, writeDead := true, calls := w.calls.set c ⟨k, .finished .failed⟩ }
  | some ⟨k, .cancelling _⟩ => { w with writeDead := true, calls := w.calls.set c ⟨k, .finished .failed⟩ }
  | _ => w

/-- the caller closes its cancel channel while waiting -/
def cancel (w : W) (c : Nat) : W :=
  match w.calls[c]? with
  | some ⟨k, .waiting uid⟩ =>
    if w.canWrite then { w with calls := w.calls.set c ⟨k, .cancelling uid⟩ }
    else { w with calls := w.calls.set c ⟨k, .finished .failed⟩ }
  | _ => w

/-- `process` reads a whole frame and dispatches it -/
def deliver (w : W) (m : Msg) : W :=
  if w.readDead || w.closed then w else { w with ep := (dispatch w.ep m).1 }

/-- `process` gets an error or end of file (anywhere in a frame): `closeWith(err)`, then exit -/
def readFail (w : W) : W :=
  if w.readDead then w else { w with closed := true, readDead := true, ep := closeAll w.ep }

/-- `EndPoint.Close()` on this side -/
def localClose (w : W) : W := { w with closed := true, ep := closeAll w.ep }

def asyncStep (w : W) (uid : Nat) : W := { w with ep := asyncClose w.ep uid }

/-- a waiting call whose handler has been closed leaves the `select`: with its reply when one
    was queued, with an error otherwise -/
def settleCall (e : EP) (c : Call) : Call :=
  match c.phase with
  | .waiting uid =>
    match e.done.find? (·.uid == uid) with
    | some h => if h.received.isEmpty then { c with phase := .finished .closedErr }
                else { c with phase := .finished (.reply c.msgId) }
    | none => c
  | _ => c

/-- the subscription goroutine: forwards what is queued, and closes `events` when the queue is closed -/
def settleSub (e : EP) (s : Sub) : Sub :=
  match (e.slots.filterMap id ++ e.pending).find? (·.uid == s.uid) with
  | some h => { s with forwarded := h.received.filter (· != errId) }
  | none =>
    match e.done.find? (·.uid == s.uid) with
    | some h => { s with forwarded := h.received.filter (· != errId), eventsClosed := true }
    | none => s

def settle (w : W) : W :=
  { w with calls := w.calls.map (settleCall w.ep), subs := w.subs.map (settleSub w.ep) }

def subscribe (w : W) (a : Nat) : W :=
  { w with ep := (make w.ep (subSpec a)).1, subs := w.subs ++ [{ uid := w.ep.next }] }

def onDisconnect (w : W) : W :=
  { w with ep := (make w.ep discSpec).1, cbs := w.cbs ++ [w.ep.next] }

inductive Action where
  | startCall
  | writeOk (c : Nat)
  | writeFail (c : Nat)
  | cancel (c : Nat)
  | deliver (m : Msg)
  | readFail
  | localClose
  | async (uid : Nat)
  | subscribe (a : Nat)
  | onDisconnect
  | settle
  deriving Repr

def step (w : W) : Action → W
  | .startCall => startCall w
  | .writeOk c => writeOk w c
  | .writeFail c => writeFail w c
  | .cancel c => cancel w c
  | .deliver m => deliver w m
  | .readFail => readFail w
  | .localClose => localClose w
  | .async u => asyncStep w u
  | .subscribe a => subscribe w a
  | .onDisconnect => onDisconnect w
  | .settle => settle w

def run (w : W) : List Action → W
  | [] => w
  | a :: r => run (step w a) r

/-- every scheduled asynchronous close runs -/
def runAsyncs (w : W) : W := { w with ep := (w.ep.pending.map (·.uid)).foldl asyncClose w.ep }

/-- the connection is lost and everything scheduled has run -/
def lose (w : W) : W := settle (runAsyncs (readFail w))

end QiVerif.Client
