/-
  The objects on the client's side of a service (bus/service_reference.go: `clientService`, what a generated CreateX
  makes for an object handed to a remote service).  `Add` takes its identifier from a counter under `nextIDMutex`
  (2^31 + nextID), activates the object, registers its handler and only then writes the table under `objectsMutex`:
  two parts, with anything in between.  `Remove` deletes the entry under the write lock (refused for an unknown
  identifier) and removes the handler, whose closer runs the object's termination hook.  `Terminate` copies the
  identifiers under the read lock and removes each.
-/
namespace QiVerif.ClientObjects

/-- 2^31: the identifiers of the objects on the client's side of a service start here -/
def base : Nat := 2147483648

/-- `clientService` (bus/service_reference.go): the counter `nextID` (under `nextIDMutex`), the identifiers that were
    handed out by an `Add` which has not yet reached the table (its object is being activated, its handler registered),
    the keys of `objectsHandlers` (under `objectsMutex`), and how many times the termination hook of each object ran -/
structure CS where
  next : Nat := 0
  pending : List Nat := []
  live : List Nat := []
  hooks : List Nat := []        -- identifiers whose hook has run, one entry per run
  deriving Repr, DecidableEq

inductive Act where
  | addBegin                    -- `id := 1<<31 + c.nextID; c.nextID++` (refused past 2^31 - 1)
  | addEnd (id : Nat)           -- `c.objectsHandlers[id] = MakeHandler(…)`
  | remove (id : Nat)           -- refused for an identifier that is not in the table
  | terminate                   -- the identifiers copied under the read lock, then `Remove` of each
  deriving Repr, DecidableEq

def addBegin (s : CS) : CS × Option Nat :=
  if s.next > base - 1 then (s, none)
  else ({ s with next := s.next + 1, pending := (base + s.next) :: s.pending }, some (base + s.next))

def addEnd (s : CS) (id : Nat) : CS :=
  if id ∈ s.pending then { s with pending := s.pending.erase id, live := id :: s.live } else s

def remove (s : CS) (id : Nat) : CS × Bool :=
  if id ∈ s.live then ({ s with live := s.live.erase id, hooks := id :: s.hooks }, true) else (s, false)

def terminate (s : CS) : CS := { s with live := [], hooks := s.live ++ s.hooks }

def step (s : CS) : Act → CS
  | .addBegin => (addBegin s).1
  | .addEnd id => addEnd s id
  | .remove id => (remove s id).1
  | .terminate => terminate s

def run (s : CS) : List Act → CS
  | [] => s
  | a :: r => run (step s a) r

/-- the other way to choose an identifier: from the size of the table -/
def addBySize (s : CS) : CS := { s with live := (base + s.live.length) :: s.live }

end QiVerif.ClientObjects
