/-
  Model of the type sub-language of the IDL (meta/idl/parser.go: basicType, mapType, tupleType,
  vecType, referenceType, typeIdent; meta/signature/type.go: the SignatureIDL printers).
  The parser is written as the ordered choice it is: every terminal first skips white space; the
  first alternative that succeeds wins; a failed alternative consumes nothing.
-/
import QiVerif.Bytes
namespace QiVerif.Idl
open QiVerif

/-- types as the IDL sees them: a struct is referred to by its name -/
inductive IT where
  | basic (k : Nat)                 -- index in `keywords`
  | vec (t : IT)
  | map (k v : IT)
  | tuple (ts : List IT)
  | ref (name : Bytes)
  deriving Repr, Inhabited

def b (s : String) : Bytes := s.toUTF8.toList

/-- the atoms of `basicType()`, in the order of the ordered choice -/
def keywords : List Bytes :=
  [[105, 110, 116, 56], [117, 105, 110, 116, 56], [105, 110, 116, 49, 54], [117, 105, 110, 116, 49, 54],
   [105, 110, 116, 51, 50], [117, 105, 110, 116, 51, 50], [105, 110, 116, 54, 52], [117, 105, 110, 116, 54, 52],
   [102, 108, 111, 97, 116, 51, 50], [102, 108, 111, 97, 116, 54, 52], [105, 110, 116, 54, 52], [117, 105, 110, 116, 54, 52],
   [98, 111, 111, 108], [115, 116, 114], [111, 98, 106], [97, 110, 121], [110, 111, 116, 104, 105, 110, 103],
   [117, 110, 107, 110, 111, 119, 110]]
-- int8 uint8 int16 uint16 int32 uint32 int64 uint64 float32 float64 int64 uint64 bool str obj any nothing unknown

def kwMap : Bytes := [77, 97, 112, 60]            -- "Map<"
def kwTuple : Bytes := [84, 117, 112, 108, 101, 60]  -- "Tuple<"
def kwVec : Bytes := [86, 101, 99, 60]            -- "Vec<"
def comma : UInt8 := 44
def gt : UInt8 := 62
def lt : UInt8 := 60

def isWS (c : UInt8) : Bool := c == 32 || c == 9 || c == 13 || c == 10

def skipWS : Bytes → Bytes
  | [] => []
  | c :: r => if isWS c then skipWS r else c :: r

/-- `lit` is at the head of `inp`: what follows it -/
def stripPrefix : Bytes → Bytes → Option Bytes
  | [], inp => some inp
  | _ :: _, [] => none
  | a :: l, c :: r => if a == c then stripPrefix l r else none

/-- `parsec.Atom(lit)`: white space, then the literal -/
def atom (lit : Bytes) (inp : Bytes) : Option Bytes := stripPrefix lit (skipWS inp)

def isAlphaU (c : UInt8) : Bool := c == 95 || (65 ≤ c && c ≤ 90) || (97 ≤ c && c ≤ 122)
def isWord (c : UInt8) : Bool := c == 95 || (48 ≤ c && c ≤ 57) || (65 ≤ c && c ≤ 90) || (97 ≤ c && c ≤ 122)

def spanWord : Bytes → Bytes × Bytes
  | [] => ([], [])
  | c :: r => if isWord c then let (a, rest) := spanWord r; (c :: a, rest) else ([], c :: r)

/-- `typeIdent()`: `[_A-Za-z][0-9a-zA-Z_]*<[0-9a-zA-Z_]*>` if it matches, else `[_A-Za-z][0-9a-zA-Z_]*` -/
def typeIdent (inp : Bytes) : Option (Bytes × Bytes) :=
  match skipWS inp with
  | [] => none
  | c :: r =>
    if !isAlphaU c then none else
    let (w, rest) := spanWord r
    let name := c :: w
    match rest with
    | 60 :: r2 =>
      let (inner, rest2) := spanWord r2
      (match rest2 with
       | 62 :: r3 => some (name ++ [60] ++ inner ++ [62], r3)
       | _ => some (name, rest))
    | _ => some (name, rest)

/-- `parsec.Token("<keyword>\\b")`: white space, the keyword, and then no word character -/
def keyword (k : Bytes) (inp : Bytes) : Option Bytes :=
  match atom k inp with
  | some (c :: r) => if isWord c then none else some (c :: r)
  | some [] => some []
  | none => none

/-- the first keyword that is at the head of the input (after white space) -/
def firstKeyword : List Bytes → Nat → Bytes → Option (Nat × Bytes)
  | [], _, _ => none
  | k :: ks, i, inp =>
    match keyword k inp with
    | some rest => some (i, rest)
    | none => firstKeyword ks (i + 1) inp

mutual
/-- `typeParser`: basic, Map<…>, Tuple<…>, Vec<…>, reference — in this order -/
def parseT : Nat → Bytes → Option (IT × Bytes)
  | 0, _ => none
  | f + 1, inp =>
    match firstKeyword keywords 0 inp with
    | some (k, rest) => some (.basic k, rest)
    | none =>
      match parseMap f inp with
      | some r => some r
      | none =>
        match parseTuple f inp with
        | some r => some r
        | none =>
          match parseVec f inp with
          | some r => some r
          | none => (typeIdent inp).map (fun p => (.ref p.1, p.2))

def parseMap : Nat → Bytes → Option (IT × Bytes)
  | 0, _ => none
  | f + 1, inp =>
    match atom kwMap inp with
    | none => none
    | some r1 =>
      match parseT f r1 with
      | none => none
      | some (k, r2) =>
        match atom [comma] r2 with
        | none => none
        | some r3 =>
          match parseT f r3 with
          | none => none
          | some (v, r4) =>
            match atom [gt] r4 with
            | none => none
            | some r5 => some (.map k v, r5)

def parseVec : Nat → Bytes → Option (IT × Bytes)
  | 0, _ => none
  | f + 1, inp =>
    match atom kwVec inp with
    | none => none
    | some r1 =>
      match parseT f r1 with
      | none => none
      | some (t, r2) =>
        match atom [gt] r2 with
        | none => none
        | some r3 => some (.vec t, r3)

def parseTuple : Nat → Bytes → Option (IT × Bytes)
  | 0, _ => none
  | f + 1, inp =>
    match atom kwTuple inp with
    | none => none
    | some r1 =>
      match parseT f r1 with
      | none =>                           -- `Kleene`: no element at all is the empty tuple
        (match atom [gt] r1 with
         | none => none
         | some r4 => some (.tuple [], r4))
      | some (t, r2) =>
        let (ts, r3) := parseMore f r2
        match atom [gt] r3 with
        | none => none
        | some r4 => some (.tuple (t :: ts), r4)

/-- `Kleene(…, sep)` after the first element: `, T` as long as both succeed; a separator that is not
    followed by an element stays consumed (goparsec does not rewind it) -/
def parseMore : Nat → Bytes → List IT × Bytes
  | 0, inp => ([], inp)
  | f + 1, inp =>
    match atom [comma] inp with
    | none => ([], inp)
    | some r1 =>
      match parseT f r1 with
      | none => ([], r1)
      | some (t, r2) =>
        let (ts, r3) := parseMore f r2
        (t :: ts, r3)
end

mutual
/-- `SignatureIDL()` -/
def printT : IT → Bytes
  | .basic k => (keywords[k]?).getD []
  | .vec t => kwVec ++ printT t ++ [gt]
  | .map k v => kwMap ++ printT k ++ [comma] ++ printT v ++ [gt]
  | .tuple ts => kwTuple ++ printTs ts ++ [gt]
  | .ref n => n
def printTs : List IT → Bytes
  | [] => []
  | [t] => printT t
  | t :: r => printT t ++ [comma] ++ printTs r
end

/-- the signature a parsed type stands for (references are not resolved here) -/
def sigLetter : Nat → Bytes
  | 0 => [99] | 1 => [67] | 2 => [119] | 3 => [87] | 4 => [105] | 5 => [73] | 6 => [108] | 7 => [76]
  | 8 => [102] | 9 => [100] | 10 => [108] | 11 => [76] | 12 => [98] | 13 => [115] | 14 => [111] | 15 => [109] | 16 => [118]
  | _ => [88]

mutual
/-- the signature a parsed type stands for, the struct names resolved in `scope` -/
def sigIn (scope : Bytes → Option Bytes) : IT → Option Bytes
  | .basic k => some (sigLetter k)
  | .vec t => (sigIn scope t).map (fun s => [91] ++ s ++ [93])
  | .map k v => match sigIn scope k, sigIn scope v with
    | some a, some c => some ([123] ++ a ++ c ++ [125])
    | _, _ => none
  | .tuple ts => (sigIns scope ts).map (fun s => [40] ++ s ++ [41])
  | .ref n => scope n
def sigIns (scope : Bytes → Option Bytes) : List IT → Option Bytes
  | [] => some []
  | t :: r => match sigIn scope t, sigIns scope r with
    | some a, some c => some (a ++ c)
    | _, _ => none
end

/-- the parser as the harness drives it: deep enough for any text of that length -/
def parseType (text : Bytes) : Option (IT × Bytes) := parseT (2 * text.length + 4) text

end QiVerif.Idl
