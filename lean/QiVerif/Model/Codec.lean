/-
  The serialization layer, over the signature types of Model/Signature.lean:

  * `TVal`, `Typed`, `D`      — typed values and the *documented* layout
                                (doc/about-qimessaging.md, "Serialization"), written from the
                                documentation, independently of any encoder in the repository;
  * `readT`                   — the signature-driven reader of meta/signature/reader.go
                                (`Type.Reader()`: constReader, stringReader, valueReader,
                                varReader, tupleReader, UnknownReader);
  * `genRead`                 — the semantics of the generated `Unmarshal` code of
                                meta/signature/type.go (what `read<Struct>` functions do).

  All decoders work on flat byte strings (they only touch the reader through
  `basic.ReadN`, lifted to fragmented streams by `QiVerif.readN_chunks`).
-/
import QiVerif.Model.Signature
namespace QiVerif.Codec
open QiVerif QiVerif.Sig

/-- width in bytes of the fixed-width scalars -/
def width : UInt8 → Option Nat
  | 99 => some 1 | 67 => some 1 | 98 => some 1         -- c C b
  | 119 => some 2 | 87 => some 2                        -- w W
  | 105 => some 4 | 73 => some 4 | 102 => some 4        -- i I f
  | 108 => some 8 | 76 => some 8 | 100 => some 8        -- l L d
  | _ => none

/-- little-endian encoding on `w` bytes -/
def leN : Nat → Nat → Bytes
  | 0, _ => []
  | w + 1, n => UInt8.ofNat n :: leN w (n / 256)

def fromLE : Bytes → Nat
  | [] => 0
  | b :: r => b.toNat + 256 * fromLE r

/-- typed values.  Scalars (integers of any width and signedness, booleans, floats) are the
    unsigned number their bytes denote: the layout does not depend on the interpretation. -/
inductive TVal where
  | num (n : Nat)
  | str (b : Bytes)
  | list (xs : List TVal)
  | map (kvs : List (TVal × TVal))
  | tuple (xs : List TVal)          -- tuples and structs
  | dyn (t : Ty) (v : TVal)         -- a dynamic value: its type travels with it
  | void
  deriving Repr, Inhabited

def maxStringSize : Nat := 10485760

mutual
/-- the documented serialization -/
def D : Ty → TVal → Bytes
  | .basic c, .num n => match width c with | some w => leN w n | none => []
  | .basic _, .str b => leN 4 b.length ++ b                       -- `s`
  | .basic _, .dyn t v => leN 4 (print t).length ++ print t ++ D t v   -- `m`: signature, then the value
  | .basic _, .void => []                                         -- `v`
  | .list t, .list xs => leN 4 xs.length ++ DList t xs
  | .map k v, .map kvs => leN 4 kvs.length ++ DPairs k v kvs
  | .tuple ts, .tuple xs => DFields ts xs
  | .struct _ ms, .tuple xs => DMembers ms xs
  | _, _ => []
def DList : Ty → List TVal → Bytes
  | _, [] => []
  | t, x :: r => D t x ++ DList t r
def DPairs : Ty → Ty → List (TVal × TVal) → Bytes
  | _, _, [] => []
  | k, v, (a, b) :: r => D k a ++ D v b ++ DPairs k v r
def DFields : List Ty → List TVal → Bytes
  | t :: ts, x :: xs => D t x ++ DFields ts xs
  | _, _ => []
def DMembers : List (Bytes × Ty) → List TVal → Bytes
  | (_, t) :: ts, x :: xs => D t x ++ DMembers ts xs
  | _, _ => []
end

/-! ### primitives of type/basic over flat bytes -/

def readLE (w : Nat) (inp : Bytes) : Res (Nat × Bytes) :=
  match takeN w inp with
  | .ok (b, r) => .ok (fromLE b, r)
  | .error _ => .error .err

/-- `basic.ReadString` -/
def readString (inp : Bytes) : Res (Bytes × Bytes) :=
  match readLE 4 inp with
  | .error e => .error e
  | .ok (size, r) =>
    if size = 0 then .ok ([], r)
    else if size > maxStringSize then .error .err
    else match takeN size r with
      | .ok (b, r') => .ok (b, r')
      | .error _ => .error .err

/-- the ObjectReference struct type (`value.ObjectReferenceSignature`) -/
def sb (s : String) : Bytes := s.toUTF8.toList

def metaMethodParameterTy : Ty :=
  .struct (sb "MetaMethodParameter") [(sb "name", .basic 115), (sb "description", .basic 115)]
def metaMethodTy : Ty :=
  .struct (sb "MetaMethod") [(sb "uid", .basic 73), (sb "returnSignature", .basic 115), (sb "name", .basic 115),
    (sb "parametersSignature", .basic 115), (sb "description", .basic 115),
    (sb "parameters", .list metaMethodParameterTy), (sb "returnDescription", .basic 115)]
def metaSignalTy : Ty :=
  .struct (sb "MetaSignal") [(sb "uid", .basic 73), (sb "name", .basic 115), (sb "signature", .basic 115)]
def metaPropertyTy : Ty :=
  .struct (sb "MetaProperty") [(sb "uid", .basic 73), (sb "name", .basic 115), (sb "signature", .basic 115)]
def metaObjectTy : Ty :=
  .struct (sb "MetaObject") [(sb "methods", .map (.basic 73) metaMethodTy),
    (sb "signals", .map (.basic 73) metaSignalTy), (sb "properties", .map (.basic 73) metaPropertyTy),
    (sb "description", .basic 115)]
def objectRefTy : Ty :=
  .struct (sb "ObjectReference") [(sb "metaObject", metaObjectTy), (sb "serviceID", .basic 73),
    (sb "objectID", .basic 73)]

mutual
/-- elements that occupy no byte on the wire (`v`, empty tuples, tuples of such) -/
def zeroSize : Ty → Bool
  | .basic c => c == 118
  | .list _ => false
  | .map _ _ => false
  | .tuple ts => zeroSizeList ts
  | .struct _ ms => zeroSizeMembers ms
def zeroSizeList : List Ty → Bool
  | [] => true
  | t :: r => zeroSize t && zeroSizeList r
def zeroSizeMembers : List (Bytes × Ty) → Bool
  | [] => true
  | (_, t) :: r => zeroSize t && zeroSizeMembers r
end

/-- a loop over elements that occupy no byte still runs `size` times in the Go code
    (`varReader`); beyond this many iterations the model reports `hang` -/
def zeroLoopLimit : Nat := 1048576

mutual
/-- `Type.Reader().Read(r)`: returns the bytes of one value of the type and the rest.
    `fuel` is the depth of the Go call stack plus the number of loop iterations that consume
    input (a loop over elements of zero size does not touch the input and is short-cut; its
    cost is accounted for in Model/Cost.lean). -/
def readT : Nat → Ty → Bytes → Res (Bytes × Bytes)
  | 0, _, _ => .error .hang
  | f + 1, .basic c, inp =>
    match width c with
    | some w => (match takeN w inp with | .ok p => .ok p | .error _ => .error .err)   -- constReader
    | none =>
      if c == 115 then                                   -- stringReader
        match readString inp with
        | .error e => .error e
        | .ok (s, r) => .ok (leN 4 s.length ++ s, r)
      else if c == 118 then .ok ([], inp)                -- constReader(0)
      else if c == 109 then                              -- valueReader
        match readString inp with
        | .error e => .error e
        | .ok (sig, r) =>
          match parseSig sig with
          | .error e => .error e
          | .ok t =>
            match readT f t r with
            | .error e => .error e
            | .ok (d, r') => .ok (leN 4 sig.length ++ sig ++ d, r')
      else if c == 111 then readT f objectRefTy inp      -- `o`: the reader of the ObjectReference struct
      else .error .err                                   -- UnknownReader
  | f + 1, .list t, inp =>
    match readLE 4 inp with
    | .error e => .error e
    | .ok (size, r) =>
      if zeroSize t then (if size > zeroLoopLimit then .error .hang else .ok (leN 4 size, r))
      else match readMany f t size r with
        | .error e => .error e
        | .ok (d, r') => .ok (leN 4 size ++ d, r')
  | f + 1, .map k v, inp =>
    match readLE 4 inp with
    | .error e => .error e
    | .ok (size, r) =>
      if zeroSize k && zeroSize v then (if size > zeroLoopLimit then .error .hang else .ok (leN 4 size, r))
      else match readMany f (.tuple [k, v]) size r with
        | .error e => .error e
        | .ok (d, r') => .ok (leN 4 size ++ d, r')
  | f + 1, .tuple ts, inp => readFields f ts inp
  | f + 1, .struct _ ms, inp => readMembers f ms inp
/-- the loop of `varReader` -/
def readMany : Nat → Ty → Nat → Bytes → Res (Bytes × Bytes)
  | 0, _, _, _ => .error .hang
  | _ + 1, _, 0, inp => .ok ([], inp)
  | f + 1, t, n + 1, inp =>
    match readT f t inp with
    | .error e => .error e
    | .ok (d, r) =>
      match readMany f t n r with
      | .error e => .error e
      | .ok (ds, r') => .ok (d ++ ds, r')
/-- `tupleReader` -/
def readFields : Nat → List Ty → Bytes → Res (Bytes × Bytes)
  | 0, _, _ => .error .hang
  | _ + 1, [], inp => .ok ([], inp)
  | f + 1, t :: ts, inp =>
    match readT f t inp with
    | .error e => .error e
    | .ok (d, r) =>
      match readFields f ts r with
      | .error e => .error e
      | .ok (ds, r') => .ok (d ++ ds, r')
def readMembers : Nat → List (Bytes × Ty) → Bytes → Res (Bytes × Bytes)
  | 0, _, _ => .error .hang
  | _ + 1, [], inp => .ok ([], inp)
  | f + 1, (_, t) :: ts, inp =>
    match readT f t inp with
    | .error e => .error e
    | .ok (d, r) =>
      match readMembers f ts r with
      | .error e => .error e
      | .ok (ds, r') => .ok (d ++ ds, r')
end

mutual
/-- nesting depth of a type -/
def tyDepth : Ty → Nat
  | .basic _ => 1
  | .list t => tyDepth t + 2
  | .map k v => max (tyDepth k) (tyDepth v) + 4
  | .tuple ts => tyDepthList ts + 1
  | .struct _ ms => tyDepthMembers ms + 1
def tyDepthList : List Ty → Nat
  | [] => 1
  | t :: r => max (tyDepth t + 1) (tyDepthList r + 1)
def tyDepthMembers : List (Bytes × Ty) → Nat
  | [] => 1
  | (_, t) :: r => max (tyDepth t + 1) (tyDepthMembers r + 1)
end

/-- enough fuel for any input of this length read at this type -/
def readFuel (t : Ty) (inp : Bytes) : Nat := 40 * (inp.length + 1) + tyDepth t + 40

/-- `signature.MakeReader(sig)` followed by `Read` -/
def readSig (sig inp : Bytes) : Res (Bytes × Bytes) :=
  match parseSig sig with
  | .error e => .error e
  | .ok t => readT (readFuel t inp) t inp

end QiVerif.Codec
