/-
  Model of a signal subscription as one connection sees it (bus/proxy.go SubscribeID and its
  cancel function, bus/client.go Subscribe / State, bus/signal.go RegisterEvent /
  UnregisterEvent / UpdateSignal, the FIFO connection).  Everything the server puts on the
  connection is a log; the client's reader dispatches it in order.  Local subscribers of the
  signal are counted; the first one registers remotely, the last one unregisters; both under
  the client's subscription lock (`op`).
-/
namespace QiVerif.Signals

inductive Frame where
  | event (idx payload : Nat)   -- the `idx`-th emission of the signal
  | other                       -- an event of another signal, a reply to something else, …
  | regAck                      -- reply to registerEvent
  | unregAck                    -- reply to unregisterEvent
  deriving DecidableEq, Repr

inductive Op where
  | regPending (sub : Nat)      -- the lock is held; registerEvent has not reached the server
  | regSent (sub : Nat)         -- the server has registered the connection; the reply is on its way
  | unregPending (sub : Nat)
  | unregSent (sub : Nat)
  deriving DecidableEq, Repr

structure Sub where
  joinPos : Nat                       -- frames dispatched when the local handler was added
  joinLen : Nat                       -- length of the log then
  joinEmit : Nat                      -- emissions so far then
  since : Option Nat := none          -- emissions so far when SubscribeID returned (acknowledgement)
  cancelAt : Option (Nat × Nat) := none  -- (emissions, frames dispatched) when cancel was requested
  leftAt : Option Nat := none         -- frames dispatched when the handler was removed and the channel closed
  counted : Bool := false             -- it has passed the subscription lock and is in the count
  failed : Bool := false              -- its remote registration failed: `SubscribeID` returned the error
  got : List (Nat × Nat) := []        -- (emission index, payload) received, in order
  deriving Repr

structure C where
  registered : Bool := false          -- the server's table holds a user for this connection and signal
  emitted : List Nat := []            -- payloads emitted so far (the index is the position)
  log : List Frame := []
  delivered : Nat := 0
  refs : Nat := 0                     -- `State("svc.obj.action")`
  op : Option Op := none
  subs : List Sub := []
  /-- the code before repair e7b0d64: a second subscriber does not wait for the lock -/
  unserialized : Bool := false
  /-- the code before repair 714c9e7: a second client on the connection is registered as well -/
  twice : Bool := false
  deriving Repr

/-- `SubscribeID`, first half: `client.Subscribe` adds the local handler (no lock needed) -/
def attach (c : C) : C :=
  { c with subs := c.subs ++ [{ joinPos := c.delivered, joinLen := c.log.length, joinEmit := c.emitted.length }] }

/-- `SubscribeID`, second half, under the client's subscription lock: the count, and for the
    first subscriber the remote registration (whose reply is awaited with the lock held) -/
def enter (c : C) (i : Nat) : C :=
  if c.op.isSome && !c.unserialized then c else
  match c.subs[i]? with
  | some s =>
    if s.counted || s.failed then c else
    if c.refs == 0 then
      { c with subs := c.subs.set i { s with counted := true }, refs := 1, op := some (.regPending i) }
    else
      { c with subs := c.subs.set i { s with counted := true, since := some c.emitted.length }, refs := c.refs + 1 }
  | none => c

/-- `SubscribeID` when the lock is free -/
def subscribe (c : C) : C := enter (attach c) c.subs.length

/-- the server handles registerEvent: the user is added, the reply is sent -/
def srvRegister (c : C) : C :=
  match c.op with
  | some (.regPending i) => { c with registered := true, log := c.log ++ [.regAck], op := some (.regSent i) }
  | _ => c

/-- `RegisterEvent` returns an error (the connection, the server's answer, a deadline): the count and the
    handler id are given back under the lock, the lock is released, `cancel()` is called and the error is
    what `SubscribeID` returns.  The server's table is as it was (the request was not handled: an answer
    that was an error, or no answer) -/
def regFail (c : C) : C :=
  match c.op with
  | some (.regPending i) =>
    match c.subs[i]? with
    | some s => { c with refs := 0, op := none, subs := c.subs.set i { s with counted := false, failed := true } }
    | none => c
  | _ => c

def setSub (subs : List Sub) (i : Nat) (g : Sub → Sub) : List Sub :=
  match subs[i]? with
  | some s => subs.set i (g s)
  | none => subs

/-- the client's reader dispatches the next frame of the connection -/
def deliver (c : C) : C :=
  match c.log[c.delivered]? with
  | none => c
  | some f =>
    let c1 := { c with delivered := c.delivered + 1 }
    match f with
    | .event idx p =>
      { c1 with subs := c.subs.map (fun s => if s.leftAt.isNone then { s with got := s.got ++ [(idx, p)] } else s) }
    | .other => c1
    | .regAck =>
      match c.op with
      | some (.regSent i) =>
        { c1 with subs := setSub c.subs i (fun s => { s with since := some c.emitted.length }), op := none }
      | _ => c1
    | .unregAck =>
      match c.op with
      | some (.unregSent _) => { c1 with op := none }
      | _ => c1

/-- the cancel function: the count, and the remote unregistration for the last subscriber -/
def cancel (c : C) (i : Nat) : C :=
  if c.op.isSome then c else
  match c.subs[i]? with
  | some s =>
    if s.since.isNone || s.cancelAt.isSome || !s.counted then c else
    let subs := c.subs.set i { s with cancelAt := some (c.emitted.length, c.delivered) }
    if c.refs == 1 then { c with subs := subs, refs := 0, op := some (.unregPending i) }
    else { c with subs := subs, refs := c.refs - 1 }
  | none => c

def srvUnregister (c : C) : C :=
  match c.op with
  | some (.unregPending i) => { c with registered := false, log := c.log ++ [.unregAck], op := some (.unregSent i) }
  | _ => c

/-- the fan-out goroutine sees the abort: the handler is removed, `events` is closed -/
def leave (c : C) (i : Nat) : C :=
  match c.subs[i]? with
  | some s =>
    if (s.cancelAt.isNone && !s.failed) || s.leftAt.isSome then c else
    if c.op == some (.unregPending i) || c.op == some (.unregSent i) then c else
    { c with subs := c.subs.set i { s with leftAt := some c.delivered } }
  | none => c

/-- the object emits the signal: one event frame per registered user -/
def emit (c : C) (p : Nat) : C :=
  let fr := Frame.event c.emitted.length p
  let log := if c.registered then (if c.twice then c.log ++ [fr, fr] else c.log ++ [fr]) else c.log
  { c with emitted := c.emitted ++ [p], log := log }

/-- anything else the server sends on the connection -/
def noise (c : C) : C := { c with log := c.log ++ [.other] }

inductive Action where
  | attach | enter (i : Nat) | subscribe | srvRegister | deliver | cancel (i : Nat) | srvUnregister | leave (i : Nat) | emit (p : Nat) | noise | regFail
  deriving Repr

def step (c : C) : Action → C
  | .attach => attach c
  | .enter i => enter c i
  | .subscribe => subscribe c
  | .srvRegister => srvRegister c
  | .deliver => deliver c
  | .cancel i => cancel c i
  | .srvUnregister => srvUnregister c
  | .leave i => leave c i
  | .emit p => emit c p
  | .noise => noise c
  | .regFail => regFail c

def run (c : C) : List Action → C
  | [] => c
  | a :: r => run (step c a) r


/-! ### the server's table of signal users (bus/signal.go) -/

structure User where
  uid : Nat
  sig : Nat
  conn : Nat
  deriving DecidableEq, Repr

/-- `addSignalUser`: refused when the user id is already there -/
def addUser (us : List User) (u : User) : Option (List User) :=
  if us.any (fun x => x.uid == u.uid) then none else some (us ++ [u])

/-- `o.signals[i] = o.signals[len-1]; o.signals = o.signals[:len-1]` -/
def swapRemove (us : List User) (i : Nat) : List User :=
  match us.getLast? with
  | some l => (us.set i l).dropLast
  | none => us

/-- `removeSignalUser`: the first entry with this user id on this connection -/
def removeUser (us : List User) (uid conn : Nat) : Option (List User) :=
  match us.findIdx? (fun x => x.uid == uid && x.conn == conn) with
  | some i => some (swapRemove us i)
  | none => none

/-- `UpdateSignal`: one event per user of the signal, to that user's connection -/
def recipients (us : List User) (sig : Nat) : List Nat := (us.filter (fun u => u.sig == sig)).map (·.conn)

end QiVerif.Signals
