/-
  Typed decoders: the reflection-based decoder of type/encoding/encoding.go
  (`qiDecoder`) and the generated `Unmarshal` code of meta/signature/type.go,
  as one function parametrised by what differs between them (how the element
  count of lists and maps is interpreted and limited).  Encoders: the
  reflection-based `qiEncoder` with its kind table.
-/
import QiVerif.Model.Value
namespace QiVerif.Decode
open QiVerif QiVerif.Sig QiVerif.Codec QiVerif.Value

/-- decoded values: like `TVal`, but a dynamic value is kept as the bytes of its encoding
    (signature string and data), which is what `value.Value.Write` reproduces -/
inductive DVal where
  | num (n : Nat)
  | str (b : Bytes)
  | list (xs : List DVal)
  | map (kvs : List (DVal × DVal))
  | tuple (xs : List DVal)
  | dyn (enc : Bytes)
  | void
  deriving Repr, Inhabited

structure DecCfg where
  signedCount : Bool          -- the element count is read as int32 (negative counts are refused)
  countLimit : Option Nat     -- `listValueMaxSize` of the reflection decoder

def reflectCfg : DecCfg := { signedCount := true, countLimit := some 4096 }
def generatedCfg : DecCfg := { signedCount := false, countLimit := none }
/-- `bus.ReadCapabilityMap`: unsigned count, `capabilityMapSizeMax` checked before allocating -/
def capMapCfg : DecCfg := { signedCount := false, countLimit := some 4096 }

/-- the element count of a list or map -/
def readCount (cfg : DecCfg) (inp : Bytes) : Res (Nat × Bytes) :=
  match readLE 4 inp with
  | .error e => .error e
  | .ok (n, r) =>
    if cfg.signedCount && n ≥ 2147483648 then .error .err
    else match cfg.countLimit with
      | some l => if n > l then .error .err else .ok (n, r)
      | none =>
        -- the generated code allocates `n` elements right here (`make([]T, size)`), whatever the
        -- input holds: a count that the remaining input cannot possibly back is a resource blow-up
        if n > r.length + 65536 then .error .hang else .ok (n, r)

mutual
def decT (cfg : DecCfg) : Nat → Ty → Bytes → Res (DVal × Bytes)
  | 0, _, _ => .error .hang
  | f + 1, .basic c, inp =>
    match width c with
    | some w =>
      match readLE w inp with
      | .error e => .error e
      | .ok (n, r) => .ok (.num (if c == 98 then (if n = 0 then 0 else 1) else n), r)
    | none =>
      if c == 115 then
        match readString inp with
        | .error e => .error e
        | .ok (s, r) => .ok (.str s, r)
      else if c == 118 then .ok (.void, inp)
      else if c == 109 then
        match readVal f inp with
        | .error e => .error e
        | .ok (v, r) => .ok (.dyn (writeVal v), r)
      else if c == 111 then decT cfg f objectRefTy inp
      else .error .err
  | f + 1, .list t, inp =>
    match readCount cfg inp with
    | .error e => .error e
    | .ok (n, r) =>
      match decMany cfg f t n r with
      | .error e => .error e
      | .ok (xs, r') => .ok (.list xs, r')
  | f + 1, .map k v, inp =>
    match readCount cfg inp with
    | .error e => .error e
    | .ok (n, r) =>
      match decPairs cfg f k v n r with
      | .error e => .error e
      | .ok (xs, r') => .ok (.map xs, r')
  | f + 1, .tuple ts, inp =>
    match decFields cfg f ts inp with
    | .error e => .error e
    | .ok (xs, r) => .ok (.tuple xs, r)
  | f + 1, .struct _ ms, inp =>
    match decMembers cfg f ms inp with
    | .error e => .error e
    | .ok (xs, r) => .ok (.tuple xs, r)
def decMany (cfg : DecCfg) : Nat → Ty → Nat → Bytes → Res (List DVal × Bytes)
  | 0, _, _, _ => .error .hang
  | _ + 1, _, 0, inp => .ok ([], inp)
  | f + 1, t, n + 1, inp =>
    match decT cfg f t inp with
    | .error e => .error e
    | .ok (x, r) =>
      match decMany cfg f t n r with
      | .error e => .error e
      | .ok (xs, r') => .ok (x :: xs, r')
def decPairs (cfg : DecCfg) : Nat → Ty → Ty → Nat → Bytes → Res (List (DVal × DVal) × Bytes)
  | 0, _, _, _, _ => .error .hang
  | _ + 1, _, _, 0, inp => .ok ([], inp)
  | f + 1, k, v, n + 1, inp =>
    match decT cfg f k inp with
    | .error e => .error e
    | .ok (a, r) =>
      match decT cfg f v r with
      | .error e => .error e
      | .ok (b, r2) =>
        match decPairs cfg f k v n r2 with
        | .error e => .error e
        | .ok (xs, r') => .ok ((a, b) :: xs, r')
def decFields (cfg : DecCfg) : Nat → List Ty → Bytes → Res (List DVal × Bytes)
  | 0, _, _ => .error .hang
  | _ + 1, [], inp => .ok ([], inp)
  | f + 1, t :: ts, inp =>
    match decT cfg f t inp with
    | .error e => .error e
    | .ok (x, r) =>
      match decFields cfg f ts r with
      | .error e => .error e
      | .ok (xs, r') => .ok (x :: xs, r')
def decMembers (cfg : DecCfg) : Nat → List (Bytes × Ty) → Bytes → Res (List DVal × Bytes)
  | 0, _, _ => .error .hang
  | _ + 1, [], inp => .ok ([], inp)
  | f + 1, (_, t) :: ts, inp =>
    match decT cfg f t inp with
    | .error e => .error e
    | .ok (x, r) =>
      match decMembers cfg f ts r with
      | .error e => .error e
      | .ok (xs, r') => .ok (x :: xs, r')
end

def decFuel (t : Ty) (inp : Bytes) : Nat := 40 * (inp.length + 1) + tyDepth t + 40

/-- `encoding.NewDecoder(...).Decode(&x)` for x of the Go type of `t` -/
def decodeReflect (t : Ty) (inp : Bytes) : Res (DVal × Bytes) := decT reflectCfg (decFuel t inp) t inp

/-- the generated `read<Type>` function for `t` -/
def decodeGenerated (t : Ty) (inp : Bytes) : Res (DVal × Bytes) := decT generatedCfg (decFuel t inp) t inp

/-- `bus.ReadCapabilityMap` (a map from strings to dynamic values) -/
def decodeCapMap (inp : Bytes) : Res (DVal × Bytes) :=
  decT capMapCfg (decFuel (.map (.basic 115) (.basic 109)) inp) (.map (.basic 115) (.basic 109)) inp

/-! ### the reflection encoder: a kind table -/

/-- reflect kind (by name) of the Go type generated for a basic signature letter -/
def kindOf : UInt8 → String
  | 99 => "Int8" | 67 => "Uint8" | 119 => "Int16" | 87 => "Uint16" | 105 => "Int32" | 73 => "Uint32"
  | 108 => "Int64" | 76 => "Uint64" | 102 => "Float32" | 100 => "Float64" | 98 => "Bool" | 115 => "String"
  | 109 => "Interface" | 118 => "Struct" | 111 => "Struct" | _ => "Invalid"

/-- the `case` labels of `qiEncoder.value` (and of `qiDecoder.value`) the model relies on -/
def codecKinds : List String :=
  ["Interface", "Ptr", "Bool", "String", "Int8", "Int16", "Int32", "Int64", "Int", "Uint8", "Uint16",
   "Uint32", "Uint64", "Uint", "Float32", "Float64", "Struct", "Slice", "Map"]

/-- which `basic.Write*` each case of `qiEncoder.value` calls (the widths `encR` writes) -/
def encoderCalls : List (String × String) :=
  [("Interface", ""), ("Ptr", "q.value"), ("Bool", "basic.WriteBool"), ("String", "basic.WriteString"),
   ("Int8", "basic.WriteInt8"), ("Int16", "basic.WriteInt16"), ("Int32", "basic.WriteInt32"),
   ("Int64", "basic.WriteInt64"), ("Int", "basic.WriteInt64"), ("Uint8", "basic.WriteUint8"),
   ("Uint16", "basic.WriteUint16"), ("Uint32", "basic.WriteUint32"), ("Uint64", "basic.WriteUint64"),
   ("Uint", "basic.WriteUint64"), ("Float32", "basic.WriteFloat32"), ("Float64", "basic.WriteFloat64"),
   ("Struct", "q.value"), ("Slice", "basic.WriteInt32"), ("Map", "basic.WriteInt32")]

/-- … and which `basic.Read*` each case of `qiDecoder.value` calls -/
def decoderCalls : List (String × String) :=
  [("Interface", "q.readValue"), ("Ptr", "q.sliceValue"), ("Struct", "q.value"), ("Slice", "q.sliceValue"),
   ("Map", "q.mapValue"), ("Bool", "basic.ReadBool"), ("String", "basic.ReadString"), ("Int8", "basic.ReadInt8"),
   ("Int16", "basic.ReadInt16"), ("Int32", "basic.ReadInt32"), ("Int64", "basic.ReadInt64"),
   ("Int", "basic.ReadInt64"), ("Uint8", "basic.ReadUint8"), ("Uint16", "basic.ReadUint16"),
   ("Uint32", "basic.ReadUint32"), ("Uint64", "basic.ReadUint64"), ("Uint", "basic.ReadUint64"),
   ("Float32", "basic.ReadFloat32"), ("Float64", "basic.ReadFloat64")]

mutual
/-- `qiEncoder.value` on the Go value of `(t, v)`, given the kinds that have a case: a kind
    without a case is silently skipped (nothing is written) -/
def encR (cases : List String) : Ty → TVal → Bytes
  | .basic c, .num n =>
    if cases.contains (kindOf c) then (match width c with | some w => leN w n | none => []) else []
  | .basic c, .str b => if cases.contains (kindOf c) then leN 4 b.length ++ b else []
  | .basic c, .dyn t v =>
    if cases.contains (kindOf c) then leN 4 (print t).length ++ print t ++ D t v else []
  | .basic _, .void => []
  | .list t, .list xs => if cases.contains "Slice" then leN 4 xs.length ++ encRList cases t xs else []
  | .map k v, .map kvs => if cases.contains "Map" then leN 4 kvs.length ++ encRPairs cases k v kvs else []
  | .tuple ts, .tuple xs => if cases.contains "Struct" then encRFields cases ts xs else []
  | .struct _ ms, .tuple xs => if cases.contains "Struct" then encRMembers cases ms xs else []
  | _, _ => []
def encRList (cases : List String) : Ty → List TVal → Bytes
  | _, [] => []
  | t, x :: r => encR cases t x ++ encRList cases t r
def encRPairs (cases : List String) : Ty → Ty → List (TVal × TVal) → Bytes
  | _, _, [] => []
  | k, v, (a, b) :: r => encR cases k a ++ encR cases v b ++ encRPairs cases k v r
def encRFields (cases : List String) : List Ty → List TVal → Bytes
  | t :: ts, x :: xs => encR cases t x ++ encRFields cases ts xs
  | _, _ => []
def encRMembers (cases : List String) : List (Bytes × Ty) → List TVal → Bytes
  | (_, t) :: ts, x :: xs => encR cases t x ++ encRMembers cases ts xs
  | _, _ => []
end

end QiVerif.Decode
