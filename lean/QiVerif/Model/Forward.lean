/-
  Calls that the server forwards (bus/object.go: `clientObject`, made by `bus.NewClientObject` — what a generated stub
  makes of an object reference whose identifier lies on the caller's side): the object lives in a client; the server
  holds a stand-in whose `Receive` starts a goroutine per call (`handleCall`), which calls the hosting client
  (`c.client.Call(nil, service, remoteID, action, payload)`: a call of its own, with a message id of its own, on the
  connection to the host) and, when that call has returned, answers the original request with `from.SendReply(msg, resp)`
  / `from.SendError(msg, err)` — the header of the request it was started with.

  Two call machines (Model/Calls.lean): `out` between the callers and the server, `inn` between the server's client
  objects and the clients that host them; `fwd` records which inner call was made for which request.
-/
import QiVerif.Model.Calls
namespace QiVerif.Forward
open QiVerif.Calls

/-- the goroutine `handleCall` of one request: the request it was started with, the call it made -/
structure Fwd where
  outer : Nat
  inner : Nat
  answered : Bool := false
  deriving Repr, DecidableEq

/-- which objects of the server are client objects, the identifier each has on its host's side, what the server's own
    objects compute and what the hosting clients compute -/
structure Cfg where
  isFwd : Nat → Nat → Bool
  remote : Nat → Nat → Nat
  own : Env
  host : Env

/-- what a caller is entitled to expect: for a client object, what its host computes -/
def Cfg.env (g : Cfg) : Env :=
  { known := fun s o a => if g.isFwd s o then g.host.known s (g.remote s o) a else g.own.known s o a,
    f := fun s o a x => if g.isFwd s o then g.host.f s (g.remote s o) a x else g.own.f s o a x }

structure FSys where
  out : Sys := {}
  inn : Sys := {}
  fwd : List Fwd := []
  deriving Repr

def forwarded (g : Cfg) (c : CallRec) : Bool := g.isFwd c.key.svc c.key.obj

/-- callers, the server's own objects, deliveries to the callers: the server does not compute what a client object is
    asked (its `Receive` only starts the goroutine) -/
def outStep (g : Cfg) (s : Sys) : Action → Sys
  | .serve i =>
    match s.calls[i]? with
    | some c => if forwarded g c then s else serve g.env s i
    | none => s
  | .call cl c sv o a x => call s cl c sv o a x
  | .post c sv o a id x => post s c sv o a id x
  | .deliver i => deliver s i
  | .other t sv o a => other g.env s t sv o a

/-- the hosting clients serve what they are asked and the answers travel back; calls on these connections are made
    by `handleCall` only -/
def innStep (g : Cfg) (s : Sys) : Action → Sys
  | .call _ _ _ _ _ _ => s
  | .serve i => serve g.host s i
  | .post c sv o a id x => post s c sv o a id x
  | .deliver i => deliver s i
  | .other t sv o a => other g.host s t sv o a

inductive FAct where
  | out (a : Action)
  | inn (a : Action)
  | forward (i : Nat)        -- the mailbox hands request `i` to the client object: `go c.handleCall(msg, from)`
  | answer (k : Nat)         -- the call of goroutine `k` has returned: it answers the request it holds
  deriving Repr

def answerRec (c : CallRec) : Res → CallRec
  | .reply v => { c with stage := .answered (.reply v), execs := c.execs + 1, responses := c.responses + 1 }
  | .error => { c with stage := .answered .error, responses := c.responses + 1 }

def stepF (g : Cfg) (s : FSys) : FAct → FSys
  | .out a => { s with out := outStep g s.out a }
  | .inn a => { s with inn := innStep g s.inn a }
  | .forward i =>
    match s.out.calls[i]? with
    | some c =>
      if c.stage == .sent && !c.isPost && forwarded g c && !(s.fwd.any (fun fw => fw.outer == i)) then
        { s with inn := call s.inn 0 c.key.obj c.key.svc (g.remote c.key.svc c.key.obj) c.key.act c.arg,
                 fwd := s.fwd ++ [{ outer := i, inner := s.inn.calls.length }] }
      else s
    | none => s
  | .answer k =>
    match s.fwd[k]? with
    | some fw =>
      if fw.answered then s else
      match s.inn.calls[fw.inner]?, s.out.calls[fw.outer]? with
      | some cj, some c =>
        match cj.outcome with
        | some r =>
          if c.stage != .sent then s else
          { s with out := { s.out with calls := s.out.calls.set fw.outer (answerRec c r) },
                   fwd := s.fwd.set k { fw with answered := true } }
        | none => s
      | _, _ => s
    | none => s

def runF (g : Cfg) (s : FSys) : List FAct → FSys
  | [] => s
  | a :: r => runF g (stepF g s a) r

end QiVerif.Forward
