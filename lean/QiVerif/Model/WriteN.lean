/-
  `basic.WriteN(w, buf, length)` (type/basic/basic.go), the retry loop transcribed, against any `io.Writer`.
  What a writer does with one `Write(p)` is one `WResp`: it takes at most `n` bytes of `p` (the first ones) and
  reports nothing, the end of the stream, or another error.  `got` is everything the writer has taken so far.

      size := 0
      for size < length {
          write, err := w.Write(buf[size:])
          size += write
          if err == nil && write != 0 { continue }
          else if err == io.EOF && size == length { break }
          else if err == io.EOF && size == 0 { return io.EOF }
          else { return error }                       -- "no progress" when err == nil
      }
      return nil
-/
import QiVerif.Bytes
namespace QiVerif.WriteN
open QiVerif

inductive WErr where
  | none | eof | other
  deriving Repr, DecidableEq

structure WResp where
  n : Nat
  err : WErr
  deriving Repr, DecidableEq

/-- the loop from `size` on; a writer whose responses run out is one that fails -/
def loop (buf : Bytes) : List WResp → Nat → Bytes → Res Unit × Bytes
  | [], size, got => if buf.length ≤ size then (.ok (), got) else (.error .err, got)
  | r :: rs, size, got =>
    if buf.length ≤ size then (.ok (), got) else
    let p := buf.drop size
    let w := min r.n p.length
    let got' := got ++ p.take w
    let size' := size + w
    match r.err with
    | .none => if w ≠ 0 then loop buf rs size' got' else (.error .err, got')
    | .eof =>
      if size' = buf.length then (.ok (), got')
      else if size' = 0 then (.error .eof, got')
      else (.error .err, got')
    | .other => (.error .err, got')

def writeN (buf : Bytes) (rs : List WResp) : Res Unit × Bytes := loop buf rs 0 []

/-- the writer that takes at most `k` bytes per call and never reports anything -/
def pieces (k n : Nat) : List WResp := List.replicate n ⟨k, .none⟩

end QiVerif.WriteN
