/-
  The lock discipline of one Go function, intraprocedurally.  harness/cmd/extract/locks.go translates every function and
  function literal under bus/ that touches a mutex into a `Prog` — its control skeleton: `Lock` / `RLock`, `Unlock` /
  `RUnlock`, `defer ….Unlock()`, `return` / `panic`, `if` / `else`, `for` / `range`, `switch` / `select`, `break`,
  `continue` — on every run (Generated/Locks.lean).  `Run` is every execution of a skeleton: any branch, any number of
  rounds; `outs` computes every outcome (a loop must leave what is held as it found it) and `safe` accepts a skeleton all
  of whose outcomes end holding nothing.  Props/Locks.lean: `safe_sound`.  Not followed: what the functions it calls
  lock; mutexes handed over between goroutines (the translator emits `.unknown` for what it does not follow, and the
  checker refuses it).
-/
namespace QiVerif.Locks

/-- the control skeleton of a Go function, as far as its mutexes are concerned -/
inductive Prog where
  | skip
  | seq (a b : Prog)
  | lock (m : Nat)            -- `m.Lock()` / `m.RLock()` (a read lock is a mutex of its own number)
  | unlock (m : Nat)
  | dunlock (m : Nat)         -- `defer m.Unlock()`
  | ret                       -- `return`, `panic(…)`
  | ite (a b : Prog)          -- either branch
  | loop (a : Prog)           -- `for`, `range`: any number of rounds
  | catch (a : Prog)          -- `switch` / `select`: a `break` inside ends it
  | brk
  | cont
  | act (k : Nat)             -- something that may wait for another party: 0 a channel send, 1 a channel receive, 2 a message sent to a peer, 3 a call to a peer, 4 a `Wait`
  | unknown                   -- something the translator does not follow (a labelled jump, a deferred closure that unlocks)
  deriving Repr, DecidableEq

/-- what this goroutine holds, and what it has deferred -/
structure St where
  held : List Nat := []
  deferred : List Nat := []
  deriving Repr, DecidableEq

inductive Out where
  | normal (s : St)
  | returned (s : St)
  | broke (s : St)
  | continued (s : St)
  | bad                       -- locked what it holds (it waits for itself), unlocked what it does not hold, or `unknown`
  deriving Repr, DecidableEq

/-- one execution of the skeleton: every choice of branch and of the number of rounds -/
inductive Run : Prog → St → Out → Prop where
  | skip (s) : Run .skip s (.normal s)
  | lockOk (m s) : m ∉ s.held → Run (.lock m) s (.normal { s with held := m :: s.held })
  | lockBad (m s) : m ∈ s.held → Run (.lock m) s .bad
  | unlockOk (m s) : m ∈ s.held → Run (.unlock m) s (.normal { s with held := s.held.erase m })
  | unlockBad (m s) : m ∉ s.held → Run (.unlock m) s .bad
  | dunlock (m s) : Run (.dunlock m) s (.normal { s with deferred := m :: s.deferred })
  | ret (s) : Run .ret s (.returned s)
  | brk (s) : Run .brk s (.broke s)
  | cont (s) : Run .cont s (.continued s)
  | act (k s) : Run (.act k) s (.normal s)
  | unknown (s) : Run .unknown s .bad
  | seqGo (a b s s' o) : Run a s (.normal s') → Run b s' o → Run (.seq a b) s o
  | seqStop (a b s o) : Run a s o → (∀ s', o ≠ .normal s') → Run (.seq a b) s o
  | iteL (a b s o) : Run a s o → Run (.ite a b) s o
  | iteR (a b s o) : Run b s o → Run (.ite a b) s o
  | loopEnd (a s) : Run (.loop a) s (.normal s)
  | loopNext (a s s' o) : Run a s (.normal s') → Run (.loop a) s' o → Run (.loop a) s o
  | loopCont (a s s' o) : Run a s (.continued s') → Run (.loop a) s' o → Run (.loop a) s o
  | loopBrk (a s s') : Run a s (.broke s') → Run (.loop a) s (.normal s')
  | loopRet (a s s') : Run a s (.returned s') → Run (.loop a) s (.returned s')
  | loopBad (a s) : Run a s .bad → Run (.loop a) s .bad
  | catchBrk (a s s') : Run a s (.broke s') → Run (.catch a) s (.normal s')
  | catchOther (a s o) : Run a s o → (∀ s', o ≠ .broke s') → Run (.catch a) s o

/-- every outcome, computed: a loop must leave what is held as it found it -/
def outs : Prog → St → List Out
  | .skip, s => [.normal s]
  | .lock m, s => if m ∈ s.held then [.bad] else [.normal { s with held := m :: s.held }]
  | .unlock m, s => if m ∈ s.held then [.normal { s with held := s.held.erase m }] else [.bad]
  | .dunlock m, s => [.normal { s with deferred := m :: s.deferred }]
  | .ret, s => [.returned s]
  | .brk, s => [.broke s]
  | .cont, s => [.continued s]
  | .act _, s => [.normal s]
  | .unknown, _ => [.bad]
  | .seq a b, s =>
    (outs a s).flatMap (fun o => match o with
      | .normal s' => outs b s'
      | o => [o])
  | .ite a b, s => outs a s ++ outs b s
  | .loop a, s =>
    let os := outs a s
    if os.all (fun o => match o with
        | .normal s' => s' == s
        | .continued s' => s' == s
        | _ => true) then
      .normal s :: os.map (fun o => match o with
        | .broke s' => .normal s'
        | .continued s' => .normal s'
        | o => o)
    else [.bad]
  | .catch a, s => (outs a s).map (fun o => match o with
      | .broke s' => .normal s'
      | o => o)

/-- the deferred unlocks run, the last one first: what is still held afterwards (none: one of them unlocks what is not held) -/
def final : List Nat → List Nat → Option (List Nat)
  | held, [] => some held
  | held, m :: ds => if m ∈ held then final (held.erase m) ds else none

/-- the function ends — by a `return` or at its end — holding nothing -/
def exitOk : Out → Bool
  | .normal s => final s.held s.deferred == some []
  | .returned s => final s.held s.deferred == some []
  | _ => false

def safe (p : Prog) : Bool := (outs p {}).all exitOk

/-- an execution together with what it did that may wait for another party *while it held a mutex*, in order -/
inductive RunT : Prog → St → Out → List Nat → Prop where
  | skip (s) : RunT .skip s (.normal s) []
  | lockOk (m s) : m ∉ s.held → RunT (.lock m) s (.normal { s with held := m :: s.held }) []
  | lockBad (m s) : m ∈ s.held → RunT (.lock m) s .bad []
  | unlockOk (m s) : m ∈ s.held → RunT (.unlock m) s (.normal { s with held := s.held.erase m }) []
  | unlockBad (m s) : m ∉ s.held → RunT (.unlock m) s .bad []
  | dunlock (m s) : RunT (.dunlock m) s (.normal { s with deferred := m :: s.deferred }) []
  | ret (s) : RunT .ret s (.returned s) []
  | brk (s) : RunT .brk s (.broke s) []
  | cont (s) : RunT .cont s (.continued s) []
  | act (k s) : RunT (.act k) s (.normal s) (if s.held.isEmpty then [] else [k])
  | unknown (s) : RunT .unknown s .bad []
  | seqGo (a b s s' o t1 t2) : RunT a s (.normal s') t1 → RunT b s' o t2 → RunT (.seq a b) s o (t1 ++ t2)
  | seqStop (a b s o t) : RunT a s o t → (∀ s', o ≠ .normal s') → RunT (.seq a b) s o t
  | iteL (a b s o t) : RunT a s o t → RunT (.ite a b) s o t
  | iteR (a b s o t) : RunT b s o t → RunT (.ite a b) s o t
  | loopEnd (a s) : RunT (.loop a) s (.normal s) []
  | loopNext (a s s' o t1 t2) : RunT a s (.normal s') t1 → RunT (.loop a) s' o t2 → RunT (.loop a) s o (t1 ++ t2)
  | loopCont (a s s' o t1 t2) : RunT a s (.continued s') t1 → RunT (.loop a) s' o t2 → RunT (.loop a) s o (t1 ++ t2)
  | loopBrk (a s s' t) : RunT a s (.broke s') t → RunT (.loop a) s (.normal s') t
  | loopRet (a s s' t) : RunT a s (.returned s') t → RunT (.loop a) s (.returned s') t
  | loopBad (a s t) : RunT a s .bad t → RunT (.loop a) s .bad t
  | catchBrk (a s s' t) : RunT a s (.broke s') t → RunT (.catch a) s (.normal s') t
  | catchOther (a s o t) : RunT a s o t → (∀ s', o ≠ .broke s') → RunT (.catch a) s o t

/-- what may wait for another party under a mutex, computed -/
def acts : Prog → St → List Nat
  | .act k, s => if s.held.isEmpty then [] else [k]
  | .seq a b, s => acts a s ++ (outs a s).flatMap (fun o => match o with
      | .normal s' => acts b s'
      | _ => [])
  | .ite a b, s => acts a s ++ acts b s
  | .loop a, s => acts a s
  | .catch a, s => acts a s
  | _, _ => []

end QiVerif.Locks
