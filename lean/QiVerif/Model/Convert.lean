/-
  Model of type/conversion/conversion.go: `ConvertFrom(&zero, you)`.
  Go values are modelled without pointers (the property's domain: scalars,
  slices, maps, structs); the conversion is directed by the *target type* and
  the *kind of the source value*, exactly like `convertFrom`'s switch.
-/
import QiVerif.Bytes
namespace QiVerif.Convert
open QiVerif

/-- field names are character lists (kernel-reducible, unlike `String` operations) -/
abbrev FName := List Char

inductive GoType where
  | bool
  | int (bits : Nat)      -- int8/16/32/64 (Go's `int` is 64 bits here)
  | uint (bits : Nat)
  | f32
  | f64
  | str
  | slice (t : GoType)
  | map (k v : GoType)
  | struct (fs : List (FName × GoType))
  deriving Repr, Inhabited

inductive GoVal where
  | bool (b : Bool)
  | int (i : Int)
  | uint (n : Nat)
  | f32 (bits : UInt32)
  | f64 (bits : UInt64)
  | str (s : String)
  | slice (xs : List GoVal)
  | map (kvs : List (GoVal × GoVal))
  | struct (fs : List (FName × GoVal))
  deriving Repr, Inhabited

/-- the two float conversions Go performs in `SetFloat(w.Float())`; instantiated
    with the machine's IEEE operations in the driver, a parameter in the theorems -/
structure FloatOps where
  widen : UInt32 → UInt64     -- float64(float32)
  narrow : UInt64 → UInt32    -- float32(float64)

/-- two's-complement wrap to `k` bits, signed (what `reflect.Value.SetInt` stores) -/
def wrapS (k : Nat) (i : Int) : Int :=
  (i + 2 ^ (k - 1)) % 2 ^ k - 2 ^ (k - 1)

/-- wrap to `k` bits, unsigned (`SetUint(uint64(i))`) -/
def wrapU (k : Nat) (i : Int) : Nat := (i % 2 ^ k).toNat

def mapRes {α β} (f : α → Res β) : List α → Res (List β)
  | [] => .ok []
  | x :: xs =>
    match f x with
    | .error e => .error e
    | .ok y =>
      match mapRes f xs with
      | .error e => .error e
      | .ok ys => .ok (y :: ys)

/-- one map entry: convert the key, then the value -/
def pairStep (fk fv : GoVal → Res GoVal) (p : GoVal × GoVal) : Res (GoVal × GoVal) :=
  match fk p.1 with
  | .error e => .error e
  | .ok a =>
    match fv p.2 with
    | .error e => .error e
    | .ok b => .ok (a, b)

/-- `strings.ToLower` on field names (ASCII identifiers) -/
def lower (s : FName) : FName := s.map Char.toLower

/-- first field whose lower-cased name matches -/
def lookupField {α} (n : FName) : List (FName × α) → Option α
  | [] => none
  | (m, v) :: r => if lower m == lower n then some v else lookupField n r

mutual
def zero : GoType → GoVal
  | .bool => .bool false
  | .int _ => .int 0
  | .uint _ => .uint 0
  | .f32 => .f32 0
  | .f64 => .f64 0
  | .str => .str ""
  | .slice _ => .slice []
  | .map _ _ => .map []
  | .struct fs => .struct (zeroFields fs)
def zeroFields : List (FName × GoType) → List (FName × GoVal)
  | [] => []
  | (n, t) :: r => (n, zero t) :: zeroFields r
end

mutual
/-- `convertFrom(v, w)` with `v` a settable zero value of type `τ` -/
def convert (ops : FloatOps) : GoType → GoVal → Res GoVal
  | .bool, .bool b => .ok (.bool b)
  | .str, .str s => .ok (.str s)
  | .int k, .int i => .ok (.int (wrapS k i))                    -- AsInt64 then SetInt
  | .int k, .uint n => .ok (.int (wrapS k (wrapS 64 n)))        -- int64(w.Uint()) then SetInt
  | .uint k, .int i => .ok (.uint (wrapU k i))                  -- SetUint(uint64(i))
  | .uint k, .uint n => .ok (.uint (wrapU k (wrapS 64 n)))
  | .f32, .f32 b => .ok (.f32 (ops.narrow (ops.widen b)))
  | .f32, .f64 b => .ok (.f32 (ops.narrow b))
  | .f64, .f32 b => .ok (.f64 (ops.widen b))
  | .f64, .f64 b => .ok (.f64 b)
  | .slice t, .slice xs =>
    match mapRes (convert ops t) xs with
    | .ok ys => .ok (.slice ys)
    | .error e => .error e
  | .map k v, .map kvs =>
    match mapRes (pairStep (convert ops k) (convert ops v)) kvs with
    | .ok ys => .ok (.map ys)
    | .error e => .error e
  | .struct fs, .struct ws =>
    match convertFields ops fs ws with
    | .ok r => .ok (.struct r)
    | .error e => .error e
  | _, _ => .error .err
/-- `convertStruct`: every target field takes the first source field of the same
    lower-cased name; unmatched target fields stay zero -/
def convertFields (ops : FloatOps) : List (FName × GoType) → List (FName × GoVal) → Res (List (FName × GoVal))
  | [], _ => .ok []
  | (n, t) :: rest, ws =>
    match lookupField n ws with
    | none =>
      match convertFields ops rest ws with
      | .ok r => .ok ((n, zero t) :: r)
      | .error e => .error e
    | some w =>
      match convert ops t w with
      | .error e => .error e
      | .ok v =>
        match convertFields ops rest ws with
        | .ok r => .ok ((n, v) :: r)
        | .error e => .error e
end

end QiVerif.Convert
