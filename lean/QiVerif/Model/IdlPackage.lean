/-
  Model of the package level of the IDL parser (meta/idl/parser.go: member, structure, enumConst,
  enum, interfaceParser, declaration, declarationsList, packageName, packageParser, ParsePackage,
  ParseIDL; meta/idl/idl.go: generateStructure, GenerateIDL).  Built on the type layer
  (Model/Idl.lean), the action lines (Model/IdlLines.lean) and the scope (Model/IdlScope.lean).
  `And` gives up without consuming, `Kleene` stops at the first element that does not parse,
  `OrdChoice` takes the first alternative that parses, `Maybe` rewinds.
-/
import QiVerif.Model.IdlScope
namespace QiVerif.Idl

def kwStruct : Bytes := [115, 116, 114, 117, 99, 116]                       -- "struct"
def kwEnd : Bytes := [101, 110, 100]                                         -- "end"
def kwEnum : Bytes := [101, 110, 117, 109]                                   -- "enum"
def kwInterface : Bytes := [105, 110, 116, 101, 114, 102, 97, 99, 101]       -- "interface"
def kwPackage : Bytes := [112, 97, 99, 107, 97, 103, 101]                    -- "package"

/-- `member`: ident `:` type comments -/
def parseMember (f : Nat) (inp : Bytes) : Option (Param × Bytes) :=
  match parseParam f inp with
  | none => none
  | some (p, r) => some (p, (parseComment r).2)

/-- `Kleene(member)` -/
def parseMembers : Nat → Nat → Bytes → List Param × Bytes
  | 0, _, inp => ([], inp)
  | k + 1, f, inp =>
    match parseMember f inp with
    | none => ([], inp)
    | some (p, r) =>
      let (ps, r') := parseMembers k f r
      (p :: ps, r')

/-- `structure`: `struct` typeIdent comments members `end` comments -/
def parseStruct (k f : Nat) (inp : Bytes) : Option (Decl × Bytes) :=
  match atom kwStruct inp with
  | none => none
  | some r0 =>
    match typeIdent r0 with
    | none => none
    | some (n, r1) =>
      let r2 := (parseComment r1).2
      let (ms, r3) := parseMembers k f r2
      match atom kwEnd r3 with
      | none => none
      | some r4 => some (⟨n, ms⟩, (parseComment r4).2)

/-- `parsec.Int()`: `-?[0-9]+` after white space; what is left -/
def parseInt (inp : Bytes) : Option Bytes :=
  let s := skipWS inp
  let s' := match s with | 45 :: r => r | r => r
  let (ds, rest) := spanDigits s'
  if ds.isEmpty then none else some rest

/-- `enumConst`: ident `=` Int comments -/
def parseEnumConst (inp : Bytes) : Option Bytes :=
  match ident inp with
  | none => none
  | some (_, r1) =>
    match atom [61] r1 with
    | none => none
    | some r2 =>
      match parseInt r2 with
      | none => none
      | some r3 => some (parseComment r3).2

def parseEnumConsts : Nat → Bytes → Bytes
  | 0, inp => inp
  | k + 1, inp =>
    match parseEnumConst inp with
    | none => inp
    | some r => parseEnumConsts k r

/-- `enum`: `enum` ident comments constants `end` comments; the name -/
def parseEnum (k : Nat) (inp : Bytes) : Option (Bytes × Bytes) :=
  match atom kwEnum inp with
  | none => none
  | some r0 =>
    match ident r0 with
    | none => none
    | some (n, r1) =>
      let r2 := (parseComment r1).2
      let r3 := parseEnumConsts k r2
      match atom kwEnd r3 with
      | none => none
      | some r4 => some (n, (parseComment r4).2)

/-- `interfaceParser`: `interface` ident comments actions `end` comments -/
def parseInterface (k f : Nat) (inp : Bytes) : Option ((Bytes × List Action) × Bytes) :=
  match atom kwInterface inp with
  | none => none
  | some r0 =>
    match ident r0 with
    | none => none
    | some (n, r1) =>
      let r2 := (parseComment r1).2
      let (as, r3) := parseActions k f r2
      match atom kwEnd r3 with
      | none => none
      | some r4 => some ((n, as), (parseComment r4).2)

/-- what a package declares -/
inductive PDecl where
  | struct (d : Decl)
  | enum (name : Bytes)
  | itf (name : Bytes) (actions : List Action)
  deriving Inhabited

/-- `declaration`: structure, enum, interface — in this order -/
def parseDecl (k f : Nat) (inp : Bytes) : Option (PDecl × Bytes) :=
  match parseStruct k f inp with
  | some (d, r) => some (.struct d, r)
  | none =>
    match parseEnum k inp with
    | some (n, r) => some (.enum n, r)
    | none =>
      match parseInterface k f inp with
      | some ((n, as), r) => some (.itf n as, r)
      | none => none

/-- `Kleene(declaration)` -/
def parseDecls : Nat → Nat → Nat → Bytes → List PDecl × Bytes
  | 0, _, _, inp => ([], inp)
  | j + 1, k, f, inp =>
    match parseDecl k f inp with
    | none => ([], inp)
    | some (d, r) =>
      let (ds, r') := parseDecls j k f r
      (d :: ds, r')

def isPkgChar (c : UInt8) : Bool := isWord c || c == 45 || c == 46

def spanPkg : Bytes → Bytes × Bytes
  | [] => ([], [])
  | c :: r => if isPkgChar c then let (a, rest) := spanPkg r; (c :: a, rest) else ([], c :: r)

/-- `packageName`: Maybe(`package` `[_A-Za-z][0-9a-zA-Z-._]*` comments) -/
def parsePackageName (inp : Bytes) : Bytes × Bytes :=
  match atom kwPackage inp with
  | none => ([], inp)
  | some r0 =>
    match skipWS r0 with
    | [] => ([], inp)
    | c :: r =>
      if !isAlphaU c then ([], inp) else
      let (w, rest) := spanPkg r
      (c :: w, (parseComment rest).2)

/-- `ParsePackage`: the name and the declarations; `none`: something is left that is no declaration -/
def parsePackage (text : Bytes) : Option (Bytes × List PDecl) :=
  let (name, r0) := parsePackageName text
  let (ds, r1) := parseDecls (text.length + 1) (text.length + 1) (2 * text.length + 4) r0
  if (skipWS r1).isEmpty then some (name, ds) else none

/-- the scope after the parse: structs and interfaces, in the order of the text (`sc.Add`) -/
def scopeOfDecls : List PDecl → List Entry
  | [] => []
  | .struct d :: r => .struct d :: scopeOfDecls r
  | .enum _ :: r => scopeOfDecls r
  | .itf n _ :: r => .itf n :: scopeOfDecls r

/-! ### the printers -/

def printMember (p : Param) : Bytes := [9] ++ p.name ++ [58, 32] ++ printT p.ty ++ [10]     -- "\t<name>: <type>\n"

def printMembers : List Param → Bytes
  | [] => []
  | p :: r => printMember p ++ printMembers r

/-- `generateStructure` -/
def printStruct (d : Decl) : Bytes :=
  kwStruct ++ [32] ++ d.name ++ [10] ++ printMembers d.members ++ kwEnd ++ [10]

def printStructs : List Decl → Bytes
  | [] => []
  | d :: r => printStruct d ++ printStructs r

/-- an interface block of `GenerateIDL` -/
def printInterface (n : Bytes) (as : List Action) : Bytes :=
  kwInterface ++ [32] ++ n ++ [10] ++ printActions as ++ kwEnd ++ [10]

def printInterfaces : List (Bytes × List Action) → Bytes
  | [] => []
  | (n, as) :: r => printInterface n as ++ printInterfaces r

/-- `GenerateIDL`: the header, the interfaces, the structs -/
def printPackage (name : Bytes) (itfs : List (Bytes × List Action)) (structs : List Decl) : Bytes :=
  kwPackage ++ [32] ++ name ++ [10] ++ printInterfaces itfs ++ printStructs structs

end QiVerif.Idl
