/-
  Model of the action lines and interface blocks of the IDL (meta/idl/parser.go: method, signal,
  property, parameters, parameter, returns, comments, ident, interfaceParser; meta/idl/idl.go:
  generateMethod, generateSignal, generateProperty).  Built on the type layer of Model/Idl.lean:
  every terminal skips white space first (line ends included), `Maybe` rewinds, `Many` with a
  separator keeps a consumed trailing separator.
-/
import QiVerif.Model.Idl
namespace QiVerif.Idl

structure Param where
  name : Bytes
  ty : IT
  deriving Inhabited

inductive Kind where
  | fn | sig | prop
  deriving DecidableEq, Repr, Inhabited

structure Action where
  kind : Kind
  name : Bytes
  params : List Param
  ret : Option IT          -- `none`: nothing is returned (always `none` for signals and properties)
  uid : Nat                -- 0: no `//uid:` comment
  deriving Inhabited

/-- `ident()`: `[_A-Za-z][0-9a-zA-Z_]*` after white space -/
def ident (inp : Bytes) : Option (Bytes × Bytes) :=
  match skipWS inp with
  | [] => none
  | c :: r =>
    if !isAlphaU c then none else
    let (w, rest) := spanWord r
    some (c :: w, rest)

def isDigit (c : UInt8) : Bool := 48 ≤ c && c ≤ 57

def spanDigits : Bytes → Bytes × Bytes
  | [] => ([], [])
  | c :: r => if isDigit c then let (a, rest) := spanDigits r; (c :: a, rest) else ([], c :: r)

def digitsVal (ds : Bytes) : Nat := ds.foldl (fun acc c => acc * 10 + (c.toNat - 48)) 0

/-- up to the end of the line: Token(`.*`) after white space -/
def spanLine : Bytes → Bytes × Bytes
  | [] => ([], [])
  | c :: r => if c == 10 then ([], c :: r) else let (a, rest) := spanLine r; (c :: a, rest)

/-- `fmt.Sscanf(comment, "uid:%d", &uid)` on the forms the printer writes (digits) -/
def scanUid (c : Bytes) : Option Nat :=
  match stripPrefix [117, 105, 100, 58] c with       -- "uid:"
  | none => none
  | some r =>
    let (ds, _) := spanDigits r
    if ds.isEmpty then none else some (digitsVal ds)

/-- `comments()`: Maybe(`//` then the rest of the line); the uid it carries, 0 if none -/
def parseComment (inp : Bytes) : Nat × Bytes :=
  match atom [47, 47] inp with
  | none => (0, inp)
  | some r =>
    let (c, rest) := spanLine (skipWS r)
    ((scanUid c).getD 0, rest)

/-- `parameter`: ident `:` type -/
def parseParam (f : Nat) (inp : Bytes) : Option (Param × Bytes) :=
  match ident inp with
  | none => none
  | some (n, r1) =>
    match atom [58] r1 with
    | none => none
    | some r2 =>
      match parseT f r2 with
      | none => none
      | some (t, r3) => some (⟨n, t⟩, r3)

/-- `Many(parameter, ",")` after the first parameter -/
def parseMoreParams : Nat → Nat → Bytes → List Param × Bytes
  | 0, _, inp => ([], inp)
  | k + 1, f, inp =>
    match atom [comma] inp with
    | none => ([], inp)
    | some r1 =>
      match parseParam f r1 with
      | none => ([], r1)
      | some (p, r2) =>
        let (ps, r3) := parseMoreParams k f r2
        (p :: ps, r3)

/-- `parameters`: Maybe(Many(parameter, ",")) -/
def parseParams (f : Nat) (inp : Bytes) : List Param × Bytes :=
  match parseParam f inp with
  | none => ([], inp)
  | some (p, r) =>
    let (ps, r') := parseMoreParams inp.length f r
    (p :: ps, r')

/-- `returns`: Maybe(`->` type) -/
def parseReturns (f : Nat) (inp : Bytes) : Option IT × Bytes :=
  match atom [45, 62] inp with
  | none => (none, inp)
  | some r =>
    match parseT f r with
    | none => (none, inp)
    | some (t, r') => (some t, r')

def kwFn : Bytes := [102, 110]
def kwSig : Bytes := [115, 105, 103]
def kwProp : Bytes := [112, 114, 111, 112]

/-- the common shape of the three actions: keyword ident `(` parameters `)` [returns] comments -/
def parseActionOf (kw : Bytes) (kind : Kind) (withRet : Bool) (f : Nat) (inp : Bytes) : Option (Action × Bytes) :=
  match atom kw inp with
  | none => none
  | some r0 =>
    match ident r0 with
    | none => none
    | some (n, r1) =>
      match atom [40] r1 with
      | none => none
      | some r2 =>
        let (ps, r3) := parseParams f r2
        match atom [41] r3 with
        | none => none
        | some r4 =>
          let (ret, r5) := if withRet then parseReturns f r4 else (none, r4)
          let (uid, r6) := parseComment r5
          some ({ kind := kind, name := n, params := ps, ret := ret, uid := uid }, r6)

/-- `action`: method, signal, property — in this order -/
def parseAction (f : Nat) (inp : Bytes) : Option (Action × Bytes) :=
  match parseActionOf kwFn .fn true f inp with
  | some r => some r
  | none =>
    match parseActionOf kwSig .sig false f inp with
    | some r => some r
    | none => parseActionOf kwProp .prop false f inp

/-- `Kleene(action)` -/
def parseActions : Nat → Nat → Bytes → List Action × Bytes
  | 0, _, inp => ([], inp)
  | k + 1, f, inp =>
    match parseAction f inp with
    | none => ([], inp)
    | some (a, r) =>
      let (as, r') := parseActions k f r
      (a :: as, r')

/-! ### from the list of actions to the interface (`nodifyActionList`) -/

structure Itf where
  methods : List (Nat × Action) := []
  signals : List (Nat × Action) := []
  props : List (Nat × Action) := []
  deriving Inhabited

/-- a Go map: the last write of a key wins -/
def putA (m : List (Nat × Action)) (k : Nat) (a : Action) : List (Nat × Action) :=
  (m.filter (·.1 != k)) ++ [(k, a)]

/-- an action without uid gets the next free custom id (100, 101, …); `registerEvent` keeps 0 -/
def assignIds : List Action → Nat → Itf → Itf
  | [], _, itf => itf
  | a :: r, next, itf =>
    let needs := a.uid == 0 && !(a.kind == .fn && a.name == [114, 101, 103, 105, 115, 116, 101, 114, 69, 118, 101, 110, 116])
    let uid := if needs then next else a.uid
    let next' := if needs then next + 1 else next
    let a' := { a with uid := uid }
    let itf' := match a.kind with
      | .fn => { itf with methods := putA itf.methods uid a' }
      | .sig => { itf with signals := putA itf.signals uid a' }
      | .prop => { itf with props := putA itf.props uid a' }
    assignIds r next' itf'

/-! ### the printers (`generateMethod`, `generateSignal`, `generateProperty`) -/

def digitsOf (n : Nat) : Bytes := (Nat.toDigits 10 n).map (fun c => UInt8.ofNat c.toNat)

def printParam (p : Param) : Bytes := p.name ++ [58, 32] ++ printT p.ty       -- "name: type"

/-- the separator between parameters: `generateMethod` writes "," , `ParamIDL` (signals,
    properties) writes ", " -/
def sepOf : Kind → Bytes
  | .fn => [comma]
  | _ => [comma, 32]

def printParams (sep : Bytes) : List Param → Bytes
  | [] => []
  | [p] => printParam p
  | p :: r => printParam p ++ sep ++ printParams sep r

def kindKw : Kind → Bytes
  | .fn => kwFn | .sig => kwSig | .prop => kwProp

/-- one action line: "\t<kw> <name>(<params>) [-> <type> ]//uid:<n>\n" -/
def printAction (a : Action) : Bytes :=
  [9] ++ kindKw a.kind ++ [32] ++ a.name ++ [40] ++ printParams (sepOf a.kind) a.params ++ [41, 32] ++
    (match a.ret with | some t => [45, 62, 32] ++ printT t ++ [32] | none => []) ++
    [47, 47, 117, 105, 100, 58] ++ digitsOf a.uid ++ [10]

def printActions : List Action → Bytes
  | [] => []
  | a :: r => printAction a ++ printActions r

end QiVerif.Idl
