/-
  Model of bus/service.go (`serviceImpl`: objects, boxes, Add, Remove, Receive),
  the remote `terminate` action of bus/object.go and `signalHandler.OnTerminate`
  of bus/signal.go, at the granularity the property speaks about: which object
  instance a message reaches, whether it is invoked, what is answered, how often
  its termination hook ran and which subscribers were told.
-/
namespace QiVerif.Service

/-- one object instance (an `Actor` added to the service); `uid` identifies the
    instance, not its object id (ids may be handed out again after removal) -/
structure Obj where
  uid : Nat
  invoked : Nat := 0          -- how often a method body of the object ran
  terminated : Nat := 0       -- how often its OnTerminate hook ran
  subs : List Nat := []       -- subscriptions (by subscriber handle) still registered
  told : List Nat := []       -- subscribers that were sent the "Object terminated" error
  deriving Repr, DecidableEq

structure Svc where
  objects : List (Nat × Obj) := []   -- object id ↦ instance (`serviceImpl.objects`)
  boxes : List Nat := []             -- object ids that have a mailbox (`serviceImpl.boxes`)
  dead : List Obj := []              -- removed instances with their final counters
  next : Nat := 0                    -- next instance uid
  deriving Repr

inductive Op where
  | add (id : Nat)                 -- `Add` drew object id `id`
  | remove (id : Nat)              -- local `Remove(id)`
  | call (id : Nat)                -- a remote call of an ordinary method of object `id`
  | terminate (id arg : Nat)       -- the remote `terminate(arg)` action sent to object `id`
  | subscribe (id sub : Nat)       -- registerEvent sent to object `id` for subscriber handle `sub`
  deriving Repr, DecidableEq

inductive Out where
  | added (uid : Nat)
  | retry                          -- id already in use: `Add` draws again
  | ok
  | err                            -- local error return
  | reply                          -- Reply frame
  | errorReply                     -- Error frame
  deriving Repr, DecidableEq

def lookup (id : Nat) : List (Nat × Obj) → Option Obj
  | [] => none
  | (k, o) :: r => if k = id then some o else lookup id r

def erase (id : Nat) : List (Nat × Obj) → List (Nat × Obj)
  | [] => []
  | (k, o) :: r => if k = id then erase id r else (k, o) :: erase id r

def update (id : Nat) (f : Obj → Obj) : List (Nat × Obj) → List (Nat × Obj)
  | [] => []
  | (k, o) :: r => if k = id then (k, f o) :: update id f r else (k, o) :: update id f r

/-- `stubObject.OnTerminate`: the hook runs, every remaining subscriber is sent the
    terminate error, the subscription table is emptied -/
def Obj.onTerminate (o : Obj) : Obj :=
  { o with terminated := o.terminated + 1, told := o.told ++ o.subs, subs := [] }

/-- `serviceImpl.Remove` (with the mailbox dropped as well) -/
def removeObj (s : Svc) (id : Nat) : Option Svc :=
  match lookup id s.objects with
  | none => none
  | some o =>
    some { s with objects := erase id s.objects, boxes := s.boxes.filter (· ≠ id),
                  dead := s.dead ++ [o.onTerminate] }

def step (s : Svc) : Op → Svc × Out
  | .add id =>
    match lookup id s.objects with
    | some _ => (s, .retry)
    | none =>
      ({ s with objects := s.objects ++ [(id, { uid := s.next })], boxes := s.boxes ++ [id],
                next := s.next + 1 }, .added s.next)
  | .remove id =>
    match removeObj s id with
    | some s' => (s', .ok)
    | none => (s, .err)
  | .call id =>
    if s.boxes.contains id then
      match lookup id s.objects with
      | some _ => ({ s with objects := update id (fun o => { o with invoked := o.invoked + 1 }) s.objects }, .reply)
      | none => (s, .errorReply)   -- mailbox of a pending object
    else (s, .errorReply)          -- `from.SendError(m, ErrObjectNotFound)`
  | .terminate id arg =>
    if s.boxes.contains id then
      -- `objectImpl.Terminate`: remote objects do not know their id (0 is accepted)
      if arg ≠ 0 ∧ id < 2147483648 ∧ arg ≠ id then (s, .errorReply)
      else match removeObj s id with
        | some s' => (s', .reply)
        | none => (s, .reply)
    else (s, .errorReply)
  | .subscribe id sub =>
    if s.boxes.contains id then
      match lookup id s.objects with
      | some _ => ({ s with objects := update id (fun o => { o with subs := o.subs ++ [sub] }) s.objects }, .reply)
      | none => (s, .errorReply)
    else (s, .errorReply)

def run (s : Svc) : List Op → Svc
  | [] => s
  | op :: r => run (step s op).1 r

end QiVerif.Service
