/-
  Model of the names the generators give to what they declare
  (type/object/metaobject_decorator.go: registerName, ForEachMethodAndSignal;
  meta/signature/name.go: CleanMethodName, reservedMethods; meta/stub/stub.go and meta/idl/proxy.go:
  the method sets of the implementor interface, the stub type and the proxy interface).
  Names are lists of characters.
-/
namespace QiVerif.Names

abbrev Name := List Char

/-- the names `registerName` tries: the name itself, then name_0, name_1, … -/
def candidate (name : Name) : Nat → Name
  | 0 => name
  | i + 1 => name ++ '_' :: Nat.toDigits 10 i

/-- `registerName`: the first of the first hundred candidates that is not in use; if all are, the
    hundred-and-first whatever its state -/
def registerName (name : Name) (used : List Name) : Name :=
  match (List.range 100).find? (fun i => !used.contains (candidate name i)) with
  | some i => candidate name i
  | none => candidate name 100

/-- `ForEachMethodAndSignal`: the names in the order of the walk, each registered against those before -/
def registerAll : List Name → List Name → List Name
  | _, [] => []
  | used, n :: r => registerName n used :: registerAll (registerName n used :: used) r

def s (x : String) : Name := x.toList

/-- `strings.Title` on an identifier: the first letter in upper case -/
def title : Name → Name
  | [] => []
  | c :: r => c.toUpper :: r

/-- `reservedMethods` of meta/signature/name.go -/
def reserved : List Name :=
  ["Subscribe", "MetaObject", "Properties", "Property", "RegisterEvent", "RegisterEventWithSignature", "SetProperty",
   "Terminate", "UnregisterEvent", "Call", "CallID", "MethodID", "ObjectID", "OnDisconnect", "PropertyID", "ProxyService",
   "ServiceID", "SignalID", "Subscribe", "SubscribeID", "IsStatsEnabled", "EnableStats", "Stats", "ClearStats",
   "IsTraceEnabled", "EnableTrace", "SubscribeTraceObject", "Proxy", "WithContext"].map s

/-- the methods a specialized proxy has before any IDL method is added: those of bus.ObjectProxy
    (object.Object included) and the one the generator declares itself -/
def embedded : List Name :=
  ["IsStatsEnabled", "EnableStats", "Stats", "ClearStats", "IsTraceEnabled", "EnableTrace", "SubscribeTraceObject",
   "MetaObject", "Terminate", "RegisterEvent", "UnregisterEvent", "RegisterEventWithSignature", "Property", "SetProperty",
   "Properties", "Proxy", "WithContext"].map s

/-- `CleanMethodName` on a registered (already titled) name -/
def cleanMethodName (n : Name) : Name := if reserved.contains n then s "Do" ++ n else n

structure Actions where
  methods : List Name
  signals : List Name
  props : List Name

/-- the walk of `ForEachMethodAndSignal`: methods, signals, properties share one name table -/
def registered (a : Actions) : List Name × List Name × List Name :=
  let all := registerAll [] ((a.methods ++ a.signals ++ a.props).map title)
  (all.take a.methods.length, (all.drop a.methods.length).take a.signals.length,
   all.drop (a.methods.length + a.signals.length))

/-- the methods of the implementor interface -/
def implementorNames (a : Actions) : List Name :=
  let (m, _, p) := registered a
  [s "Activate", s "OnTerminate"] ++ m ++ p.map (fun x => s "On" ++ x ++ s "Change")

/-- the methods of the stub type: its own, one per method, the signal and property helpers -/
def stubNames (a : Actions) : List Name :=
  let (m, sg, p) := registered a
  [s "Activate", s "OnTerminate", s "Receive", s "onPropertyChange", s "metaObject"] ++ m ++
    sg.map (s "Signal" ++ ·) ++ p.map (s "Update" ++ ·)

/-- the methods the proxy interface declares itself (it also embeds bus.ObjectProxy, whose
    methods are the reserved names) -/
def proxyNames (a : Actions) : List Name :=
  let (m, sg, p) := registered a
  embedded ++ m.map cleanMethodName ++ sg.map (s "Subscribe" ++ ·) ++
    p.flatMap (fun x => [s "Get" ++ x, s "Set" ++ x, s "Subscribe" ++ x])

def dups : List Name → List Name
  | [] => []
  | x :: r => if r.contains x then x :: dups r else dups r

/-- the names declared twice in one of the generated method sets: the Go compiler refuses the package -/
def clashes (a : Actions) : List Name := dups (implementorNames a) ++ dups (stubNames a) ++ dups (proxyNames a)

end QiVerif.Names
