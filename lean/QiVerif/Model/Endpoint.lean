/-
  Model of the handler table of bus/net/endpoint.go: MakeHandler, RemoveHandler,
  dispatch (filters in slot order, non-blocking enqueue, synchronous close of
  non-keep handlers), closeWith (every slot emptied under the lock, one
  asynchronous close per handler).  Each action is one critical section of
  `handlersMutex` (the lock structure is regenerated in Generated/Endpoint.lean).
-/
namespace QiVerif.Endpoint

/-- what a handler's filter does (a pure function of the header, as the API requires) and the
    capacity of its queue -/
structure Spec where
  modulus : Nat        -- matches a message when `action % modulus = residue` (modulus 0: never)
  residue : Nat
  dropOn : Nat         -- the filter answers keep = false for the message with this id (0: never)
  cap : Nat            -- queue capacity
  dropNeedsMatch : Bool := false  -- keep = false only for a message that also matches (the client's filters)
  deriving Repr, DecidableEq

/-- bookkeeping per registered handler -/
structure HS where
  uid : Nat                 -- registration number (handlers are never confused with each other)
  spec : Spec
  queued : Nat := 0         -- messages in the queue, not yet taken by the consumer
  received : List Nat := [] -- ids of the messages enqueued, in order
  closer : Nat := 0         -- how often the close callback ran
  closed : Nat := 0         -- how often the queue was closed
  deriving Repr

structure Msg where
  action : Nat
  id : Nat
  isCall : Bool
  deriving Repr, DecidableEq

/-- the endpoint: the slot table (a handler lives *in* its slot), the handlers whose
    asynchronous close is scheduled, and the handlers that are done -/
structure EP where
  slots : List (Option HS) := List.replicate 10 none
  pending : List HS := []       -- `go handler.closeWith(err)` not yet run
  done : List HS := []          -- closed handlers, with their final counters
  next : Nat := 0               -- next registration number
  errorReplies : Nat := 0       -- "consumer blocked" error replies sent for calls
  closed : Bool := false        -- `closeWith` has run: nothing is registered any more
  deriving Repr

def Spec.matches (s : Spec) (m : Msg) : Bool := s.modulus != 0 && m.action % s.modulus == s.residue
def Spec.keeps (s : Spec) (m : Msg) : Bool :=
  !(s.dropOn != 0 && m.id == s.dropOn && (!s.dropNeedsMatch || s.matches m))

/-- `Handler.closeWith`: the callback, then the close of the queue -/
def HS.close (h : HS) : HS := { h with closer := h.closer + 1, closed := h.closed + 1 }

/-- put a handler into the first free slot, else append a slot; returns the slot index -/
def place (h : HS) : List (Option HS) → Nat → List (Option HS) × Nat
  | [], i => ([some h], i)
  | none :: r, i => (some h :: r, i)
  | some x :: r, i => let (r', j) := place h r (i + 1); (some x :: r', j)

/-- `MakeHandler`.  On a closed endpoint the handler gets no slot: its close is scheduled at once and
    the identifier returned (-1 in the code, 0 here: see `EP.closed`) names no handler. -/
def make (e : EP) (s : Spec) : EP × Nat :=
  if e.closed then ({ e with pending := e.pending ++ [{ uid := e.next, spec := s }], next := e.next + 1 }, 0) else
  let (sl, i) := place { uid := e.next, spec := s } e.slots 0
  ({ e with slots := sl, next := e.next + 1 }, i)

/-- take the handler out of slot `id`, if there is one -/
def takeSlot : List (Option HS) → Nat → Option (HS × List (Option HS))
  | [], _ => none
  | none :: _, 0 => none
  | some h :: r, 0 => some (h, none :: r)
  | x :: r, i + 1 => match takeSlot r i with
    | some (h, r') => some (h, x :: r')
    | none => none

/-- `RemoveHandler`: closer and close run inside the critical section -/
def remove (e : EP) (id : Nat) : EP × Bool :=
  match takeSlot e.slots id with
  | some (h, sl) => ({ e with slots := sl, done := e.done ++ [h.close] }, true)
  | none => (e, false)

inductive DispatchResult where
  | delivered | noMatch | blocked | noHandler
  deriving Repr, DecidableEq

/-- the loop of `dispatch`: every handler in slot order; a matching handler with room gets the
    message; a handler whose filter answers keep = false is closed and leaves its slot.
    Returns the new slots, the handlers closed by this dispatch, the error-reply count and the
    result so far. -/
def dispatchLoop (m : Msg) : List (Option HS) → Nat → DispatchResult →
    List (Option HS) × List HS × Nat × DispatchResult
  | [], errs, res => ([], [], errs, res)
  | none :: r, errs, res =>
    let (sl, cl, errs', res') := dispatchLoop m r errs res
    (none :: sl, cl, errs', res')
  | some h :: r, errs, res =>
    let matched := h.spec.matches m
    let enq := matched && decide (h.queued < h.spec.cap)
    let h1 := if enq then { h with queued := h.queued + 1, received := h.received ++ [m.id] } else h
    let res1 := if matched then (if enq then (if res == .noMatch then .delivered else res) else .blocked) else res
    let errs1 := if matched && !enq && m.isCall then errs + 1 else errs
    let (sl, cl, errs', res') := dispatchLoop m r errs1 res1
    if h.spec.keeps m then (some h1 :: sl, cl, errs', res')
    else (none :: sl, h1.close :: cl, errs', res')

/-- `dispatch` -/
def dispatch (e : EP) (m : Msg) : EP × DispatchResult :=
  if e.slots.isEmpty then (e, .noHandler) else
  let (sl, cl, errs, res) := dispatchLoop m e.slots e.errorReplies .noMatch
  ({ e with slots := sl, done := e.done ++ cl, errorReplies := errs }, res)

/-- the consumer of the handler in slot `id` takes `k` messages out of its queue -/
def drain (e : EP) (id k : Nat) : EP :=
  { e with slots := e.slots.mapIdx (fun i s => if i = id then s.map (fun h => { h with queued := h.queued - k }) else s) }

/-- `endPoint.closeWith`: under the lock every slot is emptied and one asynchronous close is
    scheduled per handler -/
def closeAll (e : EP) : EP :=
  { e with pending := e.pending ++ e.slots.filterMap id, slots := e.slots.map (fun _ => none), closed := true }

/-- the first scheduled `go handler.closeWith(err)` with registration number `uid` runs -/
def asyncClose (e : EP) (uid : Nat) : EP :=
  match e.pending.find? (·.uid == uid) with
  | some h => { e with pending := e.pending.filter (·.uid != uid), done := e.done ++ [h.close] }
  | none => e

inductive Action where
  | make (s : Spec)
  | remove (id : Nat)
  | dispatch (m : Msg)
  | drain (id k : Nat)
  | closeAll
  | async (uid : Nat)
  deriving Repr

def step (e : EP) : Action → EP
  | .make s => (make e s).1
  | .remove id => (remove e id).1
  | .dispatch m => (dispatch e m).1
  | .drain id k => drain e id k
  | .closeAll => closeAll e
  | .async uid => asyncClose e uid

def run (e : EP) : List Action → EP
  | [] => e
  | a :: r => run (step e a) r

end QiVerif.Endpoint
