/-
  Model of the scope of an IDL package and of the resolution of type references in it
  (meta/idl/scope.go: Add, Search; meta/idl/ref.go: RefType.visit / leave / Signature;
  meta/signature/type.go: StructType.Signature, TupleType.Signature, …; meta/idl/interface.go:
  InterfaceType.Signature).

  A reference is resolved lazily, when the signature of an action is asked for: `Search` finds the
  declaration that was added first under that name, a struct answers with the signatures of its
  members — which may be references again.  Every reference in the text is an object of its own
  (`NewRefType` in `makeNodifyTypeReference`); it carries the flag `resolving`, set while the type
  it refers to is visited: a reference met again while its flag is set belongs to a definition that
  contains itself, and answers with an error name instead of being followed for ever.

  A reference is identified here by where it stands: the declaration that owns it (0: the type of
  an action, i + 1: the i-th entry of the scope) and the path to it inside that owner's members.
-/
import QiVerif.Model.IdlLines
namespace QiVerif.Idl

/-- a struct block: its name and its members (field name, type) -/
structure Decl where
  name : Bytes
  members : List Param
  deriving Inhabited

/-- what `Add` puts into the scope: struct blocks and interface blocks, in the order of the text -/
inductive Entry where
  | struct (d : Decl)
  | itf (name : Bytes)
  deriving Inhabited

def Entry.name : Entry → Bytes
  | .struct d => d.name
  | .itf n => n

/-- `Search` after all the `Add`s: a name that is added again is refused, the first entry stays -/
def findAt : List Entry → Bytes → Nat → Option (Nat × Entry)
  | [], _, _ => none
  | e :: r, n, i => if e.name == n then some (i, e) else findAt r n (i + 1)

/-- where a reference stands: (owner, path) -/
abbrev NodeId := Nat × List Nat

/-- `signature.NewStructType(msg, nil).Signature()`: "()<msg>" -/
def errSig (msg : Bytes) : Bytes := [40, 41, 60] ++ msg ++ [62]

def msgNotFound : Bytes := [110, 111, 116, 32, 102, 111, 117, 110, 100, 32, 105, 110, 32, 115, 99, 111, 112, 101, 58, 32]
  -- "not found in scope: "
def msgRecursive : Bytes :=
  [114, 101, 99, 117, 114, 115, 105, 118, 101, 32, 116, 121, 112, 101, 32, 100, 101, 102, 105, 110, 105, 116, 105, 111, 110, 58, 32]
  -- "recursive type definition: "

def fieldNames : List Param → Bytes
  | [] => []
  | p :: r => [44] ++ p.name ++ fieldNames r

/-- `StructType.Signature()`, the signatures of the members given -/
def structSig (d : Decl) (members : Bytes) : Bytes :=
  match d.members with
  | [] => [40, 41, 60] ++ d.name ++ [62]
  | _ => [40] ++ members ++ [41, 60] ++ d.name ++ fieldNames d.members ++ [62]

def tys (ps : List Param) : List IT := ps.map (·.ty)

mutual
/-- the signature of a type whose references answer through `expand`; `none`: `expand` gave up -/
def sigWith (expand : NodeId → Bytes → Option Bytes) (owner : Nat) : List Nat → IT → Option Bytes
  | _, .basic k => some (sigLetter k)
  | path, .vec t => (sigWith expand owner (path ++ [0]) t).map (fun s => [91] ++ s ++ [93])
  | path, .map k v =>
    match sigWith expand owner (path ++ [0]) k, sigWith expand owner (path ++ [1]) v with
    | some a, some c => some ([123] ++ a ++ c ++ [125])
    | _, _ => none
  | path, .tuple ts => (sigWiths expand owner path 0 ts).map (fun s => [40] ++ s ++ [41])
  | path, .ref n => expand (owner, path) n
def sigWiths (expand : NodeId → Bytes → Option Bytes) (owner : Nat) : List Nat → Nat → List IT → Option Bytes
  | _, _, [] => some []
  | path, i, t :: r =>
    match sigWith expand owner (path ++ [i]) t, sigWiths expand owner path (i + 1) r with
    | some a, some c => some (a ++ c)
    | _, _ => none
end

/-- `RefType.Signature()` with the guard of `visit`: `busy` are the references whose flag is set
    (the references on the way down to this one).  `fuel` bounds the depth of the visit; `none` says
    that the bound was reached (Props/C18Scope.lean: with the guard it never is). -/
def expandAt (sc : List Entry) : Nat → List NodeId → NodeId → Bytes → Option Bytes
  | fuel, busy, node, n =>
    match findAt sc n 0 with
    | none => some (errSig (msgNotFound ++ n))
    | some (i, e) =>
      if busy.contains node then some (errSig (msgRecursive ++ n)) else
      match e with
      | .itf _ => some [111]
      | .struct d =>
        match fuel with
        | 0 => none
        | f + 1 => (sigWiths (expandAt sc f (node :: busy)) (i + 1) [] 0 (tys d.members)).map (structSig d)

/-- the code before the repair: no flag, a reference is followed whenever it is met -/
def expandOld (sc : List Entry) : Nat → NodeId → Bytes → Option Bytes
  | fuel, _, n =>
    match findAt sc n 0 with
    | none => some (errSig (msgNotFound ++ n))
    | some (i, e) =>
      match e with
      | .itf _ => some [111]
      | .struct d =>
        match fuel with
        | 0 => none
        | f + 1 => (sigWiths (expandOld sc f) (i + 1) [] 0 (tys d.members)).map (structSig d)

mutual
/-- the references of a type, by position -/
def nodesT (owner : Nat) : List Nat → IT → List NodeId
  | _, .basic _ => []
  | path, .vec t => nodesT owner (path ++ [0]) t
  | path, .map k v => nodesT owner (path ++ [0]) k ++ nodesT owner (path ++ [1]) v
  | path, .tuple ts => nodesTs owner path 0 ts
  | path, .ref _ => [(owner, path)]
def nodesTs (owner : Nat) : List Nat → Nat → List IT → List NodeId
  | _, _, [] => []
  | path, i, t :: r => nodesT owner (path ++ [i]) t ++ nodesTs owner path (i + 1) r
end

/-- all the references that stand in the declarations of a scope -/
def scopeNodes : List Entry → Nat → List NodeId
  | [], _ => []
  | .struct d :: r, i => nodesTs (i + 1) [] 0 (tys d.members) ++ scopeNodes r (i + 1)
  | .itf _ :: r, i => scopeNodes r (i + 1)

/-- `Signature()` of the type of an action, references resolved in the scope of the package -/
def resolve (sc : List Entry) (t : IT) : Option Bytes :=
  sigWith (expandAt sc ((scopeNodes sc 0).length + (nodesT 0 [] t).length) []) 0 [] t

/-- `Signature()` of a struct block itself (not through a reference); `owner` tells its references
    from those of every other declaration -/
def resolveDecl (sc : List Entry) (owner : Nat) (d : Decl) : Option Bytes :=
  (sigWiths (expandAt sc ((scopeNodes sc 0).length + (nodesTs owner [] 0 (tys d.members)).length) []) owner [] 0 (tys d.members)).map
    (structSig d)

/-- the same before the repair, the depth bounded by `fuel` -/
def resolveOld (sc : List Entry) (fuel : Nat) (t : IT) : Option Bytes :=
  sigWith (expandOld sc fuel) 0 [] t

end QiVerif.Idl
