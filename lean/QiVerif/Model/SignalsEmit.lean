/-
  The server's side of a signal with the grain of the code: `UpdateSignal` copies the users of the signal under
  the read lock and then writes one event per copied user (bus/signal.go); registrations and removals are handled
  by other goroutines and may fall between the copy and any of the writes.  One emitter.  Everything the server
  writes is logged in order.  (Theorems: Props/C13Emit.lean.)
-/
import QiVerif.Model.Signals
namespace QiVerif.C13Emit
open QiVerif QiVerif.Signals

/-! ### the server's side, one write at a time -/

inductive Frame where
  | reg (conn uid : Nat)                       -- the reply to registerEvent
  | ack (conn uid begun : Nat) (busy : Bool)   -- the reply to unregisterEvent; ghost: emissions begun so far, one still sending?
  | ev (conn uid e : Nat)                      -- the event of emission `e` for the registration `uid`
  deriving DecidableEq, Repr

structure S where
  users : List User := []
  log : List Frame := []                 -- what the server has written, newest first
  begun : Nat := 0                       -- emissions that have taken their snapshot
  cur : Option (List User) := none       -- what is left to send of the snapshot of emission `begun - 1`

inductive Act where
  | register (u : User)
  | unregister (uid conn : Nat)
  | emitBegin (sig : Nat)                -- `UpdateSignal`: the copy under the read lock
  | emitSend                             -- `UpdateSignal`: one `replyEvent`
  deriving Repr

def step (s : S) : Act → S
  | .register u =>
    match addUser s.users u with
    | some us => { s with users := us, log := .reg u.conn u.uid :: s.log }
    | none => s
  | .unregister uid conn =>
    match removeUser s.users uid conn with
    | some us => { s with users := us, log := .ack conn uid s.begun s.cur.isSome :: s.log }
    | none => s
  | .emitBegin sig =>
    match s.cur with
    | some _ => s                        -- one emitter: the emission before has to finish
    | none =>
      let snap := s.users.filter (fun u => u.sig == sig)
      { s with begun := s.begun + 1, cur := if snap.isEmpty then none else some snap }
  | .emitSend =>
    match s.cur with
    | some (x :: r) =>
      { s with log := .ev x.conn x.uid (s.begun - 1) :: s.log, cur := if r.isEmpty then none else some r }
    | _ => s

def run (s : S) : List Act → S
  | [] => s
  | a :: r => run (step s a) r

/-- what the server has written, oldest first -/
def history (s : S) : List Frame := s.log.reverse

/-- two registrations on two connections; an emission takes its snapshot, sends to the first; the second
    unregisters and is acknowledged; the emission sends to the second: an event after the acknowledgement -/
def raceActs : List Act :=
  [.register ⟨7, 102, 0⟩, .register ⟨9, 102, 1⟩, .emitBegin 102, .emitSend, .unregister 9 1, .emitSend]


end QiVerif.C13Emit
