/-
  `serviceImpl.Receive` against `serviceImpl.Remove` (bus/service.go): any number of connection goroutines hand one
  message each to an object through `Receive` — the service's read lock around the look-up of the mailbox, then the
  send into the mailbox, which waits while the mailbox (a channel of `cap` messages) is full — while the object's own
  goroutine takes the messages one by one; a message may be a `terminate`, which makes that goroutine call `Remove`:
  the write lock, the object and its mailbox deleted from the maps, the lock released.  The mutex is Go's `RWMutex`:
  a `Lock` that waits keeps new readers out.

  The sender's program is data, compiled from the tokens regenerated from `Receive` (Tie/C16.lean); the object's
  goroutine is the fixed machine below.
-/
namespace QiVerif.Mailbox

abbrev Tid := Nat

inductive Instr where
  | rlock | runlock
  | lookup               -- box, ok := s.boxes[id]
  | ifMissing (skip : Nat) -- `if !ok {`: when the mailbox was found, skip the next `skip` instructions
  | retErr               -- return from.SendError(m, ErrObjectNotFound)
  | send                 -- box <- mail (waits while the mailbox is full)
  | ret                  -- return nil
  deriving Repr, DecidableEq

inductive Tok where
  | instr (i : Instr) | opn | cls | skip

def tokOf : String → Tok
  | "RLock" => .instr .rlock | "RUnlock" => .instr .runlock | "read boxes" => .instr .lookup
  | "if !ok {" => .opn | "}" => .cls | "send box" => .instr .send | "return nil" => .instr .ret
  | "return from.SendError(m, ErrObjectNotFound)" => .instr .retErr
  | _ => .skip

def countBody : List Tok → Nat
  | [] => 0
  | .cls :: _ => 0
  | .instr _ :: r => 1 + countBody r
  | .opn :: r => 1 + countBody r
  | .skip :: r => countBody r

def resolve : List Tok → List Instr
  | [] => []
  | .instr i :: r => i :: resolve r
  | .opn :: r => .ifMissing (countBody r) :: resolve r
  | .cls :: r => resolve r
  | .skip :: r => resolve r

def compile (toks : List String) : List Instr := resolve (toks.map tokOf)

/-- the tokens of `Receive` as it reads -/
def expectedTokens : List String :=
  ["RLock", "read boxes", "RUnlock", "if !ok {", "call from.SendError", "return from.SendError(m, ErrObjectNotFound)", "}",
   "send box", "return nil"]

/-- the program the theorems are about -/
def prog : List Instr := [.rlock, .lookup, .runlock, .ifMissing 1, .retErr, .send, .ret]

inductive Ret where
  | running | ok | err
  deriving Repr, DecidableEq

structure TS where
  pc : Nat := 0
  found : Bool := false
  ret : Ret := .running
  deriving Repr

/-- the object's goroutine -/
inductive CPhase where
  | idle                     -- waits for a message
  | handling (term : Bool)   -- runs the action of the message it took; `term`: the action is `terminate`
  | wantLock                 -- in `Remove`, at `s.Lock()`
  | inside                   -- holds the write lock
  deriving Repr, DecidableEq

structure Sys where
  th : Tid → TS := fun _ => {}
  rd : Tid → Bool := fun _ => false    -- which goroutines hold the read lock
  wr : Bool := false                   -- the object's goroutine holds the write lock
  pend : Bool := false                 -- it has announced its `Lock` and waits for the readers inside to leave
  box : Nat := 0                       -- messages in the mailbox
  present : Bool := true               -- the object and its mailbox are in the service's maps
  cph : CPhase := .idle
  handled : Nat := 0                   -- messages the object has taken

def upd {α} (f : Tid → α) (t : Tid) (v : α) : Tid → α := fun u => if u = t then v else f u

/-- one step of sender `t < n` of program `p`; `none`: it cannot move -/
def stepS (p : List Instr) (n cap : Nat) (s : Sys) (t : Tid) : Option Sys :=
  if n ≤ t then none else
  let ts := s.th t
  if ts.ret ≠ .running then none else
  match p[ts.pc]? with
  | none => none
  | some i =>
    let next (ts' : TS) : TS := { ts' with pc := ts.pc + 1 }
    match i with
    | .rlock =>
      if s.wr || s.pend then none
      else some { s with rd := upd s.rd t true, th := upd s.th t (next ts) }
    | .runlock => some { s with rd := upd s.rd t false, th := upd s.th t (next ts) }
    | .lookup => some { s with th := upd s.th t (next { ts with found := s.present }) }
    | .ifMissing k =>
      if ts.found then some { s with th := upd s.th t { ts with pc := ts.pc + 1 + k } }
      else some { s with th := upd s.th t (next ts) }
    | .retErr => some { s with th := upd s.th t { ts with ret := .err } }
    | .send =>
      if s.box < cap then some { s with box := s.box + 1, th := upd s.th t (next ts) }
      else none
    | .ret => some { s with th := upd s.th t { ts with ret := .ok } }

/-- one step of the object's goroutine; `term`: the message it takes (if it takes one) is a `terminate` -/
def stepC (n : Nat) (s : Sys) (term : Bool) : Option Sys :=
  match s.cph with
  | .idle => if 0 < s.box then some { s with box := s.box - 1, cph := .handling term, handled := s.handled + 1 } else none
  | .handling false => some { s with cph := .idle }
  | .handling true => some { s with cph := .wantLock }
  | .wantLock =>
    if !s.pend then some { s with pend := true }
    else if (List.range n).any s.rd then none
    else some { s with pend := false, wr := true, cph := .inside }
  | .inside => some { s with present := false, wr := false, cph := .idle }

/-- who moves: a sender, or the object's goroutine -/
inductive Who where
  | sender (t : Tid)
  | object (term : Bool)
  deriving Repr

def step (p : List Instr) (n cap : Nat) (s : Sys) : Who → Option Sys
  | .sender t => stepS p n cap s t
  | .object b => stepC n s b

def run (p : List Instr) (n cap : Nat) : Sys → List Who → Sys
  | s, [] => s
  | s, w :: r =>
    match step p n cap s w with
    | some s' => run p n cap s' r
    | none => run p n cap s r

end QiVerif.Mailbox
