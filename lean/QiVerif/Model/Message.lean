/-
  Model of bus/net/message.go: header layout, Header.Write / Header.Read,
  Message.Write / Message.Read over the `io.Reader` model of `Bytes.lean`.
-/
import QiVerif.Bytes
namespace QiVerif.Message
open QiVerif

/-- how one header field is put on the wire -/
inductive FieldEnc where
  | be32 | le32 | le16 | u8
  deriving Repr, DecidableEq

def FieldEnc.width : FieldEnc → Nat
  | .be32 => 4 | .le32 => 4 | .le16 => 2 | .u8 => 1

def FieldEnc.enc : FieldEnc → Nat → Bytes
  | .be32, n => QiVerif.be32 n
  | .le32, n => QiVerif.le32 n
  | .le16, n => QiVerif.le16 n
  | .u8, n => [UInt8.ofNat n]

def FieldEnc.dec : FieldEnc → Bytes → Nat
  | .be32, b => fromBE32 b
  | .le32, b => fromLE32 b
  | .le16, b => fromLE16 b
  | .u8, b => match b with | [a] => a.toNat | _ => 0

/-- the validity check `Header.Read` applies right after reading a field -/
inductive Check where
  | none
  | neMagic      -- `h.Magic != Magic`
  | neVersion    -- `h.Version != Version`
  | badType      -- `h.Type == Unknown || h.Type > Cancelled`
  deriving Repr, DecidableEq

structure Header where
  magic : Nat
  id : Nat
  size : Nat
  version : Nat
  type : Nat
  flags : Nat
  service : Nat
  object : Nat
  action : Nat
  deriving Repr, DecidableEq

def magicConst : Nat := 0x42dead42
def versionConst : Nat := 0
def headerSize : Nat := 28
def typeUnknown : Nat := 0
def typeCancelled : Nat := 8

def Check.fails : Check → Nat → Bool
  | .none, _ => false
  | .neMagic, v => v != magicConst
  | .neVersion, v => v != versionConst
  | .badType, v => v == typeUnknown || v > typeCancelled

def Header.get (h : Header) : String → Nat
  | "Magic" => h.magic | "ID" => h.id | "Size" => h.size | "Version" => h.version
  | "Type" => h.type | "Flags" => h.flags | "Service" => h.service
  | "Object" => h.object | "Action" => h.action | _ => 0

def Header.set (h : Header) (f : String) (v : Nat) : Header :=
  match f with
  | "Magic" => { h with magic := v } | "ID" => { h with id := v }
  | "Size" => { h with size := v } | "Version" => { h with version := v }
  | "Type" => { h with type := v } | "Flags" => { h with flags := v }
  | "Service" => { h with service := v } | "Object" => { h with object := v }
  | "Action" => { h with action := v } | _ => h

/-- field order and encodings of `Header.Write` (tied to the source by
    `Tie/Message.lean`) -/
def writeLayout : List (String × FieldEnc) :=
  [("Magic", .be32), ("ID", .le32), ("Size", .le32), ("Version", .le16), ("Type", .u8),
   ("Flags", .u8), ("Service", .le32), ("Object", .le32), ("Action", .le32)]

/-- field order, encodings and checks of `Header.Read` -/
def readLayout : List (String × FieldEnc × Check) :=
  [("Magic", .be32, .neMagic), ("ID", .le32, .none), ("Size", .le32, .none),
   ("Version", .le16, .neVersion), ("Type", .u8, .badType), ("Flags", .u8, .none),
   ("Service", .le32, .none), ("Object", .le32, .none), ("Action", .le32, .none)]

def encodeFields (h : Header) : List (String × FieldEnc) → Bytes
  | [] => []
  | (f, e) :: rest => e.enc (h.get f) ++ encodeFields h rest

/-- `Header.Write` into a buffer -/
def encodeHeader (h : Header) : Bytes := encodeFields h writeLayout

def zeroHeader : Header := ⟨0, 0, 0, 0, 0, 0, 0, 0, 0⟩

def decodeFields : List (String × FieldEnc × Check) → Bytes → Header → Res Header
  | [], _, h => .ok h
  | (f, e, c) :: rest, b, h =>
    match takeN e.width b with
    | .error er => .error er
    | .ok (fb, b') =>
      let v := e.dec fb
      if c.fails v then .error .err else decodeFields rest b' (h.set f v)

/-- `Header.Read` from the 28-byte buffer -/
def decodeHeader (b : Bytes) : Res Header := decodeFields readLayout b zeroHeader

structure Msg where
  header : Header
  payload : Bytes
  deriving Repr, DecidableEq

/-- `Message.Write`: size check, then exactly one `Write` call carrying header ++ payload.
    The result is the list of buffers handed to the external writer. -/
def writeMsg (m : Msg) : Res (List Bytes) :=
  if m.payload.length % 4294967296 ≠ m.header.size then .error .err
  else .ok [encodeHeader m.header ++ m.payload]

def wire (m : Msg) : Bytes := encodeHeader m.header ++ m.payload

/-- `Message.Read`.  Returns the outcome and the stream left behind (on a header
    that is refused, the stream after the 28 header bytes: nothing of the payload
    has been touched). -/
def readMsg (maxPayload : Nat) (s : Stream) : Res Msg × Stream :=
  match readN headerSize s [] with
  | .error e => (.error e, s)
  | .ok (hb, s1) =>
    match decodeHeader hb with
    | .error _ => (.error .err, s1)
    | .ok h =>
      if h.size > maxPayload then (.error .err, s1)
      else if h.size = 0 then (.ok ⟨h, []⟩, s1)
      else match readN h.size s1 [] with
        | .error _ => (.error .err, s)   -- stream failure inside the payload
        | .ok (p, s2) => (.ok ⟨h, p⟩, s2)

/-- read up to `k` messages, stopping at the first failure -/
def readMsgs (maxPayload : Nat) : Nat → Stream → List Msg × Stream
  | 0, s => ([], s)
  | k + 1, s =>
    match readMsg maxPayload s with
    | (.error _, s') => ([], s')
    | (.ok m, s') =>
      let (ms, s'') := readMsgs maxPayload k s'
      (m :: ms, s'')

/-- a header the protocol allows -/
def ValidHeader (h : Header) : Prop :=
  h.magic = magicConst ∧ h.id < 4294967296 ∧ h.size < 4294967296 ∧ h.version = versionConst ∧
  1 ≤ h.type ∧ h.type ≤ 8 ∧ h.flags < 256 ∧ h.service < 4294967296 ∧
  h.object < 4294967296 ∧ h.action < 4294967296

def ValidMsg (maxPayload : Nat) (m : Msg) : Prop :=
  ValidHeader m.header ∧ m.header.size = m.payload.length ∧ m.payload.length ≤ maxPayload

/-- The layout as documented in doc/about-qimessaging.md ("Message Header"),
    stated byte offset by byte offset, independently of `encodeHeader`. -/
def docByte (h : Header) (off : Nat) : UInt8 :=
  let leByte (v : Nat) (i : Nat) : UInt8 := UInt8.ofNat (v / 256 ^ i)
  if off < 4 then (match off with | 0 => 0x42 | 1 => 0xde | 2 => 0xad | _ => 0x42)
  else if off < 8 then leByte h.id (off - 4)
  else if off < 12 then leByte h.size (off - 8)
  else if off < 14 then leByte h.version (off - 12)
  else if off = 14 then UInt8.ofNat h.type
  else if off = 15 then UInt8.ofNat h.flags
  else if off < 20 then leByte h.service (off - 16)
  else if off < 24 then leByte h.object (off - 20)
  else leByte h.action (off - 24)

def docLayout (h : Header) : Bytes := (List.range 28).map (docByte h)

end QiVerif.Message
