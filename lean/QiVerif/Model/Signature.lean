/-
  Model of meta/signature/signature.go + the `Signature()` / `SignatureIDL()` /
  `Type()` methods of meta/signature/type.go.

  The grammar is data (`rules`, tied to the source by Tie/C09.lean), the
  combinator semantics is `QiVerif.Peg.run`, the callbacks (`nodify*`) are the
  functions of `act` below, `parseSig` is `signature.Parse`.
-/
import QiVerif.Model.Peg
namespace QiVerif.Sig
open QiVerif QiVerif.Peg

/-- signature types.  `basic c`: one of the 16 one-letter types. -/
inductive Ty where
  | basic (c : UInt8)
  | list (t : Ty)
  | map (k v : Ty)
  | tuple (ts : List Ty)
  | struct (name : Bytes) (members : List (Bytes × Ty))
  deriving Repr, Inhabited

/-- the letters of `basicType()`, in the grammar's order -/
def basicLetters : List UInt8 := [73, 105, 115, 76, 108, 98, 102, 100, 109, 111, 88, 118, 99, 67, 119, 87]
--                               I   i    s    L   l    b   f    d    m    o    X   v    c   C   w    W

def intercalateB (sep : Bytes) : List Bytes → Bytes
  | [] => []
  | [x] => x
  | x :: r => x ++ sep ++ intercalateB sep r

mutual
/-- `Type.Signature()` -/
def print : Ty → Bytes
  | .basic c => [c]
  | .list t => [91] ++ print t ++ [93]
  | .map k v => [123] ++ print k ++ print v ++ [125]
  | .tuple ts => [40] ++ printList ts ++ [41]
  | .struct name ms =>
    match ms with
    | [] => [40, 41, 60] ++ name ++ [62]                       -- "()<Name>"
    | _ => [40] ++ printMembers ms ++ [41, 60] ++ name ++ memberNames ms ++ [62]
def printList : List Ty → Bytes
  | [] => []
  | t :: r => print t ++ printList r
def printMembers : List (Bytes × Ty) → Bytes
  | [] => []
  | (_, t) :: r => print t ++ printMembers r
def memberNames : List (Bytes × Ty) → Bytes
  | [] => []
  | (n, _) :: r => [44] ++ n ++ memberNames r
end

/-! ### the grammar (same value as the regenerated `Gen.SigGrammar.rules`) -/

def rules : List (String × Peg) :=
  [("arrayType",
     (.and [(.atom [91] "MapStart"), (.ref "declarationType"), (.atom [93] "MapClose")] "nodifyArrayType")),
   ("basicType",
     (.ord [(.atom [73] "uint32"), (.atom [105] "int32"), (.atom [115] "string"), (.atom [76] "uint64"),
      (.atom [108] "int64"), (.atom [98] "bool"), (.atom [102] "float32"), (.atom [100] "float64"),
      (.atom [109] "value"), (.atom [111] "github.com/lugu/qiloop/type/object.Object"),
      (.atom [88] "interface{}"), (.atom [118] "void"), (.atom [99] "int8"), (.atom [67] "uint8"),
      (.atom [119] "int16"), (.atom [87] "uint16")] "nodifyBasicType")),
   ("declarationType",
     (.ord [(.ref "basicType"), (.ref "mapType"), (.ref "arrayType"), (.ref "structType"),
      (.ref "tupleType")] "")),
   ("listType", (.kleene (.ref "declarationType") none "")),
   ("mapType",
     (.and [(.atom [123] "MapStart"), (.ref "declarationType"), (.ref "declarationType"),
      (.atom [125] "MapClose")] "nodifyMap")),
   ("structName", (.ordTokens [(.templateName, "structTemplateName"), (.ident, "structName")])),
   ("structType",
     (.and [(.atom [40] "TypeParameterStart"), (.ref "listType"), (.atom [41] "TypeParameterClose"),
      (.atom [60] "TypeDefinitionStart"), (.ref "structName"), (.ref "typeMemberList"),
      (.atom [62] "TypeDefinitionClose")] "nodifyStrucType")),
   ("tupleType",
     (.and [(.atom [40] "TypeParameterStart"), (.ref "listType"), (.atom [41] "TypeParameterClose")]
      "nodifyTupleType")),
   ("typeMemberList", (.kleene (.and [(.atom [44] "TypeComa"), (.ref "typeName")] "nodifyTypeMember") none "")),
   ("typeName", (.tok .ident "IDENT"))]

def lookupRule (n : String) : List (String × Peg) → Option Peg
  | [] => none
  | (k, p) :: r => if k == n then some p else lookupRule n r

/-! ### the callbacks -/

abbrev SNode := Node Ty

/-- `extractValue`: `object.([]Node)` then `nodes[0].(Type)`; a failed assertion is an error,
    an empty list is an index-out-of-range panic -/
def extractValue : SNode → Except Bool Ty      -- error false = error value, error true = panic
  | .list (.val t :: _) => .ok t
  | .list [] => .error true
  | .list _ => .error false
  | _ => .error false

def extractTypes : List SNode → Except Bool (List Ty)
  | [] => .ok []
  | n :: r =>
    match extractValue n with
    | .error b => .error b
    | .ok t =>
      match extractTypes r with
      | .error b => .error b
      | .ok ts => .ok (t :: ts)

def extractNames : List SNode → Except Bool (List Bytes)
  | [] => .ok []
  | .term _ v :: r =>
    match extractNames r with
    | .error b => .error b
    | .ok ns => .ok (v :: ns)
  | _ :: _ => .error false

def resultNode : Except Bool Ty → SNode
  | .ok t => .val t
  | .error true => .panic
  | .error false => .err

def zipMembers : List Bytes → List Ty → List (Bytes × Ty)
  | n :: ns, t :: ts => (n, t) :: zipMembers ns ts
  | _, _ => []

def act (name : String) (ns : List SNode) : SNode :=
  match name, ns with
  | "nodifyBasicType", [.term _ [c]] =>
    if basicLetters.contains c then .val (.basic c) else .err
  | "nodifyBasicType", [.term _ _] => .err
  | "nodifyBasicType", [_] => .panic              -- nodes[0].(*parsec.Terminal)
  | "nodifyBasicType", _ => .err                  -- len(nodes) != 1
  | "nodifyArrayType", [_, x, _] =>
    resultNode (match extractValue x with | .ok t => .ok (.list t) | .error b => .error b)
  | "nodifyArrayType", _ => .err
  | "nodifyMap", _ :: k :: v :: _ =>
    resultNode (match extractValue k with
      | .error b => .error b
      | .ok kt => match extractValue v with
        | .error b => .error b
        | .ok vt => .ok (.map kt vt))
  | "nodifyMap", _ => .panic                      -- nodes[1] / nodes[2] out of range
  | "nodifyTupleType", _ :: .list tl :: _ =>
    resultNode (match extractTypes tl with | .ok ts => .ok (.tuple ts) | .error b => .error b)
  | "nodifyTupleType", _ :: _ :: _ => .err         -- member type list is not a list
  | "nodifyTupleType", _ => .panic
  | "nodifyTypeMember", _ :: n :: _ => n
  | "nodifyTypeMember", _ => .panic
  | "nodifyStrucType", [_, tl, _, _, nm, names, _] =>
    match nm with
    | .term _ name =>
      match tl, names with
      | .list tls, .list nls =>
        (match extractTypes tls with
         | .error true => .panic
         | .error false => .err
         | .ok ts =>
           match extractNames nls with
           | .error true => .panic
           | .error false => .err
           | .ok nms => if ts.length != nms.length then .err else .val (.struct name (zipMembers nms ts)))
      | _, _ => .err
    | _ => .err
  | "nodifyStrucType", _ => .panic
  | _, _ => .panic

def grammar : Grammar Ty := { rules := fun n => lookupRule n rules, act := act }

/-- the Go call stack never gets deeper than this for an input of the given length (see
    `Props/C09.lean: fuel_suffices`) -/
def fuelFor (inp : Bytes) : Nat := 64 * (inp.length + 2)

/-- `MaxDepth`: how deep the types of a signature may be nested -/
def maxDepth : Nat := 1000

/-- `nesting`: the deepest nesting of brackets in the text (a closing bracket without an opening one is
    passed over) -/
def nestingFrom : Bytes → Nat → Nat → Nat
  | [], _, deepest => deepest
  | c :: r, depth, deepest =>
    if c == 91 || c == 123 || c == 40 then nestingFrom r (depth + 1) (max deepest (depth + 1))
    else if c == 93 || c == 125 || c == 41 then nestingFrom r (depth - 1) deepest
    else nestingFrom r depth deepest

def nesting (inp : Bytes) : Nat := nestingFrom inp 0 0

/-- `signature.Parse` before the repair: the parser proper, which calls itself once per level of
    nesting — in the code on the stack of the goroutine, which is finite -/
def parseSigU (inp : Bytes) : Res Ty :=
  match run grammar (fuelFor inp) (.ref "declarationType") inp with
  | .oof => .error .panic            -- would be a stack overflow; shown unreachable
  | .fail => .error .err             -- root == nil
  | .ok root rest =>
    if !rest.isEmpty then .error .err      -- "Signature not completely parsed"
    else match root with
      | .list [.val t] => .ok t
      | .list [_] => .error .err           -- "convert value"
      | .list _ => .error .err             -- "did not parse only one type"
      | .panic => .error .panic
      | _ => .error .err                   -- an error node, or "convert array"

/-- `signature.Parse`: a text nested deeper than `MaxDepth` is refused before the parser sees it -/
def parseSig (inp : Bytes) : Res Ty :=
  if nesting inp > maxDepth then .error .err else parseSigU inp

/-! ### derived representations -/

def basicIDL : UInt8 → String
  | 73 => "uint32" | 105 => "int32" | 115 => "str" | 76 => "uint64" | 108 => "int64" | 98 => "bool"
  | 102 => "float32" | 100 => "float64" | 109 => "any" | 111 => "obj" | 88 => "unknown"
  | 118 => "nothing" | 99 => "int8" | 67 => "uint8" | 119 => "int16" | 87 => "uint16" | _ => "?"

def bytesToString (b : Bytes) : String := String.ofList (b.map (fun x => Char.ofNat x.toNat))

/-- how reflect prints a struct type -/
def structString (fields : List String) : String :=
  if fields.isEmpty then "struct {}" else "struct { " ++ "; ".intercalate fields ++ " }"

mutual
/-- `Type.SignatureIDL()` -/
def idlName : Ty → String
  | .basic c => basicIDL c
  | .list t => "Vec<" ++ idlName t ++ ">"
  | .map k v => "Map<" ++ idlName k ++ "," ++ idlName v ++ ">"
  | .tuple ts => "Tuple<" ++ idlNames ts ++ ">"
  | .struct name _ => bytesToString name
def idlNames : List Ty → String
  | [] => ""
  | [t] => idlName t
  | t :: r => idlName t ++ "," ++ idlNames r
end

/-! ### `Type.Type()`: the reflect type, as `reflect.Type.String()` prints it.
    `none` = the call panics (`reflect.StructOf`: duplicate field, `reflect.MapOf`: invalid key). -/

def upperFirst : Bytes → Bytes
  | [] => []
  | b :: r => (if 97 ≤ b && b ≤ 122 then b - 32 else b) :: r

/-- `CleanName` on a grammar identifier: `strings.Title` upper-cases the first letter -/
def cleanName (n : Bytes) : Bytes := upperFirst n

def basicGo : UInt8 → String
  | 73 => "uint32" | 105 => "int32" | 115 => "string" | 76 => "uint64" | 108 => "int64" | 98 => "bool"
  | 102 => "float32" | 100 => "float64" | 109 => "*interface {}" | 111 => "OBJ" | 88 => "*error"
  | 118 => "struct {}" | 99 => "int8" | 67 => "uint8" | 119 => "int16" | 87 => "uint16" | _ => "?"

mutual
/-- `reflect.Type.Comparable()` of the Go representation -/
def comparable : Ty → Bool
  | .basic c => c != 111      -- `o`: the ObjectReference struct contains maps
  | .list _ => false
  | .map _ _ => false
  | .tuple ts => comparableList ts
  | .struct _ ms => comparableMembers ms
def comparableList : List Ty → Bool
  | [] => true
  | t :: r => comparable t && comparableList r
def comparableMembers : List (Bytes × Ty) → Bool
  | [] => true
  | (_, t) :: r => comparable t && comparableMembers r
end

def hasDup : List Bytes → Bool
  | [] => false
  | x :: r => r.contains x || hasDup r

def natToBytes (n : Nat) : Bytes := (toString n).toUTF8.toList

mutual
def goType : Ty → Option String
  | .basic c => some (basicGo c)
  | .list t => (goType t).map ("[]" ++ ·)
  | .map k v =>
    match goType k, goType v with
    | some a, some b => if comparable k then some ("map[" ++ a ++ "]" ++ b) else none
    | _, _ => none
  | .tuple ts =>
    match goFieldsT 0 ts with
    | none => none
    | some fs => some (structString fs)
  | .struct _ ms =>
    if hasDup (ms.map (fun m => cleanName m.1)) then
      -- the member types are built first; a panic there comes first too
      match goFieldsM ms with
      | none => none
      | some _ => none
    else
      match goFieldsM ms with
      | none => none
      | some fs => some (structString fs)
def goFieldsT : Nat → List Ty → Option (List String)
  | _, [] => some []
  | i, t :: r =>
    match goType t, goFieldsT (i + 1) r with
    | some a, some fs => some (("P" ++ toString i ++ " " ++ a) :: fs)
    | _, _ => none
def goFieldsM : List (Bytes × Ty) → Option (List String)
  | [] => some []
  | (n, t) :: r =>
    match goType t, goFieldsM r with
    | some a, some fs => some ((bytesToString (cleanName n) ++ " " ++ a) :: fs)
    | _, _ => none
end

end QiVerif.Sig
