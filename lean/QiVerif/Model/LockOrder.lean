/-
  The lock order of bus/, across functions.  harness/cmd/extract/lockorder.go translates every function and function
  literal under bus/ that takes a mutex, and everything such a function may call that may itself come to take one, into
  a `Locks.Prog` whose mutexes are numbered for the whole of bus/ and whose calls are `.act (1000 + index of the function
  called)` (`.act 999`: a call through a function value) — Generated/LockOrder.lean, on every run.

  `RunE` is `Locks.Run` with what the execution asked for, and what it held at that moment; `evs` computes every such
  request.  `acquires` closes "may take" under calls; `edges` is every pair (held, asked for), directly or through a
  call; `rankOf` orders the mutexes so that every edge goes upwards, when that is possible.  Props/LockOrder.lean:
  `evs_sound`, `asks_edges`, `ranked_no_deadlock`.
-/
import QiVerif.Model.Locks
namespace QiVerif.LockOrder
open QiVerif.Locks

/-- what an execution asks for, and what the function holds at that moment -/
inductive Ev where
  | lock (m : Nat) (held : List Nat)
  | call (k : Nat) (held : List Nat)
  deriving Repr, DecidableEq

/-- `Locks.Run` with the requests of the execution, in order -/
inductive RunE : Prog → St → Out → List Ev → Prop where
  | skip (s) : RunE .skip s (.normal s) []
  | lockOk (m s) : m ∉ s.held → RunE (.lock m) s (.normal { s with held := m :: s.held }) [.lock m s.held]
  | lockBad (m s) : m ∈ s.held → RunE (.lock m) s .bad [.lock m s.held]
  | unlockOk (m s) : m ∈ s.held → RunE (.unlock m) s (.normal { s with held := s.held.erase m }) []
  | unlockBad (m s) : m ∉ s.held → RunE (.unlock m) s .bad []
  | dunlock (m s) : RunE (.dunlock m) s (.normal { s with deferred := m :: s.deferred }) []
  | ret (s) : RunE .ret s (.returned s) []
  | brk (s) : RunE .brk s (.broke s) []
  | cont (s) : RunE .cont s (.continued s) []
  | act (k s) : RunE (.act k) s (.normal s) [.call k s.held]
  | unknown (s) : RunE .unknown s .bad []
  | seqGo (a b s s' o t1 t2) : RunE a s (.normal s') t1 → RunE b s' o t2 → RunE (.seq a b) s o (t1 ++ t2)
  | seqStop (a b s o t) : RunE a s o t → (∀ s', o ≠ .normal s') → RunE (.seq a b) s o t
  | iteL (a b s o t) : RunE a s o t → RunE (.ite a b) s o t
  | iteR (a b s o t) : RunE b s o t → RunE (.ite a b) s o t
  | loopEnd (a s) : RunE (.loop a) s (.normal s) []
  | loopNext (a s s' o t1 t2) : RunE a s (.normal s') t1 → RunE (.loop a) s' o t2 → RunE (.loop a) s o (t1 ++ t2)
  | loopCont (a s s' o t1 t2) : RunE a s (.continued s') t1 → RunE (.loop a) s' o t2 → RunE (.loop a) s o (t1 ++ t2)
  | loopBrk (a s s' t) : RunE a s (.broke s') t → RunE (.loop a) s (.normal s') t
  | loopRet (a s s' t) : RunE a s (.returned s') t → RunE (.loop a) s (.returned s') t
  | loopBad (a s t) : RunE a s .bad t → RunE (.loop a) s .bad t
  | catchBrk (a s s' t) : RunE a s (.broke s') t → RunE (.catch a) s (.normal s') t
  | catchOther (a s o t) : RunE a s o t → (∀ s', o ≠ .broke s') → RunE (.catch a) s o t

/-- every request of every execution, computed -/
def evs : Prog → St → List Ev
  | .lock m, s => [.lock m s.held]
  | .act k, s => [.call k s.held]
  | .seq a b, s => evs a s ++ (outs a s).flatMap (fun o => match o with
      | .normal s' => evs b s'
      | _ => [])
  | .ite a b, s => evs a s ++ evs b s
  | .loop a, s => evs a s
  | .catch a, s => evs a s
  | _, _ => []

abbrev Table := List (String × Prog)

/-- the requests of the `f`-th function, entered with nothing held of its own -/
def fnEvs (T : Table) (f : Nat) : List Ev :=
  match T[f]? with
  | some np => evs np.2 {}
  | none => []

def ownLocks (es : List Ev) : List Nat :=
  es.filterMap (fun e => match e with
    | .lock m _ => some m
    | _ => none)

/-- the functions called (a call through a function value, `.act 999`, names none) -/
def callsOf (es : List Ev) : List Nat :=
  es.filterMap (fun e => match e with
    | .call k _ => if 1000 ≤ k then some (k - 1000) else none
    | _ => none)

def insertNat (x : Nat) : List Nat → List Nat
  | [] => [x]
  | y :: ys => if x < y then x :: y :: ys else if x = y then y :: ys else y :: insertNat x ys

/-- sorted, without repetition -/
def norm (l : List Nat) : List Nat := l.foldr insertNat []

/-- one round: what each function may take, itself or through what it calls, given what the others may take -/
def acqStep (E : List (List Ev)) (A : List (List Nat)) : List (List Nat) :=
  E.map (fun es => norm (ownLocks es ++ (callsOf es).flatMap (fun c => A.getD c [])))

def acqIter (E : List (List Ev)) : Nat → List (List Nat) → List (List Nat)
  | 0, A => A
  | n + 1, A =>
    let A' := acqStep E A
    if A' == A then A else acqIter E n A'

/-- what each function may take, itself or through any chain of calls (as many rounds as there are functions, at most) -/
def acquires (T : Table) : List (List Nat) :=
  let E := T.map (fun np => evs np.2 {})
  acqIter E (T.length + 1) (E.map (fun es => norm (ownLocks es)))

/-- `A` is closed: it has what every function takes itself, and what the functions it calls have -/
def closed (T : Table) (A : List (List Nat)) : Bool :=
  (List.range T.length).all (fun f =>
    let es := fnEvs T f
    (ownLocks es).all (fun m => (A.getD f []).contains m) &&
    (callsOf es).all (fun c => (A.getD c []).all (fun m => (A.getD f []).contains m)))

/-- the pairs (held, asked for) of one function: by a lock of its own, or by anything a function it calls may take -/
def edgesOf (A : List (List Nat)) (es : List Ev) : List (Nat × Nat) :=
  es.flatMap (fun e => match e with
    | .lock m H => H.map (fun h => (h, m))
    | .call k H => if 1000 ≤ k then H.flatMap (fun h => (A.getD (k - 1000) []).map (fun m => (h, m))) else [])

def edges (T : Table) (A : List (List Nat)) : List (Nat × Nat) :=
  (List.range T.length).flatMap (fun f => edgesOf A (fnEvs T f))

/-- calls through a function value made while a mutex is held: (function, what is held) -/
def dynamicUnderLock (T : Table) : List (String × List Nat) :=
  T.flatMap (fun np => (evs np.2 {}).filterMap (fun e => match e with
    | .call k H => if k < 1000 ∧ ¬ H.isEmpty then some (np.1, norm H) else none
    | _ => none))

/-- peel the mutexes nothing (left) points to, round after round: the rank of a mutex is the round in which it goes -/
def peel (es : List (Nat × Nat)) : Nat → List Nat → Nat → List (Nat × Nat) → List (Nat × Nat)
  | 0, _, _, acc => acc
  | fuel + 1, left, r, acc =>
    let free := left.filter (fun m => !(es.any (fun e => e.2 == m && left.contains e.1)))
    if free.isEmpty then acc
    else peel es fuel (left.filter (fun m => !free.contains m)) (r + 1) (acc ++ free.map (fun m => (m, r)))

/-- a rank for every mutex that occurs, when the edges allow one -/
def rankTable (es : List (Nat × Nat)) : List (Nat × Nat) :=
  let ms := norm (es.flatMap (fun e => [e.1, e.2]))
  peel es (ms.length + 1) ms 1 []

def rankOf (rt : List (Nat × Nat)) (m : Nat) : Nat :=
  match rt.find? (fun p => p.1 == m) with
  | some p => p.2
  | none => 0

/-- every edge goes upwards -/
def ranked (es : List (Nat × Nat)) (rt : List (Nat × Nat)) : Bool :=
  es.all (fun e => rankOf rt e.1 < rankOf rt e.2)

/-- every function of the table is accepted by the checker of Model/Locks.lean -/
def allSafe (T : Table) : Bool := T.all (fun np => safe np.2)

end QiVerif.LockOrder
