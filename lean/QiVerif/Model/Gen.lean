/-
  Model of what the generated code does with values (meta/signature/type.go: the statements
  `Type.Marshal` / `Type.Unmarshal` render; meta/stub/stub.go and meta/idl/proxy.go: the glue that
  puts them into a stub method, a signal helper, a property accessor, a proxy method).

  * `genW`        — the generated Marshal code: one `basic.Write*` per scalar (table `scalarFns`),
                    `basic.WriteString`, the value's own `Write`, a count and a loop for lists and
                    maps, the members in order for tuples and structs (`write<Name>`);
  * the generated Unmarshal code is `decT generatedCfg` (Model/Decode.lean, shared with C03);
  * the proxy side of a call is the reflection codec (`encR` / `decT reflectCfg`, C03);
  * `stubReceives`, `callerGets`, `subscriberGets`, `propertySet`, `propertyGet` compose them the
    way the generated bodies do.  Between the two halves the bytes travel unchanged (C01 framing,
    C04 routing, C13 delivery, C14 property register).
-/
import QiVerif.Model.Decode
import QiVerif.Model.Value
namespace QiVerif.Gen
open QiVerif QiVerif.Sig QiVerif.Codec QiVerif.Decode

/-- the fixed-width functions of type/basic the generated code calls -/
inductive BasicFn where
  | int8 | uint8 | int16 | uint16 | int32 | uint32 | int64 | uint64 | float32 | float64 | bool
  deriving DecidableEq, Repr

def BasicFn.name : BasicFn → String
  | .int8 => "Int8" | .uint8 => "Uint8" | .int16 => "Int16" | .uint16 => "Uint16" | .int32 => "Int32"
  | .uint32 => "Uint32" | .int64 => "Int64" | .uint64 => "Uint64" | .float32 => "Float32" | .float64 => "Float64"
  | .bool => "Bool"

/-- the number of bytes `basic.Write<fn>` writes and `basic.Read<fn>` reads -/
def BasicFn.bytes : BasicFn → Nat
  | .int8 => 1 | .uint8 => 1 | .bool => 1
  | .int16 => 2 | .uint16 => 2
  | .int32 => 4 | .uint32 => 4 | .float32 => 4
  | .int64 => 8 | .uint64 => 8 | .float64 => 8

/-- which function the constructor of each scalar type renders (`New…Type`) -/
def scalarFns : List (UInt8 × BasicFn) :=
  [(99, .int8), (67, .uint8), (119, .int16), (87, .uint16), (105, .int32), (73, .uint32), (108, .int64), (76, .uint64),
   (102, .float32), (100, .float64), (98, .bool)]

def fnOf (c : UInt8) : Option BasicFn := (scalarFns.find? (·.1 == c)).map (·.2)

mutual
/-- the generated Marshal code -/
def genW : Ty → TVal → Bytes
  | .basic c, .num n => match fnOf c with | some fn => leN fn.bytes n | none => []   -- basic.Write<fn>(x, w)
  | .basic _, .str b => leN 4 b.length ++ b                                         -- basic.WriteString
  | .basic _, .dyn t v => leN 4 (print t).length ++ print t ++ D t v                -- x.Write(w): the value writes itself (C02)
  | .basic _, .void => []
  | .list t, .list xs => leN 4 xs.length ++ genWList t xs      -- WriteUint32(uint32(len(x))); for _, v := range x
  | .map k v, .map kvs => leN 4 kvs.length ++ genWPairs k v kvs   -- … for k, v := range x (in the order the map yields)
  | .tuple ts, .tuple xs => genWFields ts xs
  | .struct _ ms, .tuple xs => genWMembers ms xs               -- write<Name>(x, w)
  | _, _ => []
def genWList : Ty → List TVal → Bytes
  | _, [] => []
  | t, x :: r => genW t x ++ genWList t r
def genWPairs : Ty → Ty → List (TVal × TVal) → Bytes
  | _, _, [] => []
  | k, v, (a, b) :: r => genW k a ++ genW v b ++ genWPairs k v r
def genWFields : List Ty → List TVal → Bytes
  | t :: ts, x :: xs => genW t x ++ genWFields ts xs
  | _, _ => []
def genWMembers : List (Bytes × Ty) → List TVal → Bytes
  | (_, t) :: ts, x :: xs => genW t x ++ genWMembers ts xs
  | _, _ => []
end

/-! ### the generated bodies -/

/-- a call: the proxy (`Call2`) encodes the parameters with the reflection encoder, one after the
    other; the generated stub method reads them from the payload one by one -/
def stubReceives (f : Nat) (ts : List Ty) (args : List TVal) : Res (List DVal × Bytes) :=
  decFields generatedCfg f ts (encRFields codecKinds ts args)

/-- … the stub marshals what the implementation returns, the proxy decodes the reply with the
    reflection decoder -/
def callerGets (f : Nat) (t : Ty) (v : TVal) : Res (DVal × Bytes) :=
  decT reflectCfg f t (genW t v)

/-- a signal: the helper marshals the parameters one after the other into the event; the
    generated subscriber unmarshals the event type (the parameter's type if there is one
    parameter, else a struct of the parameters) -/
def subscriberGets (f : Nat) (params : List Ty) (event : Ty) (args : List TVal) : Res (DVal × Bytes) :=
  decT generatedCfg f event (genWFields params args)

/-- the value a property accessor sends: `value.Opaque(signature, marshalled)` as it is written -/
def propertyWire (t : Ty) (v : TVal) : Bytes :=
  Value.writeString (print t) ++ genW t v

/-- what the other side does with it (`SetProperty` on the server, `Get<Name>` in the proxy): read
    the signature, compare it with the declared one, unmarshal the rest -/
def propertyRead (f : Nat) (t : Ty) (wire : Bytes) : Res (DVal × Bytes) :=
  match readString wire with
  | .error e => .error e
  | .ok (sig, data) =>
    if sig != print t then .error .err
    else decT generatedCfg f t data

/-! ### the tables the ties compare with the source -/

/-- the constructors of the basic types: letter (0 where it is not a fixed-width scalar),
    constructor, signature, IDL name, what `marshal` and `unmarshal` call -/
def basicRows : List (UInt8 × String × String × String × String × String) :=
  [(99, "NewInt8Type", "c", "int8", "WriteInt8", "ReadInt8"),
   (67, "NewUint8Type", "C", "uint8", "WriteUint8", "ReadUint8"),
   (119, "NewInt16Type", "w", "int16", "WriteInt16", "ReadInt16"),
   (87, "NewUint16Type", "W", "uint16", "WriteUint16", "ReadUint16"),
   (105, "NewIntType", "i", "int32", "WriteInt32", "ReadInt32"),
   (73, "NewUintType", "I", "uint32", "WriteUint32", "ReadUint32"),
   (108, "NewLongType", "l", "int64", "WriteInt64", "ReadInt64"),
   (76, "NewULongType", "L", "uint64", "WriteUint64", "ReadUint64"),
   (102, "NewFloatType", "f", "float32", "WriteFloat32", "ReadFloat32"),
   (100, "NewDoubleType", "d", "float64", "WriteFloat64", "ReadFloat64"),
   (0, "NewStringType", "s", "str", "WriteString", "ReadString"),
   (0, "NewVoidType", "v", "nothing", "", ""),
   (0, "NewValueType", "m", "any", "Write", "NewValue"),
   (98, "NewBoolType", "b", "bool", "WriteBool", "ReadBool"),
   (0, "NewMetaObjectType", "MetaObjectSignature", "MetaObject", "WriteMetaObject", "ReadMetaObject"),
   (0, "NewObjectType", "o", "obj", "WriteObjectReference", "ReadObjectReference"),
   (0, "NewUnknownType", "X", "unknown", "marshal unknown type: %v", "unmarshal unknown type: %v")]

/-- the fixed-width function a name of type/basic denotes -/
def fnOfName : String → Option BasicFn
  | "WriteInt8" => some .int8 | "ReadInt8" => some .int8
  | "WriteUint8" => some .uint8 | "ReadUint8" => some .uint8
  | "WriteInt16" => some .int16 | "ReadInt16" => some .int16
  | "WriteUint16" => some .uint16 | "ReadUint16" => some .uint16
  | "WriteInt32" => some .int32 | "ReadInt32" => some .int32
  | "WriteUint32" => some .uint32 | "ReadUint32" => some .uint32
  | "WriteInt64" => some .int64 | "ReadInt64" => some .int64
  | "WriteUint64" => some .uint64 | "ReadUint64" => some .uint64
  | "WriteFloat32" => some .float32 | "ReadFloat32" => some .float32
  | "WriteFloat64" => some .float64 | "ReadFloat64" => some .float64
  | "WriteBool" => some .bool | "ReadBool" => some .bool
  | _ => none

/-- the width each fixed-width function of type/basic has (directly, or through the function it
    delegates to) -/
def basicWidths : List (String × Nat) :=
  [("ReadUint8", 1), ("WriteUint8", 1), ("ReadInt8", 1), ("WriteInt8", 1),
   ("ReadUint16", 2), ("WriteUint16", 2), ("ReadInt16", 2), ("WriteInt16", 2),
   ("ReadUint32", 4), ("WriteUint32", 4), ("ReadInt32", 4), ("WriteInt32", 4),
   ("ReadUint64", 8), ("WriteUint64", 8), ("ReadInt64", 8), ("WriteInt64", 8),
   ("ReadFloat32", 4), ("WriteFloat32", 4), ("ReadFloat64", 8), ("WriteFloat64", 8),
   ("ReadBool", 1), ("WriteBool", 1)]

end QiVerif.Gen
