/-
  Model of the service directory (bus/directory/directory.go): the staging and services maps
  (keyed by service id, as in the code), the id counter, and the serviceAdded / serviceRemoved
  signals.  Every method runs under the directory's mutex (regenerated fact), so each operation
  is one atomic step.
-/
namespace QiVerif.Directory

structure Info where
  name : Nat              -- 0 is the empty string
  id : Nat := 0
  machine : Nat := 1      -- 0 is the empty string
  process : Nat := 1
  endpoints : List Nat := [1]   -- 0 is the empty string
  deriving DecidableEq, Repr

inductive Ev where
  | added (id name : Nat)
  | removed (id name : Nat)
  deriving DecidableEq, Repr

def Ev.id : Ev → Nat
  | .added i _ => i
  | .removed i _ => i

structure Dir where
  staging : Nat → Option Info := fun _ => none
  services : Nat → Option Info := fun _ => none
  lastID : Nat := 0
  events : List Ev := []

def put (m : Nat → Option Info) (k : Nat) (v : Option Info) : Nat → Option Info :=
  fun j => if j = k then v else m j

/-- `checkServiceInfo` -/
def checkInfo (i : Info) : Bool :=
  i.name != 0 && i.machine != 0 && i.process != 0 && !i.endpoints.isEmpty && i.endpoints.all (· != 0)

/-- some entry of the map (ids up to `bound`) carries this name -/
def hasName (m : Nat → Option Info) (bound name : Nat) : Bool :=
  (List.range (bound + 1)).any (fun k => match m k with | some i => i.name == name | none => false)

/-- `RegisterService` -/
def register (d : Dir) (i : Info) : Dir × Option Nat :=
  if !checkInfo i then (d, none)
  else if hasName d.staging d.lastID i.name then (d, none)
  else if hasName d.services d.lastID i.name then (d, none)
  else ({ d with lastID := d.lastID + 1, staging := put d.staging (d.lastID + 1) (some { i with id := d.lastID + 1 }) },
        some (d.lastID + 1))

/-- `UnregisterService` -/
def unregister (d : Dir) (id : Nat) : Dir × Bool :=
  match d.services id with
  | some i => ({ d with services := put d.services id none, events := d.events ++ [.removed id i.name] }, true)
  | none =>
    match d.staging id with
    | some _ => ({ d with staging := put d.staging id none }, true)
    | none => (d, false)

/-- `ServiceReady` -/
def ready (d : Dir) (id : Nat) : Dir × Bool :=
  match d.staging id with
  | some i => ({ d with staging := put d.staging id none, services := put d.services id (some i),
                        events := d.events ++ [.added id i.name] }, true)
  | none => (d, false)

/-- `UpdateServiceInfo` -/
def update (d : Dir) (i : Info) : Dir × Bool :=
  if !checkInfo i then (d, false) else
  match d.services i.id with
  | none => (d, false)
  | some old =>
    if old.name != i.name then (d, false)
    else ({ d with services := put d.services i.id (some i) }, true)

/-- `Services`: the ready services, sorted by id -/
def list (d : Dir) : List Info := (List.range (d.lastID + 1)).filterMap d.services

/-- `Service`: lookup by name among the ready services -/
def lookup (d : Dir) (name : Nat) : Option Info := (list d).find? (·.name == name)

inductive Op where
  | register (i : Info)
  | unregister (id : Nat)
  | ready (id : Nat)
  | update (i : Info)
  deriving Repr

def step (d : Dir) : Op → Dir
  | .register i => (register d i).1
  | .unregister id => (unregister d id).1
  | .ready id => (ready d id).1
  | .update i => (update d i).1

def run (d : Dir) : List Op → Dir
  | [] => d
  | o :: r => run (step d o) r

end QiVerif.Directory
