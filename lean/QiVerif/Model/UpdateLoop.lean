/-
  `signalHandler.UpdateSignal` (bus/signal.go), the part after the copy of the users: one `replyEvent` per copied
  user; a send that reports the end of the stream makes the loop ask the table to forget that user; any other
  error, and a removal that fails, is remembered and returned at the end.  Nothing makes the loop stop early.

      for _, user := range signals {
          err := o.replyEvent(&user, signalID, data)
          if err == io.EOF {
              err := o.removeSignalUser(user.userID, user.context)
              if err != nil && ret == nil { ret = err }
          } else if err != nil { ret = err }
      }
      return ret

  What a send and a removal answer is not the loop's business: they are parameters, by position in the copy.
-/
import QiVerif.Model.Signals
namespace QiVerif.UpdateLoop
open QiVerif QiVerif.Signals

inductive SendRes where
  | ok | eof | err
  deriving DecidableEq, Repr

structure Out where
  tried : List User := []      -- the users an event was handed to `Send` for, in order
  removed : List User := []    -- the users the loop asked the table to forget
  failed : Bool := false       -- `ret != nil`
  deriving Repr

def loop (send : Nat → SendRes) (remove : Nat → Bool) : List User → Nat → Out → Out
  | [], _, o => o
  | u :: r, i, o =>
    let o1 := { o with tried := o.tried ++ [u] }
    match send i with
    | .ok => loop send remove r (i + 1) o1
    | .eof => loop send remove r (i + 1) { o1 with removed := o1.removed ++ [u], failed := o1.failed || !remove i }
    | .err => loop send remove r (i + 1) { o1 with failed := true }

/-- `UpdateSignal`: the copy under the read lock, then the loop -/
def updateSignal (users : List User) (sig : Nat) (send : Nat → SendRes) (remove : Nat → Bool) : Out :=
  loop send remove (users.filter (fun u => u.sig == sig)) 0 {}

end QiVerif.UpdateLoop
