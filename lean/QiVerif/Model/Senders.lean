/-
  C10: the scenario of the concurrent-senders harness, as executable definitions: how the
  harness numbers its messages, the acceptor for an observed arrival order, the receiving
  endpoint's handler table.
-/
import QiVerif.Model.Endpoint
namespace QiVerif.Senders
open QiVerif.Endpoint

/-- the sender of message `id` (ids are 1-based: sender `s` sends `s*k+1 … s*k+k` in this order) -/
def senderOf (k id : Nat) : Nat := (id - 1) / k

/-- what sender `s` sends, in order -/
def sent (k s : Nat) : List Nat := (List.range k).map (fun i => s * k + i + 1)

def msgOf (k id : Nat) : Msg :=
  let s := (id - 1) / k
  let i := (id - 1) % k
  { action := (s * 7 + i * 3) % 11, id := id, isCall := false }

/-- the acceptor: every id known, and the projection on each sender is exactly what it sent -/
def isInterleaving (n k : Nat) (ids : List Nat) : Bool :=
  ids.all (fun id => decide (1 ≤ id) && decide (id ≤ n * k)) &&
  (List.range n).all (fun s => ids.filter (fun id => senderOf k id == s) == sent k s)

/-- the filters of the receiving endpoint: three residue classes of the action, then the catch-all -/
def filters : List (Nat × Nat) := [(2, 0), (3, 1), (5, 4), (1, 0)]

def receiver (cap : Nat) : EP :=
  filters.foldl (fun e (f : Nat × Nat) => (make e ⟨f.1, f.2, 0, cap, false⟩).1) {}

/-- the receiving endpoint after the messages `ids` arrived in this order -/
def deliver (k cap : Nat) (ids : List Nat) : EP :=
  (ids.map (msgOf k)).foldl (fun e m => (dispatch e m).1) (receiver cap)

end QiVerif.Senders
