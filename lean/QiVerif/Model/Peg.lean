/-
  A deep embedding of the goparsec combinators (github.com/prataprc/goparsec,
  parsec.go / tokeniser.go / scanner.go) as used by meta/signature/signature.go
  and meta/idl/parser.go.

  Library behaviour transcribed:
  * every terminal (`Atom`, `Token`, `OrdTokens`, `Ident`, …) first skips the
    white space `^[ \t\r\n]+`, then matches; on failure the *original* scanner
    is returned (nothing is consumed, not even the white space);
  * `And` runs its parsers in sequence and fails (consuming nothing) as soon as
    one returns nil; otherwise the Nodify callback is applied; a nil result of
    the callback is a failure;
  * `OrdChoice` commits to the first alternative whose result is non-nil and
    whose callback result is non-nil;
  * `Kleene` never fails; `Many` needs one match; `Maybe` yields MaybeNone;
  * a nil Nodify callback returns the node list itself;
  * callbacks may return `error` values: those are non-nil nodes (success).

  All recursion is on a fuel argument (the depth of the Go call stack); running
  out of fuel is a third outcome `oof`, never confused with a parse failure.
-/
import QiVerif.Bytes
namespace QiVerif.Peg
open QiVerif

/-- regular expressions used by the two grammars, by source text -/
inductive TokClass where
  | ident          -- `[A-Za-z][0-9a-zA-Z_]*`
  | templateName   -- `[A-Za-z][0-9a-zA-Z_]*\<[A-Za-z][0-9a-zA-Z_]*>`
  | int            -- `-?[0-9]+`
  | idlComment     -- `//[^\n]*\n?`  (not used by the signature grammar)
  | idlDocLine     -- see IDL grammar
  | other (src : String)
  deriving Repr, DecidableEq

/-- semantic actions are referred to by name; their meaning is given by the
    grammar's `act` function -/
abbrev ActName := String

inductive Peg where
  | atom (lit : Bytes) (name : String)
  | tok (cls : TokClass) (name : String)
  | ordTokens (alts : List (TokClass × String))
  | and (ps : List Peg) (act : ActName)
  | ord (ps : List Peg) (act : ActName)
  | kleene (p : Peg) (sep : Option Peg) (act : ActName)
  | many (p : Peg) (sep : Option Peg) (act : ActName)
  | maybe (p : Peg) (act : ActName)
  | ref (rule : String)
  | end_                      -- parsec.End()
  deriving Repr

/-- outcome of running a parser -/
inductive R (α : Type) where
  | ok (v : α) (rest : Bytes)
  | fail
  | oof                      -- fuel (Go stack depth) exhausted
  deriving Repr

def isWS (b : UInt8) : Bool := b == 32 || b == 9 || b == 13 || b == 10

def skipWS : Bytes → Bytes
  | [] => []
  | b :: r => if isWS b then skipWS r else b :: r

def isAlpha (b : UInt8) : Bool := (65 ≤ b && b ≤ 90) || (97 ≤ b && b ≤ 122)
def isDigit (b : UInt8) : Bool := 48 ≤ b && b ≤ 57
def isIdentChar (b : UInt8) : Bool := isAlpha b || isDigit b || b == 95

def takeWhileB (p : UInt8 → Bool) : Bytes → Bytes × Bytes
  | [] => ([], [])
  | b :: r => if p b then let (a, c) := takeWhileB p r; (b :: a, c) else ([], b :: r)

/-- `^[A-Za-z][0-9a-zA-Z_]*` -/
def matchIdent : Bytes → Option (Bytes × Bytes)
  | [] => none
  | b :: r => if isAlpha b then let (a, c) := takeWhileB isIdentChar r; some (b :: a, c) else none

/-- `^[A-Za-z][0-9a-zA-Z_]*\<[A-Za-z][0-9a-zA-Z_]*>` -/
def matchTemplate (inp : Bytes) : Option (Bytes × Bytes) :=
  match matchIdent inp with
  | none => none
  | some (a, r) =>
    match r with
    | 60 :: r2 =>
      match matchIdent r2 with
      | none => none
      | some (b, r3) =>
        match r3 with
        | 62 :: r4 => some (a ++ [60] ++ b ++ [62], r4)
        | _ => none
    | _ => none

def matchPrefix : Bytes → Bytes → Option Bytes
  | [], inp => some inp
  | _ :: _, [] => none
  | a :: as, b :: bs => if a == b then matchPrefix as bs else none

/-- `^-?[0-9]+` -/
def matchInt : Bytes → Option (Bytes × Bytes)
  | 45 :: r =>
    let (a, c) := takeWhileB isDigit r
    if a.isEmpty then none else some (45 :: a, c)
  | inp =>
    let (a, c) := takeWhileB isDigit inp
    if a.isEmpty then none else some (a, c)

def matchClass : TokClass → Bytes → Option (Bytes × Bytes)
  | .ident, inp => matchIdent inp
  | .templateName, inp => matchTemplate inp
  | .int, inp => matchInt inp
  | _, _ => none     -- classes of the IDL grammar are added in Model/IdlGrammar.lean

/-- leftmost-first alternation of `OrdTokens` -/
def matchAlts : List (TokClass × String) → Bytes → Option (String × Bytes × Bytes)
  | [], _ => none
  | (c, n) :: r, inp =>
    match matchClass c inp with
    | some (t, rest) => some (n, t, rest)
    | none => matchAlts r inp

/-- nodes built by parsers and semantic actions; `α` is the grammar's own
    payload type (e.g. signature types) -/
inductive Node (α : Type) where
  | term (name : String) (val : Bytes)
  | list (ns : List (Node α))
  | val (v : α)
  | err                       -- an `error` value returned by a callback
  | missing                   -- MaybeNone
  | nil                       -- a nil callback result (turns success into failure)
  | panic                     -- the callback panicked (failed type assertion, index out of range)

structure Grammar (α : Type) where
  rules : String → Option Peg
  act : ActName → List (Node α) → Node α    -- "" is the nil callback: the node list itself

def applyAct {α} (g : Grammar α) (a : ActName) (ns : List (Node α)) : Node α :=
  if a == "" then .list ns else g.act a ns

mutual
/-- run a parser; `fuel` bounds the depth of the Go call stack -/
def run {α} (g : Grammar α) : Nat → Peg → Bytes → R (Node α)
  | 0, _, _ => .oof
  | f + 1, p, inp =>
    match p with
    | .atom lit name =>
      match matchPrefix lit (skipWS inp) with
      | some rest => .ok (.term name lit) rest
      | none => .fail
    | .tok cls name =>
      match matchClass cls (skipWS inp) with
      | some (t, rest) => .ok (.term name t) rest
      | none => .fail
    | .ordTokens alts =>
      match matchAlts alts (skipWS inp) with
      | some (n, t, rest) => .ok (.term n t) rest
      | none => .fail
    | .end_ => if inp.isEmpty then .ok (.term "end" []) inp else .fail
    | .ref name =>
      match g.rules name with
      | some q => run g f q inp
      | none => .ok .panic inp          -- nil parser dereference
    | .and ps act =>
      match runSeq g f ps inp with
      | .oof => .oof
      | .fail => .fail
      | .ok ns rest =>
        match applyAct g act ns with
        | .nil => .fail
        | n => .ok n rest
    | .ord ps act => runOrd g f ps act inp
    | .kleene q sep act =>
      match runLoop g f q sep inp with
      | .oof => .oof
      | .fail => .fail
      | .ok ns rest => .ok (applyAct g act ns) rest     -- the callback result is not interpreted
    | .many q sep act =>
      match runLoop g f q sep inp with
      | .oof => .oof
      | .fail => .fail
      | .ok ns rest =>
        if ns.isEmpty then .fail else
        match applyAct g act ns with
        | .nil => .fail
        | n => .ok n rest
    | .maybe q act =>
      match run g f q inp with
      | .oof => .oof
      | .fail => .ok .missing inp
      | .ok n rest =>
        match applyAct g act [n] with
        | .nil => .ok .missing inp
        | m => .ok m rest
/-- the parsers of an `And`, in sequence -/
def runSeq {α} (g : Grammar α) : Nat → List Peg → Bytes → R (List (Node α))
  | 0, _, _ => .oof
  | _ + 1, [], inp => .ok [] inp
  | f + 1, p :: ps, inp =>
    match run g f p inp with
    | .oof => .oof
    | .fail => .fail
    | .ok .nil _ => .fail          -- a nil node (Kleene with a nil callback result) is a failure
    | .ok n rest =>
      match runSeq g f ps rest with
      | .oof => .oof
      | .fail => .fail
      | .ok ns rest' => .ok (n :: ns) rest'
/-- the alternatives of an `OrdChoice`, in order -/
def runOrd {α} (g : Grammar α) : Nat → List Peg → ActName → Bytes → R (Node α)
  | 0, _, _, _ => .oof
  | _ + 1, [], _, _ => .fail
  | f + 1, p :: ps, act, inp =>
    match run g f p inp with
    | .oof => .oof
    | .fail => runOrd g f ps act inp
    | .ok .nil _ => runOrd g f ps act inp
    | .ok n rest =>
      match applyAct g act [n] with
      | .nil => runOrd g f ps act inp
      | m => .ok m rest
/-- the loop of `Kleene` / `Many`: op (sep op)* -/
def runLoop {α} (g : Grammar α) : Nat → Peg → Option Peg → Bytes → R (List (Node α))
  | 0, _, _, _ => .oof
  | f + 1, q, sep, inp =>
    match run g f q inp with
    | .oof => .oof
    | .fail => .ok [] inp
    | .ok .nil _ => .ok [] inp      -- `if n == nil { break }`
    | .ok n rest =>
      match sep with
      | none =>
        match runLoop g f q sep rest with
        | .oof => .oof
        | .fail => .fail
        | .ok ns rest' => .ok (n :: ns) rest'
      | some s =>
        match run g f s rest with
        | .oof => .oof
        | .fail => .ok [n] rest
        | .ok _ rest2 =>
          match runLoop g f q sep rest2 with
          | .oof => .oof
          | .fail => .fail
          | .ok ns rest' => .ok (n :: ns) rest'
end

end QiVerif.Peg
