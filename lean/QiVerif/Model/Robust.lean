/-
  Model of what one message of a client can do to the goroutine of an object
  (bus/mailbox.go: one goroutine per object runs Receive for every mail):
  * the lock discipline of the subscription table (bus/signal.go) against the endpoint's handler
    table (bus/net/endpoint.go): `RemoveHandler` runs the handler's close callback *under* the
    endpoint's lock, and the callback of a subscription unregisters the user, which removes the
    handler again — a goroutine that locks a mutex it already holds is stuck for ever;
  * the replies the object writes to a client that does not read them.
-/
namespace QiVerif.Robust

inductive Mutex where
  | signals      -- signalHandler.signalsMutex
  | handlers     -- endPoint.handlersMutex (of the connection concerned)
  deriving DecidableEq, Repr

structure User where
  uid : Nat
  conn : Nat
  slot : Nat
  deriving DecidableEq, Repr

structure St where
  users : List User := []
  slots : List Nat := []          -- handler slots in use (all connections; slot numbers are unique here)
  held : List Mutex := []         -- mutexes held by the goroutine of the object
  nextSlot : Nat := 0
  deriving Repr

inductive Out where
  | ok | err
  | stuck       -- the goroutine tried to lock a mutex it holds: it never returns
  deriving DecidableEq, Repr

def acquire (s : St) (m : Mutex) : Option St := if s.held.contains m then none else some { s with held := m :: s.held }
def release (s : St) (m : Mutex) : St := { s with held := s.held.erase m }

mutual
/-- `endPoint.RemoveHandler`: under the handlers lock the close callback runs, then the slot is emptied -/
def removeHandler : Nat → St → Nat → St × Out
  | 0, s, _ => (s, .stuck)
  | f + 1, s, slot =>
    match acquire s .handlers with
    | none => (s, .stuck)
    | some s1 =>
      if s1.slots.contains slot then
        -- the close callback of a subscription handler: `o.removeSignalUser(userID, from)`
        let owner := s1.users.find? (·.slot == slot)
        let (s2, o) := match owner with
          | some u => removeSignalUser f s1 u.uid u.conn
          | none => (s1, .ok)
        if o == .stuck then (s2, .stuck)
        else (release { s2 with slots := s2.slots.erase slot } .handlers, .ok)
      else (release s1 .handlers, .err)

/-- `signalHandler.removeSignalUser` -/
def removeSignalUser : Nat → St → Nat → Nat → St × Out
  | 0, s, _, _ => (s, .stuck)
  | f + 1, s, uid, conn =>
    match acquire s .signals with
    | none => (s, .stuck)
    | some s1 =>
      match s1.users.find? (fun u => u.uid == uid && u.conn == conn) with
      | some u =>
        let s2 := release { s1 with users := s1.users.erase u } .signals
        let (s3, o) := removeHandler f s2 u.slot
        (s3, if o == .stuck then .stuck else .ok)
      | none => (release s1 .signals, .err)
end

def fuel : Nat := 8

/-- `endPoint.MakeHandler` -/
def makeHandler (s : St) : Option (St × Nat) :=
  match acquire s .handlers with
  | none => none
  | some s1 => some (release { s1 with slots := s1.nextSlot :: s1.slots, nextSlot := s1.nextSlot + 1 } .handlers, s1.nextSlot)

/-- `addSignalUser` as repaired (7dc3b12): the duplicate is refused before any handler exists -/
def addUser (s : St) (uid conn : Nat) : St × Out :=
  match acquire s .signals with
  | none => (s, .stuck)
  | some s1 =>
    if s1.users.any (·.uid == uid) then (release s1 .signals, .err)
    else
      let s2 := release s1 .signals
      match makeHandler s2 with
      | none => (s2, .stuck)
      | some (s3, slot) =>
        match acquire s3 .signals with
        | none => (s3, .stuck)
        | some s4 => (release { s4 with users := s4.users ++ [⟨uid, conn, slot⟩] } .signals, .ok)

/-- `addSignalUser` before the repair: handler first, and on a duplicate the *existing* user's
    handler is removed -/
def addUserOld (s : St) (uid conn : Nat) : St × Out :=
  match makeHandler s with
  | none => (s, .stuck)
  | some (s1, slot) =>
    match acquire s1 .signals with
    | none => (s1, .stuck)
    | some s2 =>
      match s2.users.find? (·.uid == uid) with
      | some u =>
        let (s3, o) := removeHandler fuel (release s2 .signals) u.slot
        (s3, if o == .stuck then .stuck else .err)
      | none => (release { s2 with users := s2.users ++ [⟨uid, conn, slot⟩] } .signals, .ok)

/-- what the object's goroutine executes for the subscription requests of a client -/
inductive Req where
  | register (uid conn : Nat)
  | unregister (uid conn : Nat)
  | disconnect (conn : Nat)     -- the connection goes away: every handler of it is closed (outside any lock)
  deriving Repr

def closeConn : Nat → St → Nat → St × Out
  | 0, s, _ => (s, .ok)
  | f + 1, s, conn =>
    match s.users.find? (·.conn == conn) with
    | none => (s, .ok)
    | some u =>
      -- `go handler.closeWith(err)`: the callback runs without the handlers lock; the slot is already empty
      let (s1, o) := removeSignalUser fuel { s with slots := s.slots.erase u.slot } u.uid u.conn
      if o == .stuck then (s1, .stuck) else closeConn f s1 conn

def serve (s : St) : Req → St × Out
  | .register uid conn => addUser s uid conn
  | .unregister uid conn => removeSignalUser fuel s uid conn
  | .disconnect conn => closeConn (s.users.length + 1) s conn

def run (s : St) : List Req → St × Bool      -- (state, still alive)
  | [] => (s, true)
  | r :: rest =>
    let (s1, o) := serve s r
    if o == .stuck then (s1, false) else run s1 rest

/-! ### replies to a client that does not read -/

/-- the object writes its replies synchronously into the connection of the caller; `room` is what
    the transport still buffers for a peer that has stopped reading -/
def writeReplies (room : Nat) (sizes : List Nat) : Bool :=   -- true: every write returned
  match sizes with
  | [] => true
  | n :: rest => if n ≤ room then writeReplies (room - n) rest else false

end QiVerif.Robust
