/-
  Model of a remote call end to end (bus/client.go, bus/net/endpoint.go, bus/server.go,
  bus/router.go, bus/service.go, bus/mailbox.go, generated stubs, bus/channel.go):
  any number of connections and clients; a call takes a message id, registers a single-shot
  reply handler keyed (service, object, action, id) on its connection and sends its frame; the
  server executes the addressed method and answers with the request's header; the reply is
  handed to every handler of that connection with that key.  The transport delivers every
  frame once (C01, C10): a call's frame is served once, its response delivered once; order is
  free (every interleaving).
-/
namespace QiVerif.Calls

structure Key where
  svc : Nat
  obj : Nat
  act : Nat
  id : Nat
  deriving DecidableEq, Repr

/-- the services: which (service, object, action) exist, and what a method computes -/
structure Env where
  known : Nat → Nat → Nat → Bool
  f : Nat → Nat → Nat → Nat → Nat      -- service object action argument ↦ result

inductive Res where
  | reply (v : Nat)
  | error                              -- service / object / action not found
  deriving DecidableEq, Repr

inductive Stage where
  | sent                               -- the request frame is on its way or queued
  | answered (r : Res)                 -- the method ran (or was refused); the response is on its way
  | done
  deriving DecidableEq, Repr

structure CallRec where
  conn : Nat
  key : Key
  arg : Nat
  isPost : Bool
  stage : Stage := .sent
  execs : Nat := 0                     -- how often the method body ran for this request
  responses : Nat := 0                 -- response frames the server produced for it
  outcome : Option Res := none         -- what `Call` returned (the handler is there while this is `none`)
  deriving Repr

/-- how message ids are chosen: one counter for every client (the code), or one per client
    (the code before repair f34a61a) -/
inductive IdPolicy where
  | shared
  | perClient
  deriving DecidableEq, Repr

structure Sys where
  policy : IdPolicy := .shared
  shared : Nat := 1
  perClient : List Nat := []           -- counters of the clients (per-client policy)
  calls : List CallRec := []
  stray : Nat := 0                     -- method executions caused by frames that are neither call nor post
  strayOn : Bool := false              -- the dispatcher before repair 8464f65 ran them
  deriving Repr

def nextId (s : Sys) (client : Nat) : Nat × Sys :=
  match s.policy with
  | .shared => (s.shared + 2, { s with shared := s.shared + 2 })
  | .perClient =>
    let cur := (s.perClient[client]?).getD 1
    let cs := if client < s.perClient.length then s.perClient.set client (cur + 2)
              else s.perClient ++ List.replicate (client - s.perClient.length) 1 ++ [cur + 2]
    (cur + 2, { s with perClient := cs })

/-- `Client.Call`: take an id, register the handler, send the frame -/
def call (s : Sys) (client conn svc obj act arg : Nat) : Sys :=
  let (id, s1) := nextId s client
  { s1 with calls := s1.calls ++ [{ conn := conn, key := ⟨svc, obj, act, id⟩, arg := arg, isPost := false }] }

/-- a peer sends a post (no handler, any id) -/
def post (s : Sys) (conn svc obj act id arg : Nat) : Sys :=
  { s with calls := s.calls ++ [{ conn := conn, key := ⟨svc, obj, act, id⟩, arg := arg, isPost := true }] }

def modify (cs : List CallRec) (i : Nat) (g : CallRec → CallRec) : List CallRec :=
  match cs[i]? with
  | some c => cs.set i (g c)
  | none => cs

/-- the server takes request `i`: firewall, router, service, mailbox, stub -/
def serve (env : Env) (s : Sys) (i : Nat) : Sys :=
  match s.calls[i]? with
  | some c =>
    if c.stage != .sent then s else
    if env.known c.key.svc c.key.obj c.key.act then
      if c.isPost then
        { s with calls := s.calls.set i { c with stage := .done, execs := c.execs + 1 } }
      else
        { s with calls := s.calls.set i { c with stage := .answered (.reply (env.f c.key.svc c.key.obj c.key.act c.arg)),
                                                 execs := c.execs + 1, responses := c.responses + 1 } }
    else
      -- the router / service / stub answer "not found" with an error frame; a post is never answered
      if c.isPost then { s with calls := s.calls.set i { c with stage := .done } }
      else { s with calls := s.calls.set i { c with stage := .answered .error, responses := c.responses + 1 } }
  | none => s

/-- the handler of call `j` matches the response of call `i` -/
def sameKey (ci cj : CallRec) : Bool :=
  !cj.isPost && cj.outcome.isNone && cj.conn == ci.conn && cj.key == ci.key

/-- the response of request `i` arrives on its connection: every handler with that key gets it -/
def deliver (s : Sys) (i : Nat) : Sys :=
  match s.calls[i]? with
  | some ci =>
    match ci.stage with
    | .answered r =>
      let cs := s.calls.map (fun cj => if sameKey ci cj then { cj with outcome := some r } else cj)
      { s with calls := modify cs i (fun c => { c with stage := .done }) }
    | _ => s
  | none => s

/-- a frame that is neither call nor post reaches the server (cancel, capability; reply, error,
    event and cancelled frames are not even taken by the server's handler) -/
def other (env : Env) (s : Sys) (typ svc obj act : Nat) : Sys :=
  if s.strayOn && (typ == 6 || typ == 7) && env.known svc obj act then { s with stray := s.stray + 1 } else s

inductive Action where
  | call (client conn svc obj act arg : Nat)
  | post (conn svc obj act id arg : Nat)
  | serve (i : Nat)
  | deliver (i : Nat)
  | other (typ svc obj act : Nat)
  deriving Repr

def step (env : Env) (s : Sys) : Action → Sys
  | .call cl c sv o a x => call s cl c sv o a x
  | .post c sv o a id x => post s c sv o a id x
  | .serve i => serve env s i
  | .deliver i => deliver s i
  | .other t sv o a => other env s t sv o a

def run (env : Env) (s : Sys) : List Action → Sys
  | [] => s
  | a :: r => run env (step env s a) r

end QiVerif.Calls
