/-
  The buffering between a connection and an object on the server (bus/server.go,
  bus/mailbox.go, bus/net/endpoint.go dispatch): a per-connection queue, a per-object mailbox,
  one message in the hands of the connection goroutine and one being executed.  The reader of
  the connection never blocks: when the per-connection queue is full the message is dropped
  and a call is answered with an error.
-/
namespace QiVerif.Flood

def consumerCap : Nat := 10     -- `consumer := make(chan *net.Message, 10)` in `server.handle`
def mailboxCap : Nat := 10      -- `make(chan Mail, 10)` in `NewMailBox`

/-- the most messages of one connection that can be waiting for one busy object -/
def buffered : Nat := consumerCap + 1 + mailboxCap

inductive Outcome where
  | allServed        -- nothing can be dropped
  | someDropped      -- at least one request is answered "consumer blocked"
  | timing           -- depends on how fast the queues drain
  deriving Repr, DecidableEq

/-- `n` requests arrive on one connection for an object that stays busy meanwhile -/
def floodOutcome (n : Nat) : Outcome :=
  if n ≤ consumerCap then .allServed else if n > buffered then .someDropped else .timing

/-- how many of `n` simultaneous requests can be held while the object is busy -/
def held (n : Nat) : Nat := min n buffered

end QiVerif.Flood
