/-
  Model of an object's properties (bus/object.go: SetProperty, Property, saveProperty;
  stubObject.UpdateProperty for service-side updates; generated onPropertyChange = decode with
  the declared type, then the implementor's validator).  A property is a register holding a
  typed value; an accepted write saves the value (one critical section of propertiesMutex) and
  then emits one change event.
-/
namespace QiVerif.Property

/-- a value: its signature (as a code) and its data -/
structure PVal where
  sig : Nat
  data : Nat
  deriving DecidableEq, Repr

structure Decl where
  name : Nat
  id : Nat
  sig : Nat
  deriving DecidableEq, Repr

/-- the object's declared properties and the implementor's validators (`On<Prop>Change`) -/
structure Cfg where
  decls : List Decl
  valid : Nat → Nat → Bool          -- property name, data ↦ accepted

/-- how `setProperty` names the property: by name (a string value), by id (an unsigned value),
    or by a value of another type -/
inductive Name where
  | byName (n : Nat)
  | byId (i : Nat)
  | other
  deriving DecidableEq, Repr

inductive Err where
  | badName | unknownId | wrongType | unknownProperty | rejected
  deriving DecidableEq, Repr

structure St where
  props : List (Nat × PVal) := []        -- name ↦ value: the latest entry for a name counts
  events : List (Nat × PVal) := []       -- change events emitted: property id, new value
  deriving Repr

def St.get (s : St) (n : Nat) : Option PVal := (s.props.find? (·.1 == n)).map (·.2)

def declByName (cfg : Cfg) (n : Nat) : Option Decl := cfg.decls.find? (·.name == n)
def declById (cfg : Cfg) (i : Nat) : Option Decl := cfg.decls.find? (·.id == i)

/-- the checks of `SetProperty` before anything is changed: the name, the declared type, the
    change callback (unknown names end in its default branch) -/
def check (cfg : Cfg) (nm : Name) (v : PVal) : Except Err Decl :=
  let name? : Except Err Nat := match nm with
    | .byName n => .ok n
    | .byId i => match declById cfg i with
      | some d => .ok d.name
      | none => .error .unknownId
    | .other => .error .badName
  match name? with
  | .error e => .error e
  | .ok n =>
    match declByName cfg n with
    | none => .error .unknownProperty
    | some d =>
      if v.sig != d.sig then .error .wrongType
      else if !cfg.valid n v.data then .error .rejected
      else .ok d

/-- `saveProperty`: one critical section -/
def save (s : St) (n : Nat) (v : PVal) : St := { s with props := (n, v) :: s.props }

/-- `signalHandler.UpdateProperty`: one event to the subscribers of the property -/
def notify (s : St) (id : Nat) (v : PVal) : St := { s with events := s.events ++ [(id, v)] }

/-- `SetProperty` as one step -/
def setProp (cfg : Cfg) (s : St) (nm : Name) (v : PVal) : St × Except Err Unit :=
  match check cfg nm v with
  | .error e => (s, .error e)
  | .ok d => (notify (save s d.name v) d.id v, .ok ())

/-- the service updates its own property (generated `Update<Prop>`: the declared signature) -/
def updateProp (cfg : Cfg) (s : St) (id : Nat) (data : Nat) : St × Except Err Unit :=
  match declById cfg id with
  | none => (s, .error .unknownId)
  | some d =>
    if !cfg.valid d.name data then (s, .error .rejected)
    else (notify (save s d.name ⟨d.sig, data⟩) d.id ⟨d.sig, data⟩, .ok ())

inductive Op where
  | set (nm : Name) (v : PVal)
  | update (id : Nat) (data : Nat)
  deriving Repr

def step (cfg : Cfg) (s : St) : Op → St
  | .set nm v => (setProp cfg s nm v).1
  | .update id d => (updateProp cfg s id d).1

def run (cfg : Cfg) (s : St) : List Op → St
  | [] => s
  | o :: r => run cfg (step cfg s o) r

/-! ### the same operations with their internal steps, run by several threads -/

/-- a write in progress: accepted by the checks, its value not yet saved / saved and not yet notified -/
inductive Phase where
  | checked (d : Decl) (v : PVal)
  | saved (d : Decl) (v : PVal)
  deriving Repr

structure Conc where
  st : St := {}
  threads : List (Option Phase) := []     -- what each thread is in the middle of
  committed : List (Nat × PVal) := []      -- the writes in the order of their save steps
  deriving Repr

inductive CAct where
  | begin (t : Nat) (op : Op)              -- the checks (no shared state is written)
  | save (t : Nat)
  | notify (t : Nat)
  deriving Repr

def setThread (ts : List (Option Phase)) (t : Nat) (p : Option Phase) : List (Option Phase) :=
  if t < ts.length then ts.set t p else ts ++ List.replicate (t - ts.length) none ++ [p]

def cstep (cfg : Cfg) (c : Conc) : CAct → Conc
  | .begin t op =>
    match (c.threads[t]?).join with
    | some _ => c                          -- the thread is busy
    | none =>
      match op with
      | .set nm v =>
        match check cfg nm v with
        | .ok d => { c with threads := setThread c.threads t (some (.checked d v)) }
        | .error _ => c
      | .update id data =>
        match declById cfg id with
        | some d => if cfg.valid d.name data then { c with threads := setThread c.threads t (some (.checked d ⟨d.sig, data⟩)) } else c
        | none => c
  | .save t =>
    match (c.threads[t]?).join with
    | some (.checked d v) =>
      { c with st := save c.st d.name v, threads := setThread c.threads t (some (.saved d v)),
               committed := c.committed ++ [(d.name, v)] }
    | _ => c
  | .notify t =>
    match (c.threads[t]?).join with
    | some (.saved d v) => { c with st := notify c.st d.id v, threads := setThread c.threads t none }
    | _ => c

def crun (cfg : Cfg) (c : Conc) : List CAct → Conc
  | [] => c
  | a :: r => crun cfg (cstep cfg c a) r

end QiVerif.Property
