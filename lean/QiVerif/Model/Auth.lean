/-
  Model of the authentication gate: bus/server.go (`handle`: type filter, `firewall`,
  `Router.Receive`), bus/service.go (`serviceImpl.Receive`: object lookup, mailbox),
  bus/authenticate.go (`serviceAuthenticate.Receive/Authenticate`, `ReadCapabilityMap`),
  bus/auth.go + bus/channel.go (the per-connection capability map).
  The connection goroutine and the service-0 mailbox goroutine are separate actions.
-/
import QiVerif.Model.Value
namespace QiVerif.Auth
open QiVerif QiVerif.Codec QiVerif.Value

structure Frame where
  typ : Nat
  svc : Nat
  obj : Nat
  act : Nat
  id : Nat
  payload : Bytes
  deriving Repr

/-- message types the server's handler does not take: reply, error, event, cancelled -/
def ignoredType (t : Nat) : Bool := t == 2 || t == 3 || t == 5 || t == 8

/-- not a message type: `Header.Read` fails, the reading goroutine closes the connection -/
def badType (t : Nat) : Bool := t == 0 || t > 8

def capabilityMapSizeMax : Nat := 4096
def authenticateAction : Nat := 8

/-- `ReadCapabilityMap`: the entries in wire order -/
def readEntries : Nat → Bytes → Res (List (Bytes × Val))
  | 0, _ => .ok []
  | n + 1, inp =>
    match readString inp with
    | .error e => .error e
    | .ok (k, r) =>
      match newValue r with
      | .error e => .error e
      | .ok (v, r') =>
        match readEntries n r' with
        | .error e => .error e
        | .ok es => .ok ((k, v) :: es)

def readCapMap (inp : Bytes) : Res (List (Bytes × Val)) :=
  match readLE 4 inp with
  | .error e => .error e
  | .ok (n, r) => if n > capabilityMapSizeMax then .error .err else readEntries n r

/-- Go map semantics: a later entry with the same key replaces the earlier one -/
def lookup (es : List (Bytes × Val)) (k : Bytes) : Option Val :=
  (es.reverse.find? (·.1 == k)).map (·.2)

def keyUser : Bytes := [97, 117, 116, 104, 95, 117, 115, 101, 114]          -- "auth_user"
def keyToken : Bytes := [97, 117, 116, 104, 95, 116, 111, 107, 101, 110]   -- "auth_token"

/-- a credential entry: absent = empty string; present but not a string = refused -/
def credential (es : List (Bytes × Val)) (k : Bytes) : Option Bytes :=
  match lookup es k with
  | none => some []
  | some (.str b) => some b
  | some _ => none

/-- what `serviceAuthenticate.Authenticate` hands to the authenticator -/
def credentials (es : List (Bytes × Val)) : Option (Bytes × Bytes) :=
  match credential es keyUser, credential es keyToken with
  | some u, some t => some (u, t)
  | _, _ => none

/-- an authenticator: any predicate on user and token -/
abbrev Authenticator := Bytes → Bytes → Bool

/-- the payload is an authenticate request whose credentials the authenticator accepts -/
def accepted (acc : Authenticator) (payload : Bytes) : Bool :=
  match readCapMap payload with
  | .error _ => false
  | .ok es =>
    match credentials es with
    | some (u, t) => acc u t
    | none => false

inductive Ev where
  | ignored                      -- not for the server's handler
  | refusedClosed                -- firewall: "Not authenticated" error, connection closed
  | svcNotFound
  | objNotFound (svc : Nat)
  | probe (svc : Nat)            -- handed to an object of service `svc ≠ 0`
  | queued                       -- put into the mailbox of service 0
  | actionNotFound
  | capError                     -- the capability map does not parse
  | authReply (state : Nat)      -- 3 = done, 1 = error
  | silent                       -- neither call nor post: service 0 does not run anything
  | badFrame                     -- not a valid header: the connection is closed
  | dead                         -- the connection is closed: nothing is read any more
  deriving Repr, DecidableEq

structure Conn where
  auth : Bool := false
  closed : Bool := false
  received : List Frame := []    -- history: every frame the connection goroutine took
  deriving Repr

structure Srv where
  conns : List Conn := []
  box : List (Nat × Frame) := []       -- mailbox of service 0 / object 0: FIFO over all connections
  trace : List (Nat × Ev) := []        -- what happened, per connection
  deriving Repr

/-- the services registered besides service 0, each with its main object 1 -/
structure Cfg where
  acc : Authenticator
  services : List Nat

def setConn (cs : List Conn) (k : Nat) (f : Conn → Conn) : List Conn :=
  match cs[k]? with
  | some c => cs.set k (f c)
  | none => cs

/-- what the connection goroutine does with a frame, given the connection's state -/
def classify (cfg : Cfg) (c : Conn) (f : Frame) : Ev :=
  if c.closed then .dead
  else if badType f.typ then .badFrame
  else if ignoredType f.typ then .ignored
  else if !c.auth && f.svc != 0 then .refusedClosed
  else if f.svc == 0 then (if f.obj == 0 then .queued else .objNotFound 0)
  else if cfg.services.contains f.svc then (if f.obj == 1 then .probe f.svc else .objNotFound f.svc)
  else .svcNotFound

/-- the frame got past the gate to a service other than service 0 (or to the router's lookup of one) -/
def Ev.reachedService : Ev → Bool
  | .probe _ => true
  | .objNotFound svc => svc != 0
  | .svcNotFound => true
  | _ => false

/-- the connection after the frame was handled with outcome `ev` -/
def connAfter (c : Conn) (f : Frame) (ev : Ev) : Conn :=
  if ev == .dead || ev == .ignored then c
  else if ev == .badFrame then { c with closed := true }
  else { c with received := c.received ++ [f], closed := ev == .refusedClosed }

/-- the connection goroutine of connection `k` takes the next frame -/
def recv (cfg : Cfg) (s : Srv) (k : Nat) (f : Frame) : Srv :=
  match s.conns[k]? with
  | none => s
  | some c =>
    let ev := classify cfg c f
    let c1 : Conn := connAfter c f ev
    { s with conns := s.conns.set k c1,
             box := if ev == .queued then s.box ++ [(k, f)] else s.box,
             trace := s.trace ++ [(k, ev)] }

/-- the outcome of `serviceAuthenticate.Receive` on one mail -/
def authOutcome (acc : Authenticator) (f : Frame) : Ev :=
  if f.typ != 1 && f.typ != 4 then .silent
  else if f.act != authenticateAction then .actionNotFound
  else match readCapMap f.payload with
    | .error _ => .capError
    | .ok es =>
      match credentials es with
      | some (u, t) => if acc u t then .authReply 3 else .authReply 1
      | none => .authReply 1

/-- the mailbox goroutine of service 0 handles its oldest mail -/
def process (cfg : Cfg) (s : Srv) : Srv :=
  match s.box with
  | [] => s
  | (k, f) :: rest =>
    let ev := authOutcome cfg.acc f
    let conns := if ev == .authReply 3 then setConn s.conns k (fun c => { c with auth := true }) else s.conns
    { s with conns := conns, box := rest, trace := s.trace ++ [(k, ev)] }

def connect (s : Srv) : Srv := { s with conns := s.conns ++ [{}] }

inductive Action where
  | connect
  | recv (k : Nat) (f : Frame)
  | process

def step (cfg : Cfg) (s : Srv) : Action → Srv
  | .connect => connect s
  | .recv k f => recv cfg s k f
  | .process => process cfg s

def run (cfg : Cfg) (s : Srv) : List Action → Srv
  | [] => s
  | a :: r => run cfg (step cfg s a) r

end QiVerif.Auth
