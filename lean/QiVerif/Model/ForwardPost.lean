/-
  Posts to an object hosted by a client (bus/object.go: `clientObject.Receive`).  A call gets a goroutine of its own
  (`go c.handleCall(msg, from)`, Model/Forward.lean); a post (or a cancel) is sent on as it is — same type, same
  message id, the object's identifier on the host's side — with `c.channel.Send(msg)` from the mailbox's goroutine:
  nothing waits for an answer and nothing is sent back.  `PSys` is the composed system of Model/Forward.lean with that
  step beside it; `stepLoose` is the forwarder that puts posts through `handleCall` too (the guard on the type gone).
-/
import QiVerif.Model.Forward
namespace QiVerif.ForwardPost
open QiVerif QiVerif.Calls QiVerif.Forward

/-- the forwarding of the posts beside the forwarding of the calls: which request was sent on as which message of
    the connection to the host -/
structure PSys where
  f : FSys := {}
  sentOn : List (Nat × Nat) := []
  deriving Repr

inductive PAct where
  | base (a : FAct)
  | forwardPost (i : Nat)     -- the mailbox hands post `i` to the client object: `c.channel.Send(msg)`, the type kept
  deriving Repr

def stepP (g : Cfg) (s : PSys) : PAct → PSys
  | .base a => { s with f := stepF g s.f a }
  | .forwardPost i =>
    match s.f.out.calls[i]? with
    | some c =>
      if c.stage == .sent && c.isPost && forwarded g c && !(s.sentOn.any (fun p => p.1 == i)) then
        { f := { s.f with inn := post s.f.inn 0 c.key.svc (g.remote c.key.svc c.key.obj) c.key.act c.key.id c.arg },
          sentOn := s.sentOn ++ [(i, s.f.inn.calls.length)] }
      else s
    | none => s

def runP (g : Cfg) (s : PSys) : List PAct → PSys
  | [] => s
  | a :: r => runP g (stepP g s a) r

/-- the loose forwarder: posts go through `handleCall` like calls (`.forward` without its `!c.isPost`) -/
def stepLoose (g : Cfg) (s : FSys) : FAct → FSys
  | .forward i =>
    match s.out.calls[i]? with
    | some c =>
      if c.stage == .sent && forwarded g c && !(s.fwd.any (fun fw => fw.outer == i)) then
        { s with inn := call s.inn 0 c.key.obj c.key.svc (g.remote c.key.svc c.key.obj) c.key.act c.arg,
                 fwd := s.fwd ++ [{ outer := i, inner := s.inn.calls.length }] }
      else s
    | none => s
  | a => stepF g s a

def runLoose (g : Cfg) (s : FSys) : List FAct → FSys
  | [] => s
  | a :: r => runLoose g (stepLoose g s a) r

end QiVerif.ForwardPost
