/-
  Model of bus/session/session.go `(*Session).client`: the per-goroutine
  program over the `pollMutex` RWMutex and the `poll` map, interpreted for any
  number of goroutines.  The program is *data* (`List Instr`), compiled from the
  token list that the extractor regenerates from the Go function body.
-/
namespace QiVerif.Session

/-- client (connection) identifiers -/
abbrev Cid := Nat
abbrev Tid := Nat

inductive Instr where
  | rlock | runlock | lock | unlock
  | lookup            -- hit := poll[addr]
  | ifHit (skip : Nat) -- if no hit, skip the next `skip` instructions
  | dial              -- own := a fresh connection (or the dial fails: return an error)
  | insert            -- poll[addr] := own
  | closeOwn          -- endpoint.Close() on the connection this goroutine dialled
  | addHandler
  | retHit | retOwn
  deriving Repr, DecidableEq

inductive Tok where
  | instr (i : Instr) | opn | cls | skip

def tokOf : String → Tok
  | "RLock" => .instr .rlock | "RUnlock" => .instr .runlock | "Lock" => .instr .lock
  | "Unlock" => .instr .unlock | "lookup" => .instr .lookup | "insert" => .instr .insert
  | "closeOwn" => .instr .closeOwn | "addHandler" => .instr .addHandler
  | "return-hit" => .instr .retHit | "return-own" => .instr .retOwn | "dial" => .instr .dial
  | "if-hit {" => .opn | "}" => .cls | _ => .skip

/-- number of instructions up to the closing brace of an `if-hit {` body -/
def countBody : List Tok → Nat
  | [] => 0
  | .cls :: _ => 0
  | .instr _ :: r => 1 + countBody r
  | .opn :: r => 1 + countBody r
  | .skip :: r => countBody r

/-- tokens → program.  `for {` / `}` of the address loop are dropped (the loop is one
    look-up over the service's addresses), `if-hit {` … `}` becomes `ifHit n`. -/
def resolve : List Tok → List Instr
  | [] => []
  | .instr i :: r => i :: resolve r
  | .opn :: r => .ifHit (countBody r) :: resolve r
  | .cls :: r => resolve r
  | .skip :: r => resolve r

def compile (toks : List String) : List Instr := resolve (toks.map tokOf)

/-- the tokens of `client` as it should read (write section released with `Unlock`) -/
def expectedTokens : List String :=
  ["RLock", "for {", "lookup", "if-hit {", "RUnlock", "return-hit", "}", "}", "RUnlock", "dial",
   "Lock", "lookup", "if-hit {", "Unlock", "closeOwn", "return-hit", "}", "insert", "Unlock",
   "addHandler", "return-own"]

/-- … and as it read on the pinned tree (F-C19-1): `RUnlock` under the write lock -/
def pinnedTokens : List String :=
  ["RLock", "for {", "lookup", "if-hit {", "RUnlock", "return-hit", "}", "}", "RUnlock", "dial",
   "Lock", "lookup", "if-hit {", "RUnlock", "closeOwn", "return-hit", "}", "insert", "Unlock",
   "addHandler", "return-own"]

/-- the program the theorems are about -/
def prog : List Instr :=
  [.rlock, .lookup, .ifHit 2, .runlock, .retHit, .runlock, .dial, .lock, .lookup, .ifHit 3,
   .unlock, .closeOwn, .retHit, .insert, .unlock, .addHandler, .retOwn]

inductive Ret where
  | running
  | ok (c : Cid)
  | err
  deriving Repr, DecidableEq

structure TS where
  pc : Nat := 0
  hit : Option Cid := none
  own : Option Cid := none
  ret : Ret := .running
  deriving Repr

structure Sys where
  th : Tid → TS
  rd : Tid → Bool            -- which goroutines hold the read lock
  wr : Option Tid            -- who holds the write lock
  pend : Tid → Bool          -- who has announced a `Lock` and waits for the readers to leave (Go's RWMutex: from
                             -- that moment on no new reader gets in)
  poll : Option Cid          -- poll[addr] (one address; different addresses are independent maps entries)
  fresh : Cid                -- next connection id
  closed : Cid → Bool        -- connections closed by `closeOwn`
  panicked : Bool            -- "fatal error: sync: (R)Unlock of unlocked RWMutex"

def init : Sys :=
  { th := fun _ => {}, rd := fun _ => false, wr := none, pend := fun _ => false, poll := none, fresh := 0,
    closed := fun _ => false, panicked := false }

def upd {α} (f : Tid → α) (t : Tid) (v : α) : Tid → α := fun u => if u = t then v else f u

/-- One step of goroutine `t < n` of program `p` (there are `n` goroutines).  `none`: `t` cannot move (blocked on the
    mutex, finished, or the process already died).  `dialOk` resolves the one external
    choice (whether the dial succeeds). -/
def step (p : List Instr) (n : Nat) (s : Sys) (t : Tid) (dialOk : Bool) : Option Sys :=
  if s.panicked then none else
  if n ≤ t then none else
  let ts := s.th t
  if ts.ret ≠ .running then none else
  match p[ts.pc]? with
  | none => none
  | some i =>
    let next (ts' : TS) : TS := { ts' with pc := ts.pc + 1 }
    match i with
    | .rlock =>
      if s.wr.isSome then none   -- blocked
      else if (List.range n).any s.pend then none   -- a writer is waiting: new readers queue behind it
      else some { s with rd := upd s.rd t true, th := upd s.th t (next ts) }
    | .runlock =>
      if s.rd t then some { s with rd := upd s.rd t false, th := upd s.th t (next ts) }
      else some { s with panicked := true }
    | .lock =>
      if s.wr.isSome then none
      else if s.pend t then
        -- announced: waits for the readers that are inside to leave
        if (List.range n).any s.rd then none
        else some { s with wr := some t, pend := upd s.pend t false, th := upd s.th t (next ts) }
      else if (List.range n).any s.pend then none   -- writers queue on the mutex's inner lock
      else some { s with pend := upd s.pend t true }   -- announce; the program counter stays
    | .unlock =>
      if s.wr = some t then some { s with wr := none, th := upd s.th t (next ts) }
      else some { s with panicked := true }
    | .lookup => some { s with th := upd s.th t (next { ts with hit := s.poll }) }
    | .ifHit k =>
      if ts.hit.isSome then some { s with th := upd s.th t (next ts) }
      else some { s with th := upd s.th t { ts with pc := ts.pc + 1 + k } }
    | .dial =>
      if dialOk then
        some { s with fresh := s.fresh + 1, th := upd s.th t (next { ts with own := some s.fresh }) }
      else some { s with th := upd s.th t { ts with ret := .err } }
    | .insert => some { s with poll := ts.own, th := upd s.th t (next ts) }
    | .closeOwn =>
      match ts.own with
      | some c => some { s with closed := upd s.closed c true, th := upd s.th t (next ts) }
      | none => some { s with th := upd s.th t (next ts) }
    | .addHandler => some { s with th := upd s.th t (next ts) }
    | .retHit =>
      match ts.hit with
      | some c => some { s with th := upd s.th t { ts with ret := .ok c } }
      | none => some { s with panicked := true }   -- nil client returned
    | .retOwn =>
      match ts.own with
      | some c => some { s with th := upd s.th t { ts with ret := .ok c } }
      | none => some { s with panicked := true }

end QiVerif.Session
