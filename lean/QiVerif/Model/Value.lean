/-
  Model of type/value/value.go: `NewValue` (the dispatch table on the signature
  string, lists, raw buffers, opaque values read through the signature-driven
  reader) and the `Write` methods.
-/
import QiVerif.Model.Codec
namespace QiVerif.Value
open QiVerif QiVerif.Sig QiVerif.Codec

inductive Val where
  | scalar (letter : UInt8) (n : Nat)   -- c C w W i I l L f b, as the unsigned number of its bytes
  | str (b : Bytes)
  | raw (b : Bytes)
  | void
  | list (xs : List Val)
  | opaque (sig : Bytes) (data : Bytes)
  deriving Repr, Inhabited

def listValueMaxSize : Nat := 4096
def rawValueMaxSize : Nat := 10485760

/-- the scalar keys of the `solve` table -/
def tableScalars : List UInt8 := [99, 67, 119, 87, 105, 73, 108, 76, 98, 102]

def objRefSigString : String :=
  "(({I(Issss[(ss)<MetaMethodParameter,name,description>]s)<MetaMethod,uid,returnSignature,name,parametersSignature,description,parameters,returnDescription>}{I(Iss)<MetaSignal,uid,name,signature>}{I(Iss)<MetaProperty,uid,name,signature>}s)<MetaObject,methods,signals,properties,description>II)<ObjectReference,metaObject,serviceID,objectID>"

def objRefSig : Bytes := objRefSigString.toUTF8.toList

def writeString (b : Bytes) : Bytes := leN 4 b.length ++ b

mutual
/-- `Value.Write` -/
def writeVal : Val → Bytes
  | .scalar c n => writeString [c] ++ (match width c with | some w => leN w n | none => [])
  | .str b => writeString [115] ++ writeString b
  | .raw b => writeString [114] ++ leN 4 b.length ++ b
  | .void => writeString [118]
  | .list xs => writeString [91, 109, 93] ++ leN 4 xs.length ++ writeVals xs
  | .opaque sig data => writeString sig ++ data
def writeVals : List Val → Bytes
  | [] => []
  | v :: r => writeVal v ++ writeVals r
end

/-- `newOpaque`: `signature.MakeReader(sig)` then `Read`; `f` is the stack depth left -/
def readOpaque (f : Nat) (sig r : Bytes) : Res (Val × Bytes) :=
  let sig' := if sig == [111] then objRefSig else sig
  match parseSig sig' with
  | .error e => .error e
  | .ok t =>
    match readT f t r with
    | .error e => .error e
    | .ok (data, r') => .ok (.opaque sig' data, r')

mutual
/-- `value.NewValue` -/
def readVal : Nat → Bytes → Res (Val × Bytes)
  | 0, _ => .error .hang
  | f + 1, inp =>
    match readString inp with
    | .error e => .error e
    | .ok (sig, r) =>
      match sig with
      | [c] =>
        if tableScalars.contains c then
          match width c with
          | none => .error .err
          | some w =>
            match readLE w r with
            | .error e => .error e
            | .ok (n, r') => .ok (.scalar c (if c == 98 then (if n = 0 then 0 else 1) else n), r')
        else if c == 115 then
          match readString r with
          | .error e => .error e
          | .ok (s, r') => .ok (.str s, r')
        else if c == 114 then
          match readLE 4 r with
          | .error e => .error e
          | .ok (size, r1) =>
            if size > rawValueMaxSize then .error .err
            else match takeN size r1 with
              | .ok (b, r') => .ok (.raw b, r')
              | .error _ => .error .err
        else if c == 118 then .ok (.void, r)
        else if c == 109 then readVal f r            -- "m": a value inside a value
        else readOpaque f sig r
      | [91, 109, 93] =>
        match readLE 4 r with
        | .error e => .error e
        | .ok (size, r1) =>
          if size > listValueMaxSize then .error .err
          else match readVals f size r1 with
            | .error e => .error e
            | .ok (xs, r') => .ok (.list xs, r')
      | _ => readOpaque f sig r
def readVals : Nat → Nat → Bytes → Res (List Val × Bytes)
  | 0, _, _ => .error .hang
  | _ + 1, 0, inp => .ok ([], inp)
  | f + 1, n + 1, inp =>
    match readVal f inp with
    | .error e => .error e
    | .ok (v, r) =>
      match readVals f n r with
      | .error e => .error e
      | .ok (vs, r') => .ok (v :: vs, r')
end
def valFuel (inp : Bytes) : Nat := 8 * inp.length + 64

/-- entry point with the fuel the input length allows -/
def newValue (inp : Bytes) : Res (Val × Bytes) := readVal (valFuel inp) inp

end QiVerif.Value
