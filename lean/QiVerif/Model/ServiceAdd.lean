/-
  `serviceImpl.Add` with its real grain (bus/service.go): on an activated service `Add` works in two critical
  sections with the activation of the new object between them, outside the lock:

      Lock; draw an identifier no object holds; objects[id] = pendingObject{}; boxes[id] = mailbox of it; Unlock
      obj.Activate(…)                          -- any other operation of the service may run here
      Lock; objects[id] = obj; boxes[id] = mailbox of obj; Unlock

  The machine of Model/Service.lean has `Add` as one step.  Here the two halves are steps of their own
  (`addBegin`, `addEnd`) around the unchanged steps of that machine; an identifier between the two halves is
  *pending*: it is taken, messages for it are answered with an error by the placeholder, removing it removes
  the placeholder.
-/
import QiVerif.Model.Service
namespace QiVerif.ServiceAdd
open QiVerif.Service

structure SvcW where
  svc : Svc := {}
  pending : List Nat := []        -- identifiers whose `Add` is between its two critical sections
  deriving Repr

inductive OpW where
  | op (o : Op)                   -- a step of the one-step machine (`add` there: a service not yet activated)
  | addBegin (id : Nat)           -- first critical section of `Add`, which drew `id`
  | addEnd (id : Nat)             -- second critical section (the activation succeeded)
  deriving Repr

/-- the identifier an operation is addressed to -/
def target : Op → Nat
  | .add id => id
  | .remove id => id
  | .call id => id
  | .terminate id _ => id
  | .subscribe id _ => id

def stepW (s : SvcW) : OpW → SvcW × Out
  | .addBegin id =>
    if (lookup id s.svc.objects).isSome || s.pending.contains id then (s, .retry)
    else ({ s with pending := id :: s.pending }, .ok)
  | .addEnd id =>
    let (svc', o) := step s.svc (.add id)
    ({ svc := svc', pending := s.pending.erase id }, o)
  | .op o =>
    if s.pending.contains (target o) then
      match o with
      | .add _ => (s, .retry)                                        -- the identifier is taken
      | .remove id => ({ s with pending := s.pending.erase id }, .ok)  -- the placeholder goes; no hook of an object runs
      | _ => (s, .errorReply)                                        -- `pendingObject.Receive`: an error, nothing runs
    else
      let (svc', out) := step s.svc o
      ({ s with svc := svc' }, out)

def runW (s : SvcW) : List OpW → SvcW
  | [] => s
  | o :: r => runW (stepW s o).1 r

end QiVerif.ServiceAdd
