/-
  `clientObject.Receive` and `clientObject.handleCall` (bus/object.go), token by token, as the extractor finds them now.
  What Model/Forward.lean and Model/ForwardPost.lean assume of them is read off these lists: only a *call* gets a
  goroutine (`go c.handleCall`; the registration to a signal, action 0, has `handleRegister`); a post or a cancel is sent
  on with `c.channel.Send(msg)` and nothing else; `handleCall` makes one call of its own to the host and answers the
  request it was started with — an error with `SendError`, a result with `SendReply` — once.
-/
import QiVerif.Generated.Calls
namespace QiVerif.Tie.ClientObject
open QiVerif

theorem receive_flow :
    Gen.Calls.clientObjectReceiveFlow =
    ["if msg.Header.Type == net.Call && msg.Header.Action == 0x0 {",
     "go{",
     "call c.handleRegister",
     "}",
     "return nil",
     "}",
     "else {",
     "if msg.Header.Type == net.Call {",
     "go{",
     "call c.handleCall",
     "}",
     "return nil",
     "}",
     "else {",
     "if msg.Header.Type == net.Post || msg.Header.Type == net.Cancel {",
     "call c.channel.Send",
     "return c.channel.Send(msg)",
     "}",
     "}",
     "}",
     "call from.SendError",
     "return from.SendError(msg, fmt.Errorf(\"unexpect…"] := by decide

theorem handle_call_flow :
    Gen.Calls.clientObjectHandleCallFlow =
    ["call c.client.Call",
     "if err != nil {",
     "call from.SendError",
     "return from.SendError(msg, err)",
     "}",
     "call from.SendReply",
     "return from.SendReply(msg, resp)"] := by decide

/-- the branch that starts `handleCall` is guarded by "the message is a call", and the one for posts and cancels holds
    one send and no goroutine -/
theorem posts_are_sent_on_as_they_are :
    (Gen.Calls.clientObjectReceiveFlow.drop 7).take 4 = ["if msg.Header.Type == net.Call {", "go{", "call c.handleCall", "}"] ∧
    (Gen.Calls.clientObjectReceiveFlow.drop 14).take 4 =
      ["if msg.Header.Type == net.Post || msg.Header.Type == net.Cancel {", "call c.channel.Send", "return c.channel.Send(msg)", "}"] ∧
    (Gen.Calls.clientObjectReceiveFlow.filter (· == "call c.handleCall")).length = 1 := by decide

end QiVerif.Tie.ClientObject
