/-
  The lock order of bus/ as harness/cmd/extract/lockorder.go finds it in the source now: every function and function
  literal under bus/ that takes a mutex and everything it may call that may come to take one (Generated/LockOrder.lean,
  regenerated on every run).  The checker of Model/Locks.lean accepts each of them; the translator's hint of what each
  may take is closed under calls; the relation "asked for while held", directly or through any chain of calls, has a
  rank under which every edge goes upwards — hence (Props/LockOrder.lean `no_lock_order_deadlock`) no set of goroutines
  of bus/ that wait for mutexes of bus/ is deadlocked by the order in which they took them.

  On the tree as pinned the relation had a cycle: `logListenerImpl.AddFilter` called `logManager.UpdateFilters`
  (listenersMutex) with its filtersMutex held, `logManager.Log` takes the filtersMutex of every listener under
  listenersMutex — a genuine defect, shown on the real code and repaired (b9d045b); `the_cycle_before_the_repair` keeps
  its shape.  An obligation of the checks of C10–C17 and C19.
-/
import QiVerif.Generated.LockOrder
import QiVerif.Props.LockOrder
namespace QiVerif.Tie.LockOrder
open QiVerif.Locks QiVerif.LockOrder

abbrev T : Table := Gen.LockOrder.fns
abbrev A : List (List Nat) := Gen.LockOrder.acq

/-- the rank of every mutex of bus/ that is ever held while another is asked for, or asked for while another is held -/
def rt : List (Nat × Nat) := rankTable (edges T A)

set_option maxRecDepth 100000 in
theorem every_function_is_accepted : allSafe T = true := by decide +kernel

set_option maxRecDepth 100000 in
/-- the translator's hint is checked, not trusted -/
theorem acq_is_closed : closed T A = true := by decide +kernel

set_option maxRecDepth 100000 in
/-- **every edge goes upwards** -/
theorem the_order_is_ranked : ranked (edges T A) rt = true := by decide +kernel

/-- every lock operation is on a mutex the translator could name (a field of a struct of bus/, an embedded mutex, a
    variable): none is identified by the text of an expression only -/
theorem every_mutex_is_named : Gen.LockOrder.unresolvedMutexes = [] := by decide

set_option maxRecDepth 100000 in
/-- calls through a function value made while a mutex is held — what they run the translator does not know: three
    functions on this tree (the filters and consumers of `dispatch`, documented not to call back into the endpoint;
    the termination hooks of a service and of a session).  A new one changes this list. -/
theorem calls_through_function_values_under_a_mutex :
    ((dynamicUnderLock T).map (fun p => (p.1, p.2.map (fun m => Gen.LockOrder.mutexes.getD m "?")))).eraseDups =
      [("bus/net/endpoint.go endPoint.dispatch", ["bus/net.endPoint.handlersMutex"]),
       ("bus/service.go serviceImpl.Terminate", ["bus.serviceImpl.self"]),
       ("bus/session/session.go Session.Terminate", ["bus/session.Session.cancelMutex"])] := by decide +kernel

set_option maxRecDepth 100000 in
/-- **What waits for another party under a mutex, directly or through calls.**  A wait (0 a channel send, 1 a channel
    receive, 2 a message sent to a peer, 3 a call to a peer, 4 a `Wait`) is translated as a mutex of its own (900 + kind),
    so `asks_edges` speaks of it too: these are all the pairs (mutex held somewhere on the stack, kind of wait) of bus/.
    The directory announces a service under its mutex (that is what keeps the events in the order of the transitions —
    C15); the log manager tells its listeners and calls its providers under its mutexes; `dispatch` answers a call it
    cannot queue under the handler mutex (the listed finding of C12); the (un)registration of a subscription calls the
    peer under the client's subscription mutex, which is what serialises registrations (C13); a service tells the
    subscribers of its objects that it ends under its own mutex.  A change that makes anything else wait under a mutex —
    a push into a mailbox under the read lock of the service (the seeded changes C16j, C12n), through however many
    calls — changes this list. -/
theorem what_waits_under_a_mutex_through_calls :
    (norm (((edges T A).filter (fun e => 900 ≤ e.2)).map (fun e => e.1 * 1000 + e.2))).map
        (fun c => (Gen.LockOrder.mutexes.getD (c / 1000) "?", c % 1000 - 900)) =
      [("bus/directory.serviceDirectory.mutex", 2),
       ("bus/logger.logManager.listenersMutex", 2),
       ("bus/logger.logManager.providersMutex", 0),
       ("bus/logger.logManager.providersMutex", 1),
       ("bus/logger.logManager.providersMutex", 2),
       ("bus/logger.logManager.providersMutex", 3),
       ("bus/net.endPoint.handlersMutex", 2),
       ("bus var lock", 0),
       ("bus var lock", 1),
       ("bus var lock", 2),
       ("bus var lock", 3),
       ("bus.serviceImpl.self", 2)] := by decide +kernel

/-- the functions the models of C10–C19 speak about are in the table, and the mutexes they speak about are named -/
theorem the_modelled_functions_are_there :
    (["bus/net/endpoint.go endPoint.dispatch", "bus/net/endpoint.go endPoint.closeWith",
      "bus/service.go serviceImpl.Add", "bus/service.go serviceImpl.Remove",
      "bus/session/session.go Session.client", "bus/logger/log_manager.go logManager.Log",
      "bus/logger/log_listener.go logListenerImpl.AddFilter"].all
        (fun n => T.any (fun f => f.1 == n))) = true ∧
    (["bus/net.endPoint.handlersMutex", "bus.signalHandler.signalsMutex", "bus.serviceImpl.self", "bus.Router.self",
      "bus/session.Session.pollMutex", "bus/directory.serviceDirectory.mutex"].all
        (fun n => Gen.LockOrder.mutexes.contains n)) = true := by decide +kernel

/-- **No deadlock by lock order under bus/**: goroutines each of which came to wait for a mutex through some chain of
    calls of these functions, holding what the frames of that chain hold, are never deadlocked. -/
theorem bus_has_no_lock_order_deadlock (ws : List Waiter) (hw : ∀ w ∈ ws, ∃ f, Asks T f w.held w.wants) :
    ¬ Deadlocked ws :=
  no_lock_order_deadlock T A rt every_function_is_accepted acq_is_closed the_order_is_ranked ws hw

/-- no mutex of bus/ is, through any number of steps "asked for while held", asked for while it is held itself -/
theorem no_cycle_among_the_mutexes_of_bus (m : Nat) : ¬ Path (edges T A) m m :=
  ranked_acyclic (edges T A) rt the_order_is_ranked m

/-- the shape of the cycle the pinned tree had (`AddFilter` kept its lock across the call; 0 the filters of a listener,
    1 the listeners of the manager): refused, and the goroutines it speaks of are deadlocked -/
theorem the_cycle_before_the_repair :
    let T0 : Table :=
      [("logListenerImpl.AddFilter", .seq (.lock 0) (.seq (.dunlock 0) (.seq (.act 1002) .ret))),
       ("logManager.Log", .seq (.lock 1) (.seq (.dunlock 1) (.seq (.loop (.act 1003)) .ret))),
       ("logManager.UpdateFilters", .seq (.lock 1) (.unlock 1)),
       ("logListenerImpl.Messages", .seq (.lock 0) (.unlock 0))]
    allSafe T0 = true ∧ closed T0 (acquires T0) = true ∧ edges T0 (acquires T0) = [(0, 1), (1, 0)] ∧
    ranked (edges T0 (acquires T0)) (rankTable (edges T0 (acquires T0))) = false := by decide

/-- **The translator, applied to a text of its own** (embedded in lockorder.go, translated on every run): a method
    called on the receiver, on a field of a struct type, on an interface (every method of that name and arity under
    bus/), on a local variable typed by a declaration, by a constructor and by a range clause; a function literal
    handed to a call; a goroutine (no call here); a call through a function value; `wg.Add(1)` on a `sync.WaitGroup`
    (not the `Add` of a type of the package); the embedded mutex of a field's type (read lock) and the same mutex
    through the type's own method (write lock): one mutex; a function that sends on a channel — an attempt in a `select`
    with a default, which is nothing, then a send that waits: the mutex 900 — called with a mutex held: the edge (0, 900). -/
theorem translator_self_test :
    Gen.LockOrder.selfTestMutexes = ["p.A.mu", "p.B.self"] ∧
    Gen.LockOrder.selfTest =
      [("p/selftest.go A.f", (.seq (.lock 0) (.seq (.dunlock 0) (.seq (.act 1002) (.seq (.act 1003) (.seq (.ite (.act 1004) (.act 1005)) (.seq (.act 999) (.seq (.ite (.act 1001) .skip) (.seq (.loop (.act 1003)) (.act 1004)))))))))),
       ("p/selftest.go A.f func#L26C17", (.seq (.act 1002) .ret)),
       ("p/selftest.go A.g", (.seq (.lock 1) (.unlock 1))),
       ("p/selftest.go B.h", (.seq (.lock 1) (.unlock 1))),
       ("p/selftest.go C.Do", (.act 1003)),
       ("p/selftest.go D.Do", (.act 1002)),
       ("p/selftest.go D.k", (.seq (.lock 0) (.seq (.act 1007) (.unlock 0)))),
       ("p/selftest.go D.send", (.seq (.catch (.ite .skip .skip)) (.seq (.lock 900) (.unlock 900))))] ∧
    Gen.LockOrder.selfTestAcq = [[0, 1], [1], [1], [1], [1], [1], [0, 900], [900]] ∧
    closed Gen.LockOrder.selfTest Gen.LockOrder.selfTestAcq = true ∧
    (edges Gen.LockOrder.selfTest Gen.LockOrder.selfTestAcq).eraseDups = [(0, 1), (0, 900)] := by decide

end QiVerif.Tie.LockOrder
