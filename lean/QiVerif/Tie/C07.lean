/-
  Tie for C07: where sizes read from the wire meet allocations.  The decoders themselves
  are tied under C01 (Message.Read, ReadN, ReadString), C02 (NewValue, readers), C03
  (reflection decoder), C09 (signature grammar); here: the capability map (limit before
  make), the reflection decoder's limit, and the generated readers (no limit: F-C07-2).
-/
import QiVerif.Generated.GenReaders
import QiVerif.Tie.C01
import QiVerif.Tie.C02
import QiVerif.Tie.C03
import QiVerif.Tie.C09
import QiVerif.Model.Decode
namespace QiVerif.Tie.C07
open QiVerif.Decode

theorem limits :
    some Gen.GenReaders.capabilityMapSizeMax = capMapCfg.countLimit ∧
    some Gen.GenReaders.reflectListMax = reflectCfg.countLimit := by decide

/-- `ReadCapabilityMap`: the count is compared with the limit before `make` -/
theorem capmap_flow :
    Gen.GenReaders.readCapabilityMapFlow =
      ["call basic.ReadUint32",
         "if err != nil {",
         "return m, fmt.Errorf(\"read map size: %s\", err)",
         "}",
         "if size > capabilityMapSizeMax {",
         "return m, ErrCapabilityTooLong",
         "}",
         "call make",
         "call basic.ReadString",
         "if err != nil {",
         "return m, fmt.Errorf(\"read map key: %s\", err)",
         "}",
         "call value.NewValue",
         "if err != nil {",
         "return m, fmt.Errorf(\"read map value: %s\", err)",
         "}",
         "return m, nil"] := rfl

/-- `ReadString`: the size is compared with `MaxStringSize` before `make` -/
theorem readString_guard :
    Gen.Basic.readString =
      ["call ReadUint32(r)", "if err != nil", "if size == 0", "if size > MaxStringSize", "call make([]byte, size)",
       "call ReadN(r, buf, int(size))", "if err != nil"] := by decide

/-- a generated list reader: the count read from the wire goes straight into `make`
    (`generatedCfg.countLimit = none`; finding F-C07-2) -/
theorem generated_reader_flow :
    Gen.GenReaders.readMetaMethodFlow =
      ["call basic.ReadUint32",
         "if err != nil {",
         "return s, fmt.Errorf(\"read Uid field: %s\", err)",
         "}",
         "call basic.ReadString",
         "if err != nil {",
         "return s, fmt.Errorf(\"read ReturnSignature field: …",
         "}",
         "call basic.ReadString",
         "if err != nil {",
         "return s, fmt.Errorf(\"read Name field: %s\", err)",
         "}",
         "call basic.ReadString",
         "if err != nil {",
         "return s, fmt.Errorf(\"read ParametersSignature fie…",
         "}",
         "call basic.ReadString",
         "if err != nil {",
         "return s, fmt.Errorf(\"read Description field: %s\",…",
         "}",
         "func{",
         "call basic.ReadUint32",
         "if err != nil {",
         "return b, fmt.Errorf(\"read slice size: %s\", err)",
         "}",
         "call make",
         "call readMetaMethodParameter",
         "if err != nil {",
         "return b, fmt.Errorf(\"read slice value: %s\", err)",
         "}",
         "return b, nil",
         "}",
         "if err != nil {",
         "return s, fmt.Errorf(\"read Parameters field: %s\", …",
         "}",
         "call basic.ReadString",
         "if err != nil {",
         "return s, fmt.Errorf(\"read ReturnDescription field…",
         "}",
         "return s, nil"] := rfl

theorem generated_cfg_has_no_limit : generatedCfg.countLimit = none := rfl

end QiVerif.Tie.C07
