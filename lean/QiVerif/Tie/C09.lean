/-
  Tie for C09: the grammar regenerated from meta/signature/signature.go init()
  is the one the theorems of Props/C09.lean run the combinator semantics on;
  the post-checks of Parse and the assertion structure of the callbacks are the
  ones transcribed in Model/Signature.lean.
-/
import QiVerif.Generated.SigGrammar
import QiVerif.Model.Signature
namespace QiVerif.Tie.C09

theorem grammar_tied : Gen.SigGrammar.rules = Sig.rules := rfl

theorem entry_tied : Gen.SigGrammar.entry = ["declarationType"] := by decide

/-- `Parse`: a text nested deeper than `MaxDepth` is refused first; then run the parser; nil root → error;
    input not consumed → error; `[]Node` of length one holding a `Type`, else error -/
theorem parse_steps :
    Gen.SigGrammar.parseSteps =
      ["if nesting(input) > MaxDepth", "root, rest := typeSignature(parsec.NewScanner(text))", "if root == nil", "if !rest.Endof()",
       "types, ok := root.([]Node)", "if !ok", "err, ok := root.(error)", "if !ok",
       "if len(types) != 1", "constructor, ok := types[0].(Type)", "if !ok"] := by decide

/-- the bound (`Sig.maxDepth`) -/
theorem max_depth : Gen.SigGrammar.maxDepth = Sig.maxDepth := rfl

/-- `nesting` (`Sig.nestingFrom`): one pass over the bytes; an opening bracket goes one level down and the deepest
    level is kept; a closing bracket comes back up, but not above the start -/
theorem nesting_steps :
    Gen.SigGrammar.nestingSteps =
      ["depth, deepest := 0, 0", "for i := 0; i < len(input); i++", "i := 0", "i++", "switch input[i]", "case '[', '{', '('",
       "depth++", "if depth > deepest", "deepest = depth", "case ']', '}', ')'", "if depth > 0", "depth--", "return deepest"] := by
  decide

/-- the callbacks' indexing, type assertions and constructors (what `Sig.act` transcribes) -/
theorem callbacks_tied :
    Gen.SigGrammar.callbacks =
      [("nodifyBasicType", "if len(nodes) != 1; assert nodes[0].(*parsec.Terminal); index nodes[0]; call NewIntType(); call NewUintType(); call NewLongType(); call NewULongType(); call NewStringType(); call NewBoolType(); call NewFloatType(); call NewDoubleType(); call NewVoidType(); call NewValueType(); call NewObjectType(); call NewUnknownType(); call NewInt8Type(); call NewUint8Type(); call NewInt16Type(); call NewUint16Type()"),
       ("extractValue", "assert object.([]Node); if !ok; assert nodes[0].(Type); index nodes[0]; if !ok; index nodes[0]"),
       ("nodifyMap", "if len(nodes) != 4; call extractValue(nodes[1]); index nodes[1]; if err != nil; call extractValue(nodes[2]); index nodes[2]; if err != nil; call NewMapType(key, value)"),
       ("nodifyArrayType", "if len(nodes) != 3; call extractValue(nodes[1]); index nodes[1]; if err != nil; call NewListType(value)"),
       ("extractMembersTypes", "assert node.([]Node); if !ok; call extractValue(typeList[i]); index typeList[i]; if err != nil; index types[i]"),
       ("extractMembersName", "assert node.([]Node); if !ok; assert n.(*parsec.Terminal); if !ok; index names[i]"),
       ("extractMembers", "call extractMembersTypes(typesNode); if err != nil; call extractMembersName(namesNode); if err != nil; if len(types) != len(names); index members[i]; call NewMemberType(names[i], types[i]); index names[i]; index types[i]"),
       ("nodifyTupleType", "call extractMembersTypes(nodes[1]); index nodes[1]; if err != nil; call NewTupleType(types)"),
       ("nodifyTypeMember", "index nodes[1]"),
       ("nodifyStrucType", "assert nodes[4].(*parsec.Terminal); index nodes[4]; if !ok; index nodes[4]; call extractMembers(nodes[1], nodes[5]); index nodes[1]; index nodes[5]; if err != nil; call NewStructType(name, members)")] :=
  rfl

end QiVerif.Tie.C09
