/-
  Every function and function literal under bus/ that touches a mutex, as harness/cmd/extract/locks.go finds them in the
  source now: the checker of Model/Locks.lean accepts each of them, hence (Props/Locks.lean `safe_sound`) none of them
  returns with a mutex held, locks one it holds, or unlocks one it does not hold, on any path.  The functions the models
  of C10–C17 and C19 speak about are among them (endPoint.dispatch / MakeHandler / RemoveHandler / closeWith,
  serviceImpl.Add / Remove / Receive, signalHandler.*, Session.*, serviceDirectory.*).
-/
import QiVerif.Generated.Locks
import QiVerif.Props.Locks
namespace QiVerif.Tie.Locks
open QiVerif.Locks

theorem every_function_is_safe : Gen.Locks.fns.all (fun f => safe f.2) = true := by decide

/-- the translator found them: the functions the models are about are in the list, and nothing was left unfollowed -/
theorem the_modelled_functions_are_there :
    (["bus/net/endpoint.go endPoint.dispatch", "bus/net/endpoint.go endPoint.MakeHandler",
      "bus/net/endpoint.go endPoint.RemoveHandler", "bus/net/endpoint.go endPoint.closeWith"].all
        (fun n => Gen.Locks.fns.any (fun f => f.1 == n))) = true ∧ 40 ≤ Gen.Locks.fns.length := by decide

/-- on every path of every one of them -/
theorem no_function_leaks_a_lock (n : String) (p : Prog) (hm : (n, p) ∈ Gen.Locks.fns) (o : Out) (h : Run p {} o) :
    ∃ s, (o = .normal s ∨ o = .returned s) ∧ final s.held s.deferred = some [] :=
  safe_sound p (List.all_eq_true.mp every_function_is_safe (n, p) hm) o h

/-- the functions in which something that may wait for another party — a channel send or receive outside of a `select`
    with a default, a message or a call to a peer, a `Wait` — is done while a mutex is held: one, `endPoint.dispatch`,
    which answers a call it cannot queue with `e.Send` under the handler mutex (the listed finding of C12: a peer that
    does not read its answers holds up the dispatch) -/
theorem what_waits_under_a_mutex :
    Gen.Locks.fns.filterMap (fun f => if (acts f.2 {}).isEmpty then none else some f.1) =
      ["bus/net/endpoint.go endPoint.dispatch"] ∧
    (Gen.Locks.fns.all (fun f => (acts f.2 {}).all (· == 2))) = true := by decide

/-- everywhere else, on every path, nothing that may wait is done under a mutex (the seeded changes C16j and C12n —
    the read lock held across the push into the mailbox — are refused here) -/
theorem elsewhere_nothing_waits_under_a_mutex (n : String) (p : Prog) (hm : (n, p) ∈ Gen.Locks.fns)
    (hn : n ≠ "bus/net/endpoint.go endPoint.dispatch") (o : Out) (t : List Nat) (h : RunT p {} o t) : t = [] := by
  have hs : safe p = true := List.all_eq_true.mp every_function_is_safe (n, p) hm
  have ha : acts p {} = [] := by
    cases hc : (acts p {}).isEmpty with
    | true => exact List.isEmpty_iff.mp hc
    | false =>
      have hmem : n ∈ Gen.Locks.fns.filterMap (fun f => if (acts f.2 {}).isEmpty then none else some f.1) :=
        List.mem_filterMap.mpr ⟨(n, p), hm, by simp [hc]⟩
      rw [what_waits_under_a_mutex.1] at hmem
      exact absurd (List.mem_singleton.mp hmem) hn
  exact nothing_waits_under_a_mutex p hs ha o t h

/-- no function literal started with `go` inside a loop refers to the loop's own variables (the module says go 1.13: one
    variable for all the rounds — the seeded change C06n dispatched `msg` that way) -/
theorem no_goroutine_shares_a_loop_variable : Gen.Locks.capturedLoopVars = [] := by decide

/-- **The translator, applied to a text of its own** (embedded in harness/cmd/extract/locks.go and translated on every
    run beside the sources): a deferred unlock, an early return, `continue` and `break` in a loop; a read lock, a `switch`
    whose `break` ends the switch, a return that unlocks first, a `select` with a default (its send is an attempt), a
    `select` without (a send, a receive), a message to a peer after the unlock (the send and the receive of the second `select` are under the read lock: `acts` finds them), a goroutine translated apart; a labelled
    `break` (not followed: `.unknown`); a loop variable shared with a goroutine and one handed over as an argument.
    The skeletons are what a reader of that text expects, and the checker says of them what it should. -/
theorem translator_self_test :
    Gen.Locks.selfTest =
      [("selftest.go T.a", (.seq (.lock 0) (.seq (.dunlock 0) (.seq (.ite .ret .skip) (.seq (.loop (.seq (.ite .cont .skip) .brk)) .ret))))),
       ("selftest.go T.b", (.seq (.lock 0) (.seq (.loop (.seq (.catch (.ite .brk (.ite (.seq (.unlock 0) .ret) .skip))) (.seq (.catch (.ite .skip .skip)) (.catch (.ite (.act 0) (.act 1)))))) (.seq (.unlock 0) (.act 2))))),
       ("selftest.go T.b func#0", (.seq (.lock 0) (.seq (.act 0) (.unlock 0)))),
       ("selftest.go T.c", (.seq (.lock 0) (.seq (.loop (.loop .unknown)) (.unlock 0))))] ∧
    Gen.Locks.selfTestCaptured = ["selftest.go T.d m"] ∧
    (Gen.Locks.selfTest.map (fun f => safe f.2)) = [true, true, true, false] ∧
    (Gen.Locks.selfTest.map (fun f => (acts f.2 {}).eraseDups)) = [[], [0, 1], [0], []] := by decide

end QiVerif.Tie.Locks
