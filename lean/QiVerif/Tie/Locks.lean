/-
  Every function and function literal under bus/ that touches a mutex, as harness/cmd/extract/locks.go finds them in the
  source now: the checker of Model/Locks.lean accepts each of them, hence (Props/Locks.lean `safe_sound`) none of them
  returns with a mutex held, locks one it holds, or unlocks one it does not hold, on any path.  The functions the models
  of C10–C17 and C19 speak about are among them (endPoint.dispatch / MakeHandler / RemoveHandler / closeWith,
  serviceImpl.Add / Remove / Receive, signalHandler.*, Session.*, serviceDirectory.*).
-/
import QiVerif.Generated.Locks
import QiVerif.Props.Locks
namespace QiVerif.Tie.Locks
open QiVerif.Locks

theorem every_function_is_safe : Gen.Locks.fns.all (fun f => safe f.2) = true := by decide

/-- the translator found them: the functions the models are about are in the list, and nothing was left unfollowed -/
theorem the_modelled_functions_are_there :
    (["bus/net/endpoint.go endPoint.dispatch", "bus/net/endpoint.go endPoint.MakeHandler",
      "bus/net/endpoint.go endPoint.RemoveHandler", "bus/net/endpoint.go endPoint.closeWith"].all
        (fun n => Gen.Locks.fns.any (fun f => f.1 == n))) = true ∧ 40 ≤ Gen.Locks.fns.length := by decide

/-- on every path of every one of them -/
theorem no_function_leaks_a_lock (n : String) (p : Prog) (hm : (n, p) ∈ Gen.Locks.fns) (o : Out) (h : Run p {} o) :
    ∃ s, (o = .normal s ∨ o = .returned s) ∧ final s.held s.deferred = some [] :=
  safe_sound p (List.all_eq_true.mp every_function_is_safe (n, p) hm) o h

end QiVerif.Tie.Locks
