/-
  Tie for C16: the operation sequences of serviceImpl.Add / Remove / Receive
  regenerated from bus/service.go are the ones `QiVerif.Service.step` transcribes.
-/
import QiVerif.Generated.Service
import QiVerif.Model.Service
import QiVerif.Model.Mailbox
namespace QiVerif.Tie.C16

/-- `Remove`: under the lock, if the object exists both map entries go away, then (outside
    the lock) the termination hook runs once; otherwise an error (`removeObj`) -/
theorem remove_flow :
    Gen.Service.removeFlow =
      ["Lock", "read objects", "if ok {", "delete objects", "delete boxes", "Unlock",
       "call obj.OnTerminate", "return nil", "}", "Unlock",
       "return fmt.Errorf(\"cannot remove object %d\", ob…"] := by decide

/-- `Receive`: the mailbox map decides; a missing mailbox is answered with an error frame -/
theorem receive_flow :
    Gen.Service.receiveFlow =
      ["RLock", "read boxes", "RUnlock", "if !ok {", "call from.SendError",
       "return from.SendError(m, ErrObjectNotFound)", "}", "send box", "return nil"] := by decide

/-- the sender's program of Model/Mailbox.lean is what the tokens of `Receive` compile to: the read lock is released
    before the send into the mailbox (Props/C16Mailbox.lean `not_stuck` is about this program) -/
theorem receive_compiles : Mailbox.compile Gen.Service.receiveFlow = Mailbox.prog := by decide

/-- `Add`: an identifier in use is never handed out (the draw is repeated), the object and
    its mailbox are entered together -/
theorem add_flow :
    Gen.Service.addFlow =
      ["Lock", "read objects", "read objects", "if mainObject || used {", "call rand.Uint32",
       "read objects", "if ok {", "Unlock", "call s.Add", "return s.Add(obj)", "}", "}",
       "use session", "if s.session == nil {", "write objects", "Unlock", "return ", "}",
       "write objects", "read objects", "call NewMailBox", "write boxes", "Unlock", "use session",
       "call obj.Activate", "Lock", "if err != nil {", "write objects", "}", "else {",
       "write objects", "call NewMailBox", "write boxes", "}", "Unlock", "return "] := by decide

end QiVerif.Tie.C16
