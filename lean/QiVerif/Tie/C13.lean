/-
  Tie for C13: `Proxy.SubscribeID`, its cancel function, the client's fan-out and the server's
  user table, as regenerated, are the actions of Model/Signals.lean.
-/
import QiVerif.Generated.Signals
import QiVerif.Generated.Client
import QiVerif.Model.Signals
namespace QiVerif.Tie.C13
open QiVerif.Signals

/-- `SubscribeID`: the local handler first (`attach`), then under the client's subscription lock
    the count and — for the first subscriber — the remote registration, awaited with the lock held
    (`enter`, `Op.regPending/regSent`); a failed registration is undone -/
theorem subscribe_flow :
    (Gen.Signals.subscribeIDFlow.drop 5).take 26 =
      ["use client", "call p.client.Subscribe", "if err != nil {", "return nil, nil, err", "}",
       "use client", "call subscriptionLock", "lock.Lock",
       "use client", "call p.client.State", "if subscriptions == 1 {",
       "call rand.Int", "use client", "call p.client.State", "call obj.RegisterEvent",
       "if err != nil {", "use client", "call p.client.State", "use client", "call p.client.State",
       "lock.Unlock", "call cancel", "return nil, nil, err", "}", "}",
       "lock.Unlock"] := rfl

/-- the cancel function: under the same lock the count and — for the last subscriber — the remote
    unregistration (`cancel`, `Op.unregPending/unregSent`); then the local handler goes (`leave`) -/
theorem cancel_flow :
    (Gen.Signals.subscribeIDFlow.drop 31).take 16 =
      ["func{", "lock.Lock", "use client", "call p.client.State", "if subscriptions == 0 {",
       "use client", "call p.client.State", "use client", "call p.client.State", "call obj.UnregisterEvent",
       "if err != nil {", "}", "}", "lock.Unlock", "call cancel", "}"] := rfl

/-- the fan-out goroutine of `client.Subscribe`: every queued event is forwarded in order; on abort
    the handler is removed and `events` is closed (`deliver` to every sub with `leftAt = none`, `leave`) -/
theorem fanout_flow :
    (Gen.Client.subscribeFlow.drop 12) =
      ["go{", "use endpoint", "call c.endpoint.MakeHandler",
       "func{", "recv queue", "if !ok {", "call close", "return ", "}",
       "else {", "if msg.Header.Type == net.Event {", "send events", "}", "}",
       "recv abort", "use endpoint", "call c.endpoint.RemoveHandler", "call close", "return ", "}", "}",
       "return cancel, events, nil"] := rfl

/-- the server's table: a user id is registered once (`addUser`), removal is by user id and
    connection with swap-remove (`removeUser`, `swapRemove`), an emission snapshots the users of the
    signal under the read lock and sends one event to each (`recipients`, `emit`) -/
theorem server_table_flows :
    Gen.Signals.addSignalUserFlow =
      ["signalsMutex.Lock", "range signals {", "if user.userID == userID {", "signalsMutex.Unlock",
       "return fmt.Errorf(\"user %d already exists\", use…", "}", "}", "signalsMutex.Unlock",
       "func{", "return false, true", "}", "func{", "call o.removeSignalUser", "}", "call e.MakeHandler",
       "signalsMutex.Lock", "use signals", "call append", "assign signals", "signalsMutex.Unlock", "return nil"] ∧
    Gen.Signals.removeSignalUserFlow =
      ["signalsMutex.Lock", "range signals {", "if user.userID == userID {",
       "if from.EndPoint() == user.context.EndPoint() {",
       "use signals", "read signals", "write signals", "use signals", "use signals", "assign signals",
       "signalsMutex.Unlock", "call user.context.EndPoint().RemoveHandler", "return nil", "}", "}", "}",
       "signalsMutex.Unlock", "return fmt.Errorf(\"unknown user id %d\", userID)"] ∧
    Gen.Signals.UpdateSignalFlow.take 9 =
      ["signalsMutex.RLock", "range signals {", "if user.signalID == signalID {", "call append", "}", "}",
       "signalsMutex.RUnlock", "range {", "call o.replyEvent"] := ⟨rfl, rfl, rfl⟩


/-- all the proxies of a `Cache` use one client (`C.twice = false`: one registration per connection) -/
theorem cache_shares_its_client :
    Gen.Signals.cacheProxyFlow.drop 3 = ["call s.sharedClient", "call NewProxy", "return NewProxy(s.sharedClient(), meta, service…, nil"] ∧
    Gen.Signals.cacheSharedClientFlow =
      ["clientMutex.Lock", "defer s.clientMutex.Unlock()", "use client", "if s.client == nil {",
       "use Endpoint", "call NewChannel", "call NewClient", "assign client", "}", "use client", "return s.client"] := ⟨rfl, rfl⟩

end QiVerif.Tie.C13
